"""Per-stream state machine (/repo/src/proto/streams/state.rs): exhaustive correspondence with
coq/Model/StreamState.v and the RFC 9113 5.1 oracle.

Used by C04 (sender life cycle), C09 (receiver life cycle), C17 (errors surface intact) and C07
(endings).  The harness (harness/src/bin/streamstate.rs) enumerates breadth-first every state
reachable from `State::default()` by every method with every flag combination and representative
payloads, until the set of states is closed; each (state, method, arguments) is replayed in the model
inside Coq (`check_state_case`, structural comparison of state and result).  A random mode adds
arbitrary 32-bit reason codes, stream ids, debug data.

The oracle does not use the model: it evaluates the RFC reference automaton (a Python transcription
of coq/Ref/Rfc9113Stream.v `rfc_step`, cross-checked against the Coq definition on every run) and the
"surfaces intact" expectations directly on the implementation's transitions and query answers.
"""
import json
import os
import re
import sys

sys.path.insert(0, os.path.dirname(os.path.dirname(os.path.dirname(os.path.abspath(__file__)))))
import common  # noqa: E402

THEOREMS = {
    "C04": ["C04_state_step_refines_rfc", "C04_state_nothing_after_end_stream", "C04_state_send_closed_forever",
            "C04_state_nothing_after_reset", "C04_state_closed_cause_forever", "C04_state_scheduled_cause_forever",
            "C04_state_only_send_open_starts_streaming", "C04_state_idle_is_silent", "C04_state_leaving_idle",
            "C04_state_streaming_is_rfc_sendable", "C04_state_nonvacuous"],
    "C09": ["C09_state_error_is_rfc_forbidden", "C09_state_rfc_permitted_is_accepted", "C09_state_recv_open_refines",
            "C09_state_recv_open_verdict", "C09_state_recv_open_accepts_required",
            "C09_state_recv_open_conn_error_required", "C09_state_recv_open_refusals", "C09_state_recv_close_verdict",
            "C09_state_recv_reset_tolerated", "C09_state_local_error_iff", "C09_state_local_error_means_tolerate",
            "C09_state_local_reset_is_flagged", "C09_state_nonvacuous"],
    "C17": ["C17_state_recv_reset_surfaces", "C17_state_handle_error_surfaces", "C17_state_go_away_surfaces",
            "C17_state_recv_eof_surfaces", "C17_state_set_reset_surfaces", "C17_state_scheduled_reset_surfaces",
            "C17_state_error_persists", "C17_state_first_error_wins", "C17_state_scheduled_reset_gives_way", "C17_state_nonvacuous"],
    "C07": ["C07_state_connection_end_closes_forever", "C07_state_closed_forever", "C07_state_closed_never_pending",
            "C07_state_completed_message_after_connection_end", "C07_state_fix_needed",
            "C07_state_recv_reset_keeps_end_stream",
            "C07_state_nonvacuous"],
}
MODULE = "H2V.Properties.StreamState"
TARGET = "Properties/StreamState.vo"

PARTIAL = [
    "scope: the state machine of state.rs alone (what each method does in each state); that the callers in "
    "recv.rs/send.rs/streams.rs invoke the right method for each frame is not part of this work package",
    "three documented places where a successful call is not the figure-2 transition: a 1xx HEADERS on a promised "
    "stream leaves it ReservedRemote; recv_reset/set_reset on a record still Idle; set_reset on a Closed record",
    "refusals of recv_open/recv_close are always the connection error PROTOCOL_ERROR, also where RFC 9113 5.1 only "
    "asks for a stream error STREAM_CLOSED (half-closed (remote), closed): stricter than required, not a violation",
    "C07: the clean end of a completely received message survives recv_reset, handle_error and recv_eof "
    "(ErrorAfterEndStream); it is still forgotten by the local calls set_reset / set_scheduled_reset",
]

PREAMBLE = ("From H2V Require Import Base.Tac Base.Bytes Model.StreamState.\n"
            "Local Open Scope N_scope.\n")

REASON_NAMES = ["NO_ERROR", "PROTOCOL_ERROR", "INTERNAL_ERROR", "FLOW_CONTROL_ERROR", "SETTINGS_TIMEOUT",
                "STREAM_CLOSED", "FRAME_SIZE_ERROR", "REFUSED_STREAM", "CANCEL", "COMPRESSION_ERROR",
                "CONNECT_ERROR", "ENHANCE_YOUR_CALM", "INADEQUATE_SECURITY", "HTTP_1_1_REQUIRED"]
# the model's opaque code of an io::ErrorKind (coq/Model/StreamState.v: IO_BROKEN_PIPE = 1)
IO_KINDS = {"BrokenPipe": 1, "UnexpectedEof": 2, "ConnectionReset": 3, "Other": 4}
INITIATORS = ("User", "Library", "Remote")


class ParseError(Exception):
    pass


# ------------------------------------------------------------------------------------------------
# a parser of Rust `{:?}` output  ->  tree
#   ("node", name, [children])   Name  /  Name(a, b)  /  Name { k: v }  (children = values in order)
#   ("str", text)   ("bytes", [ints])   ("unit",)

_SIMPLE_ESC = {"n": 10, "r": 13, "t": 9, "\\": 92, '"': 34, "'": 39, "0": 0}


def _parse_quoted(s, i, is_bytes):
    """s[i] == '"'; returns (list of byte values or str, next index)"""
    assert s[i] == '"'
    i += 1
    out = []
    while True:
        if i >= len(s):
            raise ParseError("unterminated string in %r" % s)
        c = s[i]
        if c == '"':
            i += 1
            break
        if c == "\\":
            e = s[i + 1]
            if e in _SIMPLE_ESC:
                out.append(_SIMPLE_ESC[e])
                i += 2
            elif e == "x":
                out.append(int(s[i + 2:i + 4], 16))
                i += 4
            elif e == "u":
                j = s.index("}", i)
                cp = int(s[i + 3:j], 16)
                out.extend(chr(cp).encode("utf-8") if not is_bytes else [cp])
                i = j + 1
            else:
                raise ParseError("unknown escape \\%s in %r" % (e, s))
        else:
            out.extend(c.encode("utf-8"))
            i += 1
    return [int(b) for b in out], i


def _skip(s, i):
    while i < len(s) and s[i] in " \n\t":
        i += 1
    return i


def _parse_value(s, i):
    i = _skip(s, i)
    if i >= len(s):
        raise ParseError("unexpected end in %r" % s)
    if s[i] == '"':
        b, i = _parse_quoted(s, i, False)
        return ("str", b), i
    if s.startswith('b"', i):
        b, i = _parse_quoted(s, i + 1, True)
        return ("bytes", b), i
    if s.startswith("()", i):
        return ("unit",), i + 2
    m = re.match(r"[A-Za-z0-9_]+", s[i:])
    if not m:
        raise ParseError("unexpected %r at %d in %r" % (s[i], i, s))
    name = m.group(0)
    i += len(name)
    j = _skip(s, i)
    kids = []
    if j < len(s) and s[j] == "(":
        i = j + 1
        while True:
            i = _skip(s, i)
            if s[i] == ")":
                i += 1
                break
            v, i = _parse_value(s, i)
            kids.append(v)
            i = _skip(s, i)
            if s[i] == ",":
                i += 1
    elif j < len(s) and s[j] == "{":
        i = j + 1
        while True:
            i = _skip(s, i)
            if s[i] == "}":
                i += 1
                break
            m = re.match(r"[A-Za-z0-9_]+\s*:", s[i:])
            if not m:
                raise ParseError("field expected at %d in %r" % (i, s))
            i += len(m.group(0))
            v, i = _parse_value(s, i)
            kids.append(v)
            i = _skip(s, i)
            if s[i] == ",":
                i += 1
    return ("node", name, kids), i


def parse_debug(s):
    v, i = _parse_value(s, 0)
    if _skip(s, i) != len(s):
        raise ParseError("trailing text in %r" % s)
    return v


def _is(v, name, n=None):
    return v[0] == "node" and v[1] == name and (n is None or len(v[2]) == n)


def reason_of(v):
    """Reason's Debug: a name, or Reason(<lower hex without prefix>)"""
    if v[0] == "node" and not v[2] and v[1] in REASON_NAMES:
        return REASON_NAMES.index(v[1])
    if _is(v, "Reason", 1) and v[2][0][0] == "node" and not v[2][0][2]:
        return int(v[2][0][1], 16)
    raise ParseError("not a Reason: %r" % (v,))


def initiator_of(v):
    if v[0] == "node" and not v[2] and v[1] in INITIATORS:
        return v[1]
    raise ParseError("not an Initiator: %r" % (v,))


def io_kind_of(v):
    if v[0] == "node" and not v[2] and v[1] in IO_KINDS:
        return v[1]
    raise ParseError("unknown io::ErrorKind: %r" % (v,))


def perror_of(v):
    """proto::Error -> ("Reset", sid, reason, init) | ("GoAway", bytes tuple, reason, init) | ("Io", kind, msg tuple|None)"""
    if _is(v, "Reset", 3):
        sid = v[2][0]
        if not (_is(sid, "StreamId", 1) and sid[2][0][0] == "node"):
            raise ParseError("not a StreamId: %r" % (sid,))
        return ("Reset", int(sid[2][0][1]), reason_of(v[2][1]), initiator_of(v[2][2]))
    if _is(v, "GoAway", 3) and v[2][0][0] == "bytes":
        return ("GoAway", tuple(v[2][0][1]), reason_of(v[2][1]), initiator_of(v[2][2]))
    if _is(v, "Io", 2):
        m = v[2][1]
        if _is(m, "None", 0):
            msg = None
        elif _is(m, "Some", 1) and m[2][0][0] == "str":
            msg = tuple(m[2][0][1])
        else:
            raise ParseError("not an Option<String>: %r" % (m,))
        return ("Io", io_kind_of(v[2][0]), msg)
    raise ParseError("not a proto::Error: %r" % (v,))


def peer_of(v):
    if v[0] == "node" and not v[2] and v[1] in ("AwaitingHeaders", "Streaming"):
        return v[1]
    raise ParseError("not a Peer: %r" % (v,))


def state_of(s):
    """state.rs Debug string -> canonical tuple
       ("Idle",) ("ReservedLocal",) ("ReservedRemote",) ("Open", local, remote) ("HalfClosedLocal", p)
       ("HalfClosedRemote", p) ("Closed", ("EndStream",) | ("Error", e) | ("ErrorAfterEndStream", e) |
       ("ScheduledLibraryReset", r))"""
    v = parse_debug(s)
    if v[0] != "node":
        raise ParseError("not a state: %r" % s)
    n, k = v[1], v[2]
    if n in ("Idle", "ReservedLocal", "ReservedRemote") and not k:
        return (n,)
    if n == "Open" and len(k) == 2:
        return ("Open", peer_of(k[0]), peer_of(k[1]))
    if n in ("HalfClosedLocal", "HalfClosedRemote") and len(k) == 1:
        return (n, peer_of(k[0]))
    if n == "Closed" and len(k) == 1:
        c = k[0]
        if _is(c, "EndStream", 0):
            return ("Closed", ("EndStream",))
        if _is(c, "Error", 1):
            return ("Closed", ("Error", perror_of(c[2][0])))
        if _is(c, "ErrorAfterEndStream", 1):
            return ("Closed", ("ErrorAfterEndStream", perror_of(c[2][0])))
        if _is(c, "ScheduledLibraryReset", 1):
            return ("Closed", ("ScheduledLibraryReset", reason_of(c[2][0])))
    raise ParseError("not a state: %r" % s)


def result_of(s):
    """result string -> ("unit",) ("bool", b) ("reason", r|None) ("user", name) ("proto", e) ("panic",)"""
    if s == "panic":
        return ("panic",)
    if s in ("true", "false"):
        return ("bool", s == "true")
    v = parse_debug(s)
    if v == ("unit",):
        return ("unit",)
    if _is(v, "None", 0):
        return ("reason", None)
    if _is(v, "Some", 1):
        return ("reason", reason_of(v[2][0]))
    if _is(v, "Ok", 1):
        x = v[2][0]
        if x == ("unit",):
            return ("unit",)
        if _is(x, "true", 0) or _is(x, "false", 0):
            return ("bool", x[1] == "true")
        if _is(x, "None", 0):
            return ("reason", None)
        if _is(x, "Some", 1):
            return ("reason", reason_of(x[2][0]))
    if _is(v, "Err", 1):
        x = v[2][0]
        if x[0] == "node" and not x[2] and x[1] in ("UnexpectedFrameType", "PollResetAfterSendResponse"):
            return ("user", x[1])
        if _is(x, "Error", 1):          # crate::Error { kind: .. }
            k = x[2][0]
            if _is(k, "User", 1) and k[2][0][0] == "node":
                return ("user", k[2][0][1])
            if _is(k, "Io", 1):         # io::Error: Kind(K) | Custom { kind: K, error: "msg" }
                io = k[2][0]
                if _is(io, "Kind", 1):
                    return ("proto", ("Io", io_kind_of(io[2][0]), None))
                if _is(io, "Custom", 2) and io[2][1][0] == "str":
                    return ("proto", ("Io", io_kind_of(io[2][0]), tuple(io[2][1][1])))
                raise ParseError("unexpected io::Error: %r" % s)
            return ("proto", perror_of(k))
        return ("proto", perror_of(x))
    raise ParseError("not a result: %r" % s)


# ------------------------------------------------------------------------------------------------
# rendering as Coq terms of Model/StreamState.v

def coq_perror(e):
    if e[0] == "Reset":
        return "(EReset %d %d %s)" % (e[1], e[2], e[3])
    if e[0] == "GoAway":
        return "(EGoAway %s %d %s)" % (common.coq_N_list(e[1]), e[2], e[3])
    return "(EIo %d %s)" % (IO_KINDS[e[1]], "None" if e[2] is None else "(Some %s)" % common.coq_N_list(e[2]))


def coq_state(t):
    if len(t) == 1:
        return t[0]
    if t[0] == "Open":
        return "(Open %s %s)" % (t[1], t[2])
    if t[0] in ("HalfClosedLocal", "HalfClosedRemote"):
        return "(%s %s)" % (t[0], t[1])
    c = t[1]
    if c[0] == "EndStream":
        return "(Closed EndStream)"
    if c[0] == "Error":
        return "(Closed (CError %s))" % coq_perror(c[1])
    if c[0] == "ErrorAfterEndStream":
        return "(Closed (ErrorAfterEndStream %s))" % coq_perror(c[1])
    return "(Closed (ScheduledLibraryReset %d))" % c[1]


def coq_res(r):
    if r[0] == "unit":
        return "RUnit"
    if r[0] == "bool":
        return "(RBool %s)" % common.coq_bool(r[1])
    if r[0] == "reason":
        return "(RReason %s)" % ("None" if r[1] is None else "(Some %d)" % r[1])
    if r[0] == "user":
        if r[1] not in ("UnexpectedFrameType", "PollResetAfterSendResponse"):
            raise ParseError("UserError outside the model: %s" % r[1])
        return "(RUserErr %s)" % r[1]
    if r[0] == "proto":
        return "(RProtoErr %s)" % coq_perror(r[1])
    return "RPanic"


def op_error(o):
    """the proto::Error a handle_error op carries, canonical"""
    if o["kind"] == "Reset":
        return ("Reset", o["sid"], o["reason"], o["init"])
    if o["kind"] == "GoAway":
        return ("GoAway", tuple(o["debug"]), o["reason"], o["init"])
    if o["io"] not in IO_KINDS:
        raise ParseError("unknown io kind %s" % o["io"])
    return ("Io", o["io"], None if o["msg"] is None else tuple(o["msg"].encode("utf-8")))


def coq_op(o):
    m = o["m"]
    b = common.coq_bool
    if m == "send_open":
        return "(OSendOpen %s)" % b(o["eos"])
    if m == "recv_open":
        return "(ORecvOpen %s %s)" % (b(o["eos"]), b(o["info"]))
    if m == "reserve_remote":
        return "OReserveRemote"
    if m == "reserve_local":
        return "OReserveLocal"
    if m == "recv_close":
        return "ORecvClose"
    if m == "recv_reset":
        return "(ORecvReset %d %d %s)" % (o["sid"], o["reason"], b(o["queued"]))
    if m == "handle_error":
        return "(OHandleError %s)" % coq_perror(op_error(o))
    if m == "recv_eof":
        return "ORecvEof"
    if m == "send_close":
        return "OSendClose"
    if m == "set_reset":
        if o["init"] not in INITIATORS:
            raise ParseError("initiator %r" % o["init"])
        return "(OSetReset %d %d %s)" % (o["sid"], o["reason"], o["init"])
    if m == "set_scheduled_reset":
        return "(OSetScheduledReset %d)" % o["reason"]
    raise ParseError("unknown method %r" % m)


QUERIES = {
    "get_scheduled_reset": "QGetScheduledReset", "is_scheduled_reset": "QIsScheduledReset",
    "is_local_error": "QIsLocalError", "is_remote_reset": "QIsRemoteReset", "is_reset": "QIsReset",
    "is_send_streaming": "QIsSendStreaming", "is_recv_headers": "QIsRecvHeaders",
    "is_recv_streaming": "QIsRecvStreaming", "is_recv_end_stream": "QIsRecvEndStream", "is_closed": "QIsClosed",
    "is_send_closed": "QIsSendClosed", "is_idle": "QIsIdle", "ensure_recv_open": "QEnsureRecvOpen",
    "ensure_reason_streaming": "(QEnsureReason PRStreaming)", "ensure_reason_awaiting": "(QEnsureReason PRAwaitingHeaders)",
}


def coq_case(line, dbg=True):
    path = "[" + "; ".join(coq_op(o) for o in line["path"]) + "]"
    if line["kind"] == "trans":
        x = "(XTrans %s %s %s %s)" % (coq_state(state_of(line["from"])), coq_op(line["op"]),
                                      coq_state(state_of(line["state"])), coq_res(result_of(line["res"])))
    else:
        missing = set(QUERIES) - set(line["q"])
        if missing:
            raise ParseError("queries missing: %s" % sorted(missing))
        qs = "; ".join("(%s, %s)" % (QUERIES[k], coq_res(result_of(v))) for k, v in sorted(line["q"].items()))
        x = "(XQueries %s [%s])" % (coq_state(state_of(line["state"])), qs)
    return "(%s, %s, %s)" % (common.coq_bool(dbg), path, x)


# ------------------------------------------------------------------------------------------------
# the RFC 9113 5.1 oracle (no model involved)

RFC_STATES = ["idle", "reserved_local", "reserved_remote", "open", "half_closed_local", "half_closed_remote", "closed"]
DIRS = ["Send", "Recv"]
KINDS = ["KH", "KHES", "KES", "KPP", "KR"]


def rfc_step(s, d, k):
    """figure 2 of RFC 9113 5.1 (transcription of coq/Ref/Rfc9113Stream.v rfc_step; None = not permitted)"""
    if s == "idle":
        if k == "KH":
            return "open"
        if k == "KHES":
            return "half_closed_local" if d == "Send" else "half_closed_remote"
        if k == "KPP":
            return "reserved_local" if d == "Send" else "reserved_remote"
        return None
    if s == "reserved_local":
        if d == "Send" and k == "KH":
            return "half_closed_remote"
        if d == "Send" and k == "KHES":
            return "closed"
        return "closed" if k == "KR" else None
    if s == "reserved_remote":
        if d == "Recv" and k == "KH":
            return "half_closed_local"
        if d == "Recv" and k == "KHES":
            return "closed"
        return "closed" if k == "KR" else None
    if s == "open":
        if k == "KH":
            return "open"
        if k in ("KHES", "KES"):
            return "half_closed_local" if d == "Send" else "half_closed_remote"
        return "closed" if k == "KR" else None
    if s == "half_closed_local":
        if d == "Recv" and k == "KH":
            return "half_closed_local"
        if d == "Recv" and k in ("KHES", "KES"):
            return "closed"
        return "closed" if k == "KR" else None
    if s == "half_closed_remote":
        if d == "Send" and k == "KH":
            return "half_closed_remote"
        if d == "Send" and k in ("KHES", "KES"):
            return "closed"
        return "closed" if k == "KR" else None
    return "closed" if (d == "Recv" and k == "KR") else None


def crosscheck_rfc_table():
    """the Python transcription equals the Coq reference on all 70 (state, direction, event) triples"""
    text = ("From H2V Require Import Base.Tac Ref.Rfc9113Stream.\n"
            "Definition ss := [%s].\nDefinition ds := [Send; Recv].\nDefinition ks := [%s].\n"
            "Eval vm_compute in (flat_map (fun s => flat_map (fun d => map (fun k => rfc_step s d k) ks) ds) ss).\n"
            % ("; ".join(RFC_STATES), "; ".join(KINDS)))
    rc, out = common.coq_eval_raw("streamstate_rfc", text)
    if rc != 0:
        return False, out[-2000:]
    body = out.split("=", 1)[1].rsplit(":", 1)[0]
    toks = re.findall(r"Some\s+(\w+)|(None)", body)
    got = [a if a else None for a, b in toks]
    want = [rfc_step(s, d, k) for s in RFC_STATES for d in DIRS for k in KINDS]
    if got != want:
        return False, "python rfc_step differs from Ref.Rfc9113Stream.rfc_step: %r vs %r" % (got, want)
    return True, ""


ABS = {"Idle": "idle", "ReservedLocal": "reserved_local", "ReservedRemote": "reserved_remote", "Open": "open",
       "HalfClosedLocal": "half_closed_local", "HalfClosedRemote": "half_closed_remote", "Closed": "closed"}


def send_phase(t):
    if t[0] in ("Idle", "ReservedLocal"):
        return "awaiting"
    if t[0] == "Open":
        return "awaiting" if t[1] == "AwaitingHeaders" else "body"
    if t[0] == "HalfClosedRemote":
        return "awaiting" if t[1] == "AwaitingHeaders" else "body"
    return "done"


def recv_phase(t):
    if t[0] in ("Idle", "ReservedRemote"):
        return "awaiting"
    if t[0] == "Open":
        return "awaiting" if t[2] == "AwaitingHeaders" else "body"
    if t[0] == "HalfClosedLocal":
        return "awaiting" if t[1] == "AwaitingHeaders" else "body"
    return "done"


def recv_ended(t):
    return t[0] == "HalfClosedRemote" or (t[0] == "Closed" and t[1][0] in ("EndStream", "ErrorAfterEndStream"))


def send_closed(t):
    return t[0] in ("Closed", "HalfClosedLocal", "ReservedRemote")


def error_is_local(e):
    return True if e[0] == "Io" else e[3] != "Remote"


PROTO_GOAWAY = ("proto", ("GoAway", (), 1, "Library"))


def oracle_transition(line):
    """-> (violations, deviations): lists of (property, text).  A violation is behaviour the properties forbid;
    a deviation is one of the documented places where the code is not figure 2 (not a violation)."""
    viol, dev = [], []
    o = line["op"]
    m = o["m"]
    f, t, r = state_of(line["from"]), state_of(line["state"]), result_of(line["res"])
    a, a2 = ABS[f[0]], ABS[t[0]]
    ok = r[0] in ("unit", "bool", "reason")

    def V(prop, msg):
        viol.append((prop, msg))

    # for every method
    if f[0] == "Closed" and t[0] != "Closed":
        V("C04", "a closed stream left Closed")
        V("C07", "a closed stream left Closed")
    if send_closed(f) and not send_closed(t):
        V("C04", "the send half re-opened after END_STREAM/reset")
    if not ok and t != f:
        V("C09", "a refused call changed the state")

    ev = None
    if m == "send_open":
        ev = ("Send", "KHES" if o["eos"] else "KH", "C04")
    elif m == "recv_open":
        ev = ("Recv", "KHES" if o["eos"] else "KH", "C09")
    elif m == "reserve_remote":
        ev = ("Recv", "KPP", "C09")
    elif m == "reserve_local":
        ev = ("Send", "KPP", "C04")
    elif m == "recv_close":
        ev = ("Recv", "KES", "C09")
    elif m == "send_close":
        ev = ("Send", "KES", "C04")
    if ev:
        d, k, prop = ev
        target = rfc_step(a, d, k)
        permitted = target is not None
        if k in ("KH", "KHES"):
            permitted = permitted and (send_phase(f) if d == "Send" else recv_phase(f)) == "awaiting"
        if ok and not permitted:
            V(prop, "accepted %s %s in %s, which RFC 9113 5.1/8.1 forbids" % (d, k, line["from"]))
        elif not ok and permitted:
            V(prop, "refused %s %s in %s, which RFC 9113 requires to be accepted" % (d, k, line["from"]))
        elif ok and a2 != target:
            if f == ("ReservedRemote",) and m == "recv_open" and not o["eos"] and o["info"] and t == f:
                dev.append(("C09", "1xx HEADERS on a promised stream leaves it ReservedRemote"))
            else:
                V(prop, "%s %s in %s went to %s, RFC says %s" % (d, k, line["from"], line["state"], target))
        if not ok:
            if m in ("recv_open", "recv_close", "reserve_remote") and r != PROTO_GOAWAY:
                V("C09", "refusal is not GoAway(PROTOCOL_ERROR, Library): %s" % line["res"])
            if m in ("send_open", "reserve_local") and r != ("user", "UnexpectedFrameType"):
                V("C04", "refusal is not UserError::UnexpectedFrameType: %s" % line["res"])
            if m == "send_close" and r != ("panic",):
                V("C04", "send_close failed without panic: %s" % line["res"])
    elif m == "recv_reset":
        if r != ("unit",):
            V("C09", "recv_reset did not return normally")
        if t[0] != "Closed":
            V("C09", "RST_STREAM received but the stream is not closed")
            V("C04", "RST_STREAM received but the stream is not closed")
        if a == "idle":
            dev.append(("C09", "recv_reset accepted on an Idle record"))
        unsent = f[0] == "Closed" and f[1][0] == "ScheduledLibraryReset"     # a reset never written is not a first cause
        if f[0] != "Closed" or o["queued"] or unsent:
            e = ("Reset", o["sid"], o["reason"], "Remote")
            want = ("Closed", ("ErrorAfterEndStream" if recv_ended(f) else "Error", e))
            if t != want:
                V("C17", "after recv_reset(%d, %d) the state is %s, expected %s" % (o["sid"], o["reason"], line["state"], want))
                if recv_ended(f) and t[0] == "Closed" and t[1][0] != "ErrorAfterEndStream":
                    V("C07", "the received END_STREAM was forgotten by recv_reset")
        elif t != f:
            V("C17", "recv_reset on a closed stream without queued frames replaced the first cause")
    elif m in ("handle_error", "recv_eof"):
        if t[0] != "Closed":
            V("C07", "%s left the stream in %s" % (m, line["state"]))
        if f[0] == "Closed" and f[1][0] == "ScheduledLibraryReset" and m == "handle_error":
            if t[0] != "Closed" or t[1][0] != "Error":
                V("C17", "handle_error on a stream whose reset was only scheduled did not record the connection error")
        elif f[0] == "Closed":
            if t != f:
                V("C17", "%s replaced the cause of a closed stream" % m)
                V("C07", "%s replaced the cause of a closed stream" % m)
        elif m == "handle_error":
            if not (t[0] == "Closed" and t[1][0] in ("Error", "ErrorAfterEndStream") and t[1][1] == op_error(o)):
                V("C17", "handle_error did not record the error intact: %s" % line["state"])
        else:
            if not (t[0] == "Closed" and t[1][0] in ("Error", "ErrorAfterEndStream") and t[1][1][0] == "Io"
                    and t[1][1][1] == "BrokenPipe"):
                V("C17", "recv_eof did not record an Io/BrokenPipe error: %s" % line["state"])
        if f[0] != "Closed" and t[0] == "Closed" and (t[1][0] == "ErrorAfterEndStream") != recv_ended(f):
            if recv_ended(f):
                V("C07", "%s forgot the received END_STREAM: a complete message no longer ends cleanly" % m)
            else:
                V("C17", "%s hides the error from readers although the peer's message was not complete" % m)
    elif m == "set_reset":
        if t != ("Closed", ("Error", ("Reset", o["sid"], o["reason"], o["init"]))):
            V("C17", "set_reset did not record the reset intact: %s" % line["state"])
            V("C04", "set_reset did not close the stream with the reset")
        if a in ("idle", "closed"):
            dev.append(("C04", "set_reset on a record that is %s" % a))
    elif m == "set_scheduled_reset":
        if r == ("panic",):
            if f[0] != "Closed":
                V("C04", "set_scheduled_reset panicked on a stream that is not closed")
        elif t != ("Closed", ("ScheduledLibraryReset", o["reason"])):
            V("C17", "set_scheduled_reset did not record the reason: %s" % line["state"])
    return viol, dev


def oracle_queries(line):
    viol = []
    t = state_of(line["state"])
    q = {k: result_of(v) for k, v in line["q"].items()}

    def V(prop, msg):
        viol.append((prop, "%s in %s" % (msg, line["state"])))

    def yes(k):
        return q[k] == ("bool", True)

    closed = t[0] == "Closed"
    if yes("is_closed") != closed:
        V("C07", "is_closed wrong")
    if yes("is_send_closed") != send_closed(t):
        V("C04", "is_send_closed wrong")
    if yes("is_idle") != (t[0] == "Idle"):
        V("C04", "is_idle wrong")
    if yes("is_recv_end_stream") != recv_ended(t):
        V("C07", "is_recv_end_stream wrong")
    a = ABS[t[0]]
    if yes("is_send_streaming"):
        if send_phase(t) != "body" or a not in ("open", "half_closed_remote"):
            V("C04", "is_send_streaming in a state where RFC 9113 5.1 forbids DATA")
    if (send_closed(t) or t[0] == "Idle") and yes("is_send_streaming"):
        V("C04", "is_send_streaming on an idle or send-closed stream")
    if yes("is_recv_headers") != (rfc_step(a, "Recv", "KH") is not None and recv_phase(t) == "awaiting"):
        V("C09", "is_recv_headers differs from 'RFC permits an opening HEADERS'")
    if yes("is_recv_streaming") != (a in ("open", "half_closed_local") and recv_phase(t) == "body"):
        V("C09", "is_recv_streaming differs from 'RFC permits DATA and the header section was received'")
    ero = q["ensure_recv_open"]
    if closed:
        if ero == ("bool", True):
            V("C07", "a closed stream still reports the receive half open")
        c = t[1]
        if c[0] in ("Error", "ErrorAfterEndStream"):
            e = c[1]
            if c[0] == "Error" and ero != ("proto", e):
                V("C17", "ensure_recv_open does not report the recorded error intact: %s" % line["q"]["ensure_recv_open"])
            if c[0] == "ErrorAfterEndStream" and ero != ("bool", False):
                V("C07", "a complete message does not end cleanly")
            want = ("reason", e[2]) if e[0] in ("Reset", "GoAway") else ("proto", e)
            for k in ("ensure_reason_streaming", "ensure_reason_awaiting"):
                if q[k] != want:
                    V("C17", "%s does not report the recorded error/code: %s" % (k, line["q"][k]))
            if yes("is_local_error") != error_is_local(e):
                V("C09", "is_local_error wrong (late frames tolerated/refused wrongly)")
            if yes("is_remote_reset") != (e[0] == "Reset" and e[3] == "Remote"):
                V("C17", "is_remote_reset wrong")
            if not yes("is_reset"):
                V("C17", "is_reset false on a stream closed by an error")
        elif c[0] == "EndStream":
            if ero != ("bool", False):
                V("C07", "a cleanly ended stream does not report the clean end")
            if yes("is_reset") or yes("is_local_error"):
                V("C17", "a cleanly ended stream reports a reset")
        else:
            if q["get_scheduled_reset"] != ("reason", c[1]) or q["ensure_reason_streaming"] != ("reason", c[1]):
                V("C17", "scheduled reset reason not reported")
            if not yes("is_local_error"):
                V("C09", "is_local_error false on a scheduled library reset")
    else:
        if yes("is_reset") or yes("is_local_error") or yes("is_remote_reset"):
            V("C17", "an error is reported on a stream that is not closed")
        if ero[0] != "bool":
            V("C07", "ensure_recv_open errs on a stream that is not closed")
    return viol


# ------------------------------------------------------------------------------------------------

def load_lines(out):
    lines, summary = [], {}
    for ln in out.splitlines():
        ln = ln.strip()
        if not ln.startswith("{"):
            continue
        o = json.loads(ln)
        if "summary" in o:
            summary = o["summary"]
        elif o.get("kind") in ("trans", "queries"):
            lines.append(o)
    return lines, summary


def run_enum(depth=6):
    rc, out = common.run_harness("streamstate", ["--mode", "enum", "--depth", depth], timeout=600)
    return load_lines(out)


def run_random(seed, n, length=8):
    rc, out = common.run_harness("streamstate", ["--mode", "random", "--seed", seed, "--n", n, "--len", length], timeout=600)
    return load_lines(out)


def diagnose(line):
    """what the model computes for a failing case (evaluated in Coq)"""
    try:
        case = coq_case(line)
    except ParseError as ex:
        return "unparsable: %s" % ex
    rc, out = common.coq_eval_raw("streamstate_diag", PREAMBLE + "Eval vm_compute in (diag_state_case %s).\n" % case)
    return out.strip()[-1500:]


def _check(rep, name, lines, summary, rule, exhaustive):
    cases, idx, unparsable = [], [], []
    for i, ln in enumerate(lines):
        try:
            cases.append(coq_case(ln))
            idx.append(i)
        except (ParseError, KeyError, ValueError, IndexError) as ex:
            unparsable.append((i, str(ex)))
    failing, err = common.coq_eval_failing(name, PREAMBLE, "check_state_case", cases, shard=300)
    if err:
        rep.violation("broken-correspondence", {"what": "coqc failed on generated streamstate cases", "log": err[-3000:]},
                      no_input=True)
    failing_lines = [lines[idx[k]] for k in failing] + [lines[i] for i, _ in unparsable]
    states = {ln["state"] for ln in lines} | {ln["from"] for ln in lines if ln["kind"] == "trans"}
    rep.correspondences.append({
        "name": name, "cases": len(lines), "nontrivial": sum(1 for ln in lines if ln["kind"] == "trans" and ln["from"] != ln["state"]),
        "disagreements": len(failing) + len(unparsable), "exhaustive": bool(exhaustive),
        "distribution": summary, "distinct_states": len(states), "rule": rule})
    return failing_lines, unparsable


def correspond_streamstate(rep, tier, seed):
    """Replays every enumerated (path, op) and every query set through Model/StreamState.v inside Coq."""
    for p in PARTIAL:
        if p not in rep.partial:
            rep.partial.append(p)
    lines, summary = run_enum()
    closed = bool(summary.get("closed_under_ops"))
    bad, unparsable = _check(
        rep, "streamstate-enum", lines, summary,
        "breadth-first enumeration from State::default() of every state reachable by every method with every flag "
        "combination and representative payloads (reasons 0, 8, 0xdeadbeef; stream ids 1, 3; initiators "
        "User/Library/Remote; Reset/GoAway/Io errors; debug data empty/non-empty); one case per (state, method, "
        "arguments) plus one per state with the answers of all 15 queries; state and result compared structurally "
        "inside Coq; exhaustive = the set of states is closed under all methods; non-trivial = the call changed the state",
        closed)
    if not closed:
        rep.violation("broken-correspondence", {"what": "the enumeration did not reach closure within the depth cap",
                                                "summary": summary}, no_input=True)
    n = 150 if tier == "quick" else 4000
    rlines, rsummary = run_random(seed, n)
    rbad, runp = _check(
        rep, "streamstate-random", rlines, rsummary,
        "random method sequences (length <= 8) with uniformly random 32-bit reason codes, 31-bit stream ids, random "
        "debug data, I/O kinds and messages; every step is one case, the final state one query case", False)
    all_lines = lines + rlines
    rep.samples.extend({"path": ln["path"], "op": ln.get("op"), "state": ln["state"], "res": ln.get("res")}
                       for ln in lines[70:73])
    failing = bad + rbad
    if failing:
        # decide with the oracle whether the implementation violates a property on these inputs
        found = False
        for ln in failing[:20]:
            try:
                v = oracle_transition(ln)[0] if ln["kind"] == "trans" else oracle_queries(ln)
            except ParseError as ex:
                v = []
            v = [x for x in v if x[0] == rep.prop or rep.prop not in THEOREMS]
            if v:
                found = True
                rep.violation("failing-input", {"oracle": "RFC 9113 5.1 reference automaton / error-surface expectations",
                                                "violations": v[:5], "case": ln, "model_says": diagnose(ln)})
        if not found:
            found = search_streamstate(rep, tier, seed, rep.prop, lines=all_lines) > 0
        if not found:
            for ln in failing[:3]:
                rep.violation("broken-correspondence", {
                    "correspondence": "Model/StreamState.v check_state_case vs /repo/src/proto/streams/state.rs",
                    "case": ln, "model_says": diagnose(ln),
                    "theorems_no_longer_tied_to_code": THEOREMS.get(rep.prop, sum(THEOREMS.values(), []))}, no_input=True)
    return all_lines, failing


def search_streamstate(rep, tier, seed, prop, lines=None):
    """Oracle = the RFC reference automaton evaluated on the implementation's transitions: an accepted transition
    the RFC forbids, a refused one the RFC requires, an error code/initiator/debug data not surfaced intact, an
    ending that does not end.  Returns the number of violating cases of `prop` (all properties when prop is
    not one of C04/C09/C17/C07)."""
    ok, why = crosscheck_rfc_table()
    if not ok:
        rep.violation("broken-correspondence", {"what": "oracle table differs from Ref/Rfc9113Stream.v", "log": why}, no_input=True)
    if lines is None:
        lines, summary = run_enum()
        rl, _ = run_random(seed * 31 + 7, 300 if tier == "quick" else 8000)
        lines = lines + rl
    n_viol, n_trans, deviations, reported = 0, 0, {}, 0
    for ln in lines:
        try:
            if ln["kind"] == "trans":
                n_trans += 1
                v, dev = oracle_transition(ln)
            else:
                v, dev = oracle_queries(ln), []
        except (ParseError, KeyError) as ex:
            v, dev = [("*", "unparsable implementation output: %s" % ex)], []
        for p, d in dev:
            deviations[d.split(":")[0]] = deviations.get(d.split(":")[0], 0) + 1
        v = [x for x in v if prop not in THEOREMS or x[0] in (prop, "*")]
        if v:
            n_viol += 1
            if reported < 3:
                reported += 1
                rep.violation("failing-input", {"oracle": "RFC 9113 5.1 reference automaton / error-surface expectations",
                                                "property": prop, "violations": v[:5], "case": ln})
    rep.oracle_runs.append({"name": "streamstate-rfc-oracle-%s" % prop, "cases": len(lines), "nontrivial": n_trans,
                            "failures": n_viol, "documented_deviations": deviations,
                            "rfc_table_crosschecked_against_coq": ok})
    return n_viol


if __name__ == "__main__":
    seed = int(sys.argv[1]) if len(sys.argv) > 1 else 1
    total_bad = 0
    for prop in ("C04", "C09", "C17", "C07"):
        rep = common.Report(prop, "quick", seed)
        if prop == "C04":
            lines, failing = correspond_streamstate(rep, "quick", seed)
            for c in rep.correspondences:
                print("correspondence", c["name"], "cases", c["cases"], "nontrivial", c["nontrivial"],
                      "disagreements", c["disagreements"], "exhaustive", c["exhaustive"], "states", c["distinct_states"])
            print("enum summary", rep.correspondences[0]["distribution"])
            total_bad += len(failing)
        n = search_streamstate(rep, "quick", seed, prop, lines=lines)
        print("oracle", prop, rep.oracle_runs[-1])
        total_bad += n
        for k, (p, _) in enumerate(rep.violations):
            if k < 3:
                print(open(p).read()[:2500])
            if os.path.exists(p):
                os.remove(p)      # self-test: leave no replay files behind
    print("SELF-TEST", "OK" if total_bad == 0 else "FAILED (%d)" % total_bad)
    sys.exit(0 if total_bad == 0 else 1)
