"""C18 - per-connection state bounded by configuration: classification of statistics snapshots into the classes of
coq/Model/Bounds.v (evaluated inside Coq), lock-step of the DATA-frame budget, and the hook-independent abuse oracle."""
import glob
import json
import os
import sys

sys.path.insert(0, os.path.dirname(os.path.dirname(os.path.dirname(os.path.abspath(__file__)))))
import common  # noqa: E402
from props.parts import sendflow, store  # noqa: E402

B = common.coq_bool
PREAMBLE = "From H2V Require Import Base.Tac Base.Bytes Model.Counts Model.Bounds.\nLocal Open Scope N_scope.\n"


def optn(v):
    return "None" if v is None or v < 0 else "(Some %d)" % v


def limits_of(sc):
    """Configured limits as the endpoint itself reports them (first snapshot); max_send is the peer's limit and may change."""
    sn0 = next((st["snap"] for st in sc["trace"] if st.get("snap")), None)
    if not sn0:
        return None
    c = sn0["conn"]
    return {"max_recv": c["max_recv_streams"], "max_lreset": c["max_local_reset_streams"], "max_rreset": c["max_remote_reset_streams"],
            "max_lerr": c["max_local_error_reset_streams"]}


KF3 = ("KF-C19-3 evicted-from-pending-capacity-without-release: leaked closed records add to the store without limit "
       "(one per stream reset while it waited for connection capacity)")


def leaked_serials(sc):
    """Serials of records of known class KF-C19-3 (see store.snapshot_oracle): unreasoned records whose only reason in the previous
    snapshot was is_pending_send_capacity."""
    out, prev = set(), None
    for st in sc["trace"]:
        sn = st.get("snap")
        if not sn:
            continue
        for s in sn["streams"]:
            if not store.rec_reasons(s) and s["serial"] not in out:
                before = next((x for x in (prev["streams"] if prev else []) if x["serial"] == s["serial"]), None)
                if before is not None and store.rec_reasons(before) == ["is_pending_send_capacity"]:
                    out.add(s["serial"])
        prev = sn
    return out


def classify(sn, client, leaked=()):
    """Every record goes into the first class that applies (Model/Bounds.v bsnap).  Records of the known class KF-C19-3 are put
    into the bucket of the known unbounded classes (s_reserved), like the reserved pushed streams of KF-C18-1."""
    cl = {"held": 0, "counted": 0, "expiring": 0, "unaccepted": 0, "reserved": 0, "queued": 0, "other": 0}
    others = []
    for s in sn["streams"]:
        if s["serial"] in leaked:
            cl["reserved"] += 1
        elif s["ref_count"] > 0:
            cl["held"] += 1
        elif (s["id"] % 2 == 1) == client and not s["is_counted"] and not s["is_pending_reset_expiration"] and (
                s["is_pending_open"] or s["is_pending_send"] or s["is_pending_send_capacity"]):
            # a locally initiated stream (request / push) the application queued and then abandoned before it was counted: created by
            # the application, one per send_request / push_request call; not something the peer can grow (app-attributable)
            cl["held"] += 1
        elif s["is_counted"]:
            cl["counted"] += 1
        elif s["is_pending_reset_expiration"]:
            cl["expiring"] += 1
        elif s["is_pending_accept"] and not client:
            cl["unaccepted"] += 1
        elif client and s["id"] % 2 == 0:
            # a promised stream that never became active (uncounted, no handle): still queued on its parent, or already being
            # cancelled because the parent's handle went away (RST_STREAM owed) - KF-C18-1 either way: their number has no cap
            cl["reserved"] += 1
        elif s["is_pending_window_update"] and not (s["is_pending_send"] or s["is_pending_send_capacity"] or s["is_pending_open"]):
            # queued for a WINDOW_UPDATE by the application's own release_capacity call and abandoned before the connection task
            # ran again: one per such call, gone at the next poll (app-attributable, like a held record)
            cl["held"] += 1
        elif s["is_pending_send"] or s["is_pending_send_capacity"] or s["is_pending_open"] or s["is_pending_window_update"]:
            cl["queued"] += 1
        else:
            cl["other"] += 1
            others.append((s["id"], s["state"]))
    return cl, others


def bsnap_term(cl, c):
    return "(mkBS %d %d %d %d %d %d %d %d %d %d %d %d)" % (
        cl["held"], cl["counted"], cl["expiring"], cl["unaccepted"], cl["reserved"], cl["queued"], cl["other"],
        c["num_send_streams"], c["num_recv_streams"], c["num_local_reset_streams"], c["num_remote_reset_streams"], c["num_local_error_reset_streams"])


def bounds_case(sc):
    """One Coq case per scenario: the limits and the classified snapshots (distinct ones only).  max_send is taken per
    scenario as the largest limit in force (the peer may change it; the check needs num_send <= the limit in force, which the
    C05 lock-step establishes; here it only has to be an upper bound of what was observed)."""
    lim = limits_of(sc)
    if lim is None:
        return None, 0
    client = sc["cfg"]["role"] == "client"
    leaked = leaked_serials(sc)
    seen, terms = set(), []
    max_send = 0
    unlimited_send = False
    for st in sc["trace"]:
        sn = st.get("snap")
        if not sn:
            continue
        if isinstance(st.get("res"), dict) and "panic" in st["res"]:
            break
        if sn["conn"].get("conn_error"):
            continue        # the connection has been failed: no further frame is read, the records only go away
        ms = sn["conn"]["max_send_streams"]
        if ms < 0:
            unlimited_send = True
        max_send = max(max_send, ms, sn["conn"]["num_send_streams"])
        cl, _ = classify(sn, client, leaked)
        t = bsnap_term(cl, sn["conn"])
        if t not in seen:
            seen.add(t)
            terms.append(t)
    l = "(mkBL %s %s %d %d %s)" % (optn(lim["max_recv"]), "None" if unlimited_send else "(Some %d)" % max_send,
                                    lim["max_lreset"], lim["max_rreset"], optn(lim["max_lerr"]))
    return "(%s, [%s])" % (l, "; ".join(terms)), len(terms)


def budget_case(sc):
    """Labels of Part A (Counts::record_data_frame / release_data_frame) with the observed (available, empty counter) before each
    call and the observed result."""
    labels = []
    mx = None
    for st in sc["trace"]:
        if isinstance(st.get("res"), dict) and "panic" in st["res"]:
            break
        evs = st.get("ev", [])
        for i, e in enumerate(evs):
            if e[0] == "budget.record":
                a = e[2:]
                mx = a[2] if mx is None else mx
                ok = None
                for f in evs[i + 1:]:
                    if f[0] == "budget.result":
                        ok = bool(f[2])
                        break
                    if f[0] in ("budget.record",):
                        break
                if ok is None:
                    ok = True
                labels.append("(DRecord %d, (%d, %d), %s)" % (a[0], a[1], a[3], B(ok)))
            elif e[0] == "budget.release":
                a = e[2:]
                mx = a[2] if mx is None else mx
                labels.append("(DRelease %d, (%d, %d), true)" % (a[0], a[1], a[3]))
    if mx is None:
        return None, 0
    return "(%d, [%s])" % (mx, "; ".join(labels)), len(labels)


def correspond_bounds(rep, tier, seed, extra=()):
    per = 40 if tier == "quick" else 600
    steps = 120 if tier == "quick" else 160
    scs = list(extra)
    profs = ("abuse", "abuse", "abuse", "recv", "reset", "limits")
    for pi, prof in enumerate(profs):
        s, _ = sendflow.gen_scenarios(seed * 5231 + pi, per, steps, prof)
        scs.extend(s)
    bcases, bscs, dcases, dscs = [], [], [], []
    nsnap = nlab = 0
    for sc in scs:
        c, n = bounds_case(sc)
        if c and n:
            bcases.append(c)
            bscs.append(sc)
            nsnap += n
        c, n = budget_case(sc)
        if c and n:
            dcases.append(c)
            dscs.append(sc)
            nlab += n
    fb, err = common.coq_eval_failing("bounds", PREAMBLE, "check_bounds", bcases, shard=20)
    if err:
        rep.violation("broken-correspondence", {"what": "coqc failed on generated bounds cases", "log": err[-3000:]}, no_input=True)
    fd, err = common.coq_eval_failing("budget", PREAMBLE, "check_budget", dcases, shard=20)
    if err:
        rep.violation("broken-correspondence", {"what": "coqc failed on generated budget cases", "log": err[-3000:]}, no_input=True)
    rep.correspondences.append({
        "name": "bounds-snapshot-classification", "cases": len(bcases), "nontrivial": sum(1 for sc in bscs if sc.get("profile") == "abuse"),
        "disagreements": len(fb), "distribution": {"distinct_snapshots": nsnap, "profiles": list(profs)},
        "rule": "every statistics snapshot of every scenario (abuse profiles: rapid open+RST, HEADERS / tiny-DATA / empty-DATA / CONTINUATION / "
                "oversized-header / PING / SETTINGS / PUSH_PROMISE / 1xx floods, frames on forgotten streams, blocked writes, slow application) "
                "is classified (held / counted / expiring / unaccepted / reserved / queued / other) and `snap_ok && within` of Model/Bounds.v is "
                "evaluated inside Coq: class sizes against the counters, the counters against the configured quotas, no unclassified record, "
                "total minus reserved within B(config, app_held)"})
    rep.correspondences.append({
        "name": "data-budget-lockstep", "cases": len(dcases), "nontrivial": sum(1 for c in dcases if "false" in c), "disagreements": len(fd),
        "distribution": {"labels": nlab},
        "rule": "every call of Counts::record_data_frame / release_data_frame becomes a label of Part A of Model/Bounds.v; the model is stepped "
                "and compared with the observed budget and empty-frame counter before each call and with the observed verdict "
                "(non-trivial = the budget was exhausted at least once)"})
    return scs, (bscs, fb), (dscs, fd)


def report_disagreements(rep, which, scs, failing):
    for i in failing[:3]:
        sc = scs[i]
        client = sc["cfg"]["role"] == "client"
        detail = None
        if which == "bounds":
            lim = limits_of(sc)
            for st in sc["trace"]:
                sn = st.get("snap")
                if not sn:
                    continue
                cl, others = classify(sn, client)
                c = sn["conn"]
                if c.get("conn_error"):
                    continue
                bad = (cl["other"] > 0 or cl["counted"] > c["num_send_streams"] + c["num_recv_streams"] or cl["expiring"] > c["num_local_reset_streams"]
                       or c["num_local_reset_streams"] > lim["max_lreset"] or c["num_remote_reset_streams"] > lim["max_rreset"]
                       or (lim["max_recv"] >= 0 and c["num_recv_streams"] > lim["max_recv"])
                       or (lim["max_lerr"] >= 0 and c["num_local_error_reset_streams"] > lim["max_lerr"])
                       or cl["unaccepted"] + cl["queued"] > c["num_remote_reset_streams"] + c["num_local_error_reset_streams"])
                if bad:
                    detail = {"step": st["i"], "classes": cl, "unclassified": others[:4], "limits": lim,
                              "counters": {k: c[k] for k in ("num_send_streams", "num_recv_streams", "num_local_reset_streams",
                                                              "num_remote_reset_streams", "num_local_error_reset_streams")}}
                    break
        rep.violation("broken-correspondence", {
            "correspondence": "Model/Bounds.v check_%s vs /repo snapshots / budget events" % which, "detail": detail,
            "scenario": {"cfg": sc["cfg"], "seed": sc.get("seed"), "i": sc.get("i"), "profile": sc.get("profile"),
                         "trace": [{"op": st["op"]} for st in sc["trace"]]}}, no_input=True)


# ------------------------------------------------------------------------------------------------
# oracle (hook-independent)

KF1 = "KF-C18-1 reserved-pushed-streams-uncapped: PUSH_PROMISE frames the application does not poll grow the store without limit"
KF2 = "KF-C18-2 interim-responses-uncapped: 1xx HEADERS the application does not poll queue InformationalHeaders events without limit"
INFO_ALLOW = 8      # interim responses a well-behaved server plausibly sends per request; beyond that the growth is peer-driven


def bound_peer(lim):
    """The part of B(config, app_held) that the peer can fill: records that are neither held by the application nor locally
    initiated and counted.  None when the configuration sets no limit."""
    if lim["max_recv"] < 0 or lim["max_lerr"] < 0:
        return None
    return lim["max_recv"] + lim["max_lerr"] + lim["max_lreset"] + lim["max_rreset"]


def abuse_oracle(sc):
    """At every step: (1) records minus reserved pushed streams <= B(config, app_held), or the connection has been failed;
    (2) buffered events <= headers/trailers per record + DATA events (bounded by budget and windows) + interim responses;
    (3) queue lengths <= records; (4) owed replies of records without handle <= 2 per record.
    Growth beyond the bound that is entirely due to reserved pushed streams / interim responses is the known class."""
    lim = limits_of(sc)
    if lim is None:
        return None, [], {}
    client = sc["cfg"]["role"] == "client"
    leaked = leaked_serials(sc)
    known = [KF3] if leaked else []
    mx = {}
    # interim responses fed by the peer and not yet taken by the application (from the ops: hook-independent)
    info_fed = 0
    info_taken = 0
    for st in sc["trace"]:
        op, res = st["op"], st["res"]
        if isinstance(res, dict) and "panic" in res:
            break
        w = op.get("what") if op.get("op") == "peer" else None
        if isinstance(w, dict):
            if w.get("abuse") == "info-flood":
                info_fed += w.get("n", 0)
            elif w.get("info"):
                info_fed += 1
        if op.get("op") == "poll_informational" and isinstance(res, dict):
            info_taken += 1
        sn = st.get("snap")
        if not sn:
            continue
        c = sn["conn"]
        cl, others = classify(sn, client, leaked)
        records = c["store_slab"]
        total = sum(cl.values())
        for k, v in (("records", records), ("reserved", cl["reserved"]), ("recv_buffer", c["recv_buffer_len"]), ("pending_accept", len(sn["queues"]["pending_accept"])),
                     ("num_recv", c["num_recv_streams"]), ("num_local_reset", c["num_local_reset_streams"]), ("num_remote_reset", c["num_remote_reset_streams"]),
                     ("num_local_error_reset", c["num_local_error_reset_streams"]), ("send_buffer", c["send_buffer_len"]),
                     ("held", cl["held"]), ("empty_data_frames", c["num_recv_empty_data_frames"])):
            mx[k] = max(mx.get(k, 0), v)
        failed = bool(c.get("conn_error"))
        bp = bound_peer(lim)
        local_counted = sum(1 for s in sn["streams"] if s["ref_count"] == 0 and s["is_counted"] and ((s["id"] % 2 == 1) == client))
        peer_records = records - cl["held"] - local_counted
        mx["peer_records_without_reserved"] = max(mx.get("peer_records_without_reserved", 0), peer_records - cl["reserved"])
        if total != records:
            return {"step": st["i"], "why": "snapshot inconsistent: classes do not add up to the slab size", "classes": cl, "slab": records}, known, mx
        if bp is not None and not failed and peer_records - cl["reserved"] > bp:
            return {"step": st["i"], "why": "more peer-attributable stream records than the configured limits allow (reserved pushed streams not counted)",
                    "records": records, "held": cl["held"], "local_counted": local_counted, "reserved": cl["reserved"], "bound": bp, "classes": cl, "limits": lim}, known, mx
        if bp is not None and peer_records > bp:
            if KF1 not in known:
                known.append(KF1)
        # buffered events: per record at most one head and one trailers event, plus DATA events, plus interim responses
        data_events = c["recv_buffer_len"] - 2 * records
        outstanding_info = max(0, info_fed - info_taken)
        budget_bound = c["data_frame_budget_max"] + 100 + (c["recv_in_flight_data"] + 255) // 256 + c["recv_in_flight_data"] // 256 + 2
        # non-final DATA events: tiny ones <= budget (+ replenish <= in-flight bytes), empty ones <= 100, large ones <= in-flight bytes / 256;
        # final DATA events: at most one per record
        if data_events - records > budget_bound + outstanding_info:
            return {"step": st["i"], "why": "more buffered receive events than the DATA-frame budget, the windows and the records allow",
                    "recv_buffer_len": c["recv_buffer_len"], "records": records, "bound": budget_bound, "interim_outstanding": outstanding_info}, known, mx
        if outstanding_info > INFO_ALLOW and c["recv_buffer_len"] >= outstanding_info:
            if KF2 not in known:
                known.append(KF2)
        for q, ids in sn["queues"].items():
            if len(ids) > records:
                return {"step": st["i"], "why": "a queue is longer than the number of records", "queue": q, "len": len(ids), "records": records}, known, mx
        owed = sum(s["pending_send_len"] for s in sn["streams"] if s["ref_count"] == 0)
        mx["owed_replies_unheld"] = max(mx.get("owed_replies_unheld", 0), owed)
        unheld = sum(1 for s in sn["streams"] if s["ref_count"] == 0)
        if owed > 2 * unheld + cl["held"] * 0 and not any(s["ref_count"] == 0 and s["buffered_send_data"] > 0 for s in sn["streams"]):
            return {"step": st["i"], "why": "records without handle owe more than two frames each (RST_STREAM / refusal replies pile up)",
                    "owed": owed, "unheld_records": unheld}, known, mx
    return None, known, mx


def refusal_oracle(sc):
    """Wire view (server): a peer-opened stream beyond the advertised limit is answered with RST_STREAM(REFUSED_STREAM) and never
    accepted; quota floods end in GOAWAY(ENHANCE_YOUR_CALM)."""
    # concurrency refusal is covered by C05's wire oracle; here: a GOAWAY decided for a flood carries ENHANCE_YOUR_CALM or PROTOCOL_ERROR
    for st in sc["trace"]:
        for f in st["out"]:
            if f["t"] == "GOAWAY" and f.get("debug"):
                dbg = bytes(f["debug"]).decode("latin1")
                if dbg.startswith("too_many") or dbg.startswith("header_list") :
                    if f.get("code") != 11:
                        return {"step": st["i"], "why": "a flood was answered with a GOAWAY that is not ENHANCE_YOUR_CALM", "frame": f}
    return None


def corpus_scenarios():
    out = []
    for p in sorted(glob.glob(os.path.join(common.VERIF, "corpus", "bounds", "*.json"))):
        rc, txt = common.run_harness("conn", ["--replay", p], timeout=300)
        for line in txt.splitlines():
            line = line.strip()
            if line.startswith("{") and '"trace"' in line:
                sc = json.loads(line)
                sc["corpus"] = os.path.basename(p)
                sc["seed"], sc["i"], sc["profile"] = "corpus", os.path.basename(p), "corpus"
                out.append(sc)
    return out


def tiny_frame_ledger(sc, budget=25600, threshold=256):
    """Buffered tiny DATA frames are bounded by the DATA-frame budget (default 25600 = DEFAULT_DATA_FRAME_BUDGET; a non-final
    frame of 0 < len < 256 octets costs 256 - len while it is buffered): counting ONLY frames fed on streams whose body the
    application never read (no poll_data on any handle of that stream), once their cost exceeds the budget and the endpoint has
    demonstrably processed them (it answered a PING fed later), a GOAWAY(ENHANCE_YOUR_CALM) must be on the wire - whatever the
    application reads on OTHER streams meanwhile."""
    h_sid, read_sids = {}, set()
    for st in sc["trace"]:
        r = st["res"]
        if isinstance(r, dict) and "h" in r and "sid" in r:
            h_sid[r["h"]] = r["sid"]
        if st["op"].get("op") == "poll_data" and st["op"].get("h") in h_sid:
            read_sids.add(h_sid[st["op"]["h"]])
    cost, over_at, goaway, alive = 0, None, False, True
    for st in sc["trace"]:
        op = st["op"]
        o = op.get("op")
        if o in ("eof", "read_fail", "drop_conn", "abrupt_shutdown", "graceful_shutdown") or (o == "write_mode" and op.get("mode") in ("fail", "zero")):
            alive = False
        w = op.get("what") if o == "peer" else None
        if isinstance(w, dict):
            if "chaos" in w or w.get("t") == "GOAWAY":
                alive = False
            if w.get("t") == "DATA" and not w.get("eos") and w.get("pad") is None and 0 < w.get("len", 0) < threshold and w.get("sid") not in read_sids:
                cost += threshold - w["len"]
                if cost > budget + threshold and over_at is None and alive:
                    over_at = st["i"]
            if w.get("t") == "RST_STREAM" and w.get("sid") not in read_sids:
                return None        # the peer reset an unread stream: its buffered frames are released
        for f in st["out"]:
            if f["t"] == "GOAWAY":
                goaway = True
            if f["t"] == "RST_STREAM" and f.get("sid") not in read_sids:
                return None        # the endpoint reset an unread stream
        if isinstance(st["res"], str) and st["res"].startswith(("E(", "Ready")) and o in ("conn_poll", "poll_accept"):
            alive = alive and goaway
    if over_at is None or goaway or not sc.get("settled", True):
        return None
    # processed? a conn poll after over_at that left nothing unread in the transport, with writes not blocked at the end
    later = [st for st in sc["trace"] if st["i"] > over_at and st["op"].get("op") in ("conn_poll", "poll_accept") and st.get("io", {}).get("inbound") == 0]
    if len(later) < 2 or not alive:
        return None
    return {"why": "more tiny non-final DATA frames are buffered on unread streams than the DATA-frame budget pays for, and no GOAWAY was written",
            "cost_of_parked_frames": cost, "budget": budget, "exceeded_at_step": over_at}


def oracle_bounds(rep, scs):
    n_viol = 0
    nontriv = 0
    maxima = {}
    for sc in scs:
        v, known, mx = abuse_oracle(sc)
        v = v or refusal_oracle(sc) or tiny_frame_ledger(sc)
        for k in known:
            rep.known(k)
        for k, x in mx.items():
            maxima[k] = max(maxima.get(k, 0), x)
        if any(f["t"] == "GOAWAY" and f.get("code") == 11 for st in sc["trace"] for f in st["out"]) or known:
            nontriv += 1
        if v:
            n_viol += 1
            if n_viol <= 3:
                rep.violation("failing-input", {"oracle": "per-connection state against B(config, app_held) on statistics snapshots", "violation": v,
                                                "scenario": {"cfg": sc["cfg"], "seed": sc.get("seed"), "i": sc.get("i"), "profile": sc.get("profile"),
                                                             "trace": [{"op": st["op"]} for st in sc["trace"]]}})
    rep.oracle_runs.append({"name": "abuse-oracle", "cases": len(scs), "nontrivial": nontriv, "failures": n_viol, "observed_maxima": maxima})
    rep.extra["observed_maxima"] = maxima
    return n_viol


if __name__ == "__main__":
    rep = common.Report("C18", "quick", 1)
    seed = int(sys.argv[1]) if len(sys.argv) > 1 else 1
    scs, (bscs, fb), (dscs, fd) = correspond_bounds(rep, "quick", seed, extra=corpus_scenarios())
    for c in rep.correspondences:
        print(c["name"], c["cases"], c["nontrivial"], "disagreements", c["disagreements"], c["distribution"])
    for pth, _ in rep.violations[:2]:
        print("VIOLATION", json.load(open(pth)).get("log", "")[-1500:])
    report_disagreements(rep, "bounds", bscs, fb)
    report_disagreements(rep, "budget", dscs, fd)
    print("oracle violations", oracle_bounds(rep, scs), rep.oracle_runs[-1]["observed_maxima"], rep.known_hits)
    for pth, _ in rep.violations[:6]:
        d = json.load(open(pth))
        print({k: v for k, v in d.items() if k not in ("scenario", "log")}, d.get("scenario", {}).get("seed"), d.get("scenario", {}).get("i"), d.get("scenario", {}).get("cfg", {}).get("role"))
