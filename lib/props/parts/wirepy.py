"""Tiny independent HTTP/2 frame writer for hand-written replay files (peer ops of harness/src/driver.rs)."""


def frame(kind, flags, sid, payload=b""):
    payload = bytes(payload)
    n = len(payload)
    return bytes([(n >> 16) & 255, (n >> 8) & 255, n & 255, kind, flags]) + (sid & 0x7fffffff).to_bytes(4, "big") + payload


def hpack_literal(fields):
    """literal header field without indexing, new name, no Huffman (lengths < 127)"""
    out = b""
    for n, v in fields:
        n = n.encode() if isinstance(n, str) else n
        v = v.encode() if isinstance(v, str) else v
        assert len(n) < 127 and len(v) < 127
        out += bytes([0, len(n)]) + n + bytes([len(v)]) + v
    return out


REQ = [(":method", "GET"), (":scheme", "https"), (":path", "/x"), (":authority", "example.com")]


def headers(sid, fields, eos=False, eoh=True):
    return frame(1, (1 if eos else 0) | (4 if eoh else 0), sid, hpack_literal(fields))


def continuation(sid, block=b"", eoh=False):
    return frame(9, 4 if eoh else 0, sid, block)


def data(sid, payload=b"", eos=False):
    return frame(0, 1 if eos else 0, sid, payload)


def rst_stream(sid, code):
    return frame(3, 0, sid, code.to_bytes(4, "big"))


def settings(params=(), ack=False):
    p = b"".join(i.to_bytes(2, "big") + v.to_bytes(4, "big") for i, v in params)
    return frame(4, 1 if ack else 0, 0, p)


def ping(payload=b"\0" * 8, ack=False):
    return frame(6, 1 if ack else 0, 0, payload)


def window_update(sid, inc):
    return frame(8, 0, sid, inc.to_bytes(4, "big"))


def push_promise(sid, promised, fields):
    return frame(5, 4, sid, promised.to_bytes(4, "big") + hpack_literal(fields))


def peer(b, what=None):
    return {"op": {"op": "peer", "what": what or {}, "bytes": list(b)}}


def op(name, **kw):
    d = {"op": name}
    d.update(kw)
    return {"op": d}
