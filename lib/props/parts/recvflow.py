"""Receive-side flow control: trace projection -> labels of coq/Model/RecvFlow.v, lock-step check,
and the wire-level oracle (what the peer can see: advertised windows vs. configuration).  Used by C03."""
import json
import os
import sys

sys.path.insert(0, os.path.dirname(os.path.dirname(os.path.dirname(os.path.abspath(__file__)))))
import common  # noqa: E402
from props.parts import sendflow  # noqa: E402  (scenario generation helpers)

FAMILY = {
    "recv.release_connection_capacity", "recv.release_capacity", "recv.release_closed_capacity",
    "recv.set_target_connection_window", "recv.apply_local_settings", "recv.settings_stream", "recv.recv_data",
    "recv.charge_stream", "recv.ignore_data", "recv.consume_connection_window", "recv.clear_recv_buffer",
    "recv.clear_release", "recv.conn_window_update", "recv.stream_wu_pop", "recv.stream_window_update",
    "inner.recv_data", "store.insert", "store.remove",
}


class Node:
    __slots__ = ("name", "depth", "args", "kids", "step")

    def __init__(self, name, depth, args, step):
        self.name, self.depth, self.args, self.step = name, depth, args, step
        self.kids = []


def build_forest(trace):
    roots, stack = [], []
    for st in trace:
        for e in st.get("ev", []):
            name, depth, args = e[0], e[1], e[2:]
            while stack and stack[-1][0] >= depth:
                stack.pop()
            if name in FAMILY:
                n = Node(name, depth, args, st["i"])
                parent = None
                for d, p in reversed(stack):
                    if p is not None:
                        parent = p
                        break
                (parent.kids if parent is not None else roots).append(n)
                stack.append((depth, n))
            else:
                stack.append((depth, None))
    return roots


def Z(v):
    v = int(v)
    return "(%d)" % v if v < 0 else str(v)


B = common.coq_bool


def pre_s(a):  # SR: serial, sid, is_recv, win, avail, infl, pend, streaming, local_error
    return "(Some (%d%%N, (%s, %s, %s, %s)))" % (a[0], Z(a[3]), Z(a[4]), Z(a[5]), B(a[6]))


def pre_c(a, off):
    return "(Some (%s, %s, %s, %s))" % (Z(a[off]), Z(a[off + 1]), Z(a[off + 2]), Z(a[off + 3]))


def kid(node, name):
    for k in node.kids:
        if k.name == name:
            return k
    return None


TEARDOWN_OPS = ("abrupt_shutdown", "drop_conn", "eof", "read_fail")


def teardown_step(trace):
    """first step at which the connection is being torn down (user abort, transport end, connection error):
    from there on records are discarded wholesale and the model's per-record accounting is not compared"""
    for st in trace:
        op = st["op"]
        if op.get("op") in TEARDOWN_OPS or (op.get("op") == "write_mode" and op.get("mode") in ("fail", "zero")):
            return st["i"]
        if st.get("snap", {}).get("conn", {}).get("conn_error"):
            return st["i"]
        r = st["res"]
        if op.get("op") in ("conn_poll", "poll_accept") and isinstance(r, str) and (r.startswith("E(") or r.startswith("Ready")):
            return st["i"]
    return None


def labels_of_scenario(sc):
    trace = sc["trace"]
    cut = teardown_step(trace)
    if cut is not None:
        trace = [st for st in trace if st["i"] < cut]
    roots = build_forest(trace)
    res_by_step = {st["i"]: (st["op"], st["res"]) for st in trace}
    labels, counts = [], {}
    live = set()

    def add(lbl, s=None, c=None, outs=None):
        e = "(mkRE %s %s %s)" % (s or "None", c or "None", "(Some [%s])" % "; ".join(outs) if outs is not None else "None")
        labels.append("(%s, %s)" % (lbl, e))
        k = lbl.split()[0]
        counts[k] = counts.get(k, 0) + 1

    i = 0
    while i < len(roots):
        n = roots[i]
        i += 1
        a, nm = n.args, n.name
        if nm == "store.insert":
            live.add(a[0])
            add("RNew %d%%N %s" % (a[0], Z(a[3])))
        elif nm == "store.remove":
            if a[0] in live:
                live.discard(a[0])
                add("RRemove %d%%N" % a[0])
        elif nm == "inner.recv_data":
            rd = kid(n, "recv.recv_data")
            if rd is None:
                ig = kid(n, "recv.ignore_data")
                if ig is not None:
                    add("RDataUnknown %s" % Z(ig.args[4]), None, pre_c(ig.args, 0), None)
                continue  # stream not found and no accounting: connection error outside the flow model
            ra = rd.args
            sz, payload = ra[13], ra[14]
            if kid(rd, "recv.ignore_data") is not None:
                k = "DIgnore"
            elif kid(rd, "recv.consume_connection_window") is None:
                k = "DProtoErr"
            elif kid(rd, "recv.charge_stream") is not None:
                k = "DCharged"
            elif kid(rd, "recv.release_connection_capacity") is not None:
                k = "DNoRecv"
            elif kid(n, "recv.release_connection_capacity") is not None:
                k = "DStreamErr"
            else:
                k = "DConnErr"
            add("RData %d%%N %s %s %s %s" % (ra[0], k, Z(sz), Z(payload), B(ra[2])), pre_s(ra), pre_c(ra, 9), None)
        elif nm == "recv.release_capacity":
            op, res = res_by_step.get(n.step, ({}, None))
            exp = None
            if op.get("op") == "release" and isinstance(res, dict):
                exp = [] if res.get("ok") else ["RRes (-3)"]
            add("RRelease %d%%N %s" % (a[0], Z(a[13])), pre_s(a), pre_c(a, 9), exp)
        elif nm == "recv.clear_recv_buffer":
            cr = kid(n, "recv.clear_release")
            add("RClear %d%%N %s %s" % (a[0], B(a[2]), Z(cr.args[9]) if cr is not None else "0"), pre_s(a), pre_c(a, 9), None)
        elif nm == "recv.release_closed_capacity":
            add("RReleaseClosed %d%%N" % a[0], pre_s(a), pre_c(a, 9), None)
        elif nm == "recv.set_target_connection_window":
            add("RSetTarget %s" % Z(a[4]), None, pre_c(a, 0), None)
        elif nm == "recv.apply_local_settings":
            if a[4] < 0:
                continue
            touched = ["%d%%N" % k.args[0] for k in n.kids if k.name == "recv.settings_stream"]
            add("RApplySettings %s [%s]" % (Z(a[4]), "; ".join(touched)), None, pre_c(a, 0), None)
        elif nm == "recv.conn_window_update":
            add("RConnWU", None, pre_c(a, 0), ["RWU 0 %s" % Z(a[4])])
        elif nm == "recv.stream_wu_pop":
            outs = []
            if i < len(roots) and roots[i].name == "recv.stream_window_update" and roots[i].args[0] == a[0]:
                outs = ["RWU %d%%N %s" % (a[0], Z(roots[i].args[9]))]
                i += 1
            # the hook runs after Queue::pop cleared the flag; being popped means it was queued
            qa = list(a)
            qa[6] = 1
            add("RStreamWUPop %d%%N %s" % (a[0], B(a[7])), pre_s(qa), None, outs)
        else:
            add("RUnexpected_%s" % nm.replace(".", "_"))
    fin = "(@None ((Z * Z * Z * Z) * list (N * (Z * Z * Z * bool))))"
    for st in (trace[-1:] if cut is None else []):
        if "snap" in st:
            sn = st["snap"]
            c = sn["conn"]
            ss = ["(%d%%N, (%s, %s, %s, %s))" % (s["serial"], Z(s["recv_window"]), Z(s["recv_available"]),
                                                 Z(s["in_flight_recv_data"]), B(s["is_pending_window_update"]))
                  for s in sn["streams"]]
            fin = "(Some ((%s, %s, %s, %s), [%s]))" % (Z(c["recv_flow_window"]), Z(c["recv_flow_available"]),
                                                       Z(c["recv_in_flight_data"]), Z(c["recv_init_window_sz"]), "; ".join(ss))
    return labels, fin, counts


def coq_case(sc):
    labels, fin, counts = labels_of_scenario(sc)
    return "([%s], %s)" % (";\n    ".join(labels), fin), counts, len(labels)


PREAMBLE = "From H2V Require Import Base.Tac Base.Bytes Model.RecvFlow.\nLocal Open Scope Z_scope.\n"


def correspond_recvflow(rep, tier, seed, profiles=("recv", "recv", "mixed", "chaos")):
    per = 60 if tier == "quick" else 1500
    steps = 90 if tier == "quick" else 140
    all_cases, all_scs, hist = [], [], {}
    for pi, prof in enumerate(profiles):
        scs, _ = sendflow.gen_scenarios(seed * 6007 + pi, per, steps, prof)
        for sc in scs:
            case, counts, nl = coq_case(sc)
            if nl == 0:
                continue
            all_cases.append(case)
            all_scs.append(sc)
            for k, v in counts.items():
                hist[k] = hist.get(k, 0) + v
    failing, err = common.coq_eval_failing("recvflow", PREAMBLE, "check_recvflow", all_cases, shard=12)
    if err:
        rep.violation("broken-correspondence", {"what": "coqc failed on generated recvflow cases", "log": err[-3000:]}, no_input=True)
    nontrivial = sum(1 for sc in all_scs if any(e[0] == "recv.charge_stream" for st in sc["trace"] for e in st["ev"]))
    rep.correspondences.append({
        "name": "recvflow-lockstep", "cases": len(all_cases), "nontrivial": nontrivial, "disagreements": len(failing),
        "distribution": {"labels": hist, "profiles": list(profiles)},
        "rule": "random connection scenarios (client and server, scripted peer sending DATA with and without padding on live, "
                "reset, unknown and post-GOAWAY streams; application reads, releases, drops handles, changes the target window "
                "and the initial window); every hooked entry into the receive-flow mechanism becomes a label; the Coq model is "
                "stepped through the labels and compared with the observed pre-state at each label, the WINDOW_UPDATEs emitted and "
                "the final snapshot; non-trivial = at least one DATA frame was charged to a stream"})
    return all_scs, failing


def report_disagreements(rep, scs, failing):
    import re
    for i in failing[:3]:
        sc = scs[i]
        case, counts, nl = coq_case(sc)
        rc, out = common.coq_eval_raw("recvflow_diag", PREAMBLE + "Definition c := %s.\nEval vm_compute in (diag_recvflow c).\n" % case)
        m = re.search(r"= (\d+)%N", out)
        code = int(m.group(1)) if m else None
        labels, fin, _ = labels_of_scenario(sc)
        k = (code // 10 - 1) if code else None
        rep.violation("broken-correspondence", {
            "correspondence": "Model/RecvFlow.v check_recvflow vs /repo receive-flow events",
            "diag_code": code, "reason": {1: "pre-state differs", 2: "outputs differ", 3: "model Stuck", 4: "model Panic"}.get((code or 0) % 10, "final snapshot differs"),
            "first_diverging_label": labels[k] if k is not None and k < len(labels) else None,
            "labels_before": labels[max(0, (k or 0) - 5):(k or 0)],
            "theorems_no_longer_tied_to_code": ["C03_conservation", "C03_never_over_advertised", "C03_restores"],
            "scenario": {"cfg": sc["cfg"], "seed": sc.get("seed"), "i": sc.get("i"), "trace": [{"op": st["op"]} for st in sc["trace"]]}},
            no_input=True)


if __name__ == "__main__":
    rep = common.Report("C03", "quick", 1)
    scs, failing = correspond_recvflow(rep, "quick", int(sys.argv[1]) if len(sys.argv) > 1 else 1)
    print("cases", rep.correspondences[-1]["cases"], "failing", failing[:20], rep.correspondences[-1]["distribution"]["labels"])
    if failing:
        report_disagreements(rep, scs, failing)
        for p, _ in rep.violations[:3]:
            d = json.load(open(p))
            print(d.get("diag_code"), d.get("reason"), d.get("first_diverging_label"), "\n   ", "\n    ".join(d.get("labels_before") or []))


# ------------------------------------------------------------------------------------------------
# oracles on implementation behaviour (C03)

def wire_window_oracle(sc):
    """What the peer can see.  Connection: 65535 + sum WINDOW_UPDATE(0) written - flow-controlled bytes the peer sent
    never exceeds the configured target MINUS the bytes the application still holds (handed over by poll_data on a
    receive handle that is still alive and not yet released: those cannot have been credited back, 'credited back
    exactly once') at the moment a WINDOW_UPDATE is written (nor 2^31-1).  Streams: the same with the largest
    SETTINGS_INITIAL_WINDOW_SIZE the endpoint has announced so far as the bound."""
    cfg = sc["cfg"]
    target = cfg.get("initial_connection_window_size") or 65535
    conn = 65535
    max_init = 65535
    streams = {}
    held = {}          # handle -> bytes delivered and not yet released, while its RecvStream is alive
    h_sid = {}
    for st in sc["trace"]:
        op = st["op"]
        name = op.get("op")
        res = st.get("res")
        if name == "set_target_window" and res == "ok":
            # a WINDOW_UPDATE may sit in the write buffer while the target is lowered: the bound is the largest
            # target that has been in force so far
            target = max(target, op.get("n", target))
        if name == "poll_data" and isinstance(res, dict) and "len" in res:
            held[op["h"]] = held.get(op["h"], 0) + res["len"]
        elif name == "release" and isinstance(res, dict) and res.get("ok"):
            if op["h"] in held:
                held[op["h"]] = max(0, held[op["h"]] - op.get("n", 0))
        elif name in ("drop_recv", "conn_drop", "drop_conn"):
            if name == "drop_recv":
                held.pop(op.get("h"), None)
            else:
                held.clear()
        if name == "peer" and isinstance(op.get("what"), dict):
            w = op["what"]
            if "chaos" in w:
                return None          # illegal peer traffic: the connection is about to fail
            if w.get("t") == "DATA":
                n = w["len"] + ((w["pad"] + 1) if w.get("pad") is not None else 0)
                conn -= n
                streams[w["sid"]] = streams.get(w["sid"], max_init) - n
        for f in st["out"]:
            if f["t"] == "SETTINGS" and not f.get("ack"):
                for (i, v) in f.get("params", []):
                    if i == 4:
                        delta = v - max_init if v > max_init else 0
                        max_init = max(max_init, v)
                        for k in streams:
                            streams[k] += delta
            if f["t"] == "WINDOW_UPDATE":
                if f["sid"] == 0:
                    conn += f["inc"]
                    tot_held = sum(held.values())
                    if conn > max(target, 65535) or conn > 2**31 - 1:
                        return {"step": st["i"], "why": "connection window advertised beyond the configured target", "visible_window": conn, "target": target}
                    if conn > max(target, 65535) - tot_held:
                        return {"step": st["i"], "why": "connection window credited for bytes the application still holds (credited more than once)",
                                "visible_window": conn, "target": target, "held_by_application": tot_held}
                else:
                    streams[f["sid"]] = streams.get(f["sid"], max_init) + f["inc"]
                    if streams[f["sid"]] > max_init:
                        return {"step": st["i"], "why": "stream window advertised beyond the configured initial window", "sid": f["sid"],
                                "visible_window": streams[f["sid"]], "largest_initial_window_announced": max_init}
    return None


def quiescence_oracle(sc):
    """At the end of a settled run (snapshot of the last step): if nothing is in flight (the application released
    everything it was given) the windows are back: connection window > 2/3 of the target or >= target; the same for
    every stream that is still receiving and whose receive handle is alive.  Streams whose RecvStream was dropped
    are the known finding KF-C03-1 (stream window neither charged nor re-credited after the handle is dropped)."""
    if not sc.get("settled"):
        return None, None
    last = sc["trace"][-1]
    sn = last.get("snap")
    if not sn:
        return None, None
    if recv_teardown(sc):
        return None, None
    c = sn["conn"]
    cfg = sc["cfg"]
    target = cfg.get("initial_connection_window_size") or 65535
    for st in sc["trace"]:
        if st["op"].get("op") == "set_target_window" and st["res"] == "ok":
            target = st["op"].get("n", target)
    if last.get("io", {}).get("inbound", 0) != 0:
        return None, None
    viol = None
    known = None
    if c["recv_in_flight_data"] == 0 and target > 0:
        w = c["recv_flow_window"]
        if not (w >= target or 3 * w > 2 * target):
            viol = {"why": "connection window not restored although nothing is in flight", "window": w, "target": target}
    init = c["recv_init_window_sz"]
    for s in sn["streams"]:
        recv_open = s["state"].startswith("Open") and "remote: Streaming" in s["state"] or s["state"].startswith("HalfClosedLocal(Streaming")
        if not recv_open or s["in_flight_recv_data"] != 0 or init <= 0 or not s["linked"]:
            continue
        w = s["recv_window"]
        short = not (w >= init or 3 * w > 2 * init)
        if short and s["is_pending_window_update"]:
            continue
        if short:
            if not s["is_recv"]:
                known = "KF-C03-1 stream window left short after the receive handle was dropped (stream %d: window %d of %d)" % (s["id"], w, init)
            elif viol is None:
                viol = {"why": "stream window not restored although the application released everything", "stream": s["id"], "window": w, "initial": init}
    return viol, known


def withheld_ledger(sc):
    """Independent of the library's own in-flight counters: from the trace alone, decide that NOTHING is legitimately
    withheld at the end of a settled run -- every stream that was sent DATA either had its RecvStream dropped (buffered
    and later data is then given back on the spot) or had every payload byte delivered by poll_data and released -- and
    then require the connection-level accounting to be exact: no bytes in flight, total credit = configured target.
    ('every flow-controlled byte it receives ... padding, or data it discards ... is credited back exactly once')"""
    if not sc.get("settled") or recv_teardown(sc):
        return None
    last = sc["trace"][-1]
    sn = last.get("snap")
    if not sn or last.get("io", {}).get("inbound", 0) != 0 or sn["conn"].get("conn_error"):
        return None
    cfg = sc["cfg"]
    target = cfg.get("initial_connection_window_size") or 65535
    h_sid, delivered, released, dropped, fed = {}, {}, {}, set(), {}
    ended = False
    for st in sc["trace"]:
        op, res = st["op"], st.get("res")
        name = op.get("op")
        if isinstance(res, dict) and "h" in res and "sid" in res:
            h_sid[res["h"]] = res["sid"]
        if name == "set_target_window" and res == "ok":
            target = op.get("n", target)
        if name == "poll_data" and isinstance(res, dict) and "len" in res:
            delivered[op["h"]] = delivered.get(op["h"], 0) + res["len"]
        elif name == "release" and isinstance(res, dict) and res.get("ok"):
            released[op["h"]] = released.get(op["h"], 0) + op.get("n", 0)
        elif name == "drop_recv":
            dropped.add(op.get("h"))
        elif name in ("drop_conn", "conn_drop", "eof", "read_fail") or (name == "write_mode" and op.get("mode") == "fail"):
            ended = True
        if name == "peer" and isinstance(op.get("what"), dict):
            w = op["what"]
            if "chaos" in w or w.get("t") in ("GOAWAY",):
                return None
            if w.get("t") == "DATA":
                fed[w["sid"]] = fed.get(w["sid"], 0) + w["len"]
        for f in st["out"]:
            if f["t"] == "GOAWAY":
                return None
    if ended or target <= 0 or not fed:
        return None
    sid_h = {}
    for h, sid in h_sid.items():
        sid_h.setdefault(sid, []).append(h)
    for sid, n in fed.items():
        hs = sid_h.get(sid)
        if not hs:
            return None                      # never surfaced: its data may legitimately wait in a queue
        got = sum(delivered.get(h, 0) for h in hs)
        rel = sum(released.get(h, 0) for h in hs)
        if rel < got:
            return None                      # taken by the application and never released: returned only when the stream is gone
        if any(h in dropped for h in hs):
            continue
        if got != n:
            return None
    c = sn["conn"]
    if c["recv_in_flight_data"] != 0:
        return {"why": "bytes are still accounted as in flight on the connection although every byte received was released by the application "
                       "or belongs to a stream whose receive handle was dropped (credit leaked)", "in_flight": c["recv_in_flight_data"], "fed": fed}
    if c["recv_flow_available"] != target:
        return {"why": "total connection credit differs from the configured target although nothing is withheld",
                "credit": c["recv_flow_available"], "target": target}
    return None


def recv_teardown(sc):
    return teardown_step(sc["trace"]) is not None


def accounting_panic(sc):
    """a panic of the library's window arithmetic (credit given back twice underflows the in-flight counters,
    over-crediting overflows a window): the implementation side of C03_no_panic"""
    import json as _json
    for st in sc["trace"]:
        r = st.get("res")
        if isinstance(r, dict) and "panic" in r:
            msg = str(r["panic"])
            if any(w in msg for w in ("overflow", "window", "in_flight", "capacity", "available")):
                return {"step": st["i"], "why": "the library panicked in its flow-control accounting", "panic": msg, "op": st["op"] if st["op"].get("op") != "peer" else st["op"].get("what")}
    return None


def oracle_recvflow(rep, scs):
    n_viol = 0
    nontriv = 0
    known = 0
    for sc in scs:
        v = wire_window_oracle(sc) or accounting_panic(sc)
        q, k = quiescence_oracle(sc)
        if any(f["t"] == "WINDOW_UPDATE" for st in sc["trace"] for f in st["out"]):
            nontriv += 1
        if k:
            known += 1
            rep.known(k.split(" (stream")[0])
        v = v or q or withheld_ledger(sc)
        if v:
            n_viol += 1
            if n_viol <= 3:
                rep.violation("failing-input", {"oracle": "receive windows on the wire / at quiescence", "violation": v,
                                                "scenario": {"cfg": sc["cfg"], "seed": sc.get("seed"), "i": sc.get("i"),
                                                             "trace": [{"op": st["op"]} for st in sc["trace"]]}})
    rep.oracle_runs.append({"name": "recv-window-oracle", "cases": len(scs), "nontrivial": nontriv, "failures": n_viol, "known_finding_hits": known})
    return n_viol
