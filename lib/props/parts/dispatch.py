"""Dispatch layer (streams.rs / recv.rs / send.rs / prioritize.rs callers of the per-stream state machine):
trace projection -> labels of coq/Model/Dispatch.v and the lock-step check.

Used by C04 (emission obeys the life cycle), C09 (reactions to received frames) and C17 (resets).  The
hook vocabulary is documented in hooks/apply_dispatch_hooks.py.  One label per lock-atomic section:
every `disp.*` scope, every frame that leaves a queue (`prio.pop_*`), reclaim, pop_pending_open, reset expiry,
stream WINDOW_UPDATE emission, refusal emission, store.unlink / store.remove.

What is compared inside Coq (`check_dispatch`) at every label: the pre-state of the addressed record (state as
State::verif_code prints it, is_pending_open, is_pending_push, reset_at, queue emptiness, partly written DATA), the
identifier bookkeeping (both next ids, both GOAWAY cut-offs, the pending refusal); after the label: the frames queued,
the frames handed to the codec, the events handed to the application, the queues cleared, the result (error class, code,
initiator, stream id, debug data); at the end of the run the states of all linked records against the statistics snapshot.
The wire/API oracles of wireview.py stay the search side.
"""
import os
import re
import sys

sys.path.insert(0, os.path.dirname(os.path.dirname(os.path.dirname(os.path.abspath(__file__)))))
import common  # noqa: E402
from props.parts import sendflow, streamstate  # noqa: E402

B = common.coq_bool
PREAMBLE = ("From H2V Require Import Base.Tac Base.Bytes Model.StreamState Model.Dispatch.\n"
            "Local Open Scope N_scope.\n")

PROFILES = ("mixed", "reset", "limits", "chaos", "legal", "race", "lastframe", "queue", "shutdown", "fuzz", "idspace")

USER_ERR = {"unexpected frame type": 1, "inactive stream": 2, "rejected": 3, "stream ID overflowed": 4,
            "sending PUSH_PROMISE to peer who disabled server push": 5, "malformed headers": 6,
            "request URI missing scheme and authority": 6, "payload too big": 7}
OK = (0, 0, 0, 0, ())
TOO_MANY_DATA = tuple(b"too_many_data_frames")


def Z(v):
    return "(%d)%%Z" % int(v)


def nlist(xs):
    return "[" + "; ".join(str(int(x)) for x in xs) + "]"


def opt(x):
    return "None" if x is None else "(Some %s)" % x


def ores(t):
    return "(%d, %d, %d, %d, %s)" % (t[0], t[1], t[2], t[3], nlist(t[4]))


class Node:
    __slots__ = ("name", "depth", "args", "kids")

    def __init__(self, name, depth, args):
        self.name, self.depth, self.args, self.kids = name, depth, args, []


def flat(nodes):
    out = []

    def walk(ns):
        for k in ns:
            out.append(k)
            walk(k.kids)
    walk(nodes)
    return out


QUERY = {"counts.can_inc_recv": (3, 2, "counts.inc_recv"), "counts.can_inc_send": (1, 0, "counts.inc_send"),
         "counts.can_inc_reset": (5, 4, "counts.inc_reset"), "counts.can_inc_remote_reset": (7, 6, "counts.inc_remote_reset"),
         "counts.can_inc_local_error": (9, 8, "counts.inc_local_error")}


def query_result(k):
    ni, mi, _ = QUERY[k.name]
    c = k.args[0:10]
    return c[mi] < 0 or c[ni] < c[mi]


def can_inc_results(fl, name):
    """results of the can_inc_* queries in the flat event list, without the one each inc_* makes for its own assert!"""
    inc = QUERY[name][2]
    out, skip = [], False
    for k in fl:
        if k.name == inc:
            skip = True
        elif k.name == name:
            if skip:
                skip = False
            else:
                out.append(query_result(k))
    return out


def disp_of(a):
    """D(id) / DK(key) tail -> (orec term, ids term, info)"""
    found, code, flags, qempty, buffered, refc = a[0], a[1:7], a[7], a[8], a[9], a[10]
    send_next, recv_next, send_max, recv_max, refused, conn_err, serial = a[11:18]
    orec = "(%d, (%s), %s, %s, %s, %s, %s)" % (found, ", ".join(str(int(x)) for x in code), B(flags & 1), B(flags & 2), B(flags & 4),
                                                B(qempty), B(buffered > 0))
    ids = "(%s, %s, %s, %s, %s)" % (Z(send_next), Z(recv_next), Z(send_max), Z(recv_max), Z(refused))
    return orec, ids, {"found": found, "flags": flags, "refc": refc, "serial": serial, "code": code, "conn_err": conn_err}


class Entry:
    """one label with what was observed around it; rendered at the end (some observed inputs are only known once the
    result of the section is known)"""
    def __init__(self, kind, **kw):
        self.kind = kind
        self.f = kw                 # label fields
        self.rec = self.ids = None
        self.queued = self.emitted = self.app = self.cleared = None
        self.res = None             # tuple (class, reason, initiator, sid, debug)
        self.surface = None
        self.new = None

    def expect(self):
        return "(mkE %s %s %s %s %s %s %s %s %s)" % (
            opt(self.rec), opt(self.ids),
            opt(None if self.queued is None else "[" + "; ".join(self.queued) + "]"),
            opt(None if self.emitted is None else "[" + "; ".join(self.emitted) + "]"),
            opt(None if self.app is None else "[" + "; ".join(self.app) + "]"),
            opt(None if self.cleared is None else nlist(self.cleared)),
            opt(None if self.res is None else ores(self.res)),
            opt(self.surface), opt(None if self.new is None else str(int(self.new))))

    def label(self):
        k, f = self.kind, self.f
        res = self.res or OK
        if k == "LRecvHeaders":
            v = f["verdict"]
            if v is None:        # decided by the result: a PROTOCOL_ERROR reset handed back to the caller, or nothing
                internal = (res[0] == 1 and res[1] == 11 and bytes(res[4]) == b"too_many_internal_resets")
                v = "HBad" if (((res[0] == 2 and res[1] == 1) or (internal and not f["quota"])) and f["reached"]) else "HOk"
            return "(LRecvHeaders %d %s %s (mkH %s %s %s %s %s %s) %d)" % (f["sid"], B(f["eos"]), B(f["info"]), B(f["can_open"]), B(f["can_count"]),
                                                                           v, B(f["quota"]), B(f["can_reset"]), B(f["no_method"]), f["nk"])
        if k == "LRecvData":
            if res[0] == 1 and res[1] == 3:
                dv = "DConnWindow"
            elif f["reset"] == 3:
                dv = "DStreamWindow"
            elif f["reset"] == 1:
                dv = "DLenOver"
            else:
                dv = "DOk"
            budget = not (res[0] == 1 and res[1] == 11 and tuple(res[4]) == TOO_MANY_DATA)
            return "(LRecvData %d %s (mkD %s %s %s %s %s %s))" % (f["sid"], B(f["eos"]), dv, B(f["is_recv"]), B(f["empty"]), B(budget),
                                                                  B(f["quota"]), B(f["can_reset"]))
        if k == "LRecvReset":
            return "(LRecvReset %d %d (mkR %s %s))" % (f["sid"], f["code"], B(f["queued"]), B(f["quota"]))
        if k == "LRecvWindowUpdate":
            return "(LRecvWindowUpdate %d (mkW %s %s %s))" % (f["sid"], B(f["overflow"]), B(f["quota"]), B(f["can_reset"]))
        if k == "LRecvPushPromise":
            return "(LRecvPushPromise %d %d (mkP %s %s %s %s) %d)" % (f["sid"], f["promised"], B(f["can_open"]), B(f["valid"]), B(f["quota"]), B(f["can_reset"]), f["nk"])
        return f["text"]


class Projector:
    def __init__(self, sc):
        self.sc = sc
        self.entries = []
        self.serial_sid = {}
        self.dead = set()             # serials unlinked from store.ids, not yet released
        self.lost = set()             # serials whose id link another record's unlink removed
        self.linked = {}              # sid -> serial linked in store.ids
        self.pending = None           # the received-frame entry whose result is still open
        self.last_can_send = True
        self.notes = []

    def add(self, e):
        self.entries.append(e)
        return e

    def text(self, s, **kw):
        e = Entry(s.strip("()").split()[0], text=s)
        for k, v in kw.items():
            setattr(e, k, v)
        return self.add(e)

    # ---- store.unlink / store.remove inside counts.transition_after scopes (keys = record serial numbers)
    def unlink_labels(self, nodes):
        for t in flat(nodes):
            if t.name != "counts.transition_after":
                continue
            for x in flat(t.kids):
                if x.name == "store.unlink":
                    self.text("(LUnlink %d)" % x.args[0])
                elif x.name == "store.remove":
                    self.text("(LRelease %d)" % x.args[0])

    def in_transition(self, scope, node):
        for t in flat(scope.kids):
            if t.name == "counts.transition_after" and node in flat(t.kids):
                return True
        return False

    def scope_outputs(self, fl):
        queued = []
        data_eos = False
        for k in fl:
            if k.name == "prio.send_data":
                data_eos = bool(k.args[13])
            if k.name == "prio.queue_frame":
                a = k.args
                # the hook does not print END_STREAM of a DATA frame: taken from the enclosing prio.send_data
                queued.append("(%d, %d, %s, %s, %d)" % (a[1], a[2], B(data_eos if a[2] == 0 else a[3]), B(a[4]), a[6]))
            elif k.name == "disp.park_frame":
                queued.append("(%d, 0, %s, false, 0)" % (k.args[1], B(k.args[2])))
        app = ["(%d, %d)" % (k.args[1], k.args[2]) for k in fl if k.name == "recv.event" and k.args[2] in (1, 2, 3, 4, 5)]
        cleared = [k.args[1] for k in fl if k.name == "prio.clear_queue"]
        return queued, app, cleared

    def api_result(self, opres):
        """-> (observed result tuple, rejected, hdr_ok, new id)"""
        if isinstance(opres, dict) and "sid" in opres:
            return OK, False, True, opres["sid"]
        s = str(opres)
        m = re.match(r"E\(other,-,user:user error: (.*)\)$", s)
        if m:
            code = USER_ERR.get(m.group(1), 99)
            return (4, code, 0, 0, ()), code == 3, code != 6, None
        if s.startswith("E("):
            return (5, 0, 0, 0, ()), False, True, None
        return OK, False, True, None

    def scope(self, n, opres):
        name, a = n.name, n.args
        fl = flat(n.kids)
        queued, app, cleared = self.scope_outputs(fl)
        quota = (can_inc_results(fl, "counts.can_inc_local_error") or [True])[0]
        can_reset = (can_inc_results(fl, "counts.can_inc_reset") or [True])[0]
        recv_can = can_inc_results(fl, "counts.can_inc_recv")
        resets = [k.args[12] for k in fl if k.name == "send.send_reset"]
        ins = [k.args[0] for k in fl if k.name == "store.insert"]
        nk = ins[0] if ins else 0
        e = None
        if name == "disp.recv_headers":
            sid, eos, info, over = a[0:4]
            orec, ids, d = disp_of(a[4:])
            if d["found"] == 0:
                can_open = recv_can[0] if recv_can else True
                can_count = recv_can[1] if len(recv_can) > 1 else True
            else:
                can_open, can_count = True, (recv_can[0] if recv_can else True)
            handed = any(k.name == "recv.event" and k.args[2] in (1, 2, 3) for k in fl)
            sent431 = any(k.name == "prio.queue_frame" and k.args[2] == 1 for k in fl)
            if handed:
                verdict = "HOk"
            elif sent431 or over:
                verdict = "HOversize"
            elif 1 in resets:
                verdict = "HBad"
            else:
                verdict = None
            # `reached`: the frame got as far as the header checks (not ignored / refused before)
            e = Entry("LRecvHeaders", sid=sid, eos=eos, info=info, can_open=can_open, can_count=can_count, verdict=verdict,
                      quota=quota, can_reset=can_reset, reached=not (info and eos), nk=nk,
                      no_method=bool(a[22]) if len(a) > 22 else False)
            e.rec, e.ids = orec, ids
        elif name == "disp.recv_data":
            sid, eos, plen, flen = a[0:4]
            orec, ids, d = disp_of(a[4:])
            rd = [k for k in fl if k.name == "recv.recv_data"]
            charged = any(k.name == "recv.charge_stream" for k in fl)
            released = any(k.name == "recv.release_connection_capacity" for k in fl)
            reset = resets[0] if resets else None
            if reset is None and not quota and rd:
                # the stream error was turned into a connection error (reset quota): recover which check refused the frame
                reset = 3 if max(0, rd[0].args[3]) < rd[0].args[13] else 1
            e = Entry("LRecvData", sid=sid, eos=eos, is_recv=bool(d["flags"] & 32), empty=(plen == 0), quota=quota, can_reset=can_reset,
                      reset=reset)
            e.rec, e.ids = orec, ids
        elif name == "disp.recv_reset":
            sid, code = a[0:2]
            orec, ids, d = disp_of(a[2:])
            rq = True
            if d["flags"] & 16:
                r = can_inc_results(fl, "counts.can_inc_remote_reset")
                rq = r[0] if r else True
            e = Entry("LRecvReset", sid=sid, code=code, queued=bool(d["flags"] & 8), quota=rq)
            e.rec, e.ids = orec, ids
        elif name == "disp.recv_window_update":
            sid = a[0]
            if sid != 0:
                orec, ids, d = disp_of(a[2:])
                e = Entry("LRecvWindowUpdate", sid=sid, overflow=bool(resets), quota=quota, can_reset=can_reset)
                e.rec, e.ids = orec, ids
        elif name == "disp.recv_push_promise":
            sid, promised, over = a[0:3]
            orec, ids, d = disp_of(a[3:])
            can_open = recv_can[0] if recv_can else True
            valid = any(k.name == "recv.event" and k.args[2] == 5 for k in fl)
            reserved = any(k.name == "store.insert" for k in fl)
            e = Entry("LRecvPushPromise", sid=sid, promised=promised, can_open=can_open, valid=(valid or not reserved), quota=quota, can_reset=can_reset, nk=nk)
            e.rec, e.ids = orec, ids
        elif name == "disp.recv_go_away":
            e = Entry("LRecvGoAway", text="(LRecvGoAway %d %d %s)" % (a[0], a[1], nlist(a[3:])))
            queued = app = cleared = None
        if e is not None:
            e.queued, e.app, e.cleared = queued, app, cleared
            self.add(e)
            self.pending = e
        elif name == "disp.handle_error":
            if a[0] == 0:
                t = "(EReset %d %d %s)" % (a[3], a[1], streamstate.INITIATORS[a[2]])
            elif a[0] == 1:
                t = "(EGoAway %s %d %s)" % (nlist(a[3:]), a[1], streamstate.INITIATORS[a[2]])
            else:
                t = "(EIo %d %s)" % (a[1], "(Some %s)" % nlist(a[3:]) if a[2] else "None")
            failed = [k.args[0] for k in fl if k.name == "prio.drop_promised"]
            self.text("(LHandleError %s %s)" % (t, nlist(failed)))
        elif name == "disp.recv_eof":
            failed = [k.args[0] for k in fl if k.name == "prio.drop_promised"]
            # set_reset is also what clear_queue does to a promised record: those are not relabelled scheduled resets
            self.text("(LRecvEof %s %s)" % (nlist([k.args[0] for k in fl if k.name == "stream.set_reset" and k.args[0] not in failed]), nlist(failed)))
        elif name == "disp.poll2_reset":
            sid, code = a[0:2]
            orec, ids, d = disp_of(a[2:])
            self.text("(LPoll2Reset %d %d %s %s %d)" % (sid, code, B(quota), B(can_reset), nk), rec=orec, ids=ids, queued=queued, cleared=cleared,
                      res=OK if quota else (1, 11, 1, 0, tuple(b"too_many_internal_resets")))
        elif name == "disp.send_request":
            res, rejected, hdr_ok, new = self.api_result(opres)
            # a record that is inserted and given up again (header check) is not part of the model
            self.text("(LSendRequest %s %s %s %d)" % (B(a[0]), B(rejected), B(hdr_ok), nk), queued=queued, res=res, new=new)
        elif name in ("disp.send_data", "disp.send_trailers", "disp.send_reset", "disp.send_info", "disp.send_response", "disp.push_request"):
            off = {"disp.send_trailers": 0, "disp.push_request": 3}.get(name, 1)
            orec, ids, d = disp_of(a[off:])
            sid = d["serial"]          # the key
            res, rejected, hdr_ok, new = self.api_result(opres)
            if name == "disp.send_data":
                t = "(LSendData %d %s %s)" % (sid, B(a[0]), B(res[0] == 4 and res[1] == 7))
            elif name == "disp.send_trailers":
                t = "(LSendTrailers %d %s)" % (sid, B(hdr_ok))
            elif name == "disp.send_reset":
                t, res = "(LSendReset %d %d %s)" % (sid, a[0], B(can_reset)), OK
            elif name == "disp.send_info":
                t = "(LSendInfo %d %s %s)" % (sid, B(a[0]), B(hdr_ok))
            elif name == "disp.send_response":
                t = "(LSendResponse %d %s %s)" % (sid, B(a[0]), B(hdr_ok))
            else:
                # SETTINGS_ENABLE_PUSH of the peer is only read here: its current value enters as a label of its own
                if bool(a[2]) != getattr(self, "push_remote", True):
                    self.push_remote = bool(a[2])
                    self.text("(LRemoteSettingsPush %s)" % B(a[2]))
                # "malformed headers": the request did not convert (the reserved record stays in the store) or the header
                # check of Send::send_push_promise refused it (the record is removed again)
                child_removed = any(x.name == "store.remove" for x in fl)
                t = "(LPushRequest %d %s %s %d)" % (sid, B(hdr_ok or child_removed), B(hdr_ok or not child_removed), nk)
            self.text(t, rec=orec, ids=ids, queued=queued, cleared=cleared, res=res, new=new)
        elif name == "disp.drop_ref":
            orec, ids, d = disp_of(a)
            sid = d["serial"]
            if d["refc"] == 1:
                # maybe_cancel reaches this record and its un-polled promises; each asks can_inc_num_reset_streams for itself
                own_can, kids, cur = True, [], None
                for k in fl:
                    if k.name == "send.schedule_implicit_reset":
                        cur = k.args[0]
                        if cur != sid:
                            kids.append([cur, True])
                    elif k.name == "counts.can_inc_reset" and cur is not None:
                        r = query_result(k)
                        if cur == sid:
                            own_can = r
                        elif kids and kids[-1][0] == cur:
                            kids[-1][1] = r
                        cur = None
                self.text("(LDropLast %d %s [%s])" % (sid, B(own_can), "; ".join("(%d, %s)" % (k, B(c)) for k, c in kids)), rec=orec, ids=ids)
        self.unlink_labels(n.kids)

    def poll2(self, a):
        kind, reason, ini, sid, debug = a[1], a[2], a[3], a[4], tuple(a[5:])
        if kind == 0:
            return OK
        if kind == 1:
            return (1, reason, ini, 0, debug)
        if kind == 2:
            return (2, reason, ini, sid, ())
        return (3, 0, 0, 0, ())

    def walk(self, nodes, opres):
        for n in nodes:
            name = n.name
            if name == "store.insert":
                self.serial_sid[n.args[0]] = n.args[1]
                self.linked[n.args[1]] = n.args[0]
            if name.startswith("disp.") and name not in ("disp.go_away_sent", "disp.send_refusal", "disp.expire", "disp.park_frame", "disp.poll_reset"):
                for k in flat(n.kids):
                    if k.name == "store.insert":
                        self.serial_sid[k.args[0]] = k.args[1]
                        self.linked[k.args[1]] = k.args[0]
                self.scope(n, opres)
                continue
            if name == "counts.transition_after":
                self.unlink_labels([n])
                continue
            if name in ("conn.iter", "conn.idle", "conn.headers_done") and self.pending is not None:
                self.pending.res, self.pending = OK, None      # the loop went on: the frame returned Ok
            if name == "conn.recv_frame":
                if self.pending is not None:       # the previous frame returned Ok
                    self.pending.res, self.pending = OK, None
                if len(n.args) > 1 and n.args[1] == 9:
                    self.text("(LRecvPriority 0)")
            elif name == "conn.poll2_result":
                if self.pending is not None:
                    self.pending.res, self.pending = self.poll2(n.args), None
            elif name == "disp.go_away_sent":
                self.text("(LGoAwaySent %d)" % n.args[0])
            elif name == "disp.send_refusal":
                self.text("LSendRefusal", emitted=["(%d, 3, false, false, 7)" % n.args[0]])
            elif name == "disp.expire":
                self.text("(LExpire %d)" % n.args[0])
            elif name == "disp.poll_reset":
                orec, ids, d = disp_of(n.args[1:])
                sid = d["serial"]
                s = str(opres)
                if opres == "Pending":
                    sf = "(0, 0)"
                elif isinstance(opres, dict) and "reason" in opres:
                    sf = "(1, %d)" % opres["reason"]
                elif "user error" in s:
                    sf = "(2, 0)"
                else:
                    sf = "(3, 0)"
                self.text("(LPollReset %d %s)" % (sid, "PRStreaming" if n.args[0] else "PRAwaitingHeaders"), rec=orec, surface=sf)
            elif name == "prio.pop_pending_open":
                self.text("(LOpenPending %d)" % n.args[0])
            elif name == "prio.push_back":
                self.text("(LReclaim %d)" % n.args[0])
            elif name == "prio.pop_data":
                a = n.args
                sz, ln, eos = a[12], a[14], a[15]
                partial = ln < sz
                self.text("(LPop %d (mkPop %s false true))" % (a[0], B(partial)), emitted=["(%d, 0, %s, false, 0)" % (a[1], B(eos and not partial))])
            elif name == "prio.pop_scheduled_reset":
                self.text("(LPop %d (mkPop false false true))" % n.args[0], emitted=[], cleared=[n.args[1]])
            elif name == "prio.pop_drop_push":
                self.text("(LPop %d (mkPop false false true))" % n.args[0], emitted=[])
            elif name == "prio.pop_other":
                a = n.args
                can_send = self.last_can_send if a[2] == 2 else True
                self.text("(LPop %d (mkPop false false %s))" % (a[0], B(can_send)), emitted=["(%d, %d, %s, false, %d)" % (a[1], a[2], B(a[3]), a[5])])
            elif name == "queue.pop" and n.args[0] == 1:
                self.last_can_send = True
            elif name == "counts.can_inc_send":
                self.last_can_send = query_result(n)
            elif name == "recv.stream_wu_pop":
                self.wu = self.text("(LSendWindowUpdate %d false)" % n.args[0], emitted=[])
            elif name == "recv.stream_window_update":
                w = getattr(self, "wu", None)
                if w is not None:
                    w.f["text"] = "(LSendWindowUpdate %d true)" % n.args[0]
                    w.emitted = ["(%d, 8, false, false, 0)" % n.args[1]]
            self.walk(n.kids, opres)

    def run(self):
        for st in self.sc["trace"]:
            roots, stack = [], []
            for ev in st.get("ev", []):
                node = Node(ev[0], ev[1], ev[2:])
                while stack and stack[-1].depth >= node.depth:
                    stack.pop()
                (stack[-1].kids if stack else roots).append(node)
                stack.append(node)
            self.walk(roots, st["res"])
        if self.pending is not None:
            self.pending.res, self.pending = OK, None
        return self


def final_of(sc):
    """linked records of the last statistics snapshot: (sid, state code, pending_open, reset_at)"""
    snap = None
    for st in sc["trace"]:
        if st.get("snap"):
            snap = st["snap"]
    if not snap or sc["trace"][-1].get("snap") is not snap:
        return None
    out = []
    for s in snap.get("streams", []):
        if not s.get("linked", 1):
            continue
        try:
            t = streamstate.state_of(s["state"])
        except streamstate.ParseError:
            return None
        out.append("(%d, (%s), %s, %s)" % (s["id"], ", ".join(str(x) for x in code_of(t)), B(s["is_pending_open"]), B(s["is_pending_reset_expiration"])))
    return "[" + "; ".join(out) + "]"


def code_of(t):
    """canonical state tuple of streamstate.state_of -> State::verif_code numbers"""
    ini = {"User": 0, "Library": 1, "Remote": 2}
    peer = {"AwaitingHeaders": 0, "Streaming": 1}

    def err(tag, e):
        if e[0] == "Reset":
            return (tag, 0, e[2], ini[e[3]], e[1], 0)
        if e[0] == "GoAway":
            return (tag, 1, e[2], ini[e[3]], 0, len(e[1]))
        return (tag, 2, streamstate.IO_KINDS.get(e[1], 9), 0 if e[2] is None else 1, 0, 0 if e[2] is None else len(e[2]))
    if t[0] == "Idle":
        return (0, 0, 0, 0, 0, 0)
    if t[0] == "ReservedLocal":
        return (1, 0, 0, 0, 0, 0)
    if t[0] == "ReservedRemote":
        return (2, 0, 0, 0, 0, 0)
    if t[0] == "Open":
        return (3, peer[t[1]], peer[t[2]], 0, 0, 0)
    if t[0] == "HalfClosedLocal":
        return (4, peer[t[1]], 0, 0, 0, 0)
    if t[0] == "HalfClosedRemote":
        return (5, peer[t[1]], 0, 0, 0, 0)
    c = t[1]
    if c[0] == "EndStream":
        return (6, 0, 0, 0, 0, 0)
    if c[0] == "Error":
        return err(7, c[1])
    if c[0] == "ErrorAfterEndStream":
        return err(8, c[1])
    return (9, 0, c[1], 0, 0, 0)


def coq_case(sc):
    """-> (case term, label histogram, number of labels, projector)"""
    if sc.get("lib_panicked") or any(isinstance(st["res"], dict) and "panic" in st["res"] for st in sc["trace"]):
        return None, {}, 0, None
    p = Projector(sc).run()
    hist = {}
    items = []
    for e in p.entries:
        items.append("(%s, %s)" % (e.label(), e.expect()))
        hist[e.kind] = hist.get(e.kind, 0) + 1
    role = "Server" if sc["cfg"]["role"] == "server" else "Client"
    push = sc["cfg"].get("enable_push")
    push_local = True if push is None else bool(push)
    fin = final_of(sc)
    first = sc["cfg"].get("initial_stream_id") if role == "Client" else None
    case = "((%s, (%s, %s, [%s], %s)) : dispatch_case_from)" % ("Some %d" % first if first else "None", role, B(push_local), ";\n    ".join(items), opt(fin))
    return case, hist, len(items), p


def correspond_dispatch(rep, tier, seed, profiles=PROFILES, per=None, steps=None):
    per = per or (24 if tier == "quick" else 600)
    steps = steps or (110 if tier == "quick" else 150)
    cases, scs, hist = [], [], {}
    for pi, prof in enumerate(profiles):
        got, _ = sendflow.gen_scenarios(seed * 6361 + pi * 13 + 5, per, steps, prof)
        for sc in got:
            case, h, nl, _ = coq_case(sc)
            if not case or nl == 0:
                continue
            cases.append(case)
            scs.append(sc)
            for k, v in h.items():
                hist[k] = hist.get(k, 0) + v
    failing, err = common.coq_eval_failing("dispatch", PREAMBLE, "check_dispatch_from", cases, shard=10)
    if err:
        rep.violation("broken-correspondence", {"what": "coqc failed on generated dispatch cases", "log": err[-3000:]}, no_input=True)
    nontrivial = sum(1 for sc in scs if sum(1 for st in sc["trace"] for f in st["out"] if f["t"] in ("HEADERS", "DATA", "RST_STREAM", "PUSH_PROMISE")) >= 3)
    rep.correspondences.append({
        "name": "dispatch-lockstep", "cases": len(cases), "nontrivial": nontrivial, "disagreements": len(failing),
        "distribution": {"labels": hist, "profiles": list(profiles)},
        "rule": "random connection scenarios (client and server, scripted peer, profiles under distribution); every lock section of the dispatch "
                "layer becomes a label (received frame kinds, API calls, frames leaving the queues, reclaim, opening of a queued request, reset "
                "expiry, unlink / release of a record); the Coq model is stepped through the labels and compared at every label with the pre-state "
                "of the addressed record as the State facade prints it, the identifier bookkeeping, the frames queued / handed to the codec, the "
                "events handed to the application, the result (class, code, initiator, stream, debug data), and at the end with the last snapshot; "
                "non-trivial = the endpoint wrote at least three stream frames"})
    return scs, failing


def same_stream(ent, k):
    if k is None or k >= len(ent):
        return []
    m = re.match(r"\(?L\w+ (\d+)", ent[k].label())
    if not m:
        return []
    sid = m.group(1)
    out = ["%d %s" % (i, e.label()) for i, e in enumerate(ent[:k]) if re.match(r"\(?L\w+ %s\b" % sid, e.label())]
    return out[-14:]


def report_disagreements(rep, scs, failing, theorems=("C04_wire", "C09_wire", "C17_wire")):
    for i in failing[:3]:
        sc = scs[i]
        case, _, _, p = coq_case(sc)
        rc, out = common.coq_eval_raw("dispatch_diag", PREAMBLE + "Definition c : dispatch_case_from := %s.\nEval vm_compute in (diag_dispatch_from c, diag_stop_from c).\n" % case)
        m = re.search(r"= \((\d+), (\d+)\)", out)
        code = int(m.group(1)) if m else None
        stop = int(m.group(2)) if m else None
        k = (code // 10 - 1) if code and code >= 10 else None
        ent = p.entries
        rep.violation("broken-correspondence", {
            "correspondence": "Model/Dispatch.v check_dispatch vs /repo dispatch events",
            "diag_code": code, "model_guard": stop,
            "reason": {1: "pre-state of the addressed record differs", 2: "identifier bookkeeping differs", 3: "outputs differ", 4: "model Stuck",
                       5: "model Panic", 6: "a record has a shape the theorems exclude (wf_shape / ids_wf)", 7: "final snapshot differs"}.get((code or 0) % 10 if code != 7 else 7, "?"),
            "first_diverging_label": (ent[k].label() + "  expecting " + ent[k].expect()) if k is not None and k < len(ent) else None,
            "labels_before": [e.label() for e in ent[max(0, (k or 0) - 6):(k or 0)]],
            "labels_same_stream": same_stream(ent, k),
            "notes": p.notes[:5],
            "theorems_no_longer_tied_to_code": list(theorems),
            "scenario": {"cfg": sc["cfg"], "seed": sc.get("seed"), "i": sc.get("i"), "profile": sc.get("profile"),
                         "trace": [{"op": st["op"]} for st in sc["trace"]]}}, no_input=True)


def debug(seed, prof, idx, per=10, steps=110):
    """print the labels of one generated scenario and where the model stops"""
    got, _ = sendflow.gen_scenarios(seed, per, steps, prof)
    sc = [x for x in got if x.get("i") == idx][0]
    case, _, _, p = coq_case(sc)
    rc, out = common.coq_eval_raw("dispatch_diag", PREAMBLE + "Definition c : dispatch_case_from := %s.\nEval vm_compute in (diag_dispatch_from c, diag_stop_from c).\n" % case)
    print(out[-200:])
    for i, e in enumerate(p.entries):
        print(i, e.label(), "   ", e.expect() if os.environ.get("V") else "")
    return sc


if __name__ == "__main__" and len(sys.argv) > 1 and sys.argv[1] == "debug":
    debug(int(sys.argv[2]), sys.argv[3], int(sys.argv[4]))
    sys.exit(0)

if __name__ == "__main__":
    seed = int(sys.argv[1]) if len(sys.argv) > 1 else 1
    profs = tuple(sys.argv[2].split(",")) if len(sys.argv) > 2 else PROFILES
    per = int(sys.argv[3]) if len(sys.argv) > 3 else 12
    rep = common.Report("C09", "quick", seed)
    scs, failing = correspond_dispatch(rep, "quick", seed, profiles=profs, per=per)
    c = rep.correspondences[-1]
    print("cases", c["cases"], "nontrivial", c["nontrivial"], "failing", failing[:30])
    print(c["distribution"]["labels"])
    report_disagreements(rep, scs, failing)
    for pth, _ in rep.violations[:3]:
        print(open(pth).read()[:3500])


# ------------------------------------------------------------------------------------------------
# plug-in side: theorem lists, corpus, the correspondence entry used by c04 / c09 / c17

THEOREMS = {
    "C04": ["C04_wire_send_request_opens", "C04_wire_next_id_increases", "C04_wire_push_request_reserves",
            "C04_wire_send_response_queues", "C04_wire_send_data_queues", "C04_wire_send_trailers_queues",
            "C04_wire_send_info_queues", "C04_wire_pop_needs_send_ready", "C04_wire_pop_emits_front",
            "C04_wire_window_update_only_receiving", "C04_wire_send_closed_queues_nothing"],
    "C09": ["C09_wire_other_streams_untouched", "C09_wire_conn_error_required_except_known", "C09_wire_idle_is_conn_error",
            "C09_wire_refused_not_surfaced", "C09_wire_stream_error_resets", "C09_wire_poll2_reset", "C09_wire_tolerated",
            "C09_wire_forgotten_tolerated", "C09_wire_new_stream_tolerated", "C09_wire_conn_error_required_refuted",
            "C09_wire_lenient_witnesses", "C09_wire_push_refusal_fix_needed", "C09_wire_push_only_on_a_seen_request"],
    "C17": ["C17_wire_explicit_reset", "C17_wire_last_drop", "C17_wire_pop_scheduled", "C17_wire_reset_emitted_only_if_queued",
            "C17_wire_no_second_reset", "C17_wire_drop_after_end_nothing", "C17_wire_peer_reset_reaches_handles",
            "C17_wire_peer_reset_surfaces_exact", "C17_wire_conn_error_reaches_handles", "C17_wire_go_away_reaches_handles",
            "C17_wire_nonvacuous"],
}
MODULES = {"C04": "H2V.Properties.C04_wire", "C09": "H2V.Properties.C09_wire", "C17": "H2V.Properties.C17_wire"}
TARGETS = {"C04": "Properties/C04_wire.vo", "C09": "Properties/C09_wire.vo", "C17": "Properties/C17_wire.vo"}

PARTIAL = {
    "C04": "PARTIAL (dispatch layer, Properties/C04_wire.v): proved for one step from any state and all observed inputs - what each API call "
           "queues and under which state-machine verdict, that a pop emits exactly the front of that stream's queue (or the scheduled RST_STREAM) "
           "and never visits a stream that is idle on the wire, identifiers (next id, parity, overflow marker instead of wrap), nothing queued "
           "after END_STREAM or a reset; NOT proved: the composition of these local facts into one statement about whole emission logs "
           "(the sender automaton Ref/Rfc9113Stream.v wire_accepts is stated, the log-level invariant is open; two records of one id - an "
           "unlinked record with a scheduled reset and the record Inner::send_reset makes for a late frame - can both emit a RST_STREAM); header "
           "block contiguity and frame-type/stream-0 rules are the codec's (C12); the wire sender oracle stays the search side",
    "C09": "PARTIAL (dispatch layer, Properties/C09_wire.v): proved for one step from any state - confinement to the frame's own stream, "
           "connection error where RFC 9113 5.1 demands one EXCEPT the characterised `lenient` classes (frames on a promised stream whose "
           "PUSH_PROMISE is still queued, on a locally reset stream, HEADERS on reserved(local), WINDOW_UPDATE on reserved(remote): a stream error "
           "or silence instead of GOAWAY; closed witnesses, reproduced on the real crate; the two classes that handed something to the "
           "application were repaired, 28d67d9), refused frames never handed to "
           "the application, stream error => reset of that stream, tolerance of every frame 5.1 permits; the record-shape hypotheses wf_shape / "
           "ids_wf are checked at every label of every lock-step run, their invariance is not proved; connection-level frames (SETTINGS, PING, "
           "framing, HPACK) are C12/C14; the reaction / tolerance oracles stay the search side",
    "C17": "PARTIAL (dispatch layer, Properties/C17_wire.v): proved for one step from any state and every 32-bit code - explicit reset (one "
           "RST_STREAM with the caller's code after queued HEADERS of an unopened stream, none when closed cleanly, own queue only), last-handle "
           "drop (scheduled CANCEL / NO_ERROR), what the queue emits afterwards, no second reset, peer RST_STREAM / GOAWAY / connection error "
           "reaching every handle with the exact code, origin and debug data (composed with C17_state_*); under `no_push` (the queue holds no "
           "unsent PUSH_PROMISE; otherwise the promised streams are failed as well, repair cc6ac6c); NOT proved: the count of RST_STREAM frames "
           "over whole histories when one id has two records (see C04); the position of the RST_STREAM relative to frames already inside the "
           "codec is the data path's (C01); the reset oracle stays the search side",
}


def run_corpus_dispatch(rep):
    """replays under corpus/dispatch run first, through the real crate and the lock-step"""
    d = os.path.join(common.VERIF, "corpus", "dispatch")
    if not os.path.isdir(d):
        return
    ok, binp, log = common.cargo_build("conn")
    if not ok:
        raise common.HarnessBuildError(log)
    cases, names = [], []
    import json
    for fn in sorted(os.listdir(d)):
        if not fn.endswith(".json"):
            continue
        rc, out, _ = common.sh([binp, "--replay", os.path.join(d, fn)], timeout=120)
        try:
            o = json.loads(out.strip().splitlines()[-1])
        except Exception:
            continue
        case, _, nl, _ = coq_case(o)
        if case and nl:
            cases.append(case)
            names.append(fn)
    failing, err = common.coq_eval_failing("dispatch_corpus", PREAMBLE, "check_dispatch_from", cases, shard=10)
    for i in failing:
        rep.violation("broken-correspondence", {"correspondence": "Model/Dispatch.v check_dispatch on corpus replay", "replay": os.path.join(d, names[i])}, no_input=True)
    if err:
        rep.violation("broken-correspondence", {"what": "coqc failed on dispatch corpus cases", "log": err[-2000:]}, no_input=True)
    rep.correspondences.append({"name": "dispatch-corpus", "cases": len(cases), "nontrivial": len(cases), "disagreements": len(failing),
                                "distribution": {"replays": names}, "rule": "corpus/dispatch/*.json replayed on the real crate, then the lock-step"})


def correspond_for(rep, prop, tier, seed, search):
    """lock-step of the dispatch model for property `prop`; `search(rep, tier, seed)` is the property's oracle search"""
    rep.partial.append(PARTIAL[prop])
    run_corpus_dispatch(rep)
    per = 7 if tier == "quick" else 300
    scs, failing = correspond_dispatch(rep, tier, seed * 17 + ord(prop[-1]), per=per)
    if failing:
        before = len(rep.violations)
        found = search(rep, tier, seed)
        if not found or len(rep.violations) == before:
            report_disagreements(rep, scs, failing, theorems=THEOREMS[prop])
    return failing
