"""Send-side flow control: trace projection -> labels of coq/Model/SendFlow.v, lock-step check,
and the wire-level oracle (credit ledger of RFC 9113 6.9 evaluated on the implementation's frames).

Used by C02 (never exceed the peer's windows) and C16 (capacity API tells the truth).
"""
import json
import os
import sys

sys.path.insert(0, os.path.dirname(os.path.dirname(os.path.dirname(os.path.abspath(__file__)))))
import common  # noqa: E402

FLOW = {
    "prio.send_data", "prio.reserve_capacity", "prio.recv_stream_window_update",
    "prio.recv_connection_window_update", "prio.reclaim_all_capacity", "prio.reclaim_reserved_capacity",
    "prio.assign_connection_capacity", "prio.try_assign_capacity", "prio.clear_queue", "prio.pop_data",
    "prio.pop_scheduled_reset", "send.apply_remote_settings", "send.settings_dec_stream",
    "send.poll_capacity", "send.capacity", "send.send_reset", "send.handle_error",
    "send.schedule_implicit_reset", "stream.notify_capacity", "stream.notify_send", "stream.wait_send",
    "stream.new", "store.insert", "store.remove", "prio.drop_promised",
}
COMPOSITE = {
    "prio.send_data", "prio.reserve_capacity", "prio.recv_stream_window_update",
    "prio.recv_connection_window_update", "prio.pop_data", "prio.pop_scheduled_reset",
    "send.apply_remote_settings", "send.poll_capacity", "send.send_reset", "send.handle_error",
    "send.schedule_implicit_reset", "prio.try_assign_capacity", "prio.reclaim_all_capacity",
    "prio.reclaim_reserved_capacity", "prio.assign_connection_capacity", "prio.clear_queue",
}


class Node:
    __slots__ = ("name", "depth", "args", "kids", "step")

    def __init__(self, name, depth, args, step):
        self.name, self.depth, self.args, self.step = name, depth, args, step
        self.kids = []


def build_forest(trace):
    """events of all steps, as a forest by nesting depth (only FLOW family kept; a non-family
    scope is transparent: its children attach to the nearest family ancestor)."""
    roots = []
    stack = []  # (depth, node or None for non-family scopes)
    for st in trace:
        for e in st.get("ev", []):
            name, depth, args = e[0], e[1], e[2:]
            while stack and stack[-1][0] >= depth:
                stack.pop()
            if name in FLOW:
                n = Node(name, depth, args, st["i"])
                parent = None
                for d, p in reversed(stack):
                    if p is not None:
                        parent = p
                        break
                (parent.kids if parent is not None else roots).append(n)
                stack.append((depth, n))
            else:
                stack.append((depth, None))
    return roots


def Z(v):
    v = int(v)
    return "(%d)" % v if v < 0 else str(v)


def obs(a, reset=False):
    """a = S() args: serial, sid, streaming, send_closed, closed, pending, win, avail, req, buf.
    `pending` has bit 0 = is_pending_open, bit 1 = is_pending_push.  For capacity assignment both mean 'not yet
    sendable: assign nothing' (try_assign_capacity, fix 7fdfda9); send_reset only asks is_pending_open."""
    pend = (int(a[5]) & 1) if reset else (1 if int(a[5]) != 0 else 0)
    return "(mkObs %s %s %s %s)" % (common.coq_bool(a[2]), common.coq_bool(a[3]), common.coq_bool(a[4]), common.coq_bool(pend))


def pre_s(a):
    return "(Some (%d%%N, (%s, %s, %s, %s)))" % (a[0], Z(a[6]), Z(a[7]), Z(a[8]), Z(a[9]))


def pre_c(a, off=10):
    return "(Some (%s, %s))" % (Z(a[off]), Z(a[off + 1]))


def visits_of(node):
    """try_assign_capacity events nested under assign_connection_capacity nodes (any depth below)."""
    out = []

    def walk(n, under_acc):
        for k in n.kids:
            if k.name == "prio.try_assign_capacity" and under_acc:
                out.append("(mkV %d%%N %s)" % (k.args[0], obs(k.args)))
            walk(k, under_acc or k.name == "prio.assign_connection_capacity")
    walk(node, node.name == "prio.assign_connection_capacity")
    return "[" + "; ".join(out) + "]"


def dropped_promised(node):
    """serials of promised streams whose PUSH_PROMISE is dropped inside this entry (clear_queue of the parent resets them:
    fix cc6ac6c of /repo), with whether their send task was woken"""
    res = []

    def walk(n):
        for k in n.kids:
            if k.name == "prio.drop_promised":
                res.append(k.args[0])
            walk(k)
    walk(node)
    woken = set()

    def walk2(n):
        for k in n.kids:
            if k.name == "stream.notify_send" and k.args[2] == 1 and k.args[0] in res:
                woken.add(k.args[0])
            walk2(k)
    walk2(node)
    return [(c, c in woken) for c in res]


def observed_outs(node, extra=None):
    """outputs observable from nested events, in order: ONotifyCap/OWake (+ OData for pop_data).  Wake-ups of promised
    streams that are reset because their PUSH_PROMISE is dropped belong to those streams' own labels (dropped_promised)."""
    outs = []
    skip = {c for c, _ in dropped_promised(node)}
    if node.name == "prio.pop_data":
        outs.append("OData %d%%N %s" % (node.args[0], Z(node.args[14])))

    def walk(n):
        for k in n.kids:
            if k.name == "stream.notify_capacity":
                outs.append("ONotifyCap %d%%N" % k.args[0])
            elif k.name == "stream.notify_send" and k.args[2] == 1 and k.args[0] not in skip:
                outs.append("OWake %d%%N" % k.args[0])
            walk(k)
    walk(node)
    return outs


def find_kid(node, name):
    for k in node.kids:
        if k.name == name:
            return k
    return None


def labels_of_scenario(sc):
    """-> (maxbuf, init, [(label, expect)], final, info) or None if the scenario has no flow events"""
    trace = sc["trace"]
    roots = build_forest(trace)
    res_by_step = {st["i"]: (st["op"], st["res"]) for st in trace}
    labels = []
    live = {}
    counts = {}

    def add(lbl, s=None, c=None, outs=None, kind=None):
        e = "(mkE %s %s %s)" % (s or "None", c or "None", "(Some [%s])" % "; ".join(outs) if outs is not None else "None")
        labels.append("(%s, %s)" % (lbl, e))
        counts[kind or lbl.split()[0]] = counts.get(kind or lbl.split()[0], 0) + 1

    # the last send.capacity root of a `capacity`/`reserve` step carries the API result
    last_cap = {}
    for n in roots:
        if n.name == "send.capacity":
            last_cap[n.step] = n
    for n in roots:
        a = n.args
        nm = n.name
        if nm == "stream.new":
            continue
        for child, woke in dropped_promised(n):
            # the promised stream is reset together with the dropped PUSH_PROMISE: its queue is cleared, requested and
            # buffered go to 0, its send task is woken - the model's send_reset on a record that holds no capacity
            add("LSendReset %d%%N (mkObs false false false false) false false []" % child, None, None,
                ["OWake %d%%N" % child] if woke else [], kind="LSendReset(dropped-promise)")
        if nm == "store.insert":
            live[a[0]] = a[1]
            add("LNew %d%%N %s" % (a[0], Z(a[2])))
        elif nm == "store.remove":
            if a[0] in live:
                del live[a[0]]
                add("LRemove %d%%N" % a[0])
        elif nm == "prio.send_data":
            add("LSendData %d%%N %s %s %s %s" % (a[0], obs(a), Z(a[12]), common.coq_bool(a[13]), visits_of(n)),
                pre_s(a), pre_c(a), observed_outs(n) if a[12] <= 2147483647 and a[2] == 1 else None)
        elif nm == "prio.reserve_capacity":
            add("LReserve %d%%N %s %s %s" % (a[0], obs(a), Z(a[12]), visits_of(n)), pre_s(a), pre_c(a), observed_outs(n))
        elif nm == "prio.recv_stream_window_update":
            add("LRecvStreamWU %d%%N %s %s" % (a[0], obs(a), Z(a[12])), pre_s(a), pre_c(a), None)
        elif nm == "prio.recv_connection_window_update":
            add("LRecvConnWU %s %s" % (Z(a[2]), visits_of(n)), None, pre_c(a, 0), None)
        elif nm == "send.send_reset":
            add("LSendReset %d%%N %s %s %s %s" % (a[0], obs(a, reset=True), common.coq_bool(a[10]), common.coq_bool(a[11]), visits_of(n)),
                pre_s(a), None, observed_outs(n))
        elif nm in ("send.handle_error", "prio.pop_scheduled_reset"):
            add("LHandleError %d%%N %s" % (a[0], visits_of(n)), pre_s(a), None, observed_outs(n))
        elif nm == "send.schedule_implicit_reset":
            add("LImplicitReset %d%%N %s %s" % (a[0], obs(a), visits_of(n)), pre_s(a), None, observed_outs(n))
        elif nm == "send.apply_remote_settings":
            old, new = a[0], a[1]
            if new < 0:
                continue
            if new < old:
                touched = ["(%d%%N, %s)" % (k.args[0], obs(k.args)) for k in n.kids if k.name == "send.settings_dec_stream"]
            else:
                touched = ["(%d%%N, %s)" % (k.args[0], obs(k.args)) for k in n.kids if k.name == "prio.recv_stream_window_update"]
            add("LApplySettings %s [%s] %s" % (Z(new), "; ".join(touched), visits_of(n) if new < old else "[]"), None, None, None)
            for k in n.kids:
                if k.name == "send.send_reset":
                    ka = k.args
                    add("LSendReset %d%%N %s %s %s %s" % (ka[0], obs(ka, reset=True), common.coq_bool(ka[10]), common.coq_bool(ka[11]), visits_of(k)),
                        None, None, None)
        elif nm == "prio.pop_data":
            add("LPopData %d%%N %s %s" % (a[0], Z(a[12]), Z(a[13])), pre_s(a), pre_c(a), observed_outs(n))
        elif nm == "send.poll_capacity":
            op, res = res_by_step.get(n.step, ({}, None))
            exp = None
            if op.get("op") == "poll_capacity":
                if res == "Pending":
                    exp = ["ORes (-1)"]
                elif res == "None":
                    exp = ["ORes (-2)"]
                elif isinstance(res, dict) and "capacity" in res:
                    exp = ["ORes %d" % res["capacity"]]
            add("LPollCapacity %d%%N %s" % (a[0], obs(a)), pre_s(a), None, exp)
        elif nm == "send.capacity":
            op, res = res_by_step.get(n.step, ({}, None))
            exp = None
            if last_cap.get(n.step) is n and op.get("op") in ("capacity", "reserve") and isinstance(res, dict) and "capacity" in res:
                exp = ["ORes %d" % res["capacity"]]
            add("LCapacity %d%%N" % a[0], pre_s(a), None, exp)
        elif nm == "stream.notify_send":
            add("LNotify %d%%N" % a[0], None, None, ["OWake %d%%N" % a[0]] if a[2] == 1 else [])
        elif nm == "stream.wait_send":
            add("LWait %d%%N" % a[0])
        elif nm == "prio.try_assign_capacity":
            add("LTryAssign %d%%N %s" % (a[0], obs(a)), pre_s(a), pre_c(a), observed_outs(n))
        elif nm == "stream.notify_capacity":
            pass  # only occurs nested
        else:
            # a primitive of the family at top level would be an unmodelled entry into the mechanism
            add("LUnexpected_%s" % nm.replace(".", "_"))
    # final snapshot
    fin = "(@None ((Z * Z) * list (N * (Z * Z * Z * Z))))"
    for st in trace[-1:]:
        if "snap" in st:
            sn = st["snap"]
            c = sn["conn"]
            ss = []
            for s in sn["streams"]:
                ss.append("(%d%%N, (%s, %s, %s, %s))" % (s["serial"], Z(s["send_window"]), Z(s["send_available"]),
                                                          Z(s["requested_send_capacity"]), Z(s["buffered_send_data"])))
            if True:
                fin = "(Some ((%s, %s), [%s]))" % (Z(c["send_flow_window"]), Z(c["send_flow_available"]), "; ".join(ss))
            break
    maxbuf = sc["cfg"].get("max_send_buffer_size") or 409600
    return maxbuf, 65535, labels, fin, counts


def coq_case(sc):
    maxbuf, init, labels, fin, counts = labels_of_scenario(sc)
    return "(%s, %s, [%s], %s)" % (Z(maxbuf), Z(init), ";\n    ".join(labels), fin), counts, len(labels)


PREAMBLE = "From H2V Require Import Base.Tac Base.Bytes Model.SendFlow.\nLocal Open Scope Z_scope.\n"


# ------------------------------------------------------------------------------------------------
# wire-level oracle (independent of hooks and of the model): RFC 9113 6.9 credit ledger

def wire_ledger(sc):
    """Returns list of violations found on the endpoint's own frames:
       DATA bytes written on a stream / the connection exceed the credit the peer granted so far.
       credit(stream) = peer's SETTINGS_INITIAL_WINDOW_SIZE in force when the endpoint acknowledged
       it (the i-th ACK written answers the i-th SETTINGS fed) + every later acknowledged delta
       + WINDOW_UPDATE increments fed so far (an over-approximation of 'received': fed >= processed,
       so the oracle never raises a false alarm)."""
    fed_settings = []     # initial-window values of SETTINGS fed by the peer, in order (None if absent)
    acks = 0
    init_acked = 65535
    conn_credit = 65535
    conn_sent = 0
    streams = {}          # sid -> [credit, sent]
    wu_pending = {}       # WINDOW_UPDATEs fed for streams the endpoint has not opened on the wire yet
    viol = []
    cfg = sc["cfg"]
    first = None
    for (i, v) in cfg.get("peer_settings", []):
        if i == 4:
            first = v
    fed_settings.append(first)
    for st in sc["trace"]:
        op = st["op"]
        if op.get("op") == "peer" and isinstance(op.get("what"), dict):
            w = op["what"]
            if w.get("t") == "WINDOW_UPDATE":
                if w["sid"] == 0:
                    conn_credit += w["inc"]
                else:
                    if w["sid"] in streams:
                        streams[w["sid"]][0] += w["inc"]
                    else:
                        wu_pending[w["sid"]] = wu_pending.get(w["sid"], 0) + w["inc"]
            elif w.get("t") == "SETTINGS" and not w.get("ack"):
                val = None
                for (i, v) in w.get("params", []):
                    if i == 4:
                        val = v
                fed_settings.append(val)
        for f in st["out"]:
            t = f["t"]
            if t == "SETTINGS" and f.get("ack"):
                if acks < len(fed_settings):
                    v = fed_settings[acks]
                    if v is not None:
                        delta = v - init_acked
                        init_acked = v
                        for s in streams.values():
                            s[0] += delta
                acks += 1
            elif t in ("HEADERS", "PUSH_PROMISE"):
                sid = f["promised"] if t == "PUSH_PROMISE" else f["sid"]
                if sid not in streams:
                    streams[sid] = [init_acked + wu_pending.pop(sid, 0), 0]
            elif t == "DATA":
                sid = f["sid"]
                n = f["flen"]
                if sid not in streams:
                    streams[sid] = [init_acked + wu_pending.pop(sid, 0), 0]
                s = streams[sid]
                # a SETTINGS decrease may legally leave sent > credit (negative window); what is forbidden is
                # to send a non-empty DATA frame that the remaining credit does not cover
                if n > 0 and s[0] - s[1] < n:
                    viol.append({"step": st["i"], "sid": sid, "len": n, "why": "DATA exceeds the stream's remaining credit",
                                 "stream_credit": s[0], "stream_sent_before": s[1]})
                if n > 0 and conn_credit - conn_sent < n:
                    viol.append({"step": st["i"], "sid": sid, "len": n, "why": "DATA exceeds the connection's remaining credit",
                                 "conn_credit": conn_credit, "conn_sent_before": conn_sent})
                s[1] += n
                conn_sent += n
    return viol, {"data_frames": sum(1 for st in sc["trace"] for f in st["out"] if f["t"] == "DATA"),
                  "data_bytes": conn_sent, "streams_with_data": sum(1 for s in streams.values() if s[1] > 0)}


def capacity_oracle(sc):
    """C16 on implementation behaviour: poll_capacity never reports 0; reported capacity never exceeds
    the stream's or the connection's remaining wire credit (so it is usable without a further grant)."""
    viol = []
    for st in sc["trace"]:
        op, res = st["op"], st["res"]
        if op.get("op") == "poll_capacity" and isinstance(res, dict) and res.get("capacity") == 0:
            viol.append({"step": st["i"], "why": "poll_capacity returned Ready(Some(Ok(0)))"})
    return viol


def load_scenarios(out):
    scs, summary = [], {}
    for line in out.splitlines():
        line = line.strip()
        if not line.startswith("{"):
            continue
        o = json.loads(line)
        if "summary" in o:
            summary = o["summary"]
        elif "trace" in o:
            scs.append(o)
    return scs, summary


def gen_scenarios(seed, n, steps, profile, role="both", snap=True):
    rc, out = common.run_harness("conn", ["--seed", seed, "--n", n, "--steps", steps, "--profile", profile,
                                          "--role", role, "--snap", 1 if snap else 0], timeout=900)
    return load_scenarios(out)


def correspond_sendflow(rep, tier, seed, profiles=("flow", "bp", "mixed", "starve", "bp", "reset", "limits", "lastframe", "starvedrop")):
    per = 50 if tier == "quick" else 900
    steps = 100 if tier == "quick" else 140
    all_cases, all_scs, label_hist = [], [], {}
    for pi, prof in enumerate(profiles):
        scs, _ = gen_scenarios(seed * 7919 + pi, per, steps, prof)
        for sc in scs:
            case, counts, nl = coq_case(sc)
            if nl == 0:
                continue
            all_cases.append(case)
            all_scs.append(sc)
            for k, v in counts.items():
                label_hist[k] = label_hist.get(k, 0) + v
    failing, err = common.coq_eval_failing("sendflow", PREAMBLE, "check_sendflow", all_cases, shard=12)
    if err:
        rep.violation("broken-correspondence", {"what": "coqc failed on generated sendflow cases", "log": err[-3000:]}, no_input=True)
    nontrivial = sum(1 for sc in all_scs if any(f["t"] == "DATA" and f["flen"] > 0 for st in sc["trace"] for f in st["out"]))
    rep.correspondences.append({
        "name": "sendflow-lockstep", "cases": len(all_cases), "nontrivial": nontrivial, "disagreements": len(failing),
        "distribution": {"labels": label_hist, "profiles": list(profiles)},
        "rule": "random connection scenarios (profiles listed under distribution, client and server, scripted peer); every hooked "
                "entry into the send-flow mechanism becomes a label; the Coq model is stepped through the labels and compared "
                "with the observed pre-state at each label, the observed outputs and the final snapshot; non-trivial = the "
                "endpoint emitted at least one non-empty DATA frame"})
    return all_scs, failing


def oracle_sendflow(rep, scs, which="C02"):
    n_viol = 0
    stats = {"data_frames": 0, "data_bytes": 0}
    nontriv = 0
    for sc in scs:
        v, s = wire_ledger(sc)
        if which == "C16":
            v = capacity_oracle(sc)
        stats["data_frames"] += s["data_frames"]
        stats["data_bytes"] += s["data_bytes"]
        if s["data_bytes"] > 0:
            nontriv += 1
        if v:
            n_viol += 1
            if n_viol <= 3:
                rep.violation("failing-input", {"oracle": "wire credit ledger (RFC 9113 6.9)" if which == "C02" else "capacity API oracle",
                                                "violations": v[:5], "scenario": {"cfg": sc["cfg"], "seed": sc.get("seed"), "i": sc.get("i"),
                                                                                  "trace": [{"op": st["op"]} for st in sc["trace"]]}})
    rep.oracle_runs.append({"name": "wire-ledger" if which == "C02" else "capacity-oracle", "cases": len(scs), "nontrivial": nontriv,
                            "failures": n_viol, "stats": stats})
    return n_viol


def capacity_usable_oracle(rep, scs):
    """C16 on implementation behaviour, from the statistics snapshot after every step: the capacity assigned
    to streams never exceeds the connection window (sum available_r + conn available = conn window, all >= 0),
    and a stream's assigned capacity never exceeds its own window."""
    n_viol = 0
    checked = 0
    for sc in scs:
        bad = None
        for st in sc["trace"]:
            sn = st.get("snap")
            if not sn:
                continue
            c = sn["conn"]
            tot = sum(s["send_available"] for s in sn["streams"])
            checked += 1
            if c.get("conn_error"):
                continue
            if tot + c["send_flow_available"] != c["send_flow_window"] or c["send_flow_available"] < 0:
                bad = {"step": st["i"], "why": "assigned + unassigned != connection window", "sum_assigned": tot,
                       "conn_available": c["send_flow_available"], "conn_window": c["send_flow_window"]}
                break
            by_id = {s["id"]: s for s in sn["streams"]}
            for s in sn["streams"]:
                if s["send_available"] < 0 or s["send_available"] > max(0, s["send_window"]):
                    bad = {"step": st["i"], "why": "stream assigned capacity outside [0, max(0, window)]", "stream": s["id"],
                           "available": s["send_available"], "window": s["send_window"]}
                    break
                # "capacity a stream does not use returns to the connection": between operations no stream holds
                # more than it currently asks for (requested_send_capacity covers buffered data and the reservation)
                if s["send_available"] > s.get("requested_send_capacity", s["send_available"]):
                    bad = {"step": st["i"], "why": "a stream holds more assigned capacity than it requests (unused capacity not returned)",
                           "stream": s["id"], "available": s["send_available"], "requested": s["requested_send_capacity"], "state": s.get("state")}
                    break
            if not bad and c["send_flow_available"] > 0:
                # "... and reaches other waiting streams": free connection capacity while a queued waiter could take some
                for sid in sn.get("queues", {}).get("pending_capacity", []):
                    s = by_id.get(sid)
                    if s and s.get("requested_send_capacity", 0) > s["send_available"] and s["send_window"] > s["send_available"]:
                        bad = {"step": st["i"], "why": "connection capacity is free while a queued stream still waits for capacity",
                               "stream": sid, "available": s["send_available"], "requested": s["requested_send_capacity"],
                               "window": s["send_window"], "conn_available": c["send_flow_available"]}
                        break
            if bad:
                break
        if bad:
            n_viol += 1
            if n_viol <= 3:
                rep.violation("failing-input", {"oracle": "capacity conservation on the statistics snapshot", "violation": bad,
                                                "scenario": {"cfg": sc["cfg"], "seed": sc.get("seed"), "i": sc.get("i"),
                                                             "trace": [{"op": st["op"]} for st in sc["trace"]]}})
    rep.oracle_runs.append({"name": "capacity-conservation-snapshots", "cases": len(scs), "nontrivial": len(scs),
                            "failures": n_viol, "snapshots_checked": checked})
    return n_viol


def report_disagreements(rep, scs, failing):
    """model != implementation and no property violation was found: report the broken correspondence with
    the first diverging label of each (up to 3) failing scenario, evaluated inside Coq"""
    import re
    for i in failing[:3]:
        sc = scs[i]
        case, counts, nl = coq_case(sc)
        rc, out = common.coq_eval_raw("sendflow_diag", PREAMBLE + "Definition c := %s.\nEval vm_compute in (diag_sendflow c).\n" % case)
        m = re.search(r"= (\d+)%N", out)
        code = int(m.group(1)) if m else None
        mb, init, labels, fin, _ = labels_of_scenario(sc)
        k = (code // 10 - 1) if code else None
        rep.violation("broken-correspondence", {
            "correspondence": "Model/SendFlow.v check_sendflow vs /repo send-flow events",
            "diag_code": code, "reason": {1: "pre-state differs", 2: "outputs differ", 3: "model Stuck", 4: "model Panic"}.get((code or 0) % 10, "final snapshot differs"),
            "first_diverging_label": labels[k] if k is not None and k < len(labels) else None,
            "labels_before": labels[max(0, (k or 0) - 5):(k or 0)],
            "theorems_no_longer_tied_to_code": ["C02_never_exceeds_credit", "C16_capacity_is_backed"],
            "scenario": {"cfg": sc["cfg"], "seed": sc.get("seed"), "i": sc.get("i"), "trace": [{"op": st["op"]} for st in sc["trace"]]}},
            no_input=True)


# ------------------------------------------------------------------------------------------------
# pending_capacity FIFO (coq/Model/CapQueue.v): additive projection.  The labels are the ones of
# labels_of_scenario (unchanged); in addition every label gets the queue observed before it (rebuilt from
# the `queue.push` / `queue.pop` events of queue code 2 = NextSendCapacity, cross-checked against the
# statistics snapshot after every driver step) and the observations `ob` of the streams that
# assign_connection_capacity popped.

QUEUE_EVENTS = {"queue.push", "queue.pop", "queue.push_front"}
PENDING_CAPACITY_CODE = 2           # /repo/src/verif.rs queue_code("NextSendCapacity")
EVICTED_OBS = "(mkObs false false false false)"
PREAMBLE_Q = "From H2V Require Import Base.Tac Base.Bytes Model.SendFlow Model.CapQueue.\nLocal Open Scope Z_scope.\n"


def build_forest_q(trace):
    """build_forest, with the pending_capacity queue events kept as leaf nodes"""
    roots = []
    stack = []
    for st in trace:
        for e in st.get("ev", []):
            name, depth, args = e[0], e[1], e[2:]
            while stack and stack[-1][0] >= depth:
                stack.pop()
            keep = name in FLOW or (name in QUEUE_EVENTS and args and args[0] == PENDING_CAPACITY_CODE)
            if keep:
                n = Node(name, depth, args, st["i"])
                parent = None
                for d, p in reversed(stack):
                    if p is not None:
                        parent = p
                        break
                (parent.kids if parent is not None else roots).append(n)
                stack.append((depth, n))
            else:
                stack.append((depth, None))
    return roots


def _n_labels(n, live):
    """how many labels labels_of_scenario emits for this root (kept in step with it; checked by a count)"""
    nm, a = n.name, n.args
    if nm in ("stream.new", "stream.notify_capacity"):
        return 0
    if nm == "store.insert":
        live[a[0]] = a[1]
        return 1
    if nm == "store.remove":
        if a[0] in live:
            del live[a[0]]
            return 1
        return 0
    if nm == "send.apply_remote_settings":
        if a[1] < 0:
            return 0
        return 1 + sum(1 for k in n.kids if k.name == "send.send_reset")
    return 1


def qlabels_of_scenario(sc):
    """-> (maxbuf, init, [(label string, ob string, observed queue before)], final observed queue, info)"""
    trace = sc["trace"]
    maxbuf, init, labels, _fin, counts = labels_of_scenario(sc)
    plain = [x[1:x.index(", (mkE ")] for x in labels]
    roots = build_forest_q(trace)
    pyq = []                      # observed queue (serials)
    ids = {}                      # serial -> stream id
    info = {"pops": 0, "pushes": 0, "noop_pushes": 0, "evicted": 0, "requeued": 0, "clears": 0, "maxlen": 0,
            "inconsistent": None}
    entries = []
    live = {}
    li = 0

    def bad(why):
        if info["inconsistent"] is None:
            info["inconsistent"] = why

    def apply_ev(k):
        serial, sid, mask = k.args[1], k.args[2], k.args[5]
        ids[serial] = sid
        if k.name == "queue.pop":
            info["pops"] += 1
            if not pyq or pyq[0] != serial:
                bad("queue.pop of %d but the rebuilt queue is %r" % (serial, pyq))
                if serial in pyq:
                    pyq.remove(serial)
            else:
                pyq.pop(0)
        elif k.name == "queue.push":
            if mask & 2:
                info["noop_pushes"] += 1
                if serial not in pyq:
                    bad("queue.push of %d with the flag set but not in the rebuilt queue" % serial)
            else:
                info["pushes"] += 1
                if serial in pyq:
                    bad("queue.push of %d with the flag clear but in the rebuilt queue" % serial)
                else:
                    pyq.append(serial)
                info["maxlen"] = max(info["maxlen"], len(pyq))
        else:
            bad("push_front on pending_capacity")

    def walk(n, ob, skip=()):
        kids = n.kids
        for i, k in enumerate(kids):
            if k in skip:
                continue
            if k.name in QUEUE_EVENTS:
                if k.name == "queue.pop" and n.name == "prio.assign_connection_capacity":
                    nxt = next((x for x in kids[i + 1:] if x.name in ("queue.pop", "prio.try_assign_capacity")), None)
                    if nxt is not None and nxt.name == "prio.try_assign_capacity" and nxt.args[0] == k.args[1]:
                        ob.append("(%d%%N, %s)" % (k.args[1], obs(nxt.args)))
                    else:
                        info["evicted"] += 1
                        ob.append("(%d%%N, %s)" % (k.args[1], EVICTED_OBS))
                elif k.name == "queue.push" and n.name == "prio.try_assign_capacity" and not (k.args[5] & 2) \
                        and any(x.name == "queue.pop" and x.args[1] == k.args[1] for x in popped_here):
                    info["requeued"] += 1
                if k.name == "queue.pop":
                    popped_here.append(k)
                apply_ev(k)
            else:
                walk(k, ob, skip)

    by_step = {}
    for n in roots:
        by_step.setdefault(n.step, []).append(n)
    in_clear = False
    for st in trace:
        for n in by_step.get(st["i"], []):
            popped_here = []
            if n.name in QUEUE_EVENTS:
                # outside every hooked entry: Send::clear_queues -> clear_pending_capacity pops everything
                if n.name != "queue.pop":
                    bad("%s outside the send-flow entries" % n.name)
                if not in_clear:
                    entries.append(("QClear", None, list(pyq)))
                    info["clears"] += 1
                    in_clear = True
                apply_ev(n)
                continue
            if in_clear and pyq:
                bad("clear_pending_capacity left %r queued" % pyq)
            in_clear = False
            if n.name != "stream.new":
                # labels_of_scenario first emits one LSendReset per promised stream whose PUSH_PROMISE this entry drops
                for _ in dropped_promised(n):
                    if li < len(plain):
                        entries.append((plain[li], [], list(pyq)))
                    li += 1
            k = _n_labels(n, live)
            if k == 0:
                walk(n, [])
                continue
            nested = [x for x in n.kids if x.name == "send.send_reset"] if n.name == "send.apply_remote_settings" else []
            pre = list(pyq)
            ob = []
            walk(n, ob, skip=nested)
            if li < len(plain):
                entries.append((plain[li], ob, pre))
            li += 1
            for x in nested:
                pre = list(pyq)
                ob = []
                popped_here = []
                walk(x, ob)
                if li < len(plain):
                    entries.append((plain[li], ob, pre))
                li += 1
        sn = st.get("snap")
        if sn and "queues" in sn and "pending_capacity" in sn["queues"]:
            seen = [ids.get(s) for s in pyq]
            if seen != list(sn["queues"]["pending_capacity"]):
                bad("step %d: queue rebuilt from the events %r (ids %r) != snapshot %r" % (st["i"], pyq, seen, sn["queues"]["pending_capacity"]))
    info["label_drift"] = (li != len(plain))   # labels_of_scenario emits labels this projection does not know about
    return maxbuf, init, entries, list(pyq), info, counts


def _nlist(xs):
    return "(@nil N)" if not xs else "[" + "; ".join("%d%%N" % int(x) for x in xs) + "]"


def coq_case_q(sc):
    maxbuf, init, entries, fin, info, counts = qlabels_of_scenario(sc)
    es = []
    for lbl, ob, pre in entries:
        ql = "QClear" if lbl == "QClear" else "(QL (%s) [%s])" % (lbl, "; ".join(ob))
        es.append("(%s, %s)" % (ql, _nlist(pre)))
    return "(%s, %s, [%s], %s)" % (Z(maxbuf), Z(init), ";\n    ".join(es), _nlist(fin)), info, len(entries)


def capqueue_corpus():
    """committed replays under /verif/corpus/conn/c16_fifo_*.json, re-run on the real crate (they run first)"""
    import glob
    scs = []
    for path in sorted(glob.glob(os.path.join(common.VERIF, "corpus", "conn", "c16_fifo_*.json"))):
        rc, out = common.run_harness("conn", ["--replay", path], timeout=120)
        got, _ = load_scenarios(out)
        scs.extend(got)
    return scs


def correspond_capqueue(rep, tier, seed, profiles=("starve", "starve", "starve", "bufcap", "flow", "bp", "mixed", "reset")):
    """lock-step of coq/Model/CapQueue.v: the model's pending_capacity queue against the observed one at every
    label, and the visiting order it computes against the observed try_assign_capacity calls"""
    per = 32 if tier == "quick" else 700
    steps = 100 if tier == "quick" else 140
    cases, scs = [], []
    tot = {"pops": 0, "pushes": 0, "noop_pushes": 0, "evicted": 0, "requeued": 0, "clears": 0, "maxlen": 0}
    nontrivial = 0
    n_incons = 0
    n_drift = 0
    batches = [capqueue_corpus()]
    for pi, prof in enumerate(profiles):
        got, _ = gen_scenarios(seed * 6151 + 17 * pi + 3, per, steps, prof)
        batches.append(got)
    for got in batches:
        for sc in got:
            case, info, nl = coq_case_q(sc)
            if nl == 0:
                continue
            if info.get("label_drift"):
                n_drift += 1
                continue
            if info["inconsistent"]:
                n_incons += 1
                if n_incons <= 3:
                    rep.violation("broken-correspondence", {
                        "correspondence": "pending_capacity queue rebuilt from queue.push/queue.pop events vs statistics snapshot",
                        "why": info["inconsistent"],
                        "scenario": {"cfg": sc["cfg"], "seed": sc.get("seed"), "i": sc.get("i"), "trace": [{"op": st["op"]} for st in sc["trace"]]}},
                        no_input=True)
                continue
            cases.append(case)
            scs.append(sc)
            for k in tot:
                tot[k] = max(tot[k], info[k]) if k == "maxlen" else tot[k] + info[k]
            if info["pops"] > 0:
                nontrivial += 1
    failing, err = common.coq_eval_failing("capqueue", PREAMBLE_Q, "check_capqueue", cases, shard=12)
    if err:
        rep.violation("broken-correspondence", {"what": "coqc failed on generated capqueue cases", "log": err[-3000:]}, no_input=True)
    if n_drift > max(3, len(cases) // 10):
        rep.violation("broken-correspondence", {
            "correspondence": "qlabels_of_scenario vs labels_of_scenario (lib/props/parts/sendflow.py)",
            "why": "%d scenarios skipped: labels_of_scenario emits labels that the queue projection cannot attribute to a hooked entry "
                   "(update _n_labels / qlabels_of_scenario)" % n_drift}, no_input=True)
    rep.correspondences.append({
        "name": "capqueue-lockstep", "cases": len(cases), "nontrivial": nontrivial, "disagreements": len(failing),
        "distribution": {"queue_events": tot, "profiles": list(profiles), "skipped_label_drift": n_drift},
        "rule": "same scenarios as sendflow-lockstep (other seeds); the pending_capacity FIFO is carried by the model "
                "(Model/CapQueue.v qstep) and compared at every label with the queue observed through the queue.push/queue.pop "
                "hooks (itself cross-checked against the snapshot of the real queue after every driver step); the visiting order "
                "of assign_connection_capacity is computed by the model from its queue and compared with the observed "
                "try_assign_capacity calls; non-trivial = at least one stream was popped from pending_capacity"})
    return scs, failing


def report_disagreements_q(rep, scs, failing):
    import re
    for i in failing[:3]:
        sc = scs[i]
        case, info, nl = coq_case_q(sc)
        rc, out = common.coq_eval_raw("capqueue_diag", PREAMBLE_Q + "Definition c := %s.\nEval vm_compute in (diag_capqueue c).\n" % case)
        m = re.search(r"= (\d+)%N", out)
        code = int(m.group(1)) if m else None
        _, _, entries, fin, _, _ = qlabels_of_scenario(sc)
        k = (code // 10 - 1) if code else None
        ent = entries[k] if k is not None and k < len(entries) else None
        rep.violation("broken-correspondence", {
            "correspondence": "Model/CapQueue.v check_capqueue vs /repo pending_capacity queue events",
            "diag_code": code,
            "reason": {1: "queue before the label differs", 2: "computed visiting order differs from the observed try_assign_capacity calls",
                       3: "model Stuck", 4: "model Panic", 5: "final queue differs"}.get((code or 0) % 10, "?"),
            "first_diverging_label": {"label": ent[0], "ob": ent[1], "observed_queue_before": ent[2]} if ent else None,
            "labels_before": [e[0] for e in entries[max(0, (k or 0) - 5):(k or 0)]],
            "theorems_no_longer_tied_to_code": ["C16_fifo_no_overtaking", "C16_returned_capacity_reaches_waiters",
                                                "C16_no_starvation_under_returns", "C16_fifo_refines"],
            "scenario": {"cfg": sc["cfg"], "seed": sc.get("seed"), "i": sc.get("i"), "trace": [{"op": st["op"]} for st in sc["trace"]]}},
            no_input=True)


if __name__ == "__main__":
    rep = common.Report("C02", "quick", 1)
    scs, failing = correspond_sendflow(rep, "quick", int(sys.argv[1]) if len(sys.argv) > 1 else 1)
    print("cases", rep.correspondences[-1]["cases"], "failing", failing[:20], rep.correspondences[-1]["distribution"])
    print("oracle violations", oracle_sendflow(rep, scs))
    for p, _ in rep.violations[:3]:
        print(open(p).read()[:3000])
