"""Wake discipline / progress (property C06).

* `coop` harness runs (waker-only executor + cooperative closure, harness/src/bin/coop.rs): the implementation-side
  oracle of C06 (hook-independent except for the statistics snapshot) -> `oracle_coop`.
* projection of the recorded hook events (wake / registration vocabulary of hooks/apply_wake_hooks.py) and of the named
  wakers that fired in the harness to the labels of coq/Model/Wake.v; the comparison runs inside Coq (`check_wake`)
  -> `correspond_wake`.
* regression corpus /verif/corpus/coop/*.json (the three repaired lost wakeups) + corpus/conn/f1_window_stall.json.
"""
import json
import os
import re
import sys

sys.path.insert(0, os.path.dirname(os.path.dirname(os.path.dirname(os.path.abspath(__file__)))))
import common  # noqa: E402
from props.parts import sendflow  # noqa: E402

PREAMBLE = "From H2V Require Import Base.Tac Base.Bytes Model.Wake.\nLocal Open Scope N_scope.\n"

POLL_KIND = {"poll_response": 0, "poll_pushed_response": 0, "poll_data": 1, "poll_trailers": 2, "poll_capacity": 3,
             "poll_reset": 4, "respond_poll_reset": 4, "poll_push": 5, "poll_informational": 6}
TRANSPORT_OPS = {"peer", "eof", "read_fail", "write_mode", "write_chunk", "read_chunk", "sleep", "handshake"}
RKIND = {1: "RHeaders", 2: "RInfo", 3: "RTrailers", 4: "RData", 5: "RPromised", 6: "RPollData", 7: "RAfterReset", 8: "RDataUnobserved"}
WORK = {1: "WFrameQueued", 2: "WOpenQueued", 3: "WConnWindowOwed", 4: "WStreamWindowOwed", 5: "WTargetChanged",
        6: "WLastHandleDropped", 7: "WStreamRefDropped", 8: "WReservationLowered", 9: "WOnlyConnRefLeft"}
REGISTER = {"stream.wait_send": "SlSend", "stream.wait_open": "SlOpen", "stream.wait_recv": "SlRecv", "stream.wait_push": "SlPush"}
PRIMITIVE = {"stream.notify_send", "stream.notify_open", "stream.notify_recv", "stream.notify_push"}
STREAM_SITE = {"stream.notify_capacity": "StCapacity", "prio.pop_pending_open": "StOpened", "stream.set_reset": "StSetReset",
               "recv.recv_reset": "StRecvReset", "recv.handle_error": "StHandleError", "recv.recv_eof": "StRecvEof",
               "inner.push_queued": "StPushQueued"}


def task_of(op):
    name = op.get("op")
    if name in ("conn_poll", "poll_accept"):
        return 1
    if name == "poll_ready":
        return 2 + 1000 * int(op.get("sr", 0))
    if name == "poll_pong":
        return 3
    if name in POLL_KIND:
        return 100 + 8 * int(op.get("h", 0)) + POLL_KIND[name]
    return None


def b(x):
    return "true" if x else "false"


def project(trace):
    """-> (steps as Coq term, stats, problems)"""
    steps = []
    stats = {}
    problems = []
    kept = []  # trace index of every projected step

    def count(k):
        stats[k] = stats.get(k, 0) + 1

    for st in trace:
        op = st["op"]
        name = op.get("op", "")
        t = task_of(op)
        labels = []  # [label, pattern or None]
        if t is not None:
            labels.append(["LPoll %d" % t, None])
        tt = t if t is not None else 0
        site = None  # (index into labels, serial)
        recv_data_depth = None  # depth of the enclosing recv.recv_data scope (the connection task is processing a DATA frame)
        for e in st.get("ev", []):
            nm, args = e[0], e[2:]
            if recv_data_depth is not None and e[1] <= recv_data_depth:
                recv_data_depth = None
            if nm == "recv.recv_data":
                recv_data_depth = e[1]
            if nm in REGISTER:
                labels.append(["LRegister (%s %d) %d" % (REGISTER[nm], args[0], tt), None])
                count("reg:" + REGISTER[nm])
                site = None
            elif nm == "conn.task_register":
                labels.append(["LRegister SlConn %d" % tt, None])
                count("reg:SlConn")
                site = None
            elif nm == "ping.register_ping_task":
                labels.append(["LRegister SlPing %d" % tt, None])
                site = None
            elif nm == "ping.user_poll_pong":
                labels.append(["LRegister SlPong %d" % tt, None])
                site = None
            elif nm in STREAM_SITE:
                labels.append(["LSite (%s %d)" % (STREAM_SITE[nm], args[0]), []])
                site = (len(labels) - 1, args[0])
                count("site:" + STREAM_SITE[nm])
            elif nm == "recv.event":
                labels.append(["LSite (StRecvEvent %d %s %s)" % (args[0], RKIND.get(args[2], "RAfterReset"), b(args[3])), []])
                site = (len(labels) - 1, args[0])
                count("site:StRecvEvent:" + RKIND.get(args[2], "?"))
            elif nm == "recv.end_unobserved":
                labels.append(["LSite (StRecvEvent %d RDataUnobserved %s)" % (args[0], b(args[2])), []])
                site = (len(labels) - 1, args[0])
                count("site:StRecvEvent:RDataUnobserved")
            elif nm in PRIMITIVE:
                if site is None or site[1] != args[0]:
                    problems.append({"step": st["i"], "why": "primitive notification outside a modelled site", "event": e})
                    continue
                labels[site[0]][1].append(bool(args[2]))
            elif nm == "conn.task_wake":
                own = recv_data_depth is not None and args[0] in (3, 4)
                if args[0] not in WORK:
                    problems.append({"step": st["i"], "why": "connection wake at a site the model does not know", "event": e})
                    continue
                labels.append(["LSite (%s %s)" % ("StOwnWork" if own else "StWork", WORK[args[0]]), [] if own else [bool(args[1])]])
                count("site:StWork:" + WORK.get(args[0], "?"))
                site = None
            elif nm == "conn.self_wake":
                labels.append(["LSelfWake %d" % tt, None])
                count("site:self_wake")
                site = None
            elif nm == "ping.user_send":
                labels.append(["LSite (StUserPing %s)" % b(args[0] == 0), None])
                site = None
            elif nm == "ping.user_receive_pong":
                labels.append(["LSite (StPong %s)" % b(args[0] == 2), None])
                site = None
            elif nm == "ping.user_closed":
                labels.append(["LSite StPingClosed", None])
                site = None
        if not labels and name in TRANSPORT_OPS:
            continue
        wk = None if name in TRANSPORT_OPS else st.get("wakes", [])
        if wk:
            count("wakes")
        ls = "; ".join("(%s, %s)" % (l, "None" if p is None else "Some [%s]" % "; ".join(b(x) for x in p)) for l, p in labels)
        kept.append(st["i"])
        steps.append("([%s], %s)" % (ls, "None" if wk is None else "Some [%s]" % "; ".join(str(x) for x in wk)))
    project.last_kept = kept
    return "[" + ";\n   ".join(steps) + "]", stats, problems


# ------------------------------------------------------------------------------------------------ coop harness

def run_coop(seed, n, steps, profile, trace=False, budget=6000, timeout=900):
    args = ["--seed", seed, "--n", n, "--steps", steps, "--profile", profile, "--role", "both", "--budget", budget]
    if trace:
        args += ["--trace", 1]
    rc, out = common.run_harness("coop", args, timeout=timeout)
    scs, summary = [], {}
    for line in out.splitlines():
        line = line.strip()
        if not line.startswith("{"):
            continue
        o = json.loads(line)
        if "summary" in o:
            summary = o["summary"]
        elif "verdict" in o:
            scs.append(o)
    return scs, summary


def replay_payload(sc):
    return {"cfg": sc["cfg"], "closure_seed": sc.get("closure_seed"), "phase1": sc.get("phase1"), "closure": sc.get("closure"),
            "seed": sc.get("seed"), "i": sc.get("i"), "profile": sc.get("profile")}


def oracle_coop(rep, scs, name="coop-closure"):
    """the implementation side of C06: violations found by the waker-only executor at quiescence of the cooperative closure"""
    n_viol = 0
    kinds = {}
    quiet = sum(1 for sc in scs if sc["verdict"].get("quiescent"))
    alive = sum(1 for sc in scs if sc["verdict"].get("conn_alive"))
    tasks = sum(sc["verdict"].get("tasks", 0) for sc in scs)
    steps = sum(sc["verdict"].get("steps", 0) for sc in scs)
    for sc in scs:
        if not sc.get("violations"):
            continue
        n_viol += 1
        for v in sc["violations"]:
            kinds[v.get("kind")] = kinds.get(v.get("kind"), 0) + 1
        if n_viol <= 3:
            rep.violation("failing-input", {"oracle": "waker-only executor, cooperative closure (harness/src/bin/coop.rs): at quiescence an operation is still "
                                                      "pending / work is queued for a parked connection task / owed credit is withheld / the connection task spins",
                                            "violations": sc["violations"][:6], "verdict": sc["verdict"],
                                            "how_to_replay": "/verif/.build/cargo/debug/coop --replay <this file>   (or ./check C06 --replay <this file>)",
                                            "scenario": replay_payload(sc)})
    rep.oracle_runs.append({"name": name, "cases": len(scs), "nontrivial": sum(1 for sc in scs if sc["verdict"].get("tasks", 0) > 0),
                            "failures": n_viol, "quiescent": quiet, "budget_exhausted": len(scs) - quiet, "conn_alive_at_end": alive,
                            "application_tasks": tasks, "closure_steps": steps, "violation_kinds": kinds})
    return n_viol


def correspond_wake(rep, tier, seed, profiles=("legal", "queue", "flow", "bufcap", "limits", "recv", "starve", "bp", "mixed", "reset", "control", "shutdown")):
    per = 14 if tier == "quick" else 300
    steps = 90 if tier == "quick" else 140
    cases, scs_all, hist, unproj = [], [], {}, []
    for pi, prof in enumerate(profiles):
        scs, _ = run_coop(seed * 7331 + pi, per, steps, prof, trace=True, budget=2500 if tier == "quick" else 6000)
        for sc in scs:
            term, stats, problems = project(sc["trace"])
            for k, v in stats.items():
                hist[k] = hist.get(k, 0) + v
            if problems:
                unproj.append((sc, problems))
            cases.append(term)
            scs_all.append(sc)
    failing, err = common.coq_eval_failing("wake", PREAMBLE, "check_wake", cases, shard=12)
    if err:
        rep.violation("broken-correspondence", {"what": "coqc failed on generated wake cases", "log": err[-3000:]}, no_input=True)
    for sc, problems in unproj[:2]:
        rep.violation("broken-correspondence", {"what": "a primitive notification (notify_send / notify_open / notify_recv / notify_push) was recorded outside every "
                                                        "site of Model/Wake.v: the code notifies somewhere the model does not know",
                                                "problems": problems[:5], "scenario": replay_payload(sc)}, no_input=True)
    nontrivial = sum(1 for sc in scs_all if any(st.get("wakes") for st in sc["trace"] if st["op"].get("op") not in TRANSPORT_OPS))
    rep.correspondences.append({
        "name": "wake-lockstep", "cases": len(cases), "nontrivial": nontrivial, "disagreements": len(failing) + len(unproj),
        "distribution": {"labels": hist, "profiles": list(profiles)},
        "rule": "coop scenarios (generated prefix + cooperative closure under the waker-only executor, client and server); every hooked waker "
                "registration and every hooked site becomes a label of Model/Wake.v; inside Coq the model is stepped through them and compared "
                "with (a) the pattern of primitive notifications the code performed at each site (which slots, whether they held a waker) and "
                "(b) per harness step, the identities and order of the NAMED WAKERS THAT ACTUALLY FIRED in the executor; NoLostWake is "
                "re-evaluated on every reached state; non-trivial = at least one waker fired from h2 code"})
    return scs_all, failing


def report_disagreements(rep, scs, failing):
    for i in failing[:3]:
        sc = scs[i]
        term, _, _ = project(sc["trace"])
        rc, out = common.coq_eval_raw("wake_diag", PREAMBLE + "Definition c := %s.\nEval vm_compute in (diag_wake c).\n" % term)
        m = re.search(r"= (\d+)%N", out) or re.search(r"= (\d+)\s", out)
        code = int(m.group(1)) if m else None
        k = (code // 10 - 1) if code else None
        kept = getattr(project, "last_kept", [])
        by_i = {st["i"]: st for st in sc["trace"]}
        stp = by_i.get(kept[k]) if k is not None and k < len(kept) else None
        rep.violation("broken-correspondence", {
            "correspondence": "Model/Wake.v check_wake vs /repo wake events and the wakers fired in the harness",
            "diag_code": code,
            "reason": {2: "the code's notifications at a site differ from the model's table", 5: "the wakers that fired differ from the model's",
                       7: "a due task is not woken"}.get((code or 0) % 10, "?"),
            "step": None if stp is None else {"i": stp["i"], "op": {k2: v for k2, v in stp["op"].items() if k2 != "bytes"}, "wakes": stp.get("wakes"),
                                              "events": [e for e in stp.get("ev", []) if e[0].split(".")[0] in ("stream", "conn", "recv", "prio", "inner", "ping")][:40]},
            "theorems_no_longer_tied_to_code": ["C06_no_lost_wake", "C06_table_complete", "C06_wake_in_same_label", "C06_connection_woken_by_work"],
            "scenario": replay_payload(sc)}, no_input=True)


# ------------------------------------------------------------------------------------------------ corpus

def conn_replay(path):
    ok, binp, log = common.cargo_build("conn")
    if not ok:
        raise common.HarnessBuildError(log)
    rc, out, _ = common.sh([binp, "--replay", path], timeout=120)
    try:
        return json.loads(out.strip().splitlines()[-1])
    except Exception:
        return None


def run_corpus(rep):
    """the repaired lost wakeups must stay repaired: the wakers that the pre-repair tree did not fire must fire"""
    d = os.path.join(common.VERIF, "corpus", "coop")
    expect = {
        "push_wait_not_woken_on_end_stream.json": ("the push waiter 105 is woken when the response ends", lambda o: any(105 in st["wakes"] for st in o["trace"])),
        "push_wait_end_by_data.json": ("the push waiter 105 is woken when the response ends with a DATA frame", lambda o: any(105 in st["wakes"] for st in o["trace"])),
        "push_wait_end_by_trailers.json": ("the push waiter 105 is woken when the response ends with trailers", lambda o: any(105 in st["wakes"] for st in o["trace"])),
        "ready_wait_displaced_by_capacity_wait.json": ("opening the queued stream wakes both the readiness waiter 2 and the capacity waiter 111",
                                                         lambda o: any(2 in st["wakes"] and 111 in st["wakes"] for st in o["trace"])),
        "reserve_lowered_connection_not_woken.json": ("lowering the reservation wakes the connection task",
                                                        lambda o: any(st["op"].get("op") == "reserve" and st["op"].get("n") == 0 and 1 in st["wakes"] for st in o["trace"])),
    }
    fails = 0
    for fn, (what, pred) in sorted(expect.items()):
        p = os.path.join(d, fn)
        o = conn_replay(p)
        good = o is not None and pred(o)
        if not good:
            fails += 1
            rep.violation("failing-input", {"oracle": "corpus replay: " + what, "replay": p,
                                            "wakes": None if o is None else [[st["i"], st["op"].get("op"), st["wakes"]] for st in o["trace"] if st["wakes"]]})
    # the F1 window stall (shared with C03)
    p = os.path.join(common.VERIF, "corpus", "conn", "f1_window_stall.json")
    o = conn_replay(p)
    good = o is not None and any(f["t"] == "WINDOW_UPDATE" and f["sid"] == 1 for st in o["trace"] for f in st["out"])
    if not good:
        fails += 1
        rep.violation("failing-input", {"oracle": "corpus replay: after a lowered SETTINGS_INITIAL_WINDOW_SIZE is acknowledged the released capacity is advertised", "replay": p})
    rep.oracle_runs.append({"name": "corpus:coop", "cases": len(expect) + 1, "nontrivial": len(expect) + 1, "failures": fails})
    return fails


def replay(path):
    """./check C06 --replay file: a coop replay (phase1 + closure seed) or a plain op-list replay"""
    v = json.load(open(path))
    sc = v.get("scenario", v)
    if "phase1" in sc:
        ok, binp, log = common.cargo_build("coop")
        if not ok:
            print(log[-2000:])
            return 2
        rc, out, _ = common.sh([binp, "--replay", path], timeout=300)
        o = json.loads(out.strip().splitlines()[-1])
        print(json.dumps({"verdict": o["verdict"], "violations": o["violations"]}, indent=1))
        if o["violations"]:
            print("VIOLATION property=C06 replay=%s" % path)
            return 1
        return 0
    o = conn_replay(path)
    for st in (o or {}).get("trace", []):
        print(st["i"], {k: x for k, x in st["op"].items() if k != "bytes"}, "->", st["res"], "wakes", st["wakes"])
    return 0


if __name__ == "__main__":
    rep = common.Report("C06", "quick", 1)
    sd = int(sys.argv[1]) if len(sys.argv) > 1 else 1
    scs, failing = correspond_wake(rep, "quick", sd)
    print("cases", rep.correspondences[-1]["cases"], "nontrivial", rep.correspondences[-1]["nontrivial"], "failing", failing[:20])
    print(json.dumps(rep.correspondences[-1]["distribution"]["labels"]))
    print("oracle violations", oracle_coop(rep, scs), rep.oracle_runs[-1])
    if failing:
        report_disagreements(rep, scs, failing)
    for p, _ in rep.violations[:3]:
        print(open(p).read()[:2500])


# ----------------------------------------------------------------------------------------------
# search-only oracle on plain driver traces (hook-independent): ready without a wake-up

_KIND = {"poll_response": 0, "poll_pushed_response": 0, "poll_data": 1, "poll_trailers": 2, "poll_capacity": 3,
         "poll_reset": 4, "respond_poll_reset": 4, "poll_push": 5, "poll_informational": 6}
_SLOT = {0: (0, 1, 2, 6), 1: (0, 1, 2, 6), 2: (0, 1, 2, 6), 6: (0, 1, 2, 6), 3: (3, 4), 4: (3, 4), 5: (5,)}


def _waker_of(op):
    o = op.get("op")
    if o == "poll_ready":
        return 2 + 1000 * int(op.get("sr", 0))
    if o == "poll_pong":
        return 3
    if o in _KIND and op.get("h") is not None:
        return 100 + 8 * int(op["h"]) + _KIND[o]
    return None


def ready_without_wake(sc):
    """A poll returned Pending and parked its (named) waker; the same poll is made again later and is Ready although that
    waker never fired in between: the event that made it ready did not wake the task (a task polled only when woken - every
    real executor - would hang).  Same conventions as the ending oracle of C07: h2 keeps ONE waker per stream and direction,
    so a later registration in the same slot replaces the earlier one; a task that acts on its own send half is not parked."""
    parked = {}
    for st in sc["trace"]:
        op, res = st["op"], st.get("res")
        o = op.get("op")
        for wid in st.get("wakes") or []:
            parked.pop(wid, None)
        if isinstance(res, dict) and "panic" in res:
            return None
        if o in ("send_data", "send_trailers", "send_reset", "respond_reset", "send_response", "reserve", "send_pushed_response") and op.get("h") is not None:
            parked.pop(100 + 8 * int(op["h"]) + 3, None)
            parked.pop(100 + 8 * int(op["h"]) + 4, None)
        if o and o.startswith("drop_") and op.get("h") is not None:
            for k in range(8):
                parked.pop(100 + 8 * int(op["h"]) + k, None)
        if o in ("drop_sr", "clone_sr", "send_request"):
            parked.pop(2 + 1000 * int(op.get("sr", 0)), None)
        if o in ("drop_ping_pong", "send_ping", "take_ping_pong"):
            parked.pop(3, None)
        if o in ("drop_conn", "conn_drop"):
            return None                  # tearing the connection object down is judged by C07's ending oracle
        wid = _waker_of(op)
        if wid is None:
            continue
        was = parked.get(wid)
        if wid >= 100:
            base, k = 100 + 8 * ((wid - 100) // 8), (wid - 100) % 8
            for k2 in _SLOT.get(k, (k,)):
                if base + k2 != wid:
                    parked.pop(base + k2, None)
        if res == "Pending":
            parked[wid] = (st["i"], op)
        else:
            parked.pop(wid, None)
            if was is not None and was[1] == op and o == "poll_ready" and isinstance(res, str) and res.startswith("E("):
                # SendRequest::poll_ready waits for a concurrency slot; a connection error that makes the wait moot (a peer GOAWAY
                # that does not fail the queued request itself) is not "what it waits for": the task is woken when the queued
                # request opens or fails.  Not demanded by the property, not judged.
                continue
            if was is not None and was[1] == op:
                return {"step": st["i"], "why": "a poll that had parked its waker is Ready now although the waker never fired in between "
                                                "(the event that completed it did not wake the task)", "op": op, "parked_at": was[0],
                        "result": str(res)[:120]}
    return None


def oracle_ready_without_wake(rep, tier, seed, profiles=("mixed", "flow", "bp", "recv", "reset", "pushlimit", "queue", "shutdown"), name="ready-without-wake",
                              per=None, role="both"):
    """plain driver scripts (named wakers of the deterministic driver): a parked poll that is later Ready was woken in between;
    the committed regression replays run first"""
    import glob
    per = per or (40 if tier == "quick" else 600)
    scs = []
    for path in sorted(glob.glob(os.path.join(common.VERIF, "corpus", "conn", "c06_*.json"))):
        rc, out = common.run_harness("conn", ["--replay", path], timeout=120)
        got, _ = sendflow.load_scenarios(out)
        scs.extend(got)
    for pi, prof in enumerate(profiles):
        got, _ = sendflow.gen_scenarios(seed * 8191 + 29 * pi + 7, per, 130, prof, role=role, snap=False)
        scs.extend(got)
    n_viol = 0
    polls = 0
    for sc in scs:
        polls += sum(1 for st in sc["trace"] if st.get("res") == "Pending" and _waker_of(st["op"]) is not None)
        v = ready_without_wake(sc)
        if v:
            n_viol += 1
            if n_viol <= 3:
                rep.violation("failing-input", {"oracle": "deterministic driver, named wakers: a poll that parked its waker became Ready without that waker firing (lost wake-up)",
                                                "violation": v, "scenario": {"cfg": sc["cfg"], "seed": sc.get("seed"), "i": sc.get("i"), "profile": sc.get("profile"),
                                                                             "trace": [{"op": st["op"]} for st in sc["trace"]]}})
    rep.oracle_runs.append({"name": name, "cases": len(scs), "nontrivial": sum(1 for sc in scs if any(st.get("res") == "Pending" for st in sc["trace"])),
                            "failures": n_viol, "parked_polls": polls})
    return n_viol
