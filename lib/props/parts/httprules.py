"""C13 - malformed HTTP messages are neither delivered nor generated.

correspond_httprules(rep, tier, seed)
    runs the REAL crate (harness binary `httprules`: one client or server endpoint against the scripted
    raw peer, header blocks written with the independent table-free HPACK writer) on the built-in corpus,
    on structured mostly-valid messages with one or two injected defects, on random field lists and on the
    send-side catalogue, and evaluates the model (`Model.HttpRules.check_http_recv` / `check_http_send`) on
    the same inputs inside Coq: what the application was handed after every frame, the RST_STREAM / GOAWAY
    the endpoint wrote, and what the send API put on the wire must all agree.  Then runs the oracle.

search_httprules(rep, tier, seed, reason=None)
    the ORACLE alone on fresh inputs: the RFC reference predicate (a Python transcription of
    coq/Ref/Rfc9113Http.v, cross-checked against the Coq definition on every run) evaluated on what the
    implementation did.  "The application was handed a message that `malformed_block` flags", "a body
    ended cleanly although the DATA octets differ from the accounted content-length" or "the send API put a
    malformed block on the wire" is a violation of C13 -> rep.violation("failing-input", ...), EXCEPT
    when the case is in a class listed in /verif/known_findings.json (rep.known(...), exit status 0):
        KF-C13-1 response-without-status   : handed over as a response and no ":status" field
        KF-C13-2 pseudo-field-in-trailers  : handed over as trailers and some pseudo-header field
        KF-C13-3 send-side-uri-forms       : emitted (promised) request lacks :scheme for a non-CONNECT
                                             method, or plain CONNECT has :scheme/:path or lacks :authority
    A block in a known class is re-examined after the known defect is repaired (":status 200" added,
    pseudo fields dropped from the trailers): any further defect is reported as a violation.
"""
import json
import os
import sys

sys.path.insert(0, os.path.join(os.path.dirname(os.path.abspath(__file__)), "..", ".."))
import common  # noqa: E402

THEOREMS = [
    "C13_recv_except_known", "C13_known_1_refuted", "C13_known_2_refuted", "C13_stream_step",
    "C13_length", "C13_length_clean_iff", "C13_length_head", "C13_length_trailers",
    "C13_send", "C13_send_except_known", "C13_send_push_except_known", "C13_known_3_refuted", "C13_nonvacuous",
]

PARTIAL = [
    "the syntax checks of :authority/:scheme/:path done by the `http` crate are universally quantified booleans "
    "(every theorem holds whatever they answer); name/value/method/status/UTF-8 validators are the predicates of "
    "Model/HttpTokens.v (modelled, tied by correspondence only)",
    "one header block per HEADERS/PUSH_PROMISE frame (no CONTINUATION); the HPACK layer is C11's; field lists enter "
    "the model as the decoder yields them",
    "send side: the http types make uppercase names and invalid pseudo-fields unrepresentable, so the theorem covers "
    "connection-specific fields/TE (enforced by Send::check_headers) and the pseudo-field set built by Pseudo::request "
    "(except known class KF-C13-3); a user-supplied content-length is not checked by the send API; requests carrying the "
    "ext::Protocol extension are not modelled on the send side",
]

DEFAULT_MAX_HLS = 16 << 20

PREAMBLE = ("From Coq Require Import String.\n"
            "From H2V Require Import Base.Tac Base.Bytes Model.HttpTokens Ref.Rfc9113Http Model.HttpRules.\n"
            "Local Open Scope N_scope.\n"
            "Definition V := mk_verdicts.\nDefinition Rq m a p f := mk_request m None a None p f.\n"
            "Definition Rs := mk_response.\nDefinition B (s : string) : list N := bstr s.\n")


# ------------------------------------------------------------------------------------------------
# rendering of cases as Coq terms

def cbytes(b):
    b = bytes(b)
    if b and all(32 <= x < 127 and x != 34 for x in b):
        return '(B "%s")' % b.decode("ascii")
    return "[" + "; ".join(str(x) for x in b) + "]"


def cfield(f):
    return "(%s, %s)" % (cbytes(f[0]), cbytes(f[1]))


def cfields(fs):
    return "[" + "; ".join(cfield(f) for f in fs) + "]"


def cbool(b):
    return "true" if b else "false"


def copt(x, f):
    return "None" if x is None else "(Some %s)" % f(x)


def cend(s):
    if s == "None":
        return "ENone"
    if isinstance(s, str) and s.startswith("E("):
        parts = s[2:].rstrip(")").split(",")
        kind, code = parts[0], parts[1]
        if kind in ("reset", "goaway") and code.isdigit():
            return "(EErr %s %s)" % (cbool(kind == "goaway"), code)
    return "(EErr false 999)"      # something the model never produces


def creq(r):
    return "(Rq %s %s %s %s)" % (cbytes(r["method"]), copt(r.get("authority"), cbytes), copt(r.get("protocol"), cbytes),
                                 cfields(r["fields"]))


def cresp(r):
    return "(Rs %d %s)" % (r["status"], cfields(r["fields"]))


def cevent(e):
    k, v = e[0], e[1]
    if k == "accept":
        return "AAccept " + creq(v)
    if k == "accept_end":
        return "AAcceptEnd " + cend(v)
    if k == "push":
        return "APush " + creq(v)
    if k == "push_end":
        return "APushEnd " + cend(v)
    if k == "info":
        return "AInfo " + cresp(v)
    if k == "resp":
        return "AResp " + cresp(v)
    if k == "resp_err":
        return "ARespErr " + cend(v)
    if k == "data":
        return "AData %d" % v
    if k == "data_end":
        return "ADataEnd " + cend(v)
    if k == "trailers":
        return "ATrailers " + cfields(v)
    if k == "trailers_end":
        return "ATrailersEnd " + cend(v)
    return "ADataEnd (EErr false 997)"


def cframe(fr):
    if fr["t"] == "D":
        return "FData %d %s" % (fr["len"], cbool(fr["eos"]))
    v = "(V %s %s %s)" % tuple(cbool(x) for x in fr["v"])
    if fr["t"] == "H":
        return "FHeaders %s %s %s" % (cfields(fr["fields"]), cbool(fr["eos"]), v)
    return "FPush %s %s" % (cfields(fr["fields"]), v)


def wrote_431(case):
    for h in case["obs"]["wire"].get("headers_written", []):
        fs = h.get("fields")
        if isinstance(fs, list) and any(f[0] == ":status" and f[1] == "431" for f in fs):
            return True
    return False


def coq_recv_case(c):
    cfg = "(mk_config %s %s %s %d)" % ("Client" if c["role"] == "client" else "Server", cbool(c["head_req"]), cbool(c["ext"]),
                                       c["hls"] if c["hls"] is not None else DEFAULT_MAX_HLS)
    frames = "[" + "; ".join(cframe(f) for f in c["frames"]) + "]"
    ob = c["obs"]
    evs = "[" + "; ".join("[" + "; ".join(cevent(e) for e in per) + "]" for per in ob["events"]) + "]"
    w = ob["wire"]
    rst = "[" + "; ".join("(%d, %d)" % (r[0], r[1]) for r in w["rst"]) + "]"
    go = copt(w["goaway"], lambda x: "%d" % x)
    return "(%s, %s, (%s, %s, %s, %s))" % (cfg, frames, evs, rst, go, cbool(wrote_431(c)))


URI_PARTS = {   # http::Uri -> (scheme, authority, path_and_query)
    "https://example.com/": ("https", "example.com", "/"),
    "http://example.com/a?b": ("http", "example.com", "/a?b"),
    "https://example.com/x": ("https", "example.com", "/x"),
    "https://example.com/p": ("https", "example.com", "/p"),
    "https://example.com": ("https", "example.com", "/"),
    "example.com": (None, "example.com", None),
    "example.com:443": (None, "example.com:443", None),
    "/relative": (None, None, "/relative"),
    "/": (None, None, "/"),
}
APIS = {"send_request": 0, "send_response": 1, "send_informational": 2, "send_trailers": 3, "push_request": 4}


def send_fields(c):
    fs = [(f[0].encode(), f[1].encode()) for f in c["fields"]]
    if c["api"] == "send_trailers" and not fs:
        fs = [(b"x-trailer", b"t")]
    return fs


def send_wire(c):
    """the block the API call put on the wire, or None when it refused"""
    res = c["obs"].get("res")
    ok = res == "ok" or (isinstance(res, dict) and "h" in res)
    blocks = [w for w in c["obs"].get("wire", []) if w["t"] in ("HEADERS", "PUSH_PROMISE")]
    if not ok:
        return None, blocks
    if not blocks or not isinstance(blocks[0].get("fields"), list):
        return "missing", blocks
    return [(f[0].encode(), f[1].encode()) for f in blocks[0]["fields"]], blocks


def coq_send_case(c):
    us, ua, up = URI_PARTS[c["uri"]]
    enc = lambda s: cbytes(s.encode())
    wire, _ = send_wire(c)
    if wire == "missing":
        wire = [(b"?", b"?")]
    return "(%d, %s, (%s, %s, %s), %d, %s, %s)" % (
        APIS[c["api"]], enc(c["method"]), copt(us, enc), copt(ua, enc), copt(up, enc), c["status"],
        cfields(send_fields(c)), copt(wire, cfields))


# ------------------------------------------------------------------------------------------------
# the reference predicate in Python (transcription of coq/Ref/Rfc9113Http.v; `crosscheck_reference`
# evaluates the Coq definition on the same blocks on every run and compares)

REQUEST_PSEUDO = [b":method", b":scheme", b":authority", b":path", b":protocol"]
DEFINED_PSEUDO = REQUEST_PSEUDO + [b":status"]
CONN_SPECIFIC = [b"connection", b"keep-alive", b"proxy-connection", b"transfer-encoding", b"upgrade"]


def is_pseudo(f):
    return f[0][:1] == b":"


def has(n, fs):
    return any(f[0] == n for f in fs)


def value_of(n, fs):
    for f in fs:
        if f[0] == n:
            return f[1]
    return None


def values_of(n, fs):
    return [f[1] for f in fs if f[0] == n]


def bad_name_octet(b):
    return b <= 32 or 65 <= b <= 90 or b >= 127 or b == 58


def bad_field(f):
    if is_pseudo(f):
        return f[0] not in DEFINED_PSEUDO
    return len(f[0]) == 0 or any(bad_name_octet(b) for b in f[0]) or any(b in (0, 10, 13) for b in f[1])


def pseudo_after_regular(fs):
    seen_regular = False
    for f in fs:
        if is_pseudo(f):
            if seen_regular:
                return True
        else:
            seen_regular = True
    return False


def bad_fields(fs):
    return (any(bad_field(f) for f in fs) or any(f[0] in CONN_SPECIFIC for f in fs) or
            any(f[0] == b"te" and f[1] != b"trailers" for f in fs) or pseudo_after_regular(fs) or
            any(len(values_of(n, fs)) > 1 for n in DEFINED_PSEUDO))


def decimal(v):
    if len(v) == 0 or not all(48 <= b <= 57 for b in v):
        return None
    return int(bytes(v).decode())


def bad_content_length(fs):
    vs = [decimal(v) for v in values_of(b"content-length", fs)]
    return any(v is None for v in vs) or len(set(vs)) > 1


def declared_length(fs):
    vs = values_of(b"content-length", fs)
    return decimal(vs[0]) if vs else None


def bad_request(fs):
    if has(b":status", fs) or not has(b":method", fs):
        return True
    m = value_of(b":method", fs)
    if m == b"CONNECT" and not has(b":protocol", fs):
        return has(b":scheme", fs) or has(b":path", fs) or not has(b":authority", fs)
    return (not has(b":scheme", fs) or not has(b":path", fs) or value_of(b":path", fs) == b"" or
            (has(b":protocol", fs) and m != b"CONNECT"))


def bad_pushed_request(fs):
    dl = declared_length(fs)
    return bad_request(fs) or value_of(b":method", fs) not in (b"GET", b"HEAD") or (dl is not None and dl != 0)


def status_1xx(fs):
    v = value_of(b":status", fs)
    return v is not None and len(v) == 3 and v[0] == 49 and 48 <= v[1] <= 57 and 48 <= v[2] <= 57


def bad_response(fs):
    return any(has(n, fs) for n in REQUEST_PSEUDO) or not has(b":status", fs)


KINDS = ["Request", "Response", "Informational", "PushedRequest", "Trailers"]
RECEIVED_BY = {("Server", "Request"), ("Server", "Trailers"), ("Client", "Response"), ("Client", "Informational"),
               ("Client", "PushedRequest"), ("Client", "Trailers")}


def malformed(role, kind, fs):
    if (role, kind) not in RECEIVED_BY or bad_fields(fs):
        return True
    if kind == "Request":
        return bad_request(fs)
    if kind == "PushedRequest":
        return bad_pushed_request(fs)
    if kind == "Response":
        return bad_response(fs) or status_1xx(fs)
    if kind == "Informational":
        return bad_response(fs) or not status_1xx(fs)
    return any(is_pseudo(f) for f in fs)


def accounted(kind, no_content):
    return kind == "Request" or (kind == "Response" and not no_content)


def malformed_block(role, kind, no_content, eos, fs):
    return (malformed(role, kind, fs) or (accounted(kind, no_content) and bad_content_length(fs)) or
            (kind == "Informational" and eos) or (kind == "Trailers" and not eos))


# the known classes; the same predicates as KnownClass / KnownSend in coq/Proofs/HttpRulesProofs.v
def known_class(kind, fs):
    if kind == "Response" and not has(b":status", fs):
        return "KF-C13-1"
    if kind == "Trailers" and any(is_pseudo(f) for f in fs):
        return "KF-C13-2"
    return None


def repair_known(kid, fs):
    if kid == "KF-C13-1":
        return [(b":status", b"200")] + list(fs)
    if kid == "KF-C13-2":
        return [f for f in fs if not is_pseudo(f)]
    return fs


def known_send(fs):
    m = value_of(b":method", fs)
    if m is None:
        return None
    if m != b"CONNECT":
        return "KF-C13-3" if not has(b":scheme", fs) else None
    if has(b":protocol", fs):
        return None
    return "KF-C13-3" if (has(b":scheme", fs) or has(b":path", fs) or not has(b":authority", fs)) else None


def repair_known_send(fs):
    """what the block would be with the pseudo-field set of 8.3.1 / 8.5"""
    m = value_of(b":method", fs)
    regular = [f for f in fs if not is_pseudo(f)]
    if m == b"CONNECT":
        return [(b":method", m), (b":authority", value_of(b":authority", fs) or b"h:1")] + regular
    ps = [f for f in fs if is_pseudo(f)]
    if not has(b":scheme", fs):
        ps.append((b":scheme", b"https"))
    return ps + regular


KNOWN_TEXT = {
    "KF-C13-1": "KF-C13-1 response without :status delivered as 200",
    "KF-C13-2": "KF-C13-2 pseudo-header fields in trailers dropped and the trailers delivered",
    "KF-C13-3": "KF-C13-3 send API emits requests lacking mandatory pseudo-fields for unusual URI forms",
}


def listed_known():
    kf = common.load_known_findings()
    return {k.get("id") for k in kf.get("known", []) if k.get("property") == "C13"}


def bf(fs):
    return [(bytes(f[0]), bytes(f[1])) for f in fs]


def show_fields(fs):
    return [[bytes(f[0]).decode("latin1"), bytes(f[1]).decode("latin1")] for f in fs]


def oracle_recv(c):
    """-> (list of violations, list of known ids hit, number of messages handed over)"""
    role = "Client" if c["role"] == "client" else "Server"
    viol, known, handed = [], [], 0
    head = None          # (kind, fields, no_content, frame index) of the head handed to the application
    data_sum = 0
    for j, fr in enumerate(c["frames"]):
        if fr["t"] == "D":
            data_sum += fr["len"]
        evs = c["obs"]["events"][j] if j < len(c["obs"]["events"]) else []
        for e in evs:
            kind = {"accept": "Request", "resp": "Response", "info": "Informational", "push": "PushedRequest",
                    "trailers": "Trailers"}.get(e[0])
            if kind is not None:
                handed += 1
                if fr["t"] == "D":
                    viol.append({"why": "a message was handed over after a DATA frame", "frame": j, "event": e[0]})
                    continue
                fs = bf(fr["fields"])
                eos = fr.get("eos", False)
                no_content = False
                if kind == "Response":
                    st = value_of(b":status", fs)
                    no_content = c["head_req"] or st in (b"204", b"304")
                if kind in ("Request", "Response"):
                    head = (kind, fs, no_content, j)
                    data_sum = 0
                if malformed_block(role, kind, no_content, eos, fs):
                    kid = known_class(kind, fs)
                    rec = {"why": "the application was handed a %s that RFC 9113 section 8 calls malformed" % kind,
                           "role": role, "kind": kind, "end_stream": eos, "fields": show_fields(fs), "frame": j,
                           "application_saw": e}
                    if kid is None:
                        viol.append(rec)
                    else:
                        known.append(kid)
                        fixed = repair_known(kid, fs)
                        if malformed_block(role, kind, no_content, eos, fixed):
                            rec["why"] += " for a further reason besides known class %s" % kid
                            viol.append(rec)
            if e[0] == "data_end" and e[1] == "None" and head is not None:
                kind, fs, no_content, hj = head
                dl = declared_length(fs)
                if accounted(kind, no_content) and not bad_content_length(fs) and dl is not None and dl != data_sum:
                    viol.append({"why": "clean end of body although the DATA octets differ from content-length",
                                 "role": role, "kind": kind, "fields": show_fields(fs), "content_length": dl,
                                 "data_octets": data_sum, "frame": j})
    return viol, known, handed


def oracle_send(c):
    wire, blocks = send_wire(c)
    viol, known = [], []
    if wire is None:
        if blocks:
            viol.append({"why": "the send API refused the call but a header block went on the wire", "blocks": blocks})
        return viol, known, 0
    if wire == "missing":
        return [{"why": "the send API accepted the call but no decodable header block was written"}], known, 0
    kind, role = {"send_request": ("Request", "Server"), "push_request": ("PushedRequest", "Client"),
                  "send_response": ("Response", "Client"), "send_informational": ("Informational", "Client"),
                  "send_trailers": ("Trailers", "Client")}[c["api"]]
    if malformed(role, kind, wire):
        rec = {"why": "the send API put a malformed %s on the wire" % kind, "api": c["api"], "method": c["method"],
               "uri": c["uri"], "header_map": c["fields"], "wire_fields": show_fields(wire)}
        kid = known_send(wire) if kind in ("Request", "PushedRequest") else None
        if kid is None:
            viol.append(rec)
        else:
            known.append(kid)
            if malformed(role, kind, repair_known_send(wire)):
                rec["why"] += " for a further reason besides known class %s" % kid
                viol.append(rec)
    return viol, known, 1


# ------------------------------------------------------------------------------------------------

def run_cases(seed, n, mode):
    rc, out = common.run_harness("httprules", ["--seed", seed, "--n", n, "--mode", mode], timeout=3000)
    cases, summary = [], {}
    for line in out.splitlines():
        line = line.strip()
        if not line.startswith("{"):
            continue
        try:
            o = json.loads(line)
        except ValueError:
            continue
        if "summary" in o:
            summary = o["summary"]
        elif "mode" in o:
            cases.append(o)
    return cases, summary


def usable(c):
    ob = c.get("obs", {})
    return isinstance(ob, dict) and not ob.get("error") and not ob.get("panic") and ("events" in ob or "res" in ob)


def crosscheck_reference(rep, recv_cases, limit=400, send_cases=()):
    """the Python transcription of the reference predicate and of the known-class predicates must agree
    with coq/Ref/Rfc9113Http.v and coq/Proofs/HttpRulesProofs.v (known_class_b, known_send)"""
    blocks, seen = [], set()
    for c in recv_cases:
        for fr in c["frames"]:
            if fr["t"] == "D":
                continue
            fs = bf(fr["fields"])
            key = (tuple(fs), fr.get("eos", False))
            if key in seen:
                continue
            seen.add(key)
            blocks.append((fs, fr.get("eos", False)))
            if len(blocks) >= limit:
                break
    for c in send_cases:
        wire, _ = send_wire(c)
        if isinstance(wire, list) and (tuple(wire), False) not in seen:
            seen.add((tuple(wire), False))
            blocks.append((wire, False))
    terms = []
    for fs, eos in blocks:
        bits = []
        for role in ("Client", "Server"):
            for kind in KINDS:
                for nc in (False, True):
                    bits.append(cbool(malformed_block(role, kind, nc, eos, fs)))
        for kind in KINDS:
            bits.append(cbool(known_class(kind, fs) is not None))
        bits.append(cbool(known_send(fs) is not None))
        terms.append("(%s, %s, [%s])" % (cfields(fs), cbool(eos), "; ".join(bits)))
    pre = PREAMBLE.replace("Model.HttpRules.", "Model.HttpRules Proofs.HttpRulesProofs.") + (
        "Definition kinds := [Request; Response; Informational; PushedRequest; Trailers].\n"
        "Definition ref_bits (fs : list field) (eos : bool) : list bool :=\n"
        "  flat_map (fun r => flat_map (fun k => map (fun hk => malformed_block r k hk eos fs) [HasContent; NoContent])\n"
        "    kinds) [Client; Server] ++ map (fun k => known_class_b k fs) kinds ++ [known_send fs].\n"
        "Definition check_ref (x : list field * bool * list bool) : bool :=\n"
        "  let '(fs, eos, bits) := x in list_eqb Bool.eqb (ref_bits fs eos) bits.\n")
    failing, err = common.coq_eval_failing("httprules_ref", pre, "check_ref", terms, shard=100)
    if err:
        rep.violation("broken-correspondence", {"what": "coqc failed on the reference cross-check", "log": err[-3000:]}, no_input=True)
    for i in failing[:3]:
        rep.violation("broken-correspondence", {"what": "the Python oracle and the Coq reference / known-class predicates disagree on a block",
                                                "fields": show_fields(blocks[i][0]), "end_stream": blocks[i][1]}, no_input=True)
    return len(terms), len(failing)


def run_oracle(rep, cases, name):
    listed = listed_known()
    n_viol, handed_total, known_hits = 0, 0, {}
    for c in cases:
        if not usable(c):
            continue
        v, k, handed = oracle_recv(c) if c["mode"] == "recv" else oracle_send(c)
        handed_total += handed
        for kid in k:
            if kid in listed:
                known_hits[kid] = known_hits.get(kid, 0) + 1
                rep.known(KNOWN_TEXT[kid])
            else:
                v.append({"why": "class %s is not listed in known_findings.json" % kid})
        if v:
            n_viol += 1
            if n_viol <= 3:
                if c["mode"] == "recv":
                    c = shrink(c, lambda cs: [bool(oracle_recv(x)[0]) for x in cs])
                    v = oracle_recv(c)[0] or v
                payload = {"oracle": "RFC 9113 section 8 reference predicate (coq/Ref/Rfc9113Http.v)", "violations": v[:4],
                           "case": {k2: c[k2] for k2 in c if k2 != "obs"}, "observed": c["obs"],
                           "replay": "httprules --mode %s (seed/index in case)" % c["mode"]}
                rep.violation("failing-input", payload)
    rep.oracle_runs.append({"name": name, "cases": len(cases), "nontrivial": handed_total, "failures": n_viol,
                            "known_class_hits": known_hits})
    return n_viol


def correspond_httprules(rep, tier, seed):
    rep.partial.extend(PARTIAL)
    n = 760 if tier == "quick" else 19000
    cases, summary = run_cases(seed, n, "all")
    good = [c for c in cases if usable(c)]
    bad = [c for c in cases if not usable(c)]
    for c in bad[:3]:
        rep.violation("broken-correspondence", {"what": "the harness could not run a case (error or panic)", "case": c}, no_input=True)
    recv = [c for c in good if c["mode"] == "recv"]
    send = [c for c in good if c["mode"] == "send"]
    f1, err1 = common.coq_eval_failing("httprules_recv", PREAMBLE, "check_http_recv", [coq_recv_case(c) for c in recv], shard=120)
    f2, err2 = common.coq_eval_failing("httprules_send", PREAMBLE, "check_http_send", [coq_send_case(c) for c in send], shard=200)
    for err in (err1, err2):
        if err:
            rep.violation("broken-correspondence", {"what": "coqc failed on generated httprules cases", "log": err[-3000:]}, no_input=True)
    nref, badref = crosscheck_reference(rep, recv, 300 if tier == "quick" else 3000, send)
    handed = sum(1 for c in recv for per in c["obs"]["events"] for e in per if e[0] in ("accept", "resp", "info", "push", "trailers"))
    refused = sum(1 for c in recv if c["obs"]["wire"]["rst"] or c["obs"]["wire"]["goaway"] is not None)
    rep.correspondences.append({
        "name": "httprules-recv", "cases": len(recv), "nontrivial": sum(1 for c in recv if len(c["frames"]) > 0),
        "disagreements": len(f1),
        "distribution": {"categories": summary.get("categories", {}), "messages_handed_to_application": handed,
                         "cases_with_stream_or_connection_error": refused, "reference_crosscheck_blocks": nref,
                         "reference_crosscheck_disagreements": badref},
        "rule": "built-in corpus of tricky cases first; structured mostly-valid requests/responses/interim responses/pushes/"
                "trailers with 0-2 defects of the catalogue and a DATA plan relative to content-length; header-list-size limits; "
                "fully random field lists and frame orders; client and server role; compared: everything the application was "
                "handed after every frame (byte-exact), RST_STREAM and GOAWAY codes, 431 answers"})
    rep.correspondences.append({
        "name": "httprules-send", "cases": len(send), "nontrivial": sum(1 for c in send if send_wire(c)[0] is not None),
        "disagreements": len(f2), "distribution": {k: v for k, v in summary.get("categories", {}).items() if k.startswith("send:")},
        "rule": "send_request/send_response/send_informational/send_trailers/push_request with header maps drawn from a pool "
                "biased to connection-specific fields and TE values, and URI forms (absolute, authority-form, path-only, CONNECT); "
                "compared: refusal and the exact field list on the wire"})
    rep.samples.extend([{k: c[k] for k in ("role", "cat", "frames")} for c in recv[:2]])
    n_viol = run_oracle(rep, good, "rfc9113-section-8-reference")
    if (f1 or f2) and n_viol == 0:
        found = search_httprules(rep, tier, seed, reason="correspondence")
        if not found:
            report_disagreements(rep, recv, f1, send, f2)
    return good, f1, f2


def replay_cases(case_list):
    """re-run receive cases (dicts with role/head_req/ext/hls/frames) on the real crate"""
    os.makedirs(common.CASES, exist_ok=True)
    path = os.path.join(common.CASES, "httprules_replay.json")
    with open(path, "w") as f:
        json.dump([{k: c.get(k) for k in ("role", "head_req", "ext", "hls", "frames")} for c in case_list], f)
    rc, out = common.run_harness("httprules", ["--replay", path], timeout=600)
    res = []
    for line in out.splitlines():
        line = line.strip()
        if line.startswith("{"):
            try:
                o = json.loads(line)
            except ValueError:
                continue
            if "mode" in o:
                res.append(o)
    return res


def smaller(c):
    """candidate reductions of a receive case: drop the last frame, drop one field of one block"""
    out = []
    fr = c["frames"]
    if len(fr) > 1:
        out.append(dict(c, frames=fr[:-1]))
    for j, f in enumerate(fr):
        if f["t"] == "D":
            continue
        for k in range(len(f["fields"])):
            g = dict(f, fields=f["fields"][:k] + f["fields"][k + 1:])
            out.append(dict(c, frames=fr[:j] + [g] + fr[j + 1:]))
    return out


def shrink(c, still_bad, rounds=12):
    """greedy: while some reduction still shows the problem on the REAL crate, take it.
    still_bad(list of re-run cases) -> list of booleans"""
    cur = c
    for _ in range(rounds):
        cands = smaller(cur)[:60]
        if not cands:
            break
        rerun = [r for r in replay_cases(cands) if usable(r)]
        if not rerun:
            break
        flags = still_bad(rerun)
        nxt = next((r for r, b in zip(rerun, flags) if b), None)
        if nxt is None:
            break
        cur = nxt
    return cur


def disagrees(cases):
    failing, err = common.coq_eval_failing("httprules_shrink", PREAMBLE, "check_http_recv", [coq_recv_case(c) for c in cases], shard=120)
    bad = set(failing)
    return [i in bad for i in range(len(cases))]


def report_disagreements(rep, recv, f1, send, f2):
    import re
    for i in f1[:3]:
        c = shrink(recv[i], disagrees)
        rc, out = common.coq_eval_raw("httprules_diag", PREAMBLE + "Definition c : recv_case := %s.\nEval vm_compute in (diag_http_recv c).\n"
                                      "Eval vm_compute in (let '(cfg, fs, _) := c in model_obs cfg fs).\n" % coq_recv_case(c))
        m = re.search(r"= (\d+)%N", out)
        code = int(m.group(1)) if m else None
        rep.violation("broken-correspondence", {
            "correspondence": "Model/HttpRules.v check_http_recv vs /repo",
            "what_differs": {1: "the script left the modelled territory", 2: "what the application was handed", 3: "RST_STREAM frames",
                             4: "GOAWAY", 5: "431 answer"}.get(code, "?"),
            "model_says": out[-1500:], "case(shrunk)": {k: c[k] for k in c if k != "obs"}, "observed": c["obs"],
            "readable": [[f["t"], f.get("eos"), show_fields(bf(f["fields"])) if "fields" in f else f.get("len")] for f in c["frames"]],
            "theorems_no_longer_tied_to_code": THEOREMS}, no_input=True)
    for i in f2[:3]:
        c = send[i]
        rep.violation("broken-correspondence", {
            "correspondence": "Model/HttpRules.v check_http_send vs /repo", "case": c,
            "theorems_no_longer_tied_to_code": ["C13_send", "C13_send_except_known", "C13_send_push_except_known"]}, no_input=True)


def replay(path):
    """./check C13 --replay <file>: re-run the recorded case on the real crate and re-evaluate the oracle"""
    with open(path) as f:
        body = json.load(f)
    case = body.get("case") or body.get("case(shrunk)")
    if not case or case.get("mode") == "send" or "frames" not in case:
        print("replay: the file holds no receive case; send-side cases are replayed by `httprules --mode send --n 0`")
        return 1
    res = [r for r in replay_cases([case]) if usable(r)]
    if not res:
        print("replay: the harness could not run the case")
        return 1
    viol, known, _ = oracle_recv(res[0])
    print(json.dumps({"observed": res[0]["obs"], "oracle_violations": viol, "known": known}, indent=1)[:4000])
    if viol:
        print("VIOLATION property=C13 replay=%s" % path)
        return 1
    print("OK property=C13 replay shows no violation (known classes hit: %s)" % sorted(set(known)))
    return 0


def search_httprules(rep, tier, seed, reason=None):
    """oracle only, on fresh inputs"""
    rounds = 3 if tier == "quick" else 10
    total = 0
    for k in range(rounds):
        cases, _ = run_cases(seed * 7919 + 101 * k + 17, 1200, "all")
        cases = [c for c in cases if usable(c)]
        total += len(cases)
        if run_oracle(rep, cases, "rfc9113-section-8-reference(search %d)" % k) > 0:
            return True
    rep.extra["search_cases"] = total
    return False


if __name__ == "__main__":
    import time
    t0 = time.time()
    tier = sys.argv[2] if len(sys.argv) > 2 else "quick"
    rep = common.Report("C13_selftest", tier, 1)
    good, f1, f2 = correspond_httprules(rep, tier, int(sys.argv[1]) if len(sys.argv) > 1 else 1)
    for cr in rep.correspondences:
        print(cr["name"], "cases", cr["cases"], "disagreements", cr["disagreements"])
    print("recv failing", f1[:20], "send failing", f2[:20])
    print("distribution", json.dumps(rep.correspondences[0]["distribution"])[:3000])
    for o in rep.oracle_runs:
        print("oracle", o)
    print("known hits", rep.known_hits)
    print("violations", len(rep.violations))
    for p, _ in rep.violations[:4]:
        print(p)
        print(open(p).read()[:2500])
    print("wall %.1fs" % (time.time() - t0))
