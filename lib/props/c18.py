"""C18 — per-connection state is bounded by configuration, whatever the peer does."""
import common
from props.parts import bounds

THEOREMS = ["C18_quotas_invariant", "C18_initial_quotas_ok", "C18_quotas_hold", "C18_over_limit_stream_refused",
            "C18_reset_flood_disconnects", "C18_error_flood_disconnects", "C18_reset_expiry_quota", "C18_data_frames_bounded",
            "C18_data_frame_refused", "C18_records_bounded_except_known", "C18_push_promises_unbounded_refuted",
            "C18_interim_responses_unbounded_refuted", "C18_nonvacuous_budget", "C18_nonvacuous_bound"]
PARTIAL = [
    "proved for ALL call sequences on the lock-stepped model of counts.rs: num_local_reset_streams <= max, num_remote_reset_streams <= max, "
    "num_local_error_reset_streams <= max (with C05: num_recv_streams <= advertised limit); the admission decisions of Recv::open, "
    "Recv::recv_reset (pending accept), enqueue_reset_expiration and the library-reset quota, transcribed as runs of that model, admit only "
    "below the cap and otherwise answer REFUSED_STREAM / GOAWAY(ENHANCE_YOUR_CALM) / do not remember the stream, leaving the counters "
    "unchanged; the DATA-frame budget (Budget, record_data_frame, release_data_frame; lock-stepped) bounds buffered small frames by the "
    "budget plus the bytes large frames paid back and buffered empty frames by 100;",
    "the bound B(config, app_held) = max_recv + max_send + max_local_error_resets + max_reset_streams + max_pending_accept_resets + app_held "
    "on stored records is proved from CLASS CONSTRAINTS (held / counted / expiring / unaccepted / reserved / queued / none) that are "
    "evaluated inside Coq on every statistics snapshot of the generated abuse scenarios while the connection is alive; that every reachable "
    "state of the real crate satisfies them is explored, not proved (it needs the state machine: e.g. 'an unheld, uncounted, unexpiring "
    "record in pending_accept was reset by the peer or by the library');",
    "known findings: KF-C18-1 reserved pushed streams (PUSH_PROMISE) and KF-C18-2 queued interim responses (1xx HEADERS) have NO cap in "
    "the code: C18_records_bounded_except_known excludes the reserved class, C18_push_promises_unbounded_refuted / "
    "C18_interim_responses_unbounded_refuted give for every n a peer sequence reaching n; the two corpus replays are re-run on every check "
    "and reported as KNOWN-FINDING;",
    "known finding KF-C19-3 (C19) adds a third unbounded class: closed records leaked by the eviction from pending_capacity (one per stream "
    "reset while it waited for connection capacity) stay in the store for the rest of the connection; the classification puts them into the "
    "same excluded bucket as the reserved streams (witness on the record model: C19_known_evict_refuted);",
    "modelled-not-verified: CONTINUATION / header-list limits of framed_read.rs (calc_max_continuation_frames, abuse multiplier) and the "
    "single-slot PING / SETTINGS acknowledgements (C14_ack_exactly_once) are only exercised by the abuse profile (observed: GOAWAY "
    "too_many_continuations / header_list_way_too_large; owed replies of unheld records and queue lengths measured in observed_maxima); "
    "bytes held by the application (send buffers, unreleased receive capacity) are C02 / C03's subject",
]


def correspond(rep, tier, seed):
    rep.partial.extend(PARTIAL)
    rep.assumptions.append("snapshots of a connection that has been failed (conn_error set) are outside the class constraints: no further frame "
                           "is read, records only go away; callers' query-then-increment discipline of counts.rs: Stuck guards, lock-stepped (C05 / C19)")
    corpus = bounds.corpus_scenarios()
    scs, (bscs, fb), (dscs, fd) = bounds.correspond_bounds(rep, tier, seed, extra=corpus)
    n_viol = bounds.oracle_bounds(rep, scs)
    if (fb or fd) and n_viol == 0:
        if not search(rep, tier, seed, reason="correspondence"):
            if fb:
                bounds.report_disagreements(rep, "bounds", bscs, fb)
            if fd:
                bounds.report_disagreements(rep, "budget", dscs, fd)


def search(rep, tier, seed, reason=""):
    from props.parts import sendflow
    for k in range(3 if tier == "quick" else 10):
        scs, _ = sendflow.gen_scenarios(seed * 7103 + k * 29, 150, 140, "abuse", snap=True)
        before = len(rep.violations)
        if bounds.oracle_bounds(rep, scs) > 0 and len(rep.violations) > before:
            return True
    return False
