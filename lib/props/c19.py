"""C19 — finished streams are forgotten and an idle client connection closes itself."""
import glob
import json
import os

import common
from props.parts import store

THEOREMS = ["C19_initial_state_ok", "C19_invariant", "C19_no_panic", "C19_no_stale_key", "C19_released_is_removed",
            "C19_no_premature_removal", "C19_kept_has_reason", "C19_kept_has_reason_quiescent", "C19_reset_slot_returned",
            "C19_idle_client_closes", "C19_streams_drop_wakes", "C19_handle_drop_wakes", "C19_handle_drop_closed_wakes",
            "C19_one_reference_left", "C19_evicted_record_released_except_known", "C19_known_evict_refuted", "C19_nonvacuous", "C19_slot_reuse_nonvacuous"]
PARTIAL = [
    "proved on the model of the record life cycle (store.rs slab + id map with explicit slot reuse, ref_count, the six queue flags, the "
    "queues as FIFO lists, Inner.refs, Counts embedded) for ALL label sequences and all observed inputs: the invariant (handles, queue "
    "entries and id-map entries resolve to the record they were taken for; ref_count = number of live handles; flag set <=> exactly one "
    "queue entry; refs = live Streams objects + live handles; counters invariant of C05); no assert / underflow / dangling-key panic "
    "unless a caller passes a key that does not resolve; transition_after removes a released record, unlinks it and frees its "
    "concurrency slot; nothing else removes a record that has a handle or sits in a queue; the idle-close decision and both wake-ups "
    "(Streams::drop, drop_stream_ref) fire exactly when one reference is left;",
    "'every stored record has a reason' is proved with the ghost marks r_closed (is_closed() as last seen by transition_after) and r_owed "
    "(a pop / handle drop after which transition_after has not run yet): that every lock-atomic section ends without an owed record is "
    "the Quiesce guard, CHECKED on every generated trace by the lock-step, not proved; that no code path closes a stream without "
    "calling transition_after is explored by the snapshot oracle (true is_closed() of every record after every step);",
    "known finding KF-C19-3: Prioritize::assign_connection_capacity pops a reset stream from pending_capacity and `continue`s without "
    "transition_after; if that queue membership was the record's last reason it is never removed (replay "
    "corpus/store/known_evicted_from_pending_capacity_leaks_record.json, re-run on every check; a first repair, bbd3023, was withdrawn "
    "because the nested transition removed records under an outer caller). C19_evicted_record_released_except_known: when the pop IS "
    "followed by transition_after the record is removed; C19_known_evict_refuted: without it the model rejects the section at the Quiesce "
    "guard (Stuck 9), so the theorems about quiescent states do not cover executions of this class;",
    "known finding KF-C19-4: a stream that is closed (reset by the peer / abandoned) while it is queued in pending_open, waiting for a "
    "concurrency slot of the peer, stays stored after the last handle is gone until a slot frees (for ever under a limit of 0): the record "
    "HAS a reason in the sense of C19_kept_has_reason (queue membership), so the theorems hold; the end-to-end claim 'nothing is retained "
    "for a finished stream' does not (replay corpus/store/known_reset_while_pending_open_is_kept.json, oracle class: closed record at "
    "quiescence whose only reason is is_pending_open);",
    "repaired while building this check (regression replays corpus/store/*.json re-run on every check): reset slot leak (304fa07), lost "
    "wake-up of the connection on the last handle drop (6b1d165), PUSH_PROMISE on a cancelled stream failing the connection (631577b);",
    "modelled-not-verified: the linked-list representation of store::Queue (next pointers) is abstracted to a list; the key kept in "
    "Prioritize::in_flight_data_frame is outside the model (protected in the code by clear_queue setting InFlightData::Drop); the "
    "`unstable`-only debug assertion of Drop for Store is not a property of a live connection;",
    "the end-to-end client claim (GOAWAY(NO_ERROR) written, transport shut down, connection future Ok, without an unsolicited poll) is "
    "decided by the oracle on generated 'idle' scenarios, not proved (it needs the control plane of C15 and the codec)",
]


def corpus_scenarios():
    out = []
    for p in sorted(glob.glob(os.path.join(common.VERIF, "corpus", "store", "*.json"))):
        rc, txt = common.run_harness("conn", ["--replay", p], timeout=120)
        for line in txt.splitlines():
            line = line.strip()
            if line.startswith("{") and '"trace"' in line:
                sc = json.loads(line)
                sc["corpus"] = os.path.basename(p)
                sc["seed"], sc["i"], sc["profile"] = "corpus", os.path.basename(p), "corpus"
                out.append(sc)
    return out


def corpus_regressions(rep, scs):
    """The repaired defects found by this property's search stay repaired."""
    for sc in scs:
        name = sc.get("corpus", "")
        tr = sc["trace"]
        last_snap = next((st["snap"] for st in reversed(tr) if st.get("snap")), None)
        bad = None
        if name.startswith("reset_expiry_before_rst_flushed"):
            if not last_snap or last_snap["conn"]["num_local_reset_streams"] != 0 or last_snap["conn"]["store_slab"] != 0:
                bad = "num_local_reset_streams is not given back when a reset expires before its RST_STREAM is flushed"
        elif name.startswith("lost_wakeup_last_request_handle"):
            drop = next((st for st in tr if st["op"].get("op") == "drop_sr"), None)
            if not drop or 1 not in drop.get("wakes", []) or tr[-1]["res"] != "Ready(Ok)":
                bad = "dropping the last request handle (holding a pending stream) does not wake the connection task"
        elif name.startswith("push_promise_on_cancelled_stream"):
            if any(f["t"] == "GOAWAY" for st in tr for f in st["out"]):
                bad = "a PUSH_PROMISE on a stream the application has just cancelled fails the whole connection"
        elif name.startswith("known_evicted_from_pending_capacity"):
            _, k3 = store.snapshot_oracle(sc)
            if not k3:
                rep.extra["KF-C19-3"] = "the replay no longer leaks the record (repaired?): turn it into a regression"
        elif name.startswith("known_reset_while_pending_open"):
            if last_snap and any(store.rec_closed(x) and store.rec_reasons(x) == ["is_pending_open"] for x in last_snap["streams"]):
                rep.known(store.KF4)
            else:
                rep.extra["KF-C19-4"] = "the replay no longer keeps the record (repaired?): turn it into a regression"
        if bad:
            rep.violation("failing-input", {"oracle": "regression replay corpus/store/%s" % name, "violation": {"why": bad},
                                            "scenario": {"cfg": sc["cfg"], "trace": [{"op": st["op"]} for st in tr]}})


def correspond(rep, tier, seed):
    rep.partial.extend(PARTIAL)
    rep.assumptions.append("key arguments of labels resolve (a Ptr held by the caller), slab::insert returns a vacant index, new records get "
                           "unlinked ids, direct removal only of a record nobody has seen, every section ends with nothing owed: Stuck / "
                           "pre-state guards of the model, checked by the lock-step on every run")
    corpus = corpus_scenarios()
    corpus_regressions(rep, corpus)
    scs, failing = store.correspond_store(rep, tier, seed, extra=corpus)
    failing, known_rejected = store.split_known(scs, failing)
    rep.correspondences[-1]["disagreements"] = len(failing)
    rep.correspondences[-1]["known_class_rejections"] = len(known_rejected)
    n_viol = store.oracle_store(rep, scs)
    if failing and n_viol == 0:
        if not search(rep, tier, seed, reason="correspondence"):
            store.report_disagreements(rep, scs, failing)


def search(rep, tier, seed, reason=""):
    from props.parts import sendflow
    for k in range(3 if tier == "quick" else 10):
        for prof in ("idle", "pushidle", "reset", "queue"):
            scs, _ = sendflow.gen_scenarios(seed * 6151 + k * 17 + len(prof), 120, 120, prof, snap=True)
            before = len(rep.violations)
            if store.oracle_store(rep, scs) > 0 and len(rep.violations) > before:
                return True
    return False
