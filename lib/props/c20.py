"""C20 — handles may be used from any thread concurrently with the connection."""
import common
from props.parts import threads

T_MAIN = ["C20_lock_order", "C20_single_hold", "C20_unlock_points", "C20_inventory_sections", "C20_no_deadlock_general", "C20_no_deadlock",
          "C20_inverted_order_deadlocks", "C20_hooks_under_lock", "C20_no_unsafe_in_modelled_files", "C20_handover_invariant",
          "C20_handover_never_panics", "C20_requeue_iff_not_reset", "C20_reset_marks_owner", "C20_other_streams_do_not_mark",
          "C20_other_labels_do_not_mark", "C20_staging_resets_mark", "C20_owner_not_released_while_tail_in_flight",
          "C20_reclaim_charges_nothing", "C20_reclaim_is_a_stutter_of_the_flow_model", "C20_staging_charges_len_once",
          "C20_clear_discards_everything_once", "C20_destructors_tolerate_poison", "C20_unwinding_never_aborts",
          "C20_unwrap_in_destructor_would_abort", "C20_poison_surfaces", "C20_poison_surfaces_in_inventory",
          "C20_nonvacuous_reset_in_window", "C20_nonvacuous_requeue_at_front", "C20_nonvacuous_invariant"]
T_FLOW = ["C20_flow_pop_queue", "C20_flow_clear_queue"]
T_C14 = ["C14_user_cell_interleavings", "C14_user_cell_atomic"]
AUDIT = [("H2V.Properties.C20", T_MAIN), ("H2V.Properties.C20_flow", T_FLOW), ("H2V.Properties.C14", T_C14)]
VO_TARGETS = ["Properties/C20.vo", "Properties/C20_flow.vo", "Properties/C14.vo"]
THEOREMS = T_MAIN + T_FLOW + T_C14

PARTIAL = [
    "WHAT THE PROOFS SAY. Every theorem of this project (C02, C03, C05, C14-C17, ...) quantifies over ALL sequences of labels, a label "
    "being one lock-atomic section of h2. Hence 'every interleaving of handle operations with the connection's progress is equivalent "
    "to some sequential order and preserves all the guarantees' follows from them PROVIDED (A) every handle operation and every "
    "connection-task section runs under one uninterrupted hold of `inner`, takes `send_buffer` only inside it, and never blocks while "
    "holding a guard; (B) the only state that crosses an unlock point of the connection task is handed over correctly; (C) the "
    "lock-free part (user-ping cell) is correct for all interleavings of its atomic operations; (D) a panic under the lock cannot "
    "wedge or silently corrupt other handles. C20 discharges A-D:",
    "(A) coq/Gen/LockInventory.v is regenerated on every run from /repo's current source (translator/gen_locks.py, textual brace-level "
    "parsing: every `.lock()` of src/, guards alive at each acquisition, loops, transport/poll/await calls under a guard, how a poisoned "
    "lock is consumed). Decided by computation on that finite inventory (C20_lock_order, C20_single_hold, C20_unlock_points, "
    "C20_inventory_sections): `inner` is only taken with no guard alive, `send_buffer` only under `inner` (SendBuffer::is_empty alone), "
    "each handle / connection entry point is ONE hold that lasts to the end of the function, the only functions that release and re-take "
    "`inner` are poll_complete and send_pending_refusal (the translator stops the check when another appears, when a transport call "
    "appears in code that runs under the lock, when an Inner method is called on something that is not a guard, or when buffer_pending / "
    "reclaim_frame_inner / clear_queue / store::Key / the codec's last_data_frame protocol change shape). General theorem "
    "(C20_no_deadlock_general, C20_no_deadlock): threads that acquire non-reentrant locks in increasing order and only block on "
    "acquisitions never reach a state where somebody has work and nobody can move; the inverted order does deadlock "
    "(C20_inverted_order_deadlocks). That Inner's data is only reachable through the guard is Rust's ownership discipline, not proved here.",
    "(B) Model/Handover.v: in_flight_data_frame x the codec's next/last_data_frame x the owning record, labels = the two lock sections of "
    "poll_complete, the codec's unlocked progress, and ANY operations of other threads in between (send_data, clear_queue from "
    "send_reset / recv_reset / handle_error / drop, record insertion and release with slab-slot re-use). For ALL label sequences: no panic "
    "of the hand-over code is reachable (`wasn't expecting a frame to reclaim`, the key assertion, a dangling store key, the "
    "in-flight == Nothing assertion, buffered < len); the unwritten tail is pushed back at the FRONT of its owner iff the owner's queue "
    "was not cleared since staging, and then onto the live record with exactly the staged (slot, stream id) key - a record cannot be "
    "released while its tail is in flight; otherwise nothing is re-queued anywhere; reclaim changes no byte ledger "
    "(submitted = charged + buffered + dropped per record), staging charges exactly `len`, and the queue as Model/SendFlow.v sees it "
    "(`s_frames`) evolves identically (C20_flow_pop_queue), re-queueing being a stutter - so the window accounting of C02/C16 is not "
    "disturbed by the unlocked window. NOT modelled: frame contents (wp-fidelity's DataPath), the scheduling queue (pending_send) - which "
    "stream is popped and how much (`len`) are observed inputs; non-DATA frames and CONTINUATION (labels IOther/HFlushCont exist, the "
    "lock-step never emits them); partial writes are observed only at completion (codec.data_done).",
    "(C) the lock-free user-ping cell: C14_user_cell_interleavings / C14_user_cell_atomic (proved in Proofs/ControlProofs.v, audited here "
    "again); on the real threads its recorded operations are linearised (per-thread order kept) and the witness is replayed through "
    "Control.fstep inside Coq. AtomicWaker (no lost wake-up) is modelled-not-verified.",
    "(D) poisoning: from the inventory, every destructor path of an API handle (Streams::drop, drop_stream_ref, clear_recv_buffer, "
    "Debug::fmt) tolerates a poisoned lock while unwinding, so unwinding any set of handles never panics again = no abort "
    "(C20_unwinding_never_aborts); every other acquisition unwraps or returns an error: a poisoned lock is never entered silently "
    "(C20_poison_surfaces_in_inventory). Probed on the real crate in child processes (user Buf::remaining panicking under the lock). "
    "FINDING C20-1 (RecvStream::drop unwrapped the poisoned lock => process abort) was reported and is repaired in /repo (2601b84); "
    "reverting it makes `drop_unwrap_paths` non-empty (proof breaks) and the probe abort.",
    "REAL THREADS ARE SAMPLED, NOT PROVED: the threaded harness runs real parallel executions (std threads, CLIENT role only; the "
    "deterministic injection runs cover client and server); each recorded global order "
    "is checked to be a linearisation accepted by the proved models (pre-states, outputs, API results, final snapshot) and to have "
    "contiguous lock sections; schedules not drawn are covered only by the theorems, i.e. at lock granularity and given A. Memory safety "
    "and data-race freedom of the Rust code are the compiler's guarantees (Send/Sync, no `unsafe` in the modelled files: inventory "
    "`unsafe_blocks`, C20_no_unsafe_in_modelled_files; the one `unsafe` of src/ is hpack/header.rs from_utf8_unchecked) and are NOT proved "
    "here; std::sync::Mutex, atomics, atomic-waker and the async runtime are trusted.",
    "CALLER DISCIPLINE not checked: wakers, `Buf` implementations, `Buf` destructors and tracing subscribers run while `inner` is held "
    "(inventory field s_wakes; notify_* in the callee files): a user callback that calls back into a handle of the same connection from "
    "inside Waker::wake / Buf::remaining deadlocks on the non-reentrant mutex.",
]


def correspond(rep, tier, seed):
    rep.partial.extend(PARTIAL)
    rep.assumptions.append("Inner / Send / Recv / Counts / Store / Prioritize are reachable only through the guard of `inner` (Rust ownership); "
                           "hook events of these types are therefore emitted under the lock (C20_hooks_under_lock + atomicity oracle on every threaded run)")
    rep.assumptions.append("Stuck guards of Model/Handover.v (codec capacity, popped stream is live and its head frame has the observed size, "
                           "only released records are removed): checked by the lock-step on every run")
    rep.trusted.append("translator /verif/translator/gen_locks.py (lock inventory; fails loudly on unknown shapes)")
    rep.trusted.append("harness threads.rs (std threads, in-memory transport, scripted peer thread) and h2::verif global log (mutex-protected, appended under the library's lock)")
    threads.probe_poison(rep)
    scs, failing, cases = threads.correspond_inject(rep, tier, seed)
    n_viol = threads.oracle_inject(rep, scs)
    if any(failing.values()) and n_viol == 0:
        report_inject(rep, scs, failing, cases)
    runs, tfailing, hard = threads.correspond_threads(rep, tier, seed)
    rep.oracle_runs.append({"name": "threaded runs: watchdog (deadlock), panics, atomic sections, wire oracles, cell linearisation",
                            "cases": len(runs), "nontrivial": sum(1 for r in runs if len(r.get("ops", [])) > 50), "failures": len(hard)})
    threads.report_threads(rep, runs, tfailing, hard, THEOREMS)


def report_inject(rep, scs, failing, cases):
    import re
    hcases, fcases, ccases = cases
    for model, idxs in failing.items():
        for i in idxs[:2]:
            sc = scs[i]
            case = {"handover": hcases, "sendflow": fcases, "counts": ccases}[model][i]
            pre, diag = {"handover": (threads.HPRE, "diag_handover"), "sendflow": (threads.sendflow.PREAMBLE, "diag_sendflow"),
                         "counts": (threads.counts.PREAMBLE, "diag_counts")}[model]
            rc, out = common.coq_eval_raw("c20_diag", pre + "Definition c := %s.\nEval vm_compute in (%s c).\n" % (case, diag))
            m = re.search(r"= (\d+)%N", out)
            code = int(m.group(1)) if m else None
            rep.violation("broken-correspondence", {
                "correspondence": "Model/%s.v vs /repo on a run with operations injected between the lock sections of poll_complete" % model.capitalize(),
                "model": model, "diag_code": code,
                "reason": {1: "pre-state differs", 2: "outputs differ", 3: "model Stuck", 4: "model Panic"}.get((code or 0) % 10, "final snapshot differs"),
                "label_index": (code // 10 - 1) if code else None, "coq_case": case, "theorems_no_longer_tied_to_code": THEOREMS,
                "scenario": {"cfg": sc["cfg"], "seed": sc.get("seed"), "i": sc.get("i"), "trace": [{"op": st["op"]} for st in sc["trace"]]}},
                no_input=True)


def search(rep, tier, seed, reason=""):
    """proof / translator broke: look for a concrete failing input with the oracles (probes, inject wire oracles, threaded runs)"""
    before = len(rep.violations)
    threads.probe_poison(rep)
    if len(rep.violations) > before:
        return True
    for k in range(2 if tier == "quick" else 6):
        scs = threads.run_inject(rep, seed * 4099 + 17 * k, 40, 160)
        if len(rep.violations) > before:
            return True
        if threads.oracle_inject(rep, scs) > 0 and len(rep.violations) > before:
            return True
    runs, tfailing, hard = threads.correspond_threads(rep, tier, seed + 1)
    if hard:
        threads.report_threads(rep, runs, {}, hard, THEOREMS)
        return len(rep.violations) > before
    return False


def replay(path):
    return threads.replay_case(path)
