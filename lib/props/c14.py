"""C14 — SETTINGS / PING acknowledgements, settings take effect at the acknowledgement, stray ACK, user pings."""
import common
from props.parts import control

THEOREMS = ["C14_ack_exactly_once", "C14_poll2_order", "C14_no_assert", "C14_stray_ack", "C14_remote_apply_at_ack",
            "C14_remote_apply_at_ack_step", "C14_local_after_ack", "C14_local_apply_step", "C14_send_settings_refused",
            "C14_user_ping", "C14_user_ping_refused", "C14_user_closed_absorbing", "C14_user_cell_interleavings",
            "C14_user_cell_atomic", "C14_nonvacuous"]
PARTIAL = [
    "proved on the model of settings.rs / ping_pong.rs / go_away.rs / connection.rs for ALL label sequences and codec-readiness "
    "patterns: exactly one ACK per SETTINGS and one PONG per PING (payload echoed, in order, at most one of each owed, none owed "
    "when a frame is taken), ACK and application of the received settings in one atomic step, local settings applied exactly at "
    "the peer's ACK, send_settings refused while pending, stray ACK = connection error PROTOCOL_ERROR with nothing else changed, "
    "user-ping accounting and the lock-free cell for all interleavings, no assert of the four files fires;",
    "NOT proved (stream layer / codec, covered by the oracles and by C02/C03/C05): that apply_remote_settings / apply_local_settings / "
    "the codec setters really enforce the values (frame size, window deltas, header-table size, push, concurrency) — the model "
    "records them as outputs OApplyRemote / OApplyLocal; wake-ups of the two AtomicWakers (no lost wake-up) are modelled as outputs only;",
    "a PONG whose poll_ready fails with an I/O error is dropped by the code (pending_pong.take() before `?`): logged as OLostPong, "
    "the connection is failing then",
]


def correspond(rep, tier, seed):
    rep.partial.extend(PARTIAL)
    rep.assumptions.append("poll2 order (no frame taken while an acknowledgement / GOAWAY is owed): Stuck guards of the model, "
                           "proved to follow from the loop order (C14_poll2_order) and checked by the lock-step on every run")
    rep.assumptions.append("streams.apply_remote_settings / apply_local_settings fail only with Error::library_go_away (checked by the projection)")
    corpus = control.corpus_scenarios()
    scs, failing = control.correspond_control(rep, tier, seed, extra=corpus)
    n_viol = control.oracle_control(rep, scs, "C14")
    # "the values of a received SETTINGS govern everything the endpoint sends after its acknowledgement": the window deltas on
    # all open streams and the frame size are judged on the wire (credit ledger of C02, hook-independent) over scenarios in
    # which the peer changes SETTINGS_INITIAL_WINDOW_SIZE / MAX_FRAME_SIZE mid-stream, with bodies queued and partly written
    from props.parts import sendflow
    for k, prof in enumerate(("flow", "bp", "control") if tier == "quick" else ("flow", "bp", "control", "flow", "bp", "starve")):
        more, _ = sendflow.gen_scenarios(seed * 577 + 3 + k, 60 if tier == "quick" else 1500, 110, prof)
        n_viol += sendflow.oracle_sendflow(rep, more, "C02")
        if prof == "control":
            n_viol += control.oracle_control(rep, more, "C14")
    failing = control.split_assert_failures(rep, scs, failing)
    if failing and n_viol == 0:
        if not search(rep, tier, seed, reason="correspondence"):
            control.report_disagreements(rep, scs, failing, theorems=THEOREMS)


def search(rep, tier, seed, reason=""):
    return control.search_control(rep, tier, seed, "C14")
