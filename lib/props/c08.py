"""C08 — no peer input can panic, wedge or busy-loop an endpoint.

Proof side: the never-panics theorems of the area models (each audited in its own Properties file) plus the
panic-site inventory (translator/gen_panics.py -> Gen/PanicSites.v, classified by Model/PanicCover.v):
C08_sites_classified says every panic site of the receive path, as regenerated from the current source,
is covered by a named theorem, is an API-misuse/infallible/poison/debug-only site, or is listed as residual.
Implementation side: hostile-input runs of the real crate (connection-level fuzz/chaos profiles, raw octets,
mutated frames, any read chunking; the unit decoders on random and mutated input) with panic capture, a
self-wake budget and a watchdog."""
import json
import common
from props.parts import sendflow

VO_TARGETS = ["Properties/C08.vo", "Properties/C02.vo", "Properties/C03.vo", "Properties/C05.vo", "Properties/C10.vo",
              "Properties/C11_hpack.vo", "Properties/C12.vo", "Properties/C14.vo", "Properties/C15.vo", "Properties/C19.vo", "Properties/C20.vo"]
AUDIT = [
    ("H2V.Properties.C08", ["C08_sites_classified", "C08_table_live", "C08_cited_are_audited", "C08_inventory_nonvacuous"]),
    ("H2V.Properties.C02", ["C02_flow_code_never_panics"]),
    ("H2V.Properties.C03", ["C03_no_panic"]),
    ("H2V.Properties.C05", ["C05_counts_invariant"]),
    ("H2V.Properties.C10", ["C10_never_panics"]),
    ("H2V.Properties.C11_hpack", ["C11_decode_no_fuel"]),
    ("H2V.Properties.C12", ["C12_parse_never_panics", "C12_load_never_panics", "C12_reader_never_panics"]),
    ("H2V.Properties.C14", ["C14_no_assert", "C14_poll2_order"]),
    ("H2V.Properties.C15", ["C15_no_assert"]),
    ("H2V.Properties.C19", ["C19_no_panic"]),
    ("H2V.Properties.C20", ["C20_handover_never_panics"]),
]
PARTIAL = [
    "PARTIAL. Proved (for every input / label sequence of the respective model): the frame parser, the HPACK decoder and encoder, "
    "the send- and receive-window arithmetic, the stream counters and the control plane (SETTINGS/PING/GOAWAY single-slot asserts, "
    "poll order) never reach a panic outcome; and every panic site of the receive-path files, regenerated from the current source, "
    "is classified (C08_sites_classified).",
    "NOT proved: sites classified Residual (internal data-structure invariants of store.rs / buffer.rs / stream.rs reference counts and "
    "queue links, caller guards across modules) — listed with their reasons in evidence.extra.panic_cover and covered only by the hostile-input "
    "runs; slice indexing and arithmetic outside the modelled numbers are not inventoried; that the Panic outcome of a model is the cited "
    "Rust site is established by reading (the lock-step of the cited model flags a real panic the model does not predict).",
    "'without unbounded work per input byte / never wakes itself forever' is explored only: every scenario ends with a settle phase that "
    "polls the connection task while it keeps waking itself (budget 200 polls) and a watchdog on the harness; no termination theorem "
    "about the Rust loops is claimed.",
    "the `unstable`-only debug assertion in `Drop for Store` (slab must be empty at teardown) is not a peer-reachable panic of a released "
    "endpoint and is excluded from the oracle.",
]
ARTEFACT = "self.slab.is_empty()"


def panic_summary(rep):
    rc, out = common.coq_eval_raw("c08_summary", "From H2V Require Import Proofs.PanicCoverProofs Model.PanicCover Gen.PanicSites.\n"
                                  "From Coq Require Import String List NArith.\n"
                                  "Eval vm_compute in summary.\n"
                                  "Eval vm_compute in (flat_map (fun s => match classify s with Some (Residual w) => [(fst (fst (fst (fst s))), snd (fst (fst (fst s))), w)] | _ => nil end) panic_sites).\n")
    import re
    nums = dict((k, int(v)) for k, v in re.findall(r'\("([a-z_]+)"(?:%string)?,\s*(\d+)%N\)', out))
    resid = re.findall(r'\("([^"]+)",\s*"([^"]+)",\s*"((?:[^"]|"")*)"\)', out)
    rep.extra["panic_cover"] = {"counts": nums, "residual_sites": [{"file": f, "fn": fn, "why": w} for f, fn, w in resid]}


def conn_fuzz(rep, tier, seed):
    """connection-level hostile input on the real endpoint"""
    # bplimits: over-limit streams while writes are blocked with a full codec (single-slot asserts of the refusal path)
    plan = [("fuzz", 260, 70), ("chaos", 120, 100), ("bplimits", 400, 140), ("fuzz", 120, 160)] if tier == "quick" else \
           [("fuzz", 6000, 70), ("chaos", 2500, 110), ("bplimits", 4000, 150), ("fuzz", 2500, 200), ("control", 800, 100)]
    n_cases = n_viol = 0
    kinds, goaways, chaos_ops = {}, {}, 0
    for pi, (prof, n, steps) in enumerate(plan):
        try:
            scs, _ = sendflow.gen_scenarios(seed * 6151 + 17 * pi + 5, n, steps, prof, snap=False)
        except Exception as ex:
            n_viol += 1
            rep.violation("failing-input", {"oracle": "watchdog: the harness did not finish (wedged endpoint or crash)",
                                            "profile": prof, "seed": seed * 6151 + 17 * pi + 5, "n": n, "steps": steps, "error": str(ex)[-1500:],
                                            "rerun": "/verif/.build/cargo/debug/conn --seed %d --n %d --steps %d --profile %s --role both --snap 0" % (seed * 6151 + 17 * pi + 5, n, steps, prof)})
            continue
        if len(scs) < n:
            n_viol += 1
            rep.violation("failing-input", {"oracle": "watchdog: the harness produced %d of %d scenarios (abort or hang inside the library)" % (len(scs), n),
                                            "profile": prof, "seed": seed * 6151 + 17 * pi + 5,
                                            "rerun": "VERIF_OPS_LOG=/tmp/ops.log /verif/.build/cargo/debug/conn --seed %d --n %d --steps %d --profile %s --role both --snap 0" % (seed * 6151 + 17 * pi + 5, n, steps, prof)})
        for sc in scs:
            n_cases += 1
            bad = None
            for st in sc["trace"]:
                r = st.get("res")
                w = st["op"].get("what")
                if isinstance(w, dict) and "chaos" in w:
                    chaos_ops += 1
                    k = str(w["chaos"]).split(":")[0]
                    kinds[k] = kinds.get(k, 0) + 1
                for f in st["out"]:
                    if f["t"] == "GOAWAY":
                        goaways[str(f.get("code"))] = goaways.get(str(f.get("code")), 0) + 1
                if isinstance(r, dict) and "panic" in r and ARTEFACT not in str(r["panic"]):
                    bad = {"step": st["i"], "why": "the library panicked", "panic": r["panic"], "op": st["op"] if st["op"].get("op") != "peer" else st["op"].get("what")}
                    break
            if not bad and sc.get("settled") is False:
                bad = {"why": "the connection task kept waking itself for 200 polls without quiescing (busy loop)"}
            if bad:
                n_viol += 1
                if n_viol <= 3:
                    rep.violation("failing-input", {"oracle": "hostile peer input: no panic, no self-wake loop", "violation": bad,
                                                    "scenario": {"cfg": sc["cfg"], "seed": sc.get("seed"), "i": sc.get("i"),
                                                                 "trace": [{"op": st["op"]} for st in sc["trace"]]}})
    rep.oracle_runs.append({"name": "connection-fuzz", "cases": n_cases, "nontrivial": n_cases, "failures": n_viol,
                            "distribution": {"malformed_ops": chaos_ops, "kinds": kinds, "goaway_codes_written": goaways, "plan": plan}})
    return n_viol


def unit_fuzz(rep, tier, seed):
    """the unit decoders on random / mutated input: a panic is an outcome of the harness binaries"""
    n_viol = 0
    runs = []
    big = tier != "quick"
    jobs = [("hpackdec", ["--seed", seed + 11, "--n", 6000 if big else 400, "--mode", "random"]),
            ("hpackdec", ["--seed", seed + 12, "--n", 8000 if big else 500, "--mode", "mutate"]),
            ("huffman", ["--seed", seed + 13, "--n", 20000 if big else 1500, "--mode", "random", "--maxlen", 24]),
            ("huffman", ["--seed", seed + 14, "--n", 20000 if big else 1500, "--mode", "mutate", "--maxlen", 32]),
            ("framecodec", ["--seed", seed + 15, "--n", 8000 if big else 600, "--mode", "malformed"]),
            ("framecodec", ["--seed", seed + 16, "--n", 8000 if big else 600, "--mode", "readchunk"])]
    for binname, args in jobs:
        rc, out = common.run_harness(binname, args, timeout=900)
        lines = [l for l in out.splitlines() if l.startswith("{")]
        pan = [l for l in lines if '"panic"' in l and '"panic":false' not in l.replace(" ", "") and '"summary"' not in l]
        runs.append({"bin": binname, "args": [str(a) for a in args], "cases": len(lines), "panics": len(pan), "rc": rc})
        if rc != 0 and not lines:
            n_viol += 1
            rep.violation("failing-input", {"oracle": "watchdog: unit harness %s did not finish" % binname, "args": [str(a) for a in args], "tail": out[-800:]})
        for l in pan[:2]:
            n_viol += 1
            rep.violation("failing-input", {"oracle": "unit decoder panicked on peer-controlled octets", "bin": binname, "case": l[:3000]})
    rep.oracle_runs.append({"name": "unit-decoder-fuzz", "cases": sum(r["cases"] for r in runs), "nontrivial": sum(r["cases"] for r in runs),
                            "failures": n_viol, "runs": runs})
    return n_viol


def correspond(rep, tier, seed):
    rep.partial.extend(PARTIAL)
    rep.assumptions.append("each cited never-panics theorem is tied to the code by the lock-step / differential correspondence of its own property's "
                           "check (C02, C03, C05, C10, C11, C12, C14, C15); C08 re-audits the theorems and re-runs the send-flow lock-step on hostile input")
    panic_summary(rep)
    n = conn_fuzz(rep, tier, seed)
    n += unit_fuzz(rep, tier, seed)
    # the lock-step of the send-flow model under hostile input (ties its Panic outcomes to the code where it matters for C08)
    scs, failing = sendflow.correspond_sendflow(rep, tier, seed + 3, profiles=("fuzz", "chaos"))
    if failing and n == 0:
        sendflow.report_disagreements(rep, scs, failing)


def search(rep, tier, seed, reason=""):
    before = len(rep.violations)
    conn_fuzz(rep, "thorough" if tier == "thorough" else "quick", seed + 101)
    unit_fuzz(rep, tier, seed + 101)
    return len(rep.violations) > before
