"""C01 — end-to-end message fidelity under any fragmentation and schedule."""
import common
from props.parts import datapath

THEOREMS = ["C01_send_split_preserves", "C01_send_bytes_preserved", "C01_datapath_no_assert", "C01_wire_prefix", "C01_wire_roundtrip",
            "C01_wire_interface_inhabited", "C01_delivery_exactly_once", "C01_delivery_in_order", "C01_clean_end",
            "C01_trailers_clean_end", "C01_error_never_clean", "C01_reset_never_clean",
            "C01_nonvacuous_interleaved_split", "C01_nonvacuous_partial_write_reclaim", "C01_nonvacuous_no_overtaking",
            "C01_nonvacuous_reset_mid_frame", "C01_nonvacuous_recv_in_order", "C01_nonvacuous_recv_reset_prefix"]
PARTIAL = [
    "proved, for ALL label sequences (submissions, scheduler choices, max_frame_len, stream capacity / window at every pop, flush "
    "completions, resets) on the content-level model Model/DataPath.v of prioritize.rs (queue_frame, send_data, the DATA split of "
    "pop_frame, in_flight_data_frame, reclaim_frame, clear_queue) and of the two DATA slots of framed_write.rs: per stream, atoms handed "
    "to the codec ++ remainder inside the codec ++ still queued = submitted (octets, heads, promises, END_STREAM in one equation); always "
    "a prefix; END_STREAM only with the last submitted atom and at most once; no assert of that code fires;",
    "proved on the model of recv.rs' event queue: every event leaves pending_recv exactly once in arrival order (delivered, or discarded "
    "only on the application's request); poll_data/poll_trailers report a clean end only on a drained queue whose stream state says "
    "END_STREAM was received (state function ensure_recv_open of Model/StreamState.v, theorems C07/C17), an error state never yields a clean end;",
    "C01_wire_roundtrip is stated over an ABSTRACT synchronised frame codec (argument `codec_sync c R`: decode after encode is the "
    "identity whatever follows, a strict prefix of an encoding is 'need more', contexts stay related) - the precise interface needed from "
    "C12 (single-frame round trip C12_roundtrip_reader, chunking independence C12_read_chunking, write prefix C12_write_prefix) and C10/C11 "
    "(HPACK contexts); the instantiation with Model/FrameCodec + HpackEnc/HpackDec is NOT done (only a toy instance shows the interface is "
    "inhabited); on the implementation this link is exercised by the two-endpoint oracle;",
    "NOT proved, explored by the oracles: the stream state machine's classification of HEADERS frames (head / interim / trailers) end to end, "
    "scheduling fairness / progress (stalls are not C01), header-field content through HPACK (model frames carry abstract field lists);",
    "the receive-side model (pending_recv queue, poll_*) has an executable checker (check_recvpath) but no hook projection yet: it is tied "
    "to the code by the two-endpoint oracle only (delivery order, exactly-once, clean end / error at the API), not by a lock-step;",
    "tie to the code: lock-step replay of hook events through Model/DataPath.v inside Coq (bodies regenerated from stream/offset/length, "
    "wire digests compared), plus the C01 oracle on two real endpoints joined by scripted pipes (bin `pair`) and the wire-contiguity oracle",
]


def correspond(rep, tier, seed):
    rep.partial.extend(PARTIAL)
    rep.assumptions.append("caller discipline checked at run time by the lock-step (Stuck guards of Model/DataPath.v): no submission after "
                           "END_STREAM / after the queue was cleared except RST_STREAM (state.rs, C04_state_nothing_after_end_stream / "
                           "_after_reset), pop_frame only with has_send_capacity, a record is removed only with an empty queue")
    scs, failing = datapath.correspond_datapath(rep, tier, seed)
    n_viol = datapath.oracle_wire(rep, scs)
    n_viol += datapath.oracle_pair(rep, tier, seed)
    if failing and n_viol == 0:
        if not search(rep, tier, seed, reason="correspondence"):
            datapath.report_disagreements(rep, failing)


def search(rep, tier, seed, reason=""):
    return datapath.search_datapath(rep, tier, seed)


def replay(path):
    import json
    with open(path) as f:
        d = json.load(f)
    r = d.get("replay") or d
    case = datapath.replay_pair(r)
    viol = datapath.pair_oracle(case) if case else [{"why": "no output"}]
    print(json.dumps({"violations": viol[:5]}, indent=1)[:6000])
    return 1 if viol else 0
