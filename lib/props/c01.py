"""C01 — end-to-end message fidelity under any fragmentation and schedule."""
import common
from props.parts import datapath

T_MAIN = ["C01_send_split_preserves", "C01_send_bytes_preserved", "C01_datapath_no_assert", "C01_wire_prefix", "C01_wire_roundtrip",
          "C01_wire_interface_inhabited", "C01_delivery_exactly_once", "C01_delivery_in_order", "C01_clean_end",
          "C01_trailers_clean_end", "C01_error_never_clean", "C01_reset_never_clean",
          "C01_nonvacuous_interleaved_split", "C01_nonvacuous_partial_write_reclaim", "C01_nonvacuous_no_overtaking",
          "C01_nonvacuous_reset_mid_frame", "C01_nonvacuous_recv_in_order", "C01_nonvacuous_recv_reset_prefix"]
# the concrete wire codec (work package wp-compose): C12 for frame sequences, C10 with C11, the instance of the wire interface
T_WIRE = ["C01_wire_interface_generalised", "C01_wire_prefix_on", "C01_wire_h2_sync", "C01_wire_roundtrip_h2",
          "C01_wire_roundtrip_h2_init", "C01_wire_octets_are_writer_input", "C01_wire_side_conditions_decidable", "C01_wire_roundtrip_h2_nonvacuous"]
T_C12_SEQ = ["C12_stream_compositional", "C12_seq_roundtrip_stream", "C12_seq_stream_prefix", "C12_pump_is_iterated_poll",
             "C12_seq_poll_logical", "C12_seq_reader_prefix", "C12_seq_nonvacuous"]
T_C10_SYNC = ["C10_sync_encoder_octets", "C10_sync_init", "C10_sync_block", "C10_sync_outside_known_classes",
              "C10_sync_history", "C10_sync_nonvacuous"]
AUDIT = [("H2V.Properties.C01", T_MAIN), ("H2V.Properties.C01_wire", T_WIRE), ("H2V.Properties.C12_seq", T_C12_SEQ),
         ("H2V.Properties.C10_sync", T_C10_SYNC)]
VO_TARGETS = ["Properties/C01.vo", "Properties/C12_seq.vo", "Properties/C10_sync.vo", "Properties/C01_wire.vo"]
THEOREMS = T_MAIN + T_WIRE + T_C12_SEQ + T_C10_SYNC
PARTIAL = [
    "one frame is outside the content equation: when a request that still waits for a concurrency slot is reset, h2 keeps the HEADERS that "
    "open the stream in front of the RST_STREAM (repair a052906); Model/DataPath.v drops the whole queue at LClear, so the emission of that "
    "kept HEADERS frame is not compared by the lock-step (counted as kept-head-after-clear in the evidence; the C04 wire oracle and the "
    "dispatch model cover it);",
    "proved, for ALL label sequences (submissions, scheduler choices, max_frame_len, stream capacity / window at every pop, flush "
    "completions, resets) on the content-level model Model/DataPath.v of prioritize.rs (queue_frame, send_data, the DATA split of "
    "pop_frame, in_flight_data_frame, reclaim_frame, clear_queue) and of the two DATA slots of framed_write.rs: per stream, atoms handed "
    "to the codec ++ remainder inside the codec ++ still queued = submitted (octets, heads, promises, END_STREAM in one equation); always "
    "a prefix; END_STREAM only with the last submitted atom and at most once; no assert of that code fires;",
    "proved on the model of recv.rs' event queue: every event leaves pending_recv exactly once in arrival order (delivered, or discarded "
    "only on the application's request); poll_data/poll_trailers report a clean end only on a drained queue whose stream state says "
    "END_STREAM was received (state function ensure_recv_open of Model/StreamState.v, theorems C07/C17), an error state never yields a clean end;",
    "C01_wire_roundtrip is stated over an ABSTRACT synchronised frame codec (argument `codec_sync c R`); the CONCRETE instance is now proved "
    "(Properties/C01_wire.v): h2_wcodec = HPACK encoder model + frame encoder model (HEADERS/PUSH_PROMISE split into CONTINUATION, DATA, "
    "RST_STREAM) on the sending side, one FramedRead::poll_next of the reader model + HPACK decoder model (Huffman decoder model inside) on "
    "the receiving side; C01_wire_h2_sync discharges the interface for it (decode after encode whatever octets follow, a strict prefix is "
    "'need more', HPACK tables stay equal and within limits) and C01_wire_roundtrip_h2 is C01_wire_roundtrip for it, for ALL runs, ALL "
    "prefixes of the octet stream - built on C12 for frame SEQUENCES (Properties/C12_seq.v: reference stream decoder compositional, reader = "
    "iterated poll_next, any chunking, prefix form) and C10 composed with C11 (Properties/C10_sync.v: encoder model -> decoder model for "
    "every history and every fragmentation, tables equal, no known-class hypothesis). `codec_sync` itself cannot hold literally for any "
    "real codec (it quantifies over every frame value), so the instance is stated through the relative interface codec_sync_on (proved to "
    "generalise codec_sync) under EXACTLY these side conditions on the frames handed to the codec (sframe_ok, decidable: all_okb): stream "
    "id below 2^31 and not 0; DATA payload of octets and at most the sender's max_frame_size; 32-bit reset code; promised id below 2^31; "
    "header names/values octet strings shorter than 2^24 (C10) and accepted by the validation of h2's decoder, Header::new (C11); the "
    "HPACK block needs no more CONTINUATION frames than the receiver's flood limit calc_max_continuation_frames (C12); parameters 42 <= "
    "sender max_frame_size <= 2^24-1 and <= receiver max_frame_size. The result is modulo norm_wire: the head/interim/trailers tag of a "
    "HEADERS frame is not on the wire (the receiving stream's state decides it). Still NOT composed: the reader instantiated with the HPACK "
    "decoder as its hpack_ops (HeaderBlock::load's max_header_list_size accounting; here the block is reassembled raw and then decoded, "
    "with C11's chunking theorem covering every fragmentation), SETTINGS-driven table-size changes inside a C01 run (covered for HPACK "
    "alone by C10_sync_history), and the side conditions are hypotheses on the emitted frames, not derived from the labels; "
    "C01_wire_octets_are_writer_input identifies the octet stream with the input of C12's frame writer (C12_write_prefix applies); on the "
    "implementation the link is exercised by the two-endpoint oracle;",
    "NOT proved, explored by the oracles: the stream state machine's classification of HEADERS frames (head / interim / trailers) end to end, "
    "scheduling fairness / progress (stalls are not C01);",
    "the receive-side model (pending_recv queue, poll_*) has an executable checker (check_recvpath) but no hook projection yet: it is tied "
    "to the code by the two-endpoint oracle only (delivery order, exactly-once, clean end / error at the API), not by a lock-step;",
    "tie to the code: lock-step replay of hook events through Model/DataPath.v inside Coq (bodies regenerated from stream/offset/length, "
    "wire digests compared), plus the C01 oracle on two real endpoints joined by scripted pipes (bin `pair`) and the wire-contiguity oracle",
]


def correspond(rep, tier, seed):
    rep.partial.extend(PARTIAL)
    rep.assumptions.append("caller discipline checked at run time by the lock-step (Stuck guards of Model/DataPath.v): no submission after "
                           "END_STREAM / after the queue was cleared except RST_STREAM (state.rs, C04_state_nothing_after_end_stream / "
                           "_after_reset), pop_frame only with has_send_capacity, a record is removed only with an empty queue")
    scs, failing = datapath.correspond_datapath(rep, tier, seed)
    n_viol = datapath.oracle_wire(rep, scs)
    n_viol += datapath.oracle_pair(rep, tier, seed)
    if failing and n_viol == 0:
        if not search(rep, tier, seed, reason="correspondence"):
            datapath.report_disagreements(rep, failing)


def search(rep, tier, seed, reason=""):
    return datapath.search_datapath(rep, tier, seed)


def replay(path):
    import json
    with open(path) as f:
        d = json.load(f)
    r = d.get("replay") or d
    case = datapath.replay_pair(r)
    viol = datapath.pair_oracle(case) if case else [{"why": "no output"}]
    print(json.dumps({"violations": viol[:5]}, indent=1)[:6000])
    return 1 if viol else 0
