"""C16 — the send-capacity API tells the truth."""
import common
from props.parts import sendflow

VO_TARGETS = ["Properties/C16.vo", "Properties/C16_fifo.vo"]
AUDIT = [
    ("H2V.Properties.C16", ["C16_capacity_is_backed", "C16_never_over_assigned", "C16_poll_capacity_never_zero"]),
    ("H2V.Properties.C16_fifo", [
        "C16_fifo_refines", "C16_fifo_check_sound", "C16_fifo_capacity_is_backed",
        "C16_fifo_queue_invariant", "C16_fifo_queue_invariant_run", "C16_fifo_queued_iff_waiting",
        "C16_fifo_every_label_via_call", "C16_fifo_no_overtaking", "C16_returned_capacity_reaches_waiters",
        "C16_no_starvation_under_returns", "C16_fifo_loop_terminates",
        "C16_fifo_strict_order_refuted", "C16_fifo_stale_entry_refuted", "C16_fifo_demo", "C16_fifo_nonvacuous"]),
]
PARTIAL = [
    "proved: reported capacity is backed by wire credit, conservation of assigned capacity, never-zero notification; "
    "proved with the pending_capacity FIFO explicit (Model/CapQueue.v computes the visiting order of assign_connection_capacity "
    "from the queue; the lock-step compares the model's queue and the computed visits with the observed ones at every label): "
    "returned capacity is offered in queue order (head first: min(unassigned, requested - assigned, stream window - assigned); a "
    "stream further back receives something only when everything in front of it has left the queue), after every call the "
    "connection has no unassigned capacity or nobody is queued, whoever left the queue no longer waits for connection capacity, "
    "a waiting stream moves up by the number of streams popped and never moves back unless it is itself popped (bounded bypass), "
    "no duplicates, the loop terminates; a stream is queued by try_assign_capacity IFF after the assignment it may send, wants more "
    "and its own window has room. NOT an invariant (refuted with witnesses, intended behaviour of the code): strict FIFO across "
    "calls (a partly served head is re-queued at the BACK: round-robin) and 'a queued stream still wants capacity' (stale entries "
    "are dropped at their next visit); the converse 'a stream that wants capacity is queued' depends on stream-state "
    "observations (streaming / pending open) that the flow model takes as inputs and is stated only at the decision point. "
    "NOT proved (explored by the lock-step only): that a parked poll_capacity task is woken in the same step in which its "
    "capacity rises. Modelled, not observed directly: the streaming bit of a stream that assign_connection_capacity evicts "
    "(no hook at the `continue`; inferred from the absence of the try_assign_capacity call, cross-checked by the queue contents)",
]


def correspond(rep, tier, seed):
    rep.partial.extend(PARTIAL)
    scs, failing = sendflow.correspond_sendflow(rep, tier, seed + 1, profiles=("flow", "starve", "bufcap", "bp", "limits", "starve", "mixed", "reset", "starvedrop", "lastframe", "starvedrop"))
    n_viol = sendflow.oracle_sendflow(rep, scs, "C16")
    n_viol += sendflow.capacity_usable_oracle(rep, scs)
    if failing and n_viol == 0:
        found = search(rep, tier, seed, reason="correspondence")
        if not found:
            sendflow.report_disagreements(rep, scs, failing)
    # the pending_capacity FIFO: queue contents and computed visiting order at every label
    qscs, qfailing = sendflow.correspond_capqueue(rep, tier, seed + 2)
    if qfailing:
        n_q = sendflow.capacity_usable_oracle(rep, qscs)
        if n_q == 0:
            found = search(rep, tier, seed, reason="correspondence-capqueue")
            if not found:
                sendflow.report_disagreements_q(rep, qscs, qfailing)


def search(rep, tier, seed, reason=""):
    for k in range(4 if tier == "quick" else 12):
        for prof in ("starve", "flow", "limits"):
            scs, _ = sendflow.gen_scenarios(seed * 15485863 + k * 31 + len(prof), 150, 140, prof, snap=True)
            before = len(rep.violations)
            n = sendflow.oracle_sendflow(rep, scs, "C16") + sendflow.capacity_usable_oracle(rep, scs)
            if n > 0 and len(rep.violations) > before:
                return True
    return False
