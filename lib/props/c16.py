"""C16 — the send-capacity API tells the truth."""
import common
from props.parts import sendflow

THEOREMS = ["C16_capacity_is_backed", "C16_never_over_assigned", "C16_poll_capacity_never_zero"]
PARTIAL = [
    "proved: reported capacity is backed by wire credit, conservation of assigned capacity, never-zero notification; "
    "NOT proved (explored by the lock-step only): that a parked poll_capacity task is woken in the same step in which its capacity "
    "rises, and that returned capacity reaches the *head* of the waiting queue (the model leaves the visiting order open)",
]


def correspond(rep, tier, seed):
    rep.partial.extend(PARTIAL)
    scs, failing = sendflow.correspond_sendflow(rep, tier, seed + 1, profiles=("flow", "starve", "bufcap", "bp", "limits", "starve", "mixed", "reset"))
    n_viol = sendflow.oracle_sendflow(rep, scs, "C16")
    n_viol += sendflow.capacity_usable_oracle(rep, scs)
    if failing and n_viol == 0:
        found = search(rep, tier, seed, reason="correspondence")
        if not found:
            sendflow.report_disagreements(rep, scs, failing)


def search(rep, tier, seed, reason=""):
    for k in range(4 if tier == "quick" else 12):
        for prof in ("starve", "flow", "limits"):
            scs, _ = sendflow.gen_scenarios(seed * 15485863 + k * 31 + len(prof), 150, 140, prof, snap=True)
            before = len(rep.violations)
            n = sendflow.oracle_sendflow(rep, scs, "C16") + sendflow.capacity_usable_oracle(rep, scs)
            if n > 0 and len(rep.violations) > before:
                return True
    return False
