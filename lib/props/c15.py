"""C15 — GOAWAY last-stream ids, behaviour after sending / receiving GOAWAY, graceful shutdown, connection result."""
import common
from props.parts import control

THEOREMS = ["C15_monotone", "C15_no_assert", "C15_headers_above_max_ignored", "C15_recv_goaway_accept", "C15_recv_goaway_increase",
            "C15_recv_goaways", "C15_take_error", "C15_graceful_start", "C15_graceful_twice", "C15_goaway_emit",
            "C15_shutdown_ping_emit", "C15_shutdown_pong", "C15_idle_close_except_known", "C15_idle_close_known_refuted",
            "C15_known_refuted_run", "C15_close_now_closes", "C15_closing_closed",
            "C15_nonvacuous", "C15_nonvacuous_graceful"]
PARTIAL = [
    "proved on the model for ALL label sequences: emitted GOAWAY last ids never increase and are >= every peer stream processed "
    "before; the assert in GoAway::go_away (and Recv::go_away) never fires; after GOAWAY(L) is taken Send::max_stream_id = L, a larger "
    "L is a connection error PROTOCOL_ERROR, take_error reports the peer's (debug, code) iff the code is not NO_ERROR; the graceful "
    "shutdown steps (GOAWAY(2^31-1), PING(SHUTDOWN), on its PONG GOAWAY(last_processed_id) with Recv::max_stream_id lowered in the "
    "same step, second request a no-op, idle -> Closing -> Closed -> Ok);",
    "NOT proved (stream layer, explored by the wire oracle): that streams at or below the id run to completion, that locally initiated "
    "streams above the peer's id fail with the peer's reason (modelled as output OStreamsGoAway), that no new stream is started after "
    "GOAWAY (send_request / push_request) — two defects of exactly this kind were found by the oracle and repaired "
    "(corpus/control/*.json); liveness of the drain (every in-flight stream eventually ends) is not stated;",
    "known finding KF-C15-1: with last_processed_id = 2^31-1 should_close_on_idle is false for ever (GoAway::should_close_on_idle compares "
    "with StreamId::MAX): C15_idle_close_except_known carries the hypothesis l <> MAX_ID, C15_idle_close_known_refuted / "
    "C15_known_refuted_run show the close never starts otherwise; the corpus replay is re-run on every check and reported as KNOWN-FINDING",
]


def correspond(rep, tier, seed):
    rep.partial.extend(PARTIAL)
    rep.assumptions.append("poll2 order (no frame taken while a GOAWAY is pending or close_now is set): Stuck guards of the model, checked by the lock-step")
    corpus = control.corpus_scenarios()
    scs, failing = control.correspond_control(rep, tier, seed + 7, extra=corpus)
    n_viol = control.oracle_control(rep, scs, "C15")
    # oracle-only volume (cheap: no evaluation inside Coq): GOAWAY sequences from the client's and the server's point of view,
    # in particular a second GOAWAY that lowers the cut-off with streams on both sides of both cut-offs
    from props.parts import sendflow
    for k, (role, n) in enumerate((("client", 160), ("server", 80)) if tier == "quick" else (("client", 4000), ("server", 2000))):
        more, _ = sendflow.gen_scenarios(seed * 313 + 11 + k, n, 120, "control", role=role)
        n_viol += control.oracle_control(rep, more, "C15")
    failing = control.split_assert_failures(rep, scs, failing)
    if failing and n_viol == 0:
        if not search(rep, tier, seed, reason="correspondence"):
            control.report_disagreements(rep, scs, failing, theorems=THEOREMS)


def search(rep, tier, seed, reason=""):
    return control.search_control(rep, tier, seed, "C15")
