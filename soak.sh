#!/bin/sh
# developer convenience: every quick check under several seeds; prints only verdict lines that are not OK/KNOWN
cd "$(dirname "$0")"
for s in ${SEEDS:-2 3 4 5}; do
  for p in C01 C02 C03 C04 C05 C06 C07 C08 C09 C10 C11 C12 C13 C14 C15 C16 C17 C18 C19 C20; do
    VERIF_SEED=$s ./check $p --tier quick 2>&1 | grep -E "^(OK|VIOLATION)" | sed "s/^/seed=$s /" | cut -c1-170
  done
done
