#!/bin/sh
# developer convenience: run every registered quick check in sequence and print the verdict lines
cd "$(dirname "$0")"
for p in ${*:-C01 C02 C03 C04 C05 C06 C07 C08 C09 C10 C11 C12 C13 C14 C15 C16 C17 C18 C19 C20}; do
  [ -f lib/props/$(echo $p | tr A-Z a-z).py ] || { echo "-- $p: no plugin"; continue; }
  ./check $p --tier quick 2>&1 | grep -E "^(OK|VIOLATION|KNOWN-FINDING)" | cut -c1-200
done
