"""Translator plug-in: numeric constants of h2's frame layer and codec -> coq/Gen/FrameConsts.v

Executed by gen.py (helpers `read`, `strip_comments`, `write_if_changed`, `num`, `HEADER` are
injected as globals).  Every constant is looked up in the exact syntactic shape the model relies
on; a constant that is missing or has a different shape aborts the whole run (SystemExit), so a
semantic edit of the source either changes a generated value (and breaks a proof obligation /
the correspondence) or stops the check loudly.
"""
import re

OUTPUTS = ['FrameConsts.v']


def _die(msg):
    raise SystemExit("translator(gen_frameconsts): " + msg)


def _expr(tok):
    """Evaluate a Rust integer constant expression made of literals, << * + - | and parentheses."""
    t = tok.strip()
    t = re.sub(r"(?<=[0-9a-fA-F])(usize|u8|u16|u32|u64|i32|i64)\b", "", t)
    t = t.replace("_", "")
    if not re.fullmatch(r"[0-9a-fA-Fx\s()<>*+\-|]+", t):
        _die("unsupported constant expression %r" % tok)
    return int(eval(t, {"__builtins__": {}}, {}))


def _const(src, name, path):
    m = re.search(r"\bconst\s+%s\s*:\s*[\w:<>]+\s*=\s*([^;]+);" % re.escape(name), src)
    if not m:
        _die("const %s not found in %s" % (name, path))
    return m.group(1)


def generate():
    out = []

    def D(name, val, comment=None):
        out.append("Definition %s : N := %d.%s" % (name, val, ("  (* %s *)" % comment) if comment else ""))

    # ---- frame/head.rs : Kind ------------------------------------------------------------
    head = strip_comments(read("src/frame/head.rs"))
    m = re.search(r"pub enum Kind\s*\{(.*?)\}", head, re.S)
    if not m:
        _die("enum Kind not found in frame/head.rs")
    kinds = re.findall(r"(\w+)\s*=\s*(\d+)\s*,", m.group(1))
    want = ["Data", "Headers", "Priority", "Reset", "Settings", "PushPromise", "Ping", "GoAway",
            "WindowUpdate", "Continuation"]
    if [k for k, _ in kinds] != want or "Unknown" not in m.group(1):
        _die("enum Kind has unexpected variants %r" % (kinds,))
    # Kind::new must map byte i to the variant numbered i, anything else to Unknown
    mk = re.search(r"pub fn new\(byte: u8\) -> Kind\s*\{\s*match byte\s*\{(.*?)\}\s*\}", head, re.S)
    if not mk:
        _die("Kind::new not found in the expected shape")
    arms = re.findall(r"(\d+|_)\s*=>\s*Kind::(\w+)", mk.group(1))
    if arms != [(v, k) for k, v in kinds] + [("_", "Unknown")]:
        _die("Kind::new arms differ from the enum discriminants: %r" % (arms,))
    out.append("(* frame/head.rs: enum Kind / Kind::new *)")
    for k, v in kinds:
        D("kind_" + re.sub(r"(?<!^)(?=[A-Z])", "_", k).lower(), int(v))
    # Head::encode layout: put_uint(len,3); put_u8(kind); put_u8(flag); put_u32(stream_id)
    me = re.search(r"pub fn encode<T: BufMut>\(&self, payload_len: usize, dst: &mut T\)\s*\{(.*?)\n    \}", head, re.S)
    if not me:
        _die("Head::encode not found")
    puts = re.findall(r"dst\.(put_\w+)\(([^;]*)\);", me.group(1))
    if [p for p, _ in puts] != ["put_uint", "put_u8", "put_u8", "put_u32"] or not puts[0][1].replace(" ", "").endswith(",3"):
        _die("Head::encode layout changed: %r" % (puts,))
    mp = re.search(r"pub fn parse\(header: &\[u8\]\) -> Head\s*\{(.*?)\n    \}", head, re.S)
    if not mp or "header[5..]" not in mp.group(1) or "header[3]" not in mp.group(1) or "header[4]" not in mp.group(1):
        _die("Head::parse offsets changed")
    D("head_kind_offset", 3)
    D("head_flag_offset", 4)
    D("head_sid_offset", 5)

    # ---- frame/mod.rs ---------------------------------------------------------------------
    fmod = strip_comments(read("src/frame/mod.rs"))
    out.append("\n(* frame/mod.rs *)")
    D("HEADER_LEN", _expr(_const(fmod, "HEADER_LEN", "frame/mod.rs")))

    # ---- flags ----------------------------------------------------------------------------
    data = strip_comments(read("src/frame/data.rs"))
    out.append("\n(* frame/data.rs flags *)")
    d_es = _expr(_const(data, "END_STREAM", "frame/data.rs"))
    d_pad = _expr(_const(data, "PADDED", "frame/data.rs"))
    if _const(data, "ALL", "frame/data.rs").replace(" ", "") != "END_STREAM|PADDED":
        _die("data.rs ALL mask changed")
    D("data_END_STREAM", d_es)
    D("data_PADDED", d_pad)
    D("data_ALL", d_es | d_pad)

    hdrs = strip_comments(read("src/frame/headers.rs"))
    out.append("\n(* frame/headers.rs flags *)")
    h = {}
    for n in ("END_STREAM", "END_HEADERS", "PADDED", "PRIORITY"):
        h[n] = _expr(_const(hdrs, n, "frame/headers.rs"))
        D("headers_" + n, h[n])
    if _const(hdrs, "ALL", "frame/headers.rs").replace(" ", "") != "END_STREAM|END_HEADERS|PADDED|PRIORITY":
        _die("headers.rs ALL mask changed")
    D("headers_ALL", h["END_STREAM"] | h["END_HEADERS"] | h["PADDED"] | h["PRIORITY"])
    D("MAX_HEADER_LIST_ABUSE_MULTIPLIER", _expr(_const(hdrs, "MAX_HEADER_LIST_ABUSE_MULTIPLIER", "frame/headers.rs")))
    mc = re.search(r"impl Continuation\s*\{\s*fn head\(&self\) -> Head\s*\{\s*Head::new\(Kind::Continuation,\s*(\w+),", hdrs)
    if not mc or mc.group(1) != "END_HEADERS":
        _die("Continuation::head flag changed")
    mdh = re.search(r"impl Default for HeadersFlag\s*\{.*?HeadersFlag\((\w+)\)", hdrs, re.S)
    mdp = re.search(r"impl Default for PushPromiseFlag\s*\{.*?PushPromiseFlag\((\w+)\)", hdrs, re.S)
    if not mdh or not mdp or mdh.group(1) != "END_HEADERS" or mdp.group(1) != "END_HEADERS":
        _die("default HEADERS/PUSH_PROMISE flags changed")

    sett = strip_comments(read("src/frame/settings.rs"))
    out.append("\n(* frame/settings.rs *)")
    s_ack = _expr(_const(sett, "ACK", "frame/settings.rs"))
    if _const(sett, "ALL", "frame/settings.rs").strip() != "ACK":
        _die("settings.rs ALL mask changed")
    D("settings_ACK", s_ack)
    D("settings_ALL", s_ack)
    for n in ("DEFAULT_SETTINGS_HEADER_TABLE_SIZE", "DEFAULT_INITIAL_WINDOW_SIZE", "DEFAULT_MAX_FRAME_SIZE",
              "MAX_INITIAL_WINDOW_SIZE", "MAX_MAX_FRAME_SIZE"):
        D(n, _expr(_const(sett, n, "frame/settings.rs")))
    # setting identifiers: Setting::from_id and Setting::encode must agree
    mf = re.search(r"pub fn from_id\(id: u16, val: u32\) -> Option<Setting>\s*\{.*?match id\s*\{(.*?)\}", sett, re.S)
    if not mf:
        _die("Setting::from_id not found")
    ids = re.findall(r"(\d+)\s*=>\s*Some\((\w+)\(val\)\)", mf.group(1))
    me2 = re.search(r"let \(kind, val\) = match \*self\s*\{(.*?)\};", sett, re.S)
    if not me2:
        _die("Setting::encode not found")
    enc_ids = re.findall(r"(\w+)\(v\)\s*=>\s*\((\d+),\s*v\)", me2.group(1))
    if [(n, i) for i, n in ids] != enc_ids:
        _die("Setting::from_id and Setting::encode disagree: %r vs %r" % (ids, enc_ids))
    names = ["HeaderTableSize", "EnablePush", "MaxConcurrentStreams", "InitialWindowSize", "MaxFrameSize",
             "MaxHeaderListSize", "EnableConnectProtocol"]
    if [n for _, n in ids] != names:
        _die("unexpected set of settings: %r" % (ids,))
    for i, n in ids:
        D("setting_id_" + re.sub(r"(?<!^)(?=[A-Z])", "_", n).lower(), int(i))
    # encode order = order of for_each
    mfe = re.search(r"fn for_each<F: FnMut\(Setting\)>\(&self, mut f: F\)\s*\{(.*?)\n    \}", sett, re.S)
    if not mfe:
        _die("Settings::for_each not found")
    order = re.findall(r"f\((\w+)\(v\)\)", mfe.group(1))
    if order != names:
        _die("Settings::for_each order changed: %r" % (order,))
    idmap = {n: int(i) for i, n in ids}
    out.append("Definition settings_encode_order : list N := [%s]." % "; ".join(str(idmap[n]) for n in order))

    ping = strip_comments(read("src/frame/ping.rs"))
    out.append("\n(* frame/ping.rs *)")
    D("ping_ACK", _expr(_const(ping, "ACK_FLAG", "frame/ping.rs")))
    for n in ("SHUTDOWN_PAYLOAD", "USER_PAYLOAD"):
        m = re.search(r"const %s\s*:\s*Payload\s*=\s*\[([^\]]*)\]" % n, ping)
        if not m:
            _die("%s not found in frame/ping.rs" % n)
        vals = [num(t) for t in m.group(1).split(",") if t.strip()]
        if len(vals) != 8:
            _die("%s is not 8 bytes" % n)
        out.append("Definition ping_%s : list N := [%s]." % (n, "; ".join(map(str, vals))))

    sid = strip_comments(read("src/frame/stream_id.rs"))
    out.append("\n(* frame/stream_id.rs, frame/window_update.rs *)")
    D("STREAM_ID_MASK", _expr(_const(sid, "STREAM_ID_MASK", "frame/stream_id.rs")))
    wu = strip_comments(read("src/frame/window_update.rs"))
    D("SIZE_INCREMENT_MASK", _expr(_const(wu, "SIZE_INCREMENT_MASK", "frame/window_update.rs")))

    # ---- reason codes ------------------------------------------------------------------------
    rs = strip_comments(read("src/frame/reason.rs"))
    reasons = re.findall(r"pub const (\w+): Reason = Reason\((\d+)\);", rs)
    if len(reasons) != 14 or [int(v) for _, v in reasons] != list(range(14)):
        _die("unexpected Reason constants %r" % (reasons,))
    out.append("\n(* frame/reason.rs *)")
    for n, v in reasons:
        D("reason_" + n, int(v))

    # ---- proto/mod.rs --------------------------------------------------------------------------
    pm = strip_comments(read("src/proto/mod.rs"))
    out.append("\n(* proto/mod.rs *)")
    D("MAX_WINDOW_SIZE", _expr(_const(pm, "MAX_WINDOW_SIZE", "proto/mod.rs")))

    # ---- codec/framed_write.rs --------------------------------------------------------------------
    fw = strip_comments(read("src/codec/framed_write.rs"))
    out.append("\n(* codec/framed_write.rs *)")
    for n in ("DEFAULT_BUFFER_CAPACITY", "CHAIN_THRESHOLD", "CHAIN_THRESHOLD_WITHOUT_VECTORED_IO"):
        D(n, _expr(_const(fw, n, "codec/framed_write.rs")))
    # min_buffer_capacity: chain_threshold + frame::HEADER_LEN
    if not re.search(r"min_buffer_capacity:\s*chain_threshold\s*\+\s*frame::HEADER_LEN", fw):
        _die("min_buffer_capacity is no longer chain_threshold + HEADER_LEN")
    D("MIN_BUFFER_CAPACITY_EXTRA", 9, "min_buffer_capacity = chain_threshold + frame::HEADER_LEN")
    if not re.search(r"let limit = \$self\.max_frame_size\(\) \+ frame::HEADER_LEN;", fw):
        _die("limited_write_buf! limit is no longer max_frame_size + HEADER_LEN")
    if not re.search(r"if len > self\.max_frame_size\(\)\s*\{\s*return Err\(PayloadTooBig\);", fw):
        _die("Encoder::buffer DATA size check changed shape")
    if not re.search(r"if len >= self\.chain_threshold\s*\{", fw):
        _die("Encoder::buffer chain threshold comparison changed shape")
    if not re.search(r"max_frame_size:\s*frame::DEFAULT_MAX_FRAME_SIZE", fw):
        _die("FramedWrite::new initial max_frame_size changed")

    # ---- codec/framed_read.rs ------------------------------------------------------------------------
    fr = strip_comments(read("src/codec/framed_read.rs"))
    out.append("\n(* codec/framed_read.rs *)")
    D("DEFAULT_SETTINGS_MAX_HEADER_LIST_SIZE", _expr(_const(fr, "DEFAULT_SETTINGS_MAX_HEADER_LIST_SIZE", "codec/framed_read.rs")))
    mcc = re.search(r"fn calc_max_continuation_frames\(header_max: usize, frame_max: usize\) -> usize\s*\{(.*?)\n\}", fr, re.S)
    if not mcc:
        _die("calc_max_continuation_frames not found")
    body = re.sub(r"\s+", " ", mcc.group(1))
    mm = re.search(r"let min_frames_for_list = \(header_max / frame_max\)\.max\((\d+)\); "
                   r"let padding = min_frames_for_list >> (\d+); "
                   r"min_frames_for_list\.saturating_add\(padding\)\.max\((\d+)\)", body)
    if not mm:
        _die("calc_max_continuation_frames changed shape: %r" % body)
    D("cont_min_frames_floor", int(mm.group(1)))
    D("cont_padding_divisor", 2 ** int(mm.group(2)), "padding = min_frames_for_list >> %s" % mm.group(2))
    D("cont_min_limit", int(mm.group(3)))
    mfl = re.search(r"let is_end_headers = \(head\.flag\(\) & (0x[0-9a-fA-F]+)\) == (0x[0-9a-fA-F]+);", fr)
    if not mfl or mfl.group(1) != mfl.group(2):
        _die("CONTINUATION END_HEADERS test changed shape")
    D("continuation_END_HEADERS", num(mfl.group(1)))
    if not re.search(r"if cnt > max_continuation_frames\s*\{", fr):
        _die("continuation counter comparison changed shape")
    if not re.search(r"if partial\.buf\.len\(\) \+ bytes\.len\(\) > max_header_list_size\s*\{", fr):
        _die("over-size ignorable limit comparison changed shape")

    # ---- codec/mod.rs: length-delimited configuration ----------------------------------------------------
    cm = re.sub(r"\s+", "", strip_comments(read("src/codec/mod.rs")))
    mld = re.search(r"length_delimited::Builder::new\(\)\.big_endian\(\)\.length_field_length\((\d+)\)"
                    r"\.length_adjustment\((\d+)\)\.num_skip\((\d+)\)\.new_read\(framed_write\)", cm)
    if not mld:
        _die("length_delimited builder chain in codec/mod.rs changed shape")
    out.append("\n(* codec/mod.rs: tokio_util LengthDelimitedCodec configuration *)")
    D("ld_length_field_length", int(mld.group(1)))
    D("ld_length_adjustment", int(mld.group(2)))
    D("ld_num_skip", int(mld.group(3)))
    D("ld_length_field_offset", 0, "builder default, not overridden")

    # ---- connection preface ------------------------------------------------------------------------------
    srv = read("src/server.rs")
    mpf = re.search(r'const PREFACE: \[u8; (\d+)\] = \*b"((?:[^"\\]|\\.)*)";', srv)
    if not mpf:
        _die("PREFACE not found in server.rs")
    pre = bytes(mpf.group(2), "ascii").decode("unicode_escape").encode("latin-1")
    if len(pre) != int(mpf.group(1)):
        _die("PREFACE length mismatch")
    cli = read("src/client.rs")
    mcl = re.search(r'let msg: &\'static \[u8\] = b"((?:[^"\\]|\\.)*)";', cli)
    if not mcl or bytes(mcl.group(1), "ascii").decode("unicode_escape").encode("latin-1") != pre:
        _die("client preface differs from server PREFACE")
    out.append("\n(* server.rs PREFACE / client.rs bind_connection *)")
    out.append("Definition connection_preface : list N := [%s]." % "; ".join(str(b) for b in pre))

    text = HEADER % "src/frame/*.rs, src/codec/{mod,framed_read,framed_write}.rs, src/proto/mod.rs, src/{server,client}.rs"
    text += "\n".join(out) + "\n"
    return {"FrameConsts.v": write_if_changed("FrameConsts.v", text)}
