"""Translator plug-in: inventory of the panic sites of h2's receive path -> coq/Gen/PanicSites.v

For the files C08 is anchored in, every `panic!`, `unreachable!`, `unimplemented!`, `todo!`, `assert!`,
`assert_eq!`, `assert_ne!`, `.unwrap()`, `.expect(` occurrence outside `#[cfg(test)]` modules and outside
`#[cfg(feature = "verif-hooks")]` items is listed as

    (file, enclosing fn, kind, ordinal of that kind inside the fn, normalised source text)

`debug_assert*` sites are listed too (kind 5) — they only exist in debug builds.  Slice/array indexing and
integer arithmetic are NOT inventoried (too noisy syntactically); arithmetic is covered by the models
that carry the numbers (Window, counters), indexing is residual (see DESIGN.md, C08).

The key of a site is (file, fn, kind, ordinal): stable under edits elsewhere in the file.  The hand-written
table coq/Model/PanicCover.v assigns every key a coverage class; theorem C08_sites_classified says the
table is total on the regenerated inventory, so a new or moved panic site breaks a proof obligation.
"""
import re

OUTPUTS = ['PanicSites.v']

FILES = [
    "src/codec/framed_read.rs", "src/frame/headers.rs", "src/frame/data.rs", "src/frame/settings.rs",
    "src/frame/util.rs", "src/frame/head.rs", "src/frame/go_away.rs", "src/frame/ping.rs", "src/frame/priority.rs",
    "src/frame/reset.rs", "src/frame/window_update.rs", "src/frame/stream_id.rs",
    "src/hpack/decoder.rs", "src/hpack/huffman/mod.rs", "src/hpack/table.rs", "src/hpack/header.rs",
    "src/proto/connection.rs", "src/proto/streams/streams.rs", "src/proto/streams/recv.rs",
    "src/proto/streams/flow_control.rs", "src/proto/go_away.rs", "src/proto/ping_pong.rs", "src/proto/settings.rs",
    "src/proto/streams/counts.rs", "src/proto/streams/store.rs", "src/proto/streams/state.rs",
    "src/proto/streams/send.rs", "src/proto/streams/prioritize.rs", "src/proto/streams/buffer.rs",
    "src/proto/streams/stream.rs",
]

KINDS = [("panic", r"\bpanic!\s*\("), ("unreachable", r"\bunreachable!\s*\("), ("unimplemented", r"\b(?:unimplemented|todo)!\s*\("),
         ("assert", r"(?<![_a-z])assert(?:_eq|_ne)?!\s*\("), ("unwrap", r"\.unwrap\(\)"), ("expect", r"\.expect\("),
         ("debug_assert", r"\bdebug_assert(?:_eq|_ne)?!\s*\(")]


def _blank(src):
    """comments and string/char literals replaced by spaces (same length, same line structure)"""
    out = []
    i, n = 0, len(src)
    while i < n:
        c = src[i]
        if src.startswith("//", i):
            j = src.find("\n", i)
            j = n if j < 0 else j
            out.append(" " * (j - i)); i = j
        elif src.startswith("/*", i):
            j = src.find("*/", i + 2)
            j = n if j < 0 else j + 2
            out.append(re.sub(r"[^\n]", " ", src[i:j])); i = j
        elif c == '"':
            j = i + 1
            while j < n and src[j] != '"':
                j += 2 if src[j] == "\\" else 1
            j = min(j + 1, n)
            out.append('"' + re.sub(r"[^\n]", " ", src[i + 1:j - 1]) + '"'); i = j
        elif c == "'" and re.match(r"'(\\.|[^\\'])'", src[i:i + 4]):
            m = re.match(r"'(\\.|[^\\'])'", src[i:i + 4])
            out.append(" " * m.end()); i += m.end()
        else:
            out.append(c); i += 1
    return "".join(out)


def _match_brace(s, i):
    """s[i] == '{' -> index after the matching '}'"""
    d = 0
    for j in range(i, len(s)):
        if s[j] == "{":
            d += 1
        elif s[j] == "}":
            d -= 1
            if d == 0:
                return j + 1
    return len(s)


def _excluded_spans(b):
    """spans of #[cfg(test)] items and #[cfg(feature = "verif-hooks")] items/statements"""
    spans = []
    for m in re.finditer(r"#\[cfg\((?:test|feature\s*=\s*\"[^\"]*\")\)\]", b):
        attr = b[m.start():m.end()]
        if "test" not in attr and "verif" not in _orig[m.start():m.end()]:
            continue
        # the item/statement that follows: up to the matching brace of its first '{', or the first ';' before any '{'
        k = m.end()
        semi = b.find(";", k)
        brace = b.find("{", k)
        if brace >= 0 and (semi < 0 or brace < semi):
            end = _match_brace(b, brace)
            # `let x = f(|| { .. });` style: extend to the terminating ';' if it follows directly
            t = re.match(r"\s*\)*\s*;", b[end:end + 8])
            if t:
                end += t.end()
        else:
            end = semi + 1 if semi >= 0 else len(b)
        spans.append((m.start(), end))
    return spans


_orig = ""


def _functions(b):
    """(name, body_start, body_end) of every fn with a body, innermost last"""
    res = []
    for m in re.finditer(r"\bfn\s+([A-Za-z_][A-Za-z0-9_]*)", b):
        k = m.end()
        # find the body's '{' : first '{' at paren depth 0 before a ';'
        depth = 0
        j = k
        body = -1
        while j < len(b):
            ch = b[j]
            if ch in "(<[":
                depth += 1 if ch != "<" else 0
            elif ch in ")]":
                depth -= 1
            elif ch == ";" and depth <= 0:
                break
            elif ch == "{" and depth <= 0:
                body = j
                break
            j += 1
        if body >= 0:
            res.append((m.group(1), body, _match_brace(b, body)))
    return res


def _enclosing(funcs, pos):
    best = None
    for (name, s, e) in funcs:
        if s <= pos < e and (best is None or s >= best[1]):
            best = (name, s, e)
    return best[0] if best else "<top>"


def _coq_str(s):
    return '"' + s.replace('"', '""') + '"'


def generate():
    global _orig
    sites = []
    for rel in FILES:
        try:
            src = read(rel)
        except OSError:
            raise SystemExit("translator(gen_panics): %s is gone" % rel)
        _orig = src
        b = _blank(src)
        excl = _excluded_spans(b)
        funcs = _functions(b)
        counters = {}
        found = []
        for ki, (kname, pat) in enumerate(KINDS):
            for m in re.finditer(pat, b):
                if any(s <= m.start() < e for (s, e) in excl):
                    continue
                found.append((m.start(), ki, kname))
        found.sort()
        for pos, ki, kname in found:
            fn = _enclosing(funcs, pos)
            key = (fn, ki)
            counters[key] = counters.get(key, 0) + 1
            ls = src.rfind("\n", 0, pos) + 1
            le = src.find("\n", pos)
            text = re.sub(r"\s+", " ", src[ls:le if le >= 0 else len(src)].strip())[:110]
            sites.append((rel[4:], fn, ki, counters[key], text))
    t = HEADER % "the panic sites of the files C08 is anchored in"
    t += "Local Open Scope string_scope.\n"
    t += "(* kind: 0 panic!, 1 unreachable!, 2 unimplemented!/todo!, 3 assert*!, 4 .unwrap(), 5 .expect(, 6 debug_assert*! *)\n"
    t += "Definition panic_sites : list (string * string * N * N * string) := [\n"
    t += ";\n".join("  (%s, %s, %d%%N, %d%%N, %s)" % (_coq_str(f), _coq_str(fn), k, o, _coq_str(tx)) for (f, fn, k, o, tx) in sites)
    t += "\n].\n"
    return {"PanicSites.v": write_if_changed("PanicSites.v", t)}
