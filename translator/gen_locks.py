"""Translator plug-in: inventory of every lock acquisition of h2 -> coq/Gen/LockInventory.v   (property C20)

Executed by gen.py (helpers `read`, `strip_comments`, `write_if_changed`, `REPO` are injected as globals).

What is rendered (all from /repo's *current* working tree, textual / brace-level parsing, hook statements
guarded by `#[cfg(feature = "verif-hooks")]` removed first):

  * every function of src/ that calls `.lock()` / `.try_lock()`: which lock (`inner` = Mutex<Inner>,
    `send_buffer.inner` = Mutex<Buffer<..>>), in which textual order, which guards are alive at each acquisition
    (lexical guard scopes, `drop(guard)`), whether the acquisition sits in a loop, how a poisoned lock is consumed,
    how many transport / poll / await calls happen while a guard is alive, whether a waker is woken directly while a
    guard is alive, whether the (single) guard lives to the end of the function;
  * the functions that take `inner` more than once or inside a loop (= the unlock points of the connection task);
  * `Drop` implementations that reach a `lock().unwrap()` site (a destructor that panics on a poisoned lock);
  * `unsafe` blocks of src/, other synchronisation primitives, every hook emission site with its protection class.

The plug-in FAILS LOUDLY (SystemExit -> the check stops with `translator` broken) when the source no longer has the
shape the proofs rely on: a Mutex outside proto/streams/streams.rs, a lock receiver it cannot classify, a new unlock
point, a transport call in a file that only runs under the lock, an `Inner` method called on something that is not a
guard, `buffer_pending` no longer reclaiming before/after staging.
"""
import os
import re

OUTPUTS = ["LockInventory.v"]
STREAMS = "src/proto/streams/streams.rs"
EXPECTED_UNLOCK_POINTS = ["Streams::send_pending_refusal", "Streams::poll_complete"]
BLOCKING = [r"\.await\b", r"\bpoll_ready\s*\(", r"\.flush\s*\(", r"\bpoll_flush\s*\(", r"\bpoll_write\s*\(",
            r"\bpoll_read\s*\(", r"\bpoll_shutdown\s*\(", r"\.shutdown\s*\(", r"\bready!\s*\("]
LOCKED_FILES = ["src/proto/streams/prioritize.rs", "src/proto/streams/send.rs", "src/proto/streams/recv.rs",
                "src/proto/streams/counts.rs", "src/proto/streams/store.rs", "src/proto/streams/stream.rs",
                "src/proto/streams/state.rs", "src/proto/streams/flow_control.rs", "src/proto/streams/buffer.rs"]


def _die(msg):
    raise SystemExit("translator(gen_locks): " + msg)


def blank_literals(s):
    """comments already stripped; replace the contents of string / char literals by spaces (same length)"""
    out = list(s)
    i, n = 0, len(s)
    while i < n:
        c = s[i]
        if c == '"' or (c == "r" and re.match(r'r#*"', s[i:i + 8]) and (i == 0 or not (s[i - 1].isalnum() or s[i - 1] == "_"))):
            if c == "r":
                m = re.match(r'r(#*)"', s[i:])
                hashes = m.group(1)
                start = i + len(m.group(0))
                end = s.find('"' + hashes, start)
                if end < 0:
                    _die("unterminated raw string")
                for k in range(start, end):
                    if out[k] != "\n":
                        out[k] = " "
                i = end + 1 + len(hashes)
                continue
            j = i + 1
            while j < n and s[j] != '"':
                if s[j] == "\\":
                    out[j] = " "
                    j += 1
                if j < n and out[j] != "\n":
                    out[j] = " "
                j += 1
            i = j + 1
            continue
        if c == "'":
            # char literal or lifetime
            if i + 2 < n and s[i + 1] == "\\":
                j = s.find("'", i + 2)
                for k in range(i + 1, j):
                    out[k] = " "
                i = j + 1
                continue
            if i + 2 < n and s[i + 2] == "'":
                out[i + 1] = " "
                i += 3
                continue
        i += 1
    return "".join(out)


HOOK_ATTR = re.compile(r'#\[cfg\(feature = "verif-hooks"\)\]')


def strip_hooks(raw, blanked):
    """remove every statement / item guarded by the hook feature (positions from `raw`, structure from `blanked`)"""
    out = list(blanked)
    for m in HOOK_ATTR.finditer(raw):
        i = m.end()
        n = len(blanked)
        while i < n and blanked[i].isspace():
            i += 1
        is_item = re.match(r"(pub(\([a-z]+\))?\s+)?(impl|fn|mod|use|struct|enum|static|const)\b", blanked[i:i + 40]) is not None
        depth = 0
        j = i
        while j < n:
            ch = blanked[j]
            if ch in "([{":
                depth += 1
            elif ch in ")]}":
                depth -= 1
                if depth == 0 and ch == "}" and is_item:
                    j += 1
                    break
                if depth < 0:      # the statement was the tail expression of a block
                    break
            elif ch == ";" and depth == 0:
                j += 1
                break
            j += 1
        for k in range(m.start(), j):
            if out[k] != "\n":
                out[k] = " "
    return "".join(out)


def clean(rel):
    raw = strip_comments(read(rel))
    # strip_comments of gen.py is regex based and would eat `//` inside string literals; none of the files have any
    return strip_hooks(raw, blank_literals(raw))


def match_brace(s, i):
    """s[i] == '{' -> index of the matching '}'"""
    depth = 0
    for j in range(i, len(s)):
        if s[j] == "{":
            depth += 1
        elif s[j] == "}":
            depth -= 1
            if depth == 0:
                return j
    _die("unbalanced braces")


def impls_and_fns(s):
    """-> list of (qualified name, impl header, body start, body end) for every fn with a body"""
    res = []
    # impl blocks at depth 0
    spans = []
    depth = 0
    i = 0
    n = len(s)
    tops = []      # (start, end, header)
    while i < n:
        if s[i] == "{":
            if depth == 0:
                # header = text since the previous top-level '}' or ';'
                k = max(s.rfind("}", 0, i), s.rfind(";", 0, i))
                header = " ".join(s[k + 1:i].split())
                j = match_brace(s, i)
                tops.append((i, j, header))
                i = j + 1
                continue
        i += 1
    for (a, b, header) in tops:
        hm = re.match(r"(?:pub(?:\([a-z]+\))?\s+)?impl(?:<[^{]*?>)?\s+(?:(?:[\w:]+(?:<[^{]*?>)?)\s+for\s+)?(\w+)", header)
        tm = re.search(r"impl(?:<[^{]*?>)?\s+([\w:]+)(?:<[^{]*?>)?\s+for\s+(\w+)", header)
        if header.startswith("impl") or re.match(r"pub(\([a-z]+\))?\s+impl", header):
            if tm:
                owner, trait = tm.group(2), tm.group(1).split("::")[-1]
            elif hm:
                owner, trait = hm.group(1), None
            else:
                _die("cannot parse impl header %r" % header)
            body = s[a:b + 1]
            for fm in re.finditer(r"\bfn\s+(\w+)", body):
                # body of the fn: first '{' after the signature at paren depth 0 (or ';' for a declaration)
                p = fm.end()
                pd = 0
                while p < len(body):
                    ch = body[p]
                    if ch in "(<[":
                        pd += 1 if ch != "<" else 0
                    elif ch in ")]":
                        pd -= 1
                    elif ch == "{" and pd == 0:
                        break
                    elif ch == ";" and pd == 0:
                        p = -1
                        break
                    p += 1
                if p < 0 or p >= len(body):
                    continue
                q = match_brace(body, p)
                name = "%s::%s" % (owner, fm.group(1))
                if trait in ("Drop", "Clone", "Debug"):
                    name = "%s::%s" % (owner, fm.group(1))
                res.append((name, header, trait, a + p, a + q))
        elif re.search(r"\bfn\s+(\w+)", header):
            fm = re.search(r"\bfn\s+(\w+)", header)
            res.append((fm.group(1), header, None, a, b))
    return res


def classify_receiver(recv, owner):
    r = re.sub(r"\s+", "", recv)
    if r.endswith("send_buffer.inner"):
        return "LSendBuf"
    if owner == "SendBuffer" and r == "self.inner":
        return "LSendBuf"
    if r in ("self.inner", "self.opaque.inner", "inner"):
        return "LInner"
    _die("cannot classify the receiver %r of a lock() call (in impl %s)" % (recv, owner))


def analyse_fn(name, owner, trait, body):
    """body = text of the fn from '{' to '}' inclusive.  Returns the record of the function or None."""
    if ".lock()" not in re.sub(r"\s+", "", body) and ".try_lock()" not in re.sub(r"\s+", "", body):
        return None
    return analyse_fn_body(name, owner, trait, body)


def analyse_fn_body(name, owner, trait, body):
    guards = []        # dict(name, lock, depth, temp)
    acqs = []
    depth = 0
    blocks = []        # kinds of the open blocks
    blocking = 0
    wakes = False
    to_end = False
    i = 0
    n = len(body)
    stmt_start = 0
    lock_re = re.compile(r"\.\s*(lock|try_lock)\s*\(\s*\)")
    blocking_re = re.compile("|".join(BLOCKING))
    intervals = []
    alive_from = None
    while i < n:
        ch = body[i]
        if guards and alive_from is None:
            alive_from = i
        if not guards and alive_from is not None:
            intervals.append((alive_from, i))
            alive_from = None
        if ch == "{":
            pre = body[max(0, i - 120):i]
            kind = "loop" if re.search(r"\b(loop|while\b[^{};]*|for\b[^{};]*)\s*$", pre) else "block"
            blocks.append(kind)
            depth += 1
            stmt_start = i + 1
        elif ch == "}":
            guards = [g for g in guards if not (g["depth"] >= depth)]
            depth -= 1
            blocks.pop()
            stmt_start = i + 1
            if depth == 0:
                break
        elif ch == ";":
            guards = [g for g in guards if not (g["temp"] and g["depth"] >= depth)]
            stmt_start = i + 1
        else:
            m = lock_re.match(body, i)
            if m:
                full_prefix = re.sub(r"\s*\.\s*", ".", " ".join(body[stmt_start:i].split()))
                rm = re.search(r"([\w.]+)$", full_prefix)
                if not rm:
                    _die("no receiver in front of lock() in %s" % name)
                recv = rm.group(1)
                lock = classify_receiver(recv, owner)
                after = body[m.end():m.end() + 200]
                gname, temp, gdepth = None, True, depth
                lm = re.match(r"let\s+(?:mut\s+)?(\w+)\s*=\s*(match\s+)?[\w.]+$", full_prefix)
                im = re.match(r"if\s+let\s+Ok\(\s*(?:mut\s+)?(\w+)\s*\)\s*=\s*[\w.]+$", full_prefix)
                mm = re.match(r"match\s+[\w.]+$", full_prefix)
                if lm:
                    gname, temp = lm.group(1), False
                elif im:
                    gname, temp, gdepth = im.group(1), False, depth + 1
                elif mm:
                    gname, temp, gdepth = "<scrutinee>", False, depth + 1
                if m.group(1) == "try_lock":
                    poison = "PTry"
                elif im:
                    poison = "PSkip"
                elif lm and lm.group(2):
                    poison = "PPanicUnlessPanicking" if "thread::panicking()" in body else "PMatch"
                elif re.match(r"\s*\.\s*unwrap\s*\(\s*\)", after):
                    poison = "PUnwrap"
                elif re.match(r"\s*\.\s*map_err\s*\(", after):
                    poison = "PErr"
                else:
                    _die("cannot tell how %s consumes the result of %s.lock()" % (name, recv))
                acqs.append({"lock": lock, "held": [g["lock"] for g in guards], "in_loop": "loop" in blocks,
                             "scoped": not temp, "poison": poison, "depth": gdepth})
                guards.append({"name": gname, "lock": lock, "depth": gdepth, "temp": temp})
                i = m.end()
                continue
            dm = re.match(r"\bdrop\s*\(\s*(\w+)\s*\)", body[i:i + 40]) if body.startswith("drop", i) else None
            if dm and (i == 0 or not (body[i - 1].isalnum() or body[i - 1] in "_.")):
                guards = [g for g in guards if g["name"] != dm.group(1)]
            if guards:
                if blocking_re.match(body, i):
                    blocking += 1
                if body.startswith(".wake()", i) or body.startswith(".wake_by_ref()", i):
                    wakes = True
        i += 1
    inner_acqs = [a for a in acqs if a["lock"] == "LInner"]
    # the single guard lives to the end of the function: bound by `let` at the function's own block depth (1), or
    # (if-let / match scrutinee) in the block that is the function's last statement, or a temporary of the tail expression
    if len(inner_acqs) == 1:
        a = inner_acqs[0]
        to_end = (a["scoped"] and a["depth"] <= 2 and not a["in_loop"]) or (not a["scoped"] and not a["in_loop"])
    if alive_from is not None:
        intervals.append((alive_from, n))
    return {"name": name, "acqs": acqs, "blocking": blocking, "wakes": wakes, "to_end": to_end, "intervals": intervals}


def coq_str(s):
    return '"%s"' % s.replace('"', "'")


def generate():
    # ---- 1. no lock outside streams.rs, other primitives ------------------------------------------------------
    mutex_files, other_sync, unsafe_blocks = [], [], []
    src_root = os.path.join(REPO, "src")
    for root, _, fs in os.walk(src_root):
        for fn in sorted(fs):
            if not fn.endswith(".rs"):
                continue
            rel = os.path.relpath(os.path.join(root, fn), REPO)
            if rel == "src/verif.rs":
                continue
            c = clean(rel)
            if re.search(r"\bMutex\b|\bRwLock\b|\bCondvar\b|\.\s*lock\s*\(\s*\)|\.\s*try_lock\s*\(\s*\)|\bRefCell\b|\bUnsafeCell\b", c):
                mutex_files.append(rel)
            for m in re.finditer(r"\b(Atomic[A-Z]\w*)\b", c):
                if (rel, m.group(1)) not in other_sync:
                    other_sync.append((rel, m.group(1)))
            k = len(re.findall(r"\bunsafe\b", c))
            if k:
                unsafe_blocks.append((rel, k))
    if mutex_files != [STREAMS]:
        _die("locks / interior mutability outside %s: %r" % (STREAMS, mutex_files))
    if sorted(other_sync) != sorted([("src/proto/ping_pong.rs", "AtomicUsize"), ("src/proto/ping_pong.rs", "AtomicWaker")]):
        _die("unexpected atomics: %r (the lock-free part modelled in Model/Control.v is the user-ping cell only)" % (other_sync,))
    for rel, k in unsafe_blocks:
        if rel in [STREAMS, "src/proto/streams/prioritize.rs", "src/proto/ping_pong.rs", "src/codec/framed_write.rs",
                   "src/share.rs", "src/client.rs"] or rel.startswith("src/proto/streams/"):
            _die("`unsafe` appeared in a file modelled for C20: %s" % rel)

    # ---- 2. the lock sites of streams.rs --------------------------------------------------------------------------
    s = clean(STREAMS)
    if not re.search(r"inner:\s*Arc<Mutex<Inner>>", s) or not re.search(r"struct SendBuffer<B>\s*\{\s*inner:\s*Mutex<Buffer<Frame<B>>>", s):
        _die("the two mutexes of streams.rs changed shape")
    fns = impls_and_fns(s)
    sites = []
    inner_methods = []
    locked_regions = []     # absolute offsets of streams.rs where a guard of `inner` is alive or the code belongs to Inner / Actions
    for (name, header, trait, a, b) in fns:
        owner = name.split("::")[0] if "::" in name else ""
        if owner in ("Inner", "Actions") or name == "maybe_cancel":
            locked_regions.append((a, b))
        rec = analyse_fn(name, owner, trait, s[a:b + 1])
        if rec is None:
            continue
        if owner != "SendBuffer":
            locked_regions += [(a + x, a + y) for (x, y) in rec["intervals"]]
        if owner == "Inner":
            rec["kind"], rec["entry"] = "KInnerMethod", ["LInner"]
            inner_methods.append(name.split("::")[1])
        elif owner == "DynStreams":
            rec["kind"], rec["entry"] = "KConn", []
        elif owner in ("StreamRef", "OpaqueStreamRef") or name == "drop_stream_ref":
            rec["kind"], rec["entry"] = "KHandle", []
        elif owner == "Streams":
            rec["kind"], rec["entry"] = "KShared", []
        elif owner == "SendBuffer":
            rec["kind"], rec["entry"] = "KOther", []
        else:
            _die("lock taken in an unexpected place: %s" % name)
        if trait in ("Drop", "Clone", "Debug"):
            rec["name"] = "%s::%s(%s)" % (owner, name.split("::")[1], trait)
        sites.append(rec)
    names = [r["name"] for r in sites]
    if len(set(names)) != len(names):
        # two impl blocks of one type may define equally named functions (Streams::recv_eof / DynStreams are distinct owners)
        seen = {}
        for r in sites:
            seen[r["name"]] = seen.get(r["name"], 0) + 1
            if seen[r["name"]] > 1:
                r["name"] += "#%d" % seen[r["name"]]
    # every Inner method that takes send_buffer is only ever called on a guard of `inner`
    for mth in inner_methods:
        for m in re.finditer(r"(?<![\w.])(\w+)\s*\.\s*%s\s*\(" % re.escape(mth), s):
            if m.group(1) not in ("me", "self"):
                _die("Inner::%s called on %r, not on a guard" % (mth, m.group(1)))
    # `SendBuffer::is_empty` (takes send_buffer alone) must not be called under a guard of send_buffer: it is called from
    # DynStreams::is_buffer_empty only
    if len(re.findall(r"send_buffer\s*\.\s*is_empty\s*\(", s)) != 1:
        _die("SendBuffer::is_empty has a new caller")

    # ---- 3. unlock points ------------------------------------------------------------------------------------------------
    multi = []
    for r in sites:
        ia = [a for a in r["acqs"] if a["lock"] == "LInner"]
        if r["kind"] != "KInnerMethod" and (len(ia) > 1 or any(a["in_loop"] for a in ia)):
            multi.append(r["name"])
    if multi != EXPECTED_UNLOCK_POINTS:
        _die("the set of functions that release and re-take `inner` changed: %r (expected %r): a new unlock point needs a "
             "hand-over argument (Model/Handover.v)" % (multi, EXPECTED_UNLOCK_POINTS))
    # they are called by the connection task only
    for fn_name, allowed in (("poll_complete", ["src/proto/connection.rs"]), ("send_pending_refusal", ["src/proto/connection.rs"])):
        for root, _, fs in os.walk(src_root):
            for f in fs:
                rel = os.path.relpath(os.path.join(root, f), REPO)
                if not rel.endswith(".rs") or rel in (STREAMS, "src/verif.rs"):
                    continue
                c = clean(rel)
                if re.search(r"streams\s*\.\s*%s\s*\(" % fn_name, c) and rel not in allowed:
                    _die("%s is called from %s (expected the connection task only)" % (fn_name, rel))
    # shape of poll_complete: lock / unlock / flush / relock
    pc = None
    for (name, header, trait, a, b) in fns:
        if name == "Streams::poll_complete":
            pc = re.sub(r"\s+", " ", s[a:b + 1])
    want = [r"loop \{", r"ready!\(dst\.poll_ready\(cx\)\)\?;", r"let status = \{ let mut me = self\.inner\.lock\(\)\.unwrap\(\);",
            r"me\.buffer_pending\(&self\.send_buffer, dst\)\?", r"me\.actions\.task = Some\(cx\.waker\(\)\.clone\(\)\);", r"status \};",
            r"ready!\(dst\.flush\(cx\)\)\?;", r"let reclaimed = \{ let mut me = self\.inner\.lock\(\)\.unwrap\(\); me\.reclaim_written_frame\(&self\.send_buffer, dst\) \};"]
    pos = 0
    for w in want:
        m = re.compile(w).search(pc or "", pos)
        if not m:
            _die("Streams::poll_complete no longer has the shape lock/stage/register/unlock/flush/relock/reclaim (missing %r)" % w)
        pos = m.end()
    # shape of Prioritize::buffer_pending: reclaim first, capacity check, pop, in-flight mark, buffer, reclaim
    p = re.sub(r"\s+", " ", clean("src/proto/streams/prioritize.rs"))
    bp = re.search(r"pub fn buffer_pending<T, B>\(.*?\n?\) -> io::Result<BufferStatus>.*?\{(.*?)pub fn reclaim_written_frame", p)
    if not bp:
        _die("Prioritize::buffer_pending not found")
    pos = 0
    for w in [r"self\.reclaim_frame\(buffer, store, dst\);", r"loop \{ if !dst\.has_send_capacity\(\) \{ return Ok\(BufferStatus::CodecFull\); \}",
              r"match self\.pop_frame\(buffer, store, max_frame_len, counts\) \{ Some\(frame\) => \{",
              r"debug_assert_eq!\(self\.in_flight_data_frame, InFlightData::Nothing\);",
              r"if let Frame::Data\(ref frame\) = frame \{ self\.in_flight_data_frame = InFlightData::DataFrame\(frame\.payload\(\)\.stream\);",
              r"dst\.buffer\(frame\)\.expect\(", r"self\.reclaim_frame\(buffer, store, dst\);", r"None => \{ return Ok\(BufferStatus::Complete\); \}"]:
        m = re.compile(w).search(bp.group(1), pos)
        if not m:
            _die("Prioritize::buffer_pending changed shape (missing %r after offset %d)" % (w, pos))
        pos = m.end()
    for w in [r"match mem::replace\(&mut self\.in_flight_data_frame, InFlightData::Nothing\) \{ InFlightData::Nothing => panic!\(",
              r"InFlightData::Drop => \{ (tracing::trace!\([^;]*\); )?return false; \}", r"InFlightData::DataFrame\(k\) => \{ debug_assert_eq!\(k, key\); \}",
              r"if frame\.payload\(\)\.has_remaining\(\) \{ let mut stream = store\.resolve\(key\);",
              r"self\.push_back_frame\(frame\.into\(\), buffer, &mut stream\); return true; \} false \}",
              r"stream\.pending_send\.push_front\(buffer, frame\);",
              r"stream\.buffered_send_data = 0; stream\.requested_send_capacity = 0; if let InFlightData::DataFrame\(key\) = self\.in_flight_data_frame \{ "
              r"if stream\.key\(\) == key \{ self\.in_flight_data_frame = InFlightData::Drop; \} \}"]:
        if not re.search(w, p):
            _die("prioritize.rs reclaim_frame_inner / push_back_frame / clear_queue changed shape (missing %r)" % w)
    if len(re.findall(r"take_last_data_frame\s*\(", p)) != 1:
        _die("take_last_data_frame has a new caller in prioritize.rs")
    st = re.sub(r"\s+", " ", clean("src/proto/streams/store.rs"))
    if not re.search(r"struct Key \{ index: SlabIndex, stream_id: StreamId, \}", st) or "derive(Debug, Clone, Copy, PartialEq, Eq)] pub(crate) struct Key" not in st:
        _die("store::Key is no longer (slab index, stream id) compared by both")
    if not re.search(r"\.filter\(\|s\| s\.id == key\.stream_id\)", st) and not re.search(r"s\.id == key\.stream_id", st):
        _die("store: resolving a key no longer checks the stream id")
    fw = re.sub(r"\s+", " ", clean("src/codec/framed_write.rs"))
    for w in [r"Some\(Next::Data\(frame\)\) => \{ self\.last_data_frame = Some\(frame\);", r"self\.last_data_frame = Some\(v\);",
              r"pub fn take_last_data_frame\(&mut self\) -> Option<frame::Data<B>> \{ self\.encoder\.last_data_frame\.take\(\) \}",
              r"fn has_capacity\(&self\) -> bool \{ self\.next\.is_none\(\) &&"]:
        if not re.search(w, fw):
            _die("codec/framed_write.rs last_data_frame protocol changed shape (missing %r)" % w)

    # ---- 4. nothing blocks under the lock ---------------------------------------------------------------------------------------
    blocking_re = re.compile("|".join(BLOCKING))
    for rel in LOCKED_FILES:
        try:
            c = clean(rel)
        except IOError:
            continue
        m = blocking_re.search(c)
        if m:
            _die("%s (code that only runs under the stream-state lock) contains a transport / poll / await call: %r" % (rel, m.group(0)))

    # ---- 5. destructors that reach an unwrap of the lock --------------------------------------------------------------------------
    # Destructors of the API handle types (share.rs, client.rs, server.rs, streams.rs): a call `self[.inner]*.m(..)` where m is a
    # handle-side lock site that unwraps the lock result.  (Connection::drop goes through DynStreams::recv_eof, which maps a
    # poisoned lock to Err; Counts / Store destructors run inside Inner.)
    unwrap_fns, other_fns = {}, set()
    for r in sites:
        short = r["name"].split("::")[-1].split("(")[0].split("#")[0]
        if r["kind"] in ("KHandle", "KShared") and any(a["poison"] == "PUnwrap" and a["lock"] == "LInner" for a in r["acqs"]):
            unwrap_fns[short] = r["name"]
        elif r["kind"] != "KInnerMethod":
            other_fns.add(short)
    drop_paths = []
    for rel in ("src/share.rs", "src/client.rs", "src/server.rs", STREAMS, "src/proto/connection.rs"):
        c = clean(rel)
        for m in re.finditer(r"impl(?:<[^{]*?>)?\s+Drop\s+for\s+(\w+)[^{]*\{", c):
            e = match_brace(c, m.end() - 1)
            body = c[m.end() - 1:e + 1]
            for cm in re.finditer(r"\bself(?:\s*\.\s*(?:inner|opaque|streams))*\s*\.\s*(\w+)\s*\(", body):
                if cm.group(1) in unwrap_fns and cm.group(1) not in other_fns and cm.group(1) not in ("drop", "clone", "fmt", "new", "lock"):
                    drop_paths.append((m.group(1), unwrap_fns[cm.group(1)]))
    drop_paths = sorted(set(drop_paths))

    # ---- 6. hook emission sites and their protection class ---------------------------------------------------------------------------
    hook_sites = []
    for root, _, fs in os.walk(src_root):
        for f in sorted(fs):
            rel = os.path.relpath(os.path.join(root, f), REPO)
            if not rel.endswith(".rs") or rel == "src/verif.rs":
                continue
            raw = strip_comments(read(rel))
            for m in re.finditer(r'crate::verif::(?:enter|ev)\(\s*"([^"]+)"', raw):
                nm = m.group(1)
                if rel in LOCKED_FILES:
                    cls = "HLocked"
                elif rel == STREAMS:
                    # offsets of `raw` and of the cleaned text agree (blanking keeps lengths)
                    cls = "HLocked" if any(x <= m.start() <= y for (x, y) in locked_regions) else "HUnlockedSite"
                elif rel == "src/proto/ping_pong.rs" and nm.startswith("ping.user_"):
                    cls = "HLockFree"
                else:
                    cls = "HConnPrivate"
                if (nm, cls) not in hook_sites:
                    hook_sites.append((nm, cls))
    hook_sites.sort()

    # ---- render -------------------------------------------------------------------------------------------------------------------------
    t = "(* GENERATED by /verif/translator/gen_locks.py from src/proto/streams/streams.rs (+ the whole of src/ for the\n"
    t += "   negative inventories) -- do not edit *)\nFrom Coq Require Import NArith List String.\nImport ListNotations.\nLocal Open Scope string_scope.\n\n"
    t += "Inductive lockid := LInner | LSendBuf.\n"
    t += "Inductive poison := PUnwrap | PErr | PSkip | PPanicUnlessPanicking | PTry.\n"
    t += "Inductive fkind := KHandle | KShared | KConn | KInnerMethod | KOther.\n"
    t += "Inductive hookclass := HLocked | HUnlockedSite | HLockFree | HConnPrivate.\n\n"
    t += "(* one acquisition: which lock, the guards alive at that point of the function text, inside a loop?, bound to a\n   named guard (lives to the end of its block) or a temporary (dies with its statement), how a poisoned lock is consumed *)\n"
    t += "Record acq := mkAcq { a_lock : lockid; a_held : list lockid; a_in_loop : bool; a_scoped : bool; a_poison : poison }.\n\n"
    t += "(* one function: locks held on entry (Inner's own methods run on a guard of `inner`), its acquisitions in textual order,\n   number of transport / poll / await calls while a guard is alive, a waker woken directly while a guard is alive,\n   the single guard of `inner` lives to the end of the function *)\n"
    t += "Record site := mkSite { s_fn : string; s_kind : fkind; s_entry : list lockid; s_acqs : list acq;\n                        s_blocking : N; s_wakes : bool; s_to_end : bool }.\n\n"

    def cl(xs):
        return "[" + "; ".join(xs) + "]"

    def b(x):
        return "true" if x else "false"
    rows = []
    for r in sites:
        acqs = cl(["mkAcq %s %s %s %s %s" % (a["lock"], cl(a["held"]), b(a["in_loop"]), b(a["scoped"]), a["poison"]) for a in r["acqs"]])
        rows.append("  mkSite %s %s %s\n    %s %d%%N %s %s" % (coq_str(r["name"]), r["kind"], cl(r["entry"]), acqs, r["blocking"], b(r["wakes"]), b(r["to_end"])))
    t += "Definition lock_sites : list site := [\n" + ";\n".join(rows) + "\n].\n\n"
    t += "(* functions that take `inner` more than once or inside a loop: the unlock points of the connection task *)\n"
    t += "Definition conn_unlock_points : list string := %s.\n\n" % cl([coq_str(x) for x in multi])
    t += "(* Drop implementations that call a function whose lock site is `.lock().unwrap()` *)\n"
    t += "Definition drop_unwrap_paths : list (string * string) := %s.\n\n" % cl(["(%s, %s)" % (coq_str(a), coq_str(c)) for a, c in drop_paths])
    t += "(* `unsafe` occurrences per file of src/ (none in the files modelled for C20: checked by the translator) *)\n"
    t += "Definition unsafe_blocks : list (string * N) := %s.\n\n" % cl(["(%s, %d%%N)" % (coq_str(a), k) for a, k in unsafe_blocks])
    t += "(* hook emission sites: HLocked = in code reachable only through the guard of `inner` (callee files, Inner / Actions methods)\n   or, in streams.rs, at a position where a guard of `inner` is alive; HUnlockedSite = in streams.rs outside any guard;\n   HLockFree = the user-ping cell; HConnPrivate = state owned by the connection task *)\n"
    t += "Definition hook_sites : list (string * hookclass) := [\n  " + ";\n  ".join("(%s, %s)" % (coq_str(a), c) for a, c in hook_sites) + "\n].\n"
    return {"LockInventory.v": write_if_changed("LockInventory.v", t)}
