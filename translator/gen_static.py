"""Translator plug-in: HPACK static table as h2 has it.

Renders, from /repo's current tree,
  * `get_static`   of src/hpack/decoder.rs  ->  static_get   : list (N * (list N * list N))
  * `index_static` of src/hpack/table.rs    ->  static_index : list (list N * option (list N) * N * bool)
  * DYN_OFFSET of table.rs and the two literals of decoder::Table::get (`index <= 61`, `index - 62`)
into coq/Gen/StaticTable.v.  Everything that does not have the expected shape fails loudly: the
Coq development proves `gen_static_is_rfc` / `static_index_inverse` about the generated file, so a
semantic edit of either function breaks a proof obligation directly.

Loaded by gen.py (exec with helper functions `read`, `strip_comments`, `write_if_changed`, `num`,
`HEADER` injected as globals); `generate()` returns {filename: changed}.
"""
import re

OUTPUTS = ['StaticTable.v']

# http crate constants that occur in the two functions -> wire spelling.
METHODS = {"GET": "GET", "POST": "POST"}
STATUS = {"OK": "200", "NO_CONTENT": "204", "PARTIAL_CONTENT": "206", "NOT_MODIFIED": "304",
          "BAD_REQUEST": "400", "NOT_FOUND": "404", "INTERNAL_SERVER_ERROR": "500"}
PSEUDO = {"Authority": ":authority", "Method": ":method", "Scheme": ":scheme", "Path": ":path",
          "Protocol": ":protocol", "Status": ":status"}
# header::CONSTANT identifiers whose wire name is not just lowercase with '_' -> '-'
HEADER_NAME_EXCEPTIONS = {"ETAG": "etag", "TE": "te"}


def _die(msg):
    raise SystemExit("translator(gen_static): " + msg)


def header_const(ident):
    if not re.fullmatch(r"[A-Z][A-Z0-9_]*", ident):
        _die("unexpected header constant %r" % ident)
    return HEADER_NAME_EXCEPTIONS.get(ident, ident.lower().replace("_", "-"))


def coq_bytes(s):
    return "[" + "; ".join(str(b) for b in s.encode("latin-1")) + "]"


def parse_get_static(src):
    m = re.search(r"pub fn get_static\(idx: usize\) -> Header \{(.*?)\n\}\n", src, re.S)
    if not m:
        _die("get_static not found in the expected shape")
    body = m.group(1)
    mm = re.search(r"match idx \{(.*)\}", body, re.S)
    if not mm:
        _die("get_static: no `match idx`")
    arms_src = mm.group(1)
    entries = []
    pos = 0
    arm_re = re.compile(r"\s*(\d+|_)\s*=>\s*", re.S)
    while True:
        a = arm_re.match(arms_src, pos)
        if not a:
            if arms_src[pos:].strip():
                _die("get_static: unparsed text %r" % arms_src[pos:pos + 60])
            break
        key = a.group(1)
        pos = a.end()
        # the arm expression ends at the matching ',' on nesting depth 0
        depth = 0
        i = pos
        instr = False
        while i < len(arms_src):
            c = arms_src[i]
            if instr:
                if c == "\\":
                    i += 1
                elif c == '"':
                    instr = False
            elif c == '"':
                instr = True
            elif c in "({[":
                depth += 1
            elif c in ")}]":
                depth -= 1
            elif c == "," and depth == 0:
                break
            i += 1
        expr = arms_src[pos:i].strip()
        pos = i + 1
        if key == "_":
            if expr != "unreachable!()":
                _die("get_static: default arm is not unreachable!()")
            continue
        entries.append((int(key), parse_header_expr(expr)))
    return entries


def parse_header_expr(expr):
    m = re.fullmatch(r'Header::(Authority|Scheme|Path|Protocol)\(BytesStr::from_static\("((?:[^"\\]|\\.)*)"\)\)', expr)
    if m:
        return PSEUDO[m.group(1)], m.group(2)
    m = re.fullmatch(r"Header::Method\(Method::([A-Z_]+)\)", expr)
    if m:
        if m.group(1) not in METHODS:
            _die("unknown Method constant %s" % m.group(1))
        return ":method", METHODS[m.group(1)]
    m = re.fullmatch(r"Header::Status\(StatusCode::([A-Z_]+)\)", expr)
    if m:
        if m.group(1) not in STATUS:
            _die("unknown StatusCode constant %s" % m.group(1))
        return ":status", STATUS[m.group(1)]
    m = re.fullmatch(r'Header::Field\s*\{\s*name:\s*header::([A-Z0-9_]+),\s*value:\s*HeaderValue::from_static\("((?:[^"\\]|\\.)*)"\),?\s*\}', expr, re.S)
    if m:
        return header_const(m.group(1)), m.group(2)
    _die("get_static: unknown arm expression %r" % expr)


def parse_index_static(src):
    m = re.search(r"fn index_static\(header: &Header\) -> Option<\(usize, bool\)> \{(.*?)\n\}\n", src, re.S)
    if not m:
        _die("index_static not found in the expected shape")
    body = m.group(1)
    rows = []   # (name, exact value or None, index, flag)
    # 1. Field arms
    mf = re.search(r"Header::Field\s*\{\s*ref name,\s*ref value,\s*\}\s*=>\s*match \*name \{(.*?)\n        \},", body, re.S)
    if not mf:
        _die("index_static: Field arm not found")
    fbody = mf.group(1)
    consumed = 0
    for a in re.finditer(r"header::([A-Z0-9_]+)\s*=>\s*(Some\(\((\d+),\s*(true|false)\)\)|\{(.*?)\n            \}),?", fbody, re.S):
        consumed += 1
        name = header_const(a.group(1))
        if a.group(3):
            if a.group(4) != "false":
                _die("index_static: field arm %s without value test claims an exact match" % name)
            rows.append((name, None, int(a.group(3)), False))
        else:
            blk = a.group(5)
            b = re.fullmatch(r'\s*if value == "((?:[^"\\]|\\.)*)" \{\s*Some\(\((\d+), true\)\)\s*\} else \{\s*Some\(\((\d+), false\)\)\s*\}\s*', blk, re.S)
            if not b:
                _die("index_static: unexpected block for %s: %r" % (name, blk))
            rows.append((name, b.group(1), int(b.group(2)), True))
            rows.append((name, None, int(b.group(3)), False))
    if not re.search(r"_\s*=>\s*None,", fbody):
        _die("index_static: Field default arm is not None")
    n_arms = len(re.findall(r"=>", fbody)) - 1  # minus the default arm
    if n_arms != consumed:
        _die("index_static: %d field arms seen, %d parsed" % (n_arms, consumed))
    rest = body[mf.end():]
    # 2. pseudo header arms
    seen = set()
    for a in re.finditer(r"Header::(\w+)\((?:_|\.\.|ref v)\)\s*=>\s*(None|Some\(\((\d+),\s*(true|false)\)\)|match ([^{]+)\{(.*?)\n        \}),", rest, re.S):
        kind = a.group(1)
        if kind not in PSEUDO:
            _die("index_static: unknown Header variant %s" % kind)
        seen.add(kind)
        name = PSEUDO[kind]
        if a.group(2) == "None":
            continue
        if a.group(3):
            if a.group(4) != "false":
                _die("index_static: %s without value test claims an exact match" % kind)
            rows.append((name, None, int(a.group(3)), False))
            continue
        for arm in re.finditer(r"(\S+)\s*=>\s*Some\(\((\d+),\s*(true|false)\)\),", a.group(6)):
            pat, idx, flag = arm.group(1), int(arm.group(2)), arm.group(3) == "true"
            if pat == "_":
                if flag:
                    _die("index_static: default arm of %s claims an exact match" % kind)
                rows.append((name, None, idx, False))
                continue
            if not flag:
                _die("index_static: value arm %s of %s is not an exact match" % (pat, kind))
            ms = re.fullmatch(r'"((?:[^"\\]|\\.)*)"', pat)
            mm = re.fullmatch(r"Method::([A-Z_]+)", pat)
            if ms:
                val = ms.group(1)
            elif mm:
                if mm.group(1) not in METHODS:
                    _die("unknown Method constant %s" % mm.group(1))
                val = METHODS[mm.group(1)]
            elif re.fullmatch(r"\d+", pat):
                val = pat
            else:
                _die("index_static: unknown pattern %r in %s" % (pat, kind))
            rows.append((name, val, idx, True))
        n_arms = len(re.findall(r"=>", a.group(6)))
        n_got = len([1 for _ in re.finditer(r"(\S+)\s*=>\s*Some\(\((\d+),\s*(true|false)\)\),", a.group(6))])
        if n_arms != n_got:
            _die("index_static: %s has %d arms, %d parsed" % (kind, n_arms, n_got))
    if seen != set(PSEUDO):
        _die("index_static: pseudo header variants seen: %s" % sorted(seen))
    return rows


def generate():
    dsrc = strip_comments(read("src/hpack/decoder.rs"))
    tsrc = strip_comments(read("src/hpack/table.rs"))
    entries = parse_get_static(dsrc)
    rows = parse_index_static(tsrc)
    m = re.search(r"const\s+DYN_OFFSET\s*:\s*usize\s*=\s*(\d+)\s*;", tsrc)
    if not m:
        _die("DYN_OFFSET not found")
    dyn_offset = int(m.group(1))
    # the two literals of decoder::Table::get
    g = re.search(r"pub fn get\(&self, index: usize\) -> Result<Header, DecoderError> \{(.*?)\n    \}\n", dsrc, re.S)
    if not g:
        _die("decoder::Table::get not found")
    gb = g.group(1)
    m1 = re.search(r"if index <= (\d+) \{\s*return Ok\(get_static\(index\)\);", gb)
    m2 = re.search(r"self\.entries\.get\(index - (\d+)\)", gb)
    m0 = re.search(r"if index == 0 \{\s*return Err\(DecoderError::InvalidTableIndex\);", gb)
    if not (m0 and m1 and m2):
        _die("decoder::Table::get does not have the expected shape")
    t = HEADER % "src/hpack/decoder.rs (get_static, Table::get) and src/hpack/table.rs (index_static, DYN_OFFSET)"
    t += "Definition dyn_offset : N := %d.\n" % dyn_offset
    t += "Definition get_static_last : N := %d.       (* `index <= N` in decoder::Table::get *)\n" % int(m1.group(1))
    t += "Definition get_dyn_base : N := %d.          (* `index - N` in decoder::Table::get *)\n\n" % int(m2.group(1))
    t += "(* get_static: (index, (name, value)) in source order *)\n"
    t += "Definition static_get : list (N * (list N * list N)) := [\n"
    t += ";\n".join("  (%d, (%s, %s))  (* %s: %s *)" % (i, coq_bytes(n), coq_bytes(v), n, v) for i, (n, v) in entries)
    t += "\n].\n\n"
    t += "(* index_static: (name, Some exact-value | None = any other value, index, exact flag) in source order *)\n"
    t += "Definition static_index : list (list N * option (list N) * N * bool) := [\n"
    t += ";\n".join("  (%s, %s, %d, %s)  (* %s%s *)" % (
        coq_bytes(n), ("None" if v is None else "Some " + coq_bytes(v)), i, "true" if f else "false",
        n, "" if v is None else ": " + v) for (n, v, i, f) in rows)
    t += "\n].\n"
    return {"StaticTable.v": write_if_changed("StaticTable.v", t)}
