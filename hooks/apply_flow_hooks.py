#!/usr/bin/env python3
"""One-off helper that inserted the send-flow hook statements into /repo (kept for reference;
the result is committed in /repo as a guarded, add-only hook commit).  Each insertion is one
`#[cfg(feature = "verif-hooks")]` statement placed before/after the anchor line; no existing
line is modified."""
REPO = "/repo/src/proto/streams/"

def insert(path, anchor, text, after=False):
    s = open(path).read()
    assert s.count(anchor) == 1, (path, anchor, s.count(anchor))
    idx = s.index(anchor)
    if after:
        end = idx + len(anchor)
        assert anchor.endswith("\n")
        s = s[:end] + text + s[end:]
    else:
        s = s[:idx] + text + s[idx:]
    open(path, "w").write(s)

def hook(indent, kind, name, args):
    pad = " " * indent
    fn = "let _verif = crate::verif::enter" if kind == "enter" else "crate::verif::ev"
    return f'{pad}#[cfg(feature = "verif-hooks")]\n{pad}{fn}("{name}", || {{\n{pad}    vec![{args}]\n{pad}}});\n'

def S(v="stream"):
    sid = f"u32::from({v}.id) as i64"
    st = f"{v}.state.is_send_streaming() as i64, {v}.state.is_send_closed() as i64, {v}.state.is_closed() as i64, {v}.is_pending_open as i64"
    flow = f"isize::from({v}.send_flow.window_size_raw()) as i64, isize::from({v}.send_flow.available()) as i64, {v}.requested_send_capacity as i64, {v}.buffered_send_data as i64"
    return f"{sid}, {st}, {flow}"
CONN = "isize::from(self.flow.window_size_raw()) as i64, isize::from(self.flow.available()) as i64"

p = REPO + "prioritize.rs"
insert(p, "        let sz = frame.payload().remaining();\n\n        if sz > MAX_WINDOW_SIZE as usize {\n",
       hook(8, "enter", "prio.send_data", f"{S()}, {CONN}, frame.payload().remaining() as i64, frame.is_end_stream() as i64"))
insert(p, '        let span = tracing::trace_span!(\n            "reserve_capacity",\n',
       hook(8, "enter", "prio.reserve_capacity", f"{S()}, {CONN}, capacity as i64"))
insert(p, '        let span = tracing::trace_span!(\n            "recv_stream_window_update",\n',
       hook(8, "enter", "prio.recv_stream_window_update", f"{S()}, {CONN}, inc as i64"))
insert(p, "        // Update the connection's window\n        self.flow.inc_window(inc)?;\n",
       hook(8, "enter", "prio.recv_connection_window_update", f"{CONN}, inc as i64"))
insert(p, "        let available = stream.send_flow.available().as_size();\n        if available > 0 {\n            // TODO: proper error handling\n            let _res = stream.send_flow.claim_capacity(available);\n",
       hook(8, "enter", "prio.reclaim_all_capacity", f"{S()}, {CONN}"))
insert(p, "        // only reclaim reserved capacity that isn't already buffered\n",
       hook(8, "enter", "prio.reclaim_reserved_capacity", f"{S()}, {CONN}"))
insert(p, '        let span = tracing::trace_span!("assign_connection_capacity", inc);\n',
       hook(8, "enter", "prio.assign_connection_capacity", f"{CONN}, inc as i64"))
insert(p, "        // Streams over the max concurrent count should not have capacity assign to avoid starving the connection\n",
       hook(8, "enter", "prio.try_assign_capacity", f"{S()}, {CONN}"))
insert(p, '        let span = tracing::trace_span!("clear_queue", ?stream.id);\n',
       hook(8, "enter", "prio.clear_queue", f"{S()}, {CONN}"))
insert(p, "                                stream.send_data(len, self.max_buffer_size);\n",
       hook(32, "ev", "prio.pop_data", f"{S()}, {CONN}, sz as i64, max_len as i64, len as i64, frame.is_end_stream() as i64"))

p = REPO + "send.rs"
insert(p, "        if let Some(val) = settings.is_extended_connect_protocol_enabled() {\n            self.is_extended_connect_protocol_enabled = val;\n        }\n\n        // Applies an update to the remote endpoint's initial window size.\n",
       hook(8, "enter", "send.apply_remote_settings", "self.init_window_sz as i64, settings.initial_window_size().map(|v| v as i64).unwrap_or(-1)"))
insert(p, "                        stream\n                            .send_flow\n                            .dec_send_window(dec)\n",
       hook(24, "ev", "send.settings_dec_stream", f"{S()}, dec as i64"))
insert(p, "        // If the stream is not send streaming, return None.\n" if False else "    ) -> Poll<Option<Result<WindowSize, UserError>>> {\n",
       hook(8, "enter", "send.poll_capacity", f"{S()}, stream.send_capacity_inc as i64, self.prioritize.max_buffer_size() as i64"), after=True)
insert(p, "    pub fn capacity(&self, stream: &mut store::Ptr) -> WindowSize {\n",
       hook(8, "ev", "send.capacity", f"{S()}, stream.send_capacity_inc as i64, self.prioritize.max_buffer_size() as i64"), after=True)

p = REPO + "stream.rs"
insert(p, "    pub fn notify_capacity(&mut self) {\n",
       hook(8, "ev", "stream.notify_capacity", "u32::from(self.id) as i64"), after=True)
insert(p, "    pub fn notify_send(&mut self) {\n",
       hook(8, "ev", "stream.notify_send", "u32::from(self.id) as i64, self.send_task.is_some() as i64"), after=True)
insert(p, "    pub fn wait_send(&mut self, cx: &Context) {\n",
       hook(8, "ev", "stream.wait_send", "u32::from(self.id) as i64"), after=True)
insert(p, "        let mut send_flow = FlowControl::new();\n        let mut recv_flow = FlowControl::new();\n",
       hook(8, "ev", "stream.new", "u32::from(id) as i64, init_send_window as i64, init_recv_window as i64"))

p = REPO + "store.rs"
insert(p, "        // The stream must have been unlinked before this point\n",
       hook(8, "ev", "store.remove", "u32::from(self.key.stream_id) as i64, isize::from(self.send_flow.available()) as i64, isize::from(self.recv_flow.available()) as i64, self.in_flight_recv_data as i64"))
