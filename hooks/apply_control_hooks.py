#!/usr/bin/env python3
"""One-off helper that inserted the control-plane hook statements (SETTINGS / PING / GOAWAY / connection
state machine) into /repo (kept for reference).  Add-only: every hook is one
`#[cfg(feature = "verif-hooks")]` statement, helper functions are appended at the end of each file.

usage: apply_control_hooks.py [repo-root]     (default /repo)

Event vocabulary (name: integer arguments):
  settings.recv_settings   is_ack, ST, P(frame)            ST = local tag (0 ToSend, 1 WaitingAck, 2 Synced), remote pending?, has_received_initial
  settings.local_applied                                   streams.apply_local_settings returned Ok
  settings.stray_ack
  settings.send_settings   ST, P(frame)
  settings.poll_send       ST, P(local pending), P(remote pending)        (scope)
  settings.blocked_ack / settings.emit_ack / settings.remote_applied is_initial
  settings.blocked_local / settings.emit_local P(frame)
     P(frame) = header_table_size, enable_push, max_concurrent_streams, initial_window_size, max_frame_size,
                max_header_list_size, enable_connect_protocol   (-1 = absent)
  ping.take_user_pings     already_taken
  ping.ping_shutdown       PS
  ping.recv_ping           is_ack, hi, lo, PS              PS = pending_ping tag (0 none, 1 unsent, 2 sent), hi, lo, pending_pong?, hi, lo, user cell (-1 = not taken)
  ping.send_pending_pong   PS ; ping.blocked_pong ; ping.emit_pong hi, lo
  ping.send_pending_ping   PS ; ping.blocked_ping ; ping.emit_ping hi, lo, is_user ; ping.register_ping_task
  ping.user_send prev ; ping.user_poll_pong prev ; ping.user_receive_pong prev ; ping.user_closed prev
  goaway.go_away           last, reason, GS, debug...      GS = close_now, going_away last/-1, reason/-1, is_user_initiated, pending last/-1, reason/-1
  goaway.go_away_now       last, reason, GS ; goaway.from_user last, reason
  goaway.poll              GS, debug of the pending frame... ; goaway.blocked ; goaway.emit last, reason, debug...
  conn.poll                CS          CS = state tag (0 Open, 1 Closing, 2 Closed), reason, initiator (0 User, 1 Library, 2 Remote)
  conn.loop                CS
  conn.idle                error?, should_close_on_idle, has_streams
  conn.shutdown_ready ; conn.take_error ours, initiator, error?, theirs, debug...
  conn.maybe_close ; conn.graceful is_going_away
  conn.iter                last_processed_id, recv max_stream_id, send max_stream_id, error?, error last, error reason
  conn.pre_recv            last_processed_id, recv max_stream_id, send max_stream_id
  conn.recv_frame          last_processed_id, kind (0 eof, 1 HEADERS, 2 DATA, 3 RST_STREAM, 4 PUSH_PROMISE, 5 SETTINGS, 6 GOAWAY, 7 PING,
                           8 WINDOW_UPDATE, 9 PRIORITY), then HEADERS: id | GOAWAY: last, reason, debug...        (scope)
  conn.headers_done        last_processed_id
  conn.poll2_result        last_processed_id, kind (0 Ok, 1 GoAway, 2 Reset, 3 Io), reason, initiator, id / is_unexpected_eof, debug...   (scope)
  conn.io buffer_empty, is_unexpected_eof, is_server, error is NO_ERROR? ; conn.io_closed ; conn.reset_goaway reason, debug...
  conn.handle_go_away      reason, initiator, debug... ; conn.already_going_away
  conn.go_away id, reason ; conn.go_away_now reason, last_processed_id ; conn.go_away_now_data reason, last_processed_id, debug... ;
  conn.go_away_from_user reason, last_processed_id
"""
import sys

ROOT = (sys.argv[1] if len(sys.argv) > 1 else "/repo").rstrip("/")
REPO = ROOT + "/src/proto/"


def insert(path, anchor, text, after=False):
    s = open(path).read()
    assert s.count(anchor) == 1, (path, anchor, s.count(anchor))
    idx = s.index(anchor)
    if after:
        assert anchor.endswith("\n")
        end = idx + len(anchor)
        s = s[:end] + text + s[end:]
    else:
        s = s[:idx] + text + s[idx:]
    open(path, "w").write(s)


def append(path, text):
    s = open(path).read()
    assert "verif_" not in s.split("// ===== verification hooks")[-1] or "// ===== verification hooks" not in s, path
    open(path, "w").write(s + text)


def hook(indent, kind, name, body):
    """body: a Rust expression of type Vec<i64> (or a path to a fn() -> Vec<i64>)"""
    pad = " " * indent
    fn = "let _verif = crate::verif::enter" if kind == "enter" else "crate::verif::ev"
    if body == "":
        return f'{pad}#[cfg(feature = "verif-hooks")]\n{pad}{fn}("{name}", Vec::new);\n'
    return f'{pad}#[cfg(feature = "verif-hooks")]\n{pad}{fn}("{name}", || {body});\n'


# ------------------------------------------------------------------------------------------------ settings.rs
p = REPO + "settings.rs"
insert(p, "        if frame.is_ack() {\n            match &self.local {\n",
       hook(8, "enter", "settings.recv_settings", "self.verif_args(&[frame.is_ack() as i64], &[Some(&frame)])"))
insert(p, "                    streams.apply_local_settings(local)?;\n", hook(20, "ev", "settings.local_applied", ""), after=True)
insert(p, '                    proto_err!(conn: "received unexpected settings ack");\n', hook(20, "ev", "settings.stray_ack", ""))
insert(p, "        assert!(!frame.is_ack());\n", hook(8, "ev", "settings.send_settings", "self.verif_args(&[], &[Some(&frame)])"), after=True)
insert(p, "        if let Some(settings) = self.remote.clone() {\n            if !dst.poll_ready(cx)?.is_ready() {\n",
       hook(16, "ev", "settings.blocked_ack", ""), after=True)
insert(p, "        if let Some(settings) = self.remote.clone() {\n",
       hook(8, "enter", "settings.poll_send", "self.verif_args(&[], &[self.verif_local(), self.remote.as_ref()])"))
insert(p, '            dst.buffer(frame.into()).expect("invalid settings frame");\n', hook(12, "ev", "settings.emit_ack", ""), after=True)
insert(p, "            streams.apply_remote_settings(&settings, is_initial)?;\n",
       hook(12, "ev", "settings.remote_applied", "vec![is_initial as i64]"), after=True)
insert(p, "            Local::ToSend(settings) => {\n                if !dst.poll_ready(cx)?.is_ready() {\n",
       hook(20, "ev", "settings.blocked_local", ""), after=True)
insert(p, '                tracing::trace!("local settings sent; waiting for ack: {:?}", settings);\n',
       hook(16, "ev", "settings.emit_local", "verif_params(Some(settings))"))
append(p, '''
// ===== verification hooks (feature `verif-hooks`, off by default; add-only) =====

#[cfg(feature = "verif-hooks")]
fn verif_params(f: Option<&frame::Settings>) -> Vec<i64> {
    let o = |v: Option<u32>| v.map(|x| x as i64).unwrap_or(-1);
    match f {
        None => vec![-1; 7],
        Some(f) => vec![
            o(f.header_table_size()),
            f.is_push_enabled().map(|b| b as i64).unwrap_or(-1),
            o(f.max_concurrent_streams()),
            o(f.initial_window_size()),
            o(f.max_frame_size()),
            o(f.max_header_list_size()),
            f.is_extended_connect_protocol_enabled()
                .map(|b| b as i64)
                .unwrap_or(-1),
        ],
    }
}

#[cfg(feature = "verif-hooks")]
impl Settings {
    fn verif_local(&self) -> Option<&frame::Settings> {
        match &self.local {
            Local::ToSend(f) | Local::WaitingAck(f) => Some(f),
            Local::Synced => None,
        }
    }

    fn verif_args(&self, head: &[i64], frames: &[Option<&frame::Settings>]) -> Vec<i64> {
        let mut v = head.to_vec();
        v.push(match self.local {
            Local::ToSend(..) => 0,
            Local::WaitingAck(..) => 1,
            Local::Synced => 2,
        });
        v.push(self.remote.is_some() as i64);
        v.push(self.has_received_remote_initial_settings as i64);
        for f in frames {
            v.extend(verif_params(*f));
        }
        v
    }
}
''')

# ------------------------------------------------------------------------------------------------ ping_pong.rs
p = REPO + "ping_pong.rs"
insert(p, "        if self.user_pings.is_some() {\n            return None;\n",
       hook(8, "ev", "ping.take_user_pings", "vec![self.user_pings.is_some() as i64]"))
insert(p, "        assert!(self.pending_ping.is_none());\n", hook(8, "ev", "ping.ping_shutdown", "self.verif_args(&[])"))
insert(p, "        // The caller should always check that `send_pongs` returns ready before\n",
       hook(8, "enter", "ping.recv_ping", "{\n            let (hi, lo) = verif_halves(ping.payload());\n            self.verif_args(&[ping.is_ack() as i64, hi, lo])\n        }"))
insert(p, "        if let Some(pong) = self.pending_pong.take() {\n            if !dst.poll_ready(cx)?.is_ready() {\n",
       hook(16, "ev", "ping.blocked_pong", ""), after=True)
insert(p, "        if let Some(pong) = self.pending_pong.take() {\n", hook(8, "ev", "ping.send_pending_pong", "self.verif_args(&[])"))
insert(p, "            dst.buffer(Ping::pong(pong).into())\n",
       hook(12, "ev", "ping.emit_pong", "{\n                let (hi, lo) = verif_halves(&pong);\n                vec![hi, lo]\n            }"))
insert(p, "        if let Some(ref mut ping) = self.pending_ping {\n", hook(8, "ev", "ping.send_pending_ping", "self.verif_args(&[])"))
insert(p, "            if !ping.sent {\n                if !dst.poll_ready(cx)?.is_ready() {\n", hook(20, "ev", "ping.blocked_ping", ""), after=True)
insert(p, "                dst.buffer(Ping::new(ping.payload).into())\n",
       hook(16, "ev", "ping.emit_ping", "{\n                    let (hi, lo) = verif_halves(&ping.payload);\n                    vec![hi, lo, 0]\n                }"))
insert(p, "            if users.0.state.load(Ordering::Acquire) == USER_STATE_PENDING_PING {\n                if !dst.poll_ready(cx)?.is_ready() {\n",
       hook(20, "ev", "ping.blocked_ping", ""), after=True)
insert(p, "                dst.buffer(Ping::new(Ping::USER).into())\n",
       hook(16, "ev", "ping.emit_ping", "{\n                    let (hi, lo) = verif_halves(&Ping::USER);\n                    vec![hi, lo, 1]\n                }"))
insert(p, "                users.0.ping_task.register(cx.waker());\n", hook(16, "ev", "ping.register_ping_task", ""))
insert(p, "        match prev {\n            USER_STATE_EMPTY => {\n", hook(8, "ev", "ping.user_send", "vec![prev as i64]"))
insert(p, "        match prev {\n            USER_STATE_RECEIVED_PONG => Poll::Ready(Ok(())),\n", hook(8, "ev", "ping.user_poll_pong", "vec![prev as i64]"))
insert(p, "        if prev == USER_STATE_PENDING_PONG {\n", hook(8, "ev", "ping.user_receive_pong", "vec![prev as i64]"))
insert(p, "        self.0.state.store(USER_STATE_CLOSED, Ordering::Release);\n",
       hook(8, "ev", "ping.user_closed", "vec![self.0.state.load(Ordering::Acquire) as i64]"))
append(p, '''
// ===== verification hooks (feature `verif-hooks`, off by default; add-only) =====

#[cfg(feature = "verif-hooks")]
fn verif_halves(p: &PingPayload) -> (i64, i64) {
    (
        u32::from_be_bytes([p[0], p[1], p[2], p[3]]) as i64,
        u32::from_be_bytes([p[4], p[5], p[6], p[7]]) as i64,
    )
}

#[cfg(feature = "verif-hooks")]
impl PingPong {
    fn verif_args(&self, head: &[i64]) -> Vec<i64> {
        let mut v = head.to_vec();
        match &self.pending_ping {
            None => v.extend([0, 0, 0]),
            Some(p) => {
                let (hi, lo) = verif_halves(&p.payload);
                v.extend([if p.sent { 2 } else { 1 }, hi, lo]);
            }
        }
        match &self.pending_pong {
            None => v.extend([0, 0, 0]),
            Some(p) => {
                let (hi, lo) = verif_halves(p);
                v.extend([1, hi, lo]);
            }
        }
        v.push(match &self.user_pings {
            None => -1,
            Some(u) => u.0.state.load(Ordering::Acquire) as i64,
        });
        v
    }
}
''')

# ------------------------------------------------------------------------------------------------ go_away.rs
p = REPO + "go_away.rs"
insert(p, "    pub fn go_away(&mut self, f: frame::GoAway) {\n", hook(8, "ev", "goaway.go_away", "self.verif_args(Some(&f), true)"), after=True)
insert(p, "        self.close_now = true;\n", hook(8, "ev", "goaway.go_away_now", "self.verif_args(Some(&f), false)"))
insert(p, "        self.is_user_initiated = true;\n",
       hook(8, "ev", "goaway.from_user", "vec![\n            u32::from(f.last_stream_id()) as i64,\n            u32::from(f.reason()) as i64,\n        ]"))
insert(p, "        if let Some(frame) = self.pending.take() {\n            if !dst.poll_ready(cx)?.is_ready() {\n", hook(16, "ev", "goaway.blocked", ""), after=True)
insert(p, "        if let Some(frame) = self.pending.take() {\n", hook(8, "ev", "goaway.poll", "self.verif_args(None, true)"))
insert(p, '            dst.buffer(frame.into()).expect("invalid GOAWAY frame");\n',
       hook(12, "ev", "goaway.emit", "verif_frame(&frame, true)"))
append(p, '''
// ===== verification hooks (feature `verif-hooks`, off by default; add-only) =====

#[cfg(feature = "verif-hooks")]
fn verif_frame(f: &frame::GoAway, debug: bool) -> Vec<i64> {
    let mut v = vec![
        u32::from(f.last_stream_id()) as i64,
        u32::from(f.reason()) as i64,
    ];
    if debug {
        v.extend(f.debug_data().iter().map(|b| *b as i64));
    }
    v
}

#[cfg(feature = "verif-hooks")]
impl GoAway {
    /// `f`: the argument frame (if any); then the state; then the debug data of `f` (or of the
    /// pending frame when there is no argument).
    fn verif_args(&self, f: Option<&frame::GoAway>, debug: bool) -> Vec<i64> {
        let mut v = f.map(|f| verif_frame(f, false)).unwrap_or_default();
        v.push(self.close_now as i64);
        match &self.going_away {
            None => v.extend([-1, -1]),
            Some(g) => v.extend([
                u32::from(g.last_processed_id) as i64,
                u32::from(g.reason) as i64,
            ]),
        }
        v.push(self.is_user_initiated as i64);
        match &self.pending {
            None => v.extend([-1, -1]),
            Some(p) => v.extend(verif_frame(p, false)),
        }
        if debug {
            if let Some(d) = f.or(self.pending.as_ref()) {
                v.extend(d.debug_data().iter().map(|b| *b as i64));
            }
        }
        v
    }
}
''')

# ------------------------------------------------------------------------------------------------ connection.rs
p = REPO + "connection.rs"
insert(p, "        let (debug_data, theirs) = self\n            .inner\n            .error\n            .take()\n",
       hook(8, "ev", "conn.take_error", "{\n            let mut v = vec![u32::from(ours) as i64, verif_initiator(initiator)];\n            v.extend(verif_error(&self.inner.error));\n            v\n        }"))
insert(p, "            self.inner.as_dyn().go_away_now(Reason::NO_ERROR);\n        }\n    }\n\n    /// Checks if there are any streams\n",
       hook(12, "ev", "conn.maybe_close", ""))
insert(p, "        // XXX(eliza): cloning the span is unfortunately necessary here in\n", hook(8, "ev", "conn.poll", "verif_state(&self.inner.state)"))
insert(p, "            tracing::trace!(connection.state = ?self.inner.state);\n", hook(12, "ev", "conn.loop", "verif_state(&self.inner.state)"), after=True)
insert(p, "                            ready!(self.inner.streams.poll_complete(cx, &mut self.codec))?;\n",
       hook(28, "ev", "conn.idle", "vec![\n                                self.inner.error.is_some() as i64,\n                                self.inner.go_away.should_close_on_idle() as i64,\n                                self.inner.streams.has_streams() as i64,\n                            ]"),
       after=True)
insert(p, "                    ready!(self.codec.shutdown(cx))?;\n", hook(20, "ev", "conn.shutdown_ready", ""), after=True)
insert(p, "            // First, ensure that the `Connection` is able to receive a frame\n",
       hook(12, "ev", "conn.iter", "{\n                let mut v = verif_ids(&self.inner.streams.verif_snapshot());\n                v.extend(verif_error(&self.inner.error));\n                v.truncate(6);\n                v\n            }"))
insert(p, "            ready!(self.poll_ready(cx))?;\n",
       hook(12, "ev", "conn.pre_recv", "verif_ids(&self.inner.streams.verif_snapshot())"), after=True)
insert(p, "    fn go_away(&mut self, id: StreamId, e: Reason) {\n",
       hook(8, "ev", "conn.go_away", "vec![u32::from(id) as i64, u32::from(e) as i64]"), after=True)
insert(p, "    fn go_away_now(&mut self, e: Reason) {\n        let last_processed_id = self.streams.last_processed_id();\n",
       hook(8, "ev", "conn.go_away_now", "vec![u32::from(e) as i64, u32::from(last_processed_id) as i64]"), after=True)
insert(p, "    fn go_away_now_data(&mut self, e: Reason, data: Bytes) {\n        let last_processed_id = self.streams.last_processed_id();\n",
       hook(8, "ev", "conn.go_away_now_data", "{\n            let mut v = vec![u32::from(e) as i64, u32::from(last_processed_id) as i64];\n            v.extend(data.iter().map(|b| *b as i64));\n            v\n        }"),
       after=True)
insert(p, "    fn go_away_from_user(&mut self, e: Reason) {\n        let last_processed_id = self.streams.last_processed_id();\n",
       hook(8, "ev", "conn.go_away_from_user", "vec![u32::from(e) as i64, u32::from(last_processed_id) as i64]"), after=True)
insert(p, "    fn handle_poll2_result(&mut self, result: Result<(), Error>) -> Result<(), Error> {\n",
       hook(8, "enter", "conn.poll2_result", "{\n            let mut v = vec![u32::from(self.streams.last_processed_id()) as i64];\n            v.extend(verif_result(&result));\n            v\n        }"),
       after=True)
insert(p, "                    Err(crate::proto::error::GoAway { debug_data, reason }) => {\n",
       hook(24, "ev", "conn.reset_goaway", "{\n                            let mut v = vec![u32::from(reason) as i64];\n                            v.extend(debug_data.iter().map(|b| *b as i64));\n                            v\n                        }"),
       after=True)
insert(p, "                // Some client implementations drop the connections without notifying its peer\n",
       hook(16, "ev", "conn.io", "vec![\n                    self.streams.is_buffer_empty() as i64,\n                    matches!(kind, io::ErrorKind::UnexpectedEof) as i64,\n                    self.streams.is_server() as i64,\n                    (self.error.as_ref().map(|f| f.reason() == Reason::NO_ERROR) == Some(true)) as i64,\n                ]"))
insert(p, "                    *self.state = State::Closed(Reason::NO_ERROR, Initiator::Library);\n", hook(20, "ev", "conn.io_closed", ""))
insert(p, "        let e = Error::GoAway(debug_data.clone(), reason, initiator);\n",
       hook(8, "ev", "conn.handle_go_away", "{\n            let mut v = vec![u32::from(reason) as i64, verif_initiator(initiator)];\n            v.extend(debug_data.iter().map(|b| *b as i64));\n            v\n        }"))
insert(p, '            tracing::trace!("    -> already going away");\n', hook(12, "ev", "conn.already_going_away", ""))
insert(p, "        use crate::frame::Frame::*;\n        match frame {\n",
       hook(8, "enter", "conn.recv_frame", "{\n            let mut v = vec![u32::from(self.streams.last_processed_id()) as i64];\n            v.extend(verif_frame(&frame));\n            v\n        }"))
insert(p, "                self.streams.recv_headers(frame)?;\n",
       hook(16, "ev", "conn.headers_done", "vec![u32::from(self.streams.last_processed_id()) as i64]"), after=True)
insert(p, "        if self.inner.go_away.is_going_away() {\n            // No reason to start a new one.\n",
       hook(8, "ev", "conn.graceful", "vec![self.inner.go_away.is_going_away() as i64]"))
append(p, '''
// ===== verification hooks (feature `verif-hooks`, off by default; add-only) =====

#[cfg(feature = "verif-hooks")]
fn verif_initiator(i: Initiator) -> i64 {
    match i {
        Initiator::User => 0,
        Initiator::Library => 1,
        Initiator::Remote => 2,
    }
}

#[cfg(feature = "verif-hooks")]
fn verif_state(s: &State) -> Vec<i64> {
    match s {
        State::Open => vec![0, 0, 0],
        State::Closing(r, i) => vec![1, u32::from(*r) as i64, verif_initiator(*i)],
        State::Closed(r, i) => vec![2, u32::from(*r) as i64, verif_initiator(*i)],
    }
}

/// error?, last, reason, debug...
#[cfg(feature = "verif-hooks")]
fn verif_error(e: &Option<frame::GoAway>) -> Vec<i64> {
    match e {
        None => vec![0, -1, -1],
        Some(f) => {
            let mut v = vec![
                1,
                u32::from(f.last_stream_id()) as i64,
                u32::from(f.reason()) as i64,
            ];
            v.extend(f.debug_data().iter().map(|b| *b as i64));
            v
        }
    }
}

/// last_processed_id, recv max_stream_id, send max_stream_id
#[cfg(feature = "verif-hooks")]
fn verif_ids(s: &crate::verif::Snapshot) -> Vec<i64> {
    let get = |k: &str| {
        s.conn
            .iter()
            .find(|(n, _)| *n == k)
            .map(|(_, v)| *v)
            .unwrap_or(-1)
    };
    vec![
        get("recv_last_processed_id"),
        get("recv_max_stream_id"),
        get("send_max_stream_id"),
    ]
}

#[cfg(feature = "verif-hooks")]
fn verif_frame<B>(f: &Option<Frame<B>>) -> Vec<i64> {
    match f {
        None => vec![0],
        Some(Frame::Headers(h)) => vec![1, u32::from(h.stream_id()) as i64],
        Some(Frame::Data(..)) => vec![2],
        Some(Frame::Reset(..)) => vec![3],
        Some(Frame::PushPromise(..)) => vec![4],
        Some(Frame::Settings(..)) => vec![5],
        Some(Frame::GoAway(g)) => {
            let mut v = vec![
                6,
                u32::from(g.last_stream_id()) as i64,
                u32::from(g.reason()) as i64,
            ];
            v.extend(g.debug_data().iter().map(|b| *b as i64));
            v
        }
        Some(Frame::Ping(..)) => vec![7],
        Some(Frame::WindowUpdate(..)) => vec![8],
        Some(Frame::Priority(..)) => vec![9],
    }
}

/// kind (0 Ok, 1 GoAway, 2 Reset, 3 Io), reason, initiator, stream id / is_unexpected_eof, debug...
#[cfg(feature = "verif-hooks")]
fn verif_result(r: &Result<(), Error>) -> Vec<i64> {
    match r {
        Ok(()) => vec![0, 0, 0, 0],
        Err(Error::GoAway(d, reason, i)) => {
            let mut v = vec![1, u32::from(*reason) as i64, verif_initiator(*i), 0];
            v.extend(d.iter().map(|b| *b as i64));
            v
        }
        Err(Error::Reset(id, reason, i)) => vec![
            2,
            u32::from(*reason) as i64,
            verif_initiator(*i),
            u32::from(*id) as i64,
        ],
        Err(Error::Io(kind, _)) => vec![
            3,
            0,
            0,
            matches!(kind, io::ErrorKind::UnexpectedEof) as i64,
        ],
    }
}
''')
print("control hooks inserted into", ROOT)
