#!/usr/bin/env python3
"""Inserts the data-path (C01) hook statements into /repo (guarded by feature verif-hooks, add-only,
idempotent).  Event vocabulary used by lib/props/parts/datapath.py (besides the send-flow events of
apply_flow_hooks.py and, from the store work package, prio.reclaim / codec.data_done / codec.buffer_data):

  prio.queue_frame     [serial, sid, kind, eos, informational, buffered_send_data, extra]
                       kind: 0 DATA (already reported by prio.send_data), 1 HEADERS, 2 PUSH_PROMISE (extra = promised id),
                       3 RST_STREAM (extra = reason), 9 other
  prio.pop_sched_reset [serial, sid, reason]      pop_frame: queue empty, scheduled reset -> RST_STREAM frame made
  prio.pop_other       [serial, sid, kind, eos, buffered_send_data, extra]    a non-DATA frame leaves pop_frame
  prio.pop_drop_push   [serial, sid, promised]    PUSH_PROMISE of a vanished promised stream dropped
"""
import sys
P = "/repo/src/proto/streams/prioritize.rs"


def insert(s, anchor, text, after=False):
    assert s.count(anchor) == 1, (anchor, s.count(anchor))
    i = s.index(anchor)
    if after:
        i += len(anchor)
    return s[:i] + text + s[i:]


def main():
    s = open(P).read()
    if '"prio.pop_other"' in s:
        print("already applied")
        return
    s = insert(s, "        // Queue the frame in the buffer\n        stream.pending_send.push_back(buffer, frame);\n",
               '''        #[cfg(feature = "verif-hooks")]
        crate::verif::ev("prio.queue_frame", || {
            let (kind, eos, info, extra) = match &frame {
                Frame::Data(_) => (0, 0, 0, 0),
                Frame::Headers(h) => (1, h.is_end_stream() as i64, h.is_informational() as i64, 0),
                Frame::PushPromise(p) => (2, 0, 0, u32::from(p.promised_id()) as i64),
                Frame::Reset(r) => (3, 0, 0, u32::from(r.reason()) as i64),
                _ => (9, 0, 0, 0),
            };
            vec![
                stream.verif_serial,
                u32::from(stream.id) as i64,
                kind,
                eos,
                info,
                stream.buffered_send_data as i64,
                extra,
            ]
        });
''')
    s = insert(s, "                                let frame = frame::Reset::new(stream.id, reason);\n",
               '''                                #[cfg(feature = "verif-hooks")]
                                crate::verif::ev("prio.pop_sched_reset", || {
                                    vec![
                                        stream.verif_serial,
                                        u32::from(stream.id) as i64,
                                        u32::from(reason) as i64,
                                    ]
                                });
''')
    s = insert(s, "                            if stream.store_mut().find_mut(&pp.promised_id()).is_none() {\n",
               '''                                #[cfg(feature = "verif-hooks")]
                                crate::verif::ev("prio.pop_drop_push", || {
                                    vec![
                                        stream.verif_serial,
                                        u32::from(stream.id) as i64,
                                        u32::from(pp.promised_id()) as i64,
                                    ]
                                });
''', after=True)
    s = insert(s, '                    tracing::trace!("pop_frame; frame={:?}", frame);\n',
               '''                    #[cfg(feature = "verif-hooks")]
                    if !matches!(frame, Frame::Data(_)) {
                        crate::verif::ev("prio.pop_other", || {
                            let (kind, eos, extra) = match &frame {
                                Frame::Headers(h) => (1, h.is_end_stream() as i64, 0),
                                Frame::PushPromise(p) => (2, 0, u32::from(p.promised_id()) as i64),
                                Frame::Reset(r) => (3, 0, u32::from(r.reason()) as i64),
                                _ => (9, 0, 0),
                            };
                            vec![
                                stream.verif_serial,
                                u32::from(stream.id) as i64,
                                kind,
                                eos,
                                stream.buffered_send_data as i64,
                                extra,
                            ]
                        });
                    }
''', after=True)
    open(P, "w").write(s)
    print("applied")


if __name__ == "__main__":
    main()
