#!/usr/bin/env python3
"""Inserts the DISPATCH hook statements into /repo (add-only, every statement guarded by
`#[cfg(feature = "verif-hooks")]`; idempotent: a file that already contains the marker is skipped).

Event vocabulary (family `disp.*`; consumed by lib/props/parts/dispatch.py, model coq/Model/Dispatch.v).
Every `disp.*` scope is opened at the ENTRY of the function, before it changes anything, so its arguments
are the pre-state.

  D(id)  = Inner::verif_disp(id): the record store.ids finds for `id` and the identifier bookkeeping
           [found, S0..S5, flags, q_empty, buffered, ref_count, send_next, recv_next, send_max, recv_max, refused, conn_error, serial]
  DK(key)= Inner::verif_disp_key(key): the same for the record a handle / queue holds by key (found = 2 when the
           record is no longer linked in store.ids under its id)
  S0..S5 = State::verif_code(): [tag, a, b, c, d, e]
           tag 0 Idle, 1 ReservedLocal, 2 ReservedRemote, 3 Open(a = local, b = remote; 0 AwaitingHeaders, 1 Streaming),
           4 HalfClosedLocal(a), 5 HalfClosedRemote(a), 6 Closed(EndStream), 7 Closed(Error(e)), 8 Closed(ErrorAfterEndStream(e)),
           9 Closed(ScheduledLibraryReset(b = reason));
           e: a = 0 Reset (b reason, c initiator, d stream id) | 1 GoAway (b reason, c initiator, e = debug length)
              | 2 Io (b = kind: 1 BrokenPipe 2 UnexpectedEof 3 ConnectionReset 4 Other 9 else, c = has message, e = message length);
           initiator 0 User 1 Library 2 Remote
  flags  = is_pending_open | is_pending_push << 1 | reset_at.is_some() << 2 | is_pending_send << 3
           | is_pending_accept << 4 | is_recv << 5 | is_counted << 6
  next ids: -1 = overflowed; refused: -1 = none

  streams.rs
    disp.recv_headers        enter  [sid, end_stream, informational, over_size] ++ D(sid)     Inner::recv_headers
    disp.recv_data           enter  [sid, end_stream, payload_len, flow_len] ++ D(sid)         Inner::recv_data
    disp.recv_reset          enter  [sid, code] ++ D(sid)                                      Inner::recv_reset
    disp.recv_window_update  enter  [sid, increment] ++ D(sid)                                 Inner::recv_window_update (sid != 0 only looked at)
    disp.recv_push_promise   enter  [sid, promised, over_size] ++ D(sid)                       Inner::recv_push_promise
    disp.recv_go_away        enter  [last, code, send_max, debug...]                           Inner::recv_go_away
    disp.handle_error        enter  E(err)                                                    Inner::handle_error
                                    E = [0, reason, initiator, sid] | [1, reason, initiator, debug...] | [2, kind, has_msg]
    disp.recv_eof            enter  [conn_error.is_some()]                                     Inner::recv_eof
    disp.poll2_reset         enter  [sid, code] ++ D(sid)                                      Inner::send_reset
    disp.go_away_sent        ev     [last, recv_max before]                                   DynStreams::send_go_away
    disp.send_request        enter  [end_of_stream, send_next, conn_error, is_server]          Streams::send_request (under the lock)
    disp.send_data           enter  [end_stream] ++ DK(key)                                    StreamRef::send_data
    disp.send_trailers       enter  DK(key)                                                   StreamRef::send_trailers
    disp.send_reset          enter  [code] ++ DK(key)                                          StreamRef::send_reset
    disp.send_info           enter  [end_stream] ++ DK(key)                                    StreamRef::send_informational_headers
    disp.send_response       enter  [end_of_stream] ++ DK(key)                                 StreamRef::send_response
    disp.push_request        enter  [send_next, send_max, push_enabled] ++ DK(key)             StreamRef::send_push_promise
    disp.drop_ref            enter  DK(key)    (ref_count = the count BEFORE this drop)        drop_stream_ref
    disp.poll_reset          ev     [mode (0 AwaitingHeaders, 1 Streaming)] ++ DK(key)         StreamRef::poll_reset
  recv.rs
    disp.send_refusal        ev     [refused id]            Recv::send_pending_refusal, just before the RST_STREAM is buffered
    disp.expire              ev     [serial, sid]           Recv::clear_expired_reset_streams, per record popped
  prioritize.rs
    disp.park_frame          ev     [serial, sid, end_stream]   Prioritize::send_data: the DATA frame is queued without scheduling

Results are read from existing events: `conn.poll2_result` (the error a received frame produced), the API result of
the harness operation; queued frames from `prio.queue_frame` / `disp.park_frame`; emitted frames from `prio.pop_data`,
`prio.pop_other`, `prio.pop_scheduled_reset`, `prio.pop_drop_push`; `prio.push_back` (reclaim), `prio.pop_pending_open`,
`recv.stream_wu_pop` / `recv.stream_window_update`, `store.unlink`, `store.remove`, `recv.event` (handed to the application),
`counts.can_inc_*` (admission verdicts)."""
import sys

REPO = "/repo/src/proto/streams/"
MARK = "disp."


def insert(path, anchor, text, after=True, nth=0):
    s = open(path).read()
    idxs = []
    start = 0
    while True:
        i = s.find(anchor, start)
        if i < 0:
            break
        idxs.append(i)
        start = i + 1
    assert len(idxs) > nth, (path, anchor, len(idxs))
    idx = idxs[nth]
    if after:
        end = idx + len(anchor)
        s = s[:end] + text + s[end:]
    else:
        s = s[:idx] + text + s[idx:]
    open(path, "w").write(s)


def hook(indent, kind, name, body, var="_verif_d"):
    pad = " " * indent
    head = "let %s = crate::verif::enter" % var if kind == "enter" else "crate::verif::ev"
    return '%s#[cfg(feature = "verif-hooks")]\n%s%s("%s", || {\n%s\n%s});\n' % (pad, pad, head, name, body, pad)


def vec_plus(indent, first, rest):
    pad = " " * (indent + 4)
    return "%slet mut v = vec![%s];\n%sv.extend(%s);\n%sv" % (pad, first, pad, rest, pad)


STATE_CODE = '''
#[cfg(feature = "verif-hooks")]
impl State {
    /// `[tag, a, b, c, d, e]`, see hooks/apply_dispatch_hooks.py (verification hook, read-only).
    pub(super) fn verif_code(&self) -> Vec<i64> {
        fn ini(i: Initiator) -> i64 {
            match i {
                Initiator::User => 0,
                Initiator::Library => 1,
                Initiator::Remote => 2,
            }
        }
        fn peer(p: Peer) -> i64 {
            match p {
                Peer::AwaitingHeaders => 0,
                Peer::Streaming => 1,
            }
        }
        fn err(tag: i64, e: &Error) -> Vec<i64> {
            match e {
                Error::Reset(id, reason, i) => {
                    vec![tag, 0, u32::from(*reason) as i64, ini(*i), u32::from(*id) as i64, 0]
                }
                Error::GoAway(d, reason, i) => {
                    vec![tag, 1, u32::from(*reason) as i64, ini(*i), 0, d.len() as i64]
                }
                Error::Io(kind, msg) => {
                    let k = match kind {
                        io::ErrorKind::BrokenPipe => 1,
                        io::ErrorKind::UnexpectedEof => 2,
                        io::ErrorKind::ConnectionReset => 3,
                        io::ErrorKind::Other => 4,
                        _ => 9,
                    };
                    vec![
                        tag,
                        2,
                        k,
                        msg.is_some() as i64,
                        0,
                        msg.as_ref().map(|m| m.len() as i64).unwrap_or(0),
                    ]
                }
            }
        }
        match &self.inner {
            Inner::Idle => vec![0, 0, 0, 0, 0, 0],
            Inner::ReservedLocal => vec![1, 0, 0, 0, 0, 0],
            Inner::ReservedRemote => vec![2, 0, 0, 0, 0, 0],
            Inner::Open { local, remote } => vec![3, peer(*local), peer(*remote), 0, 0, 0],
            Inner::HalfClosedLocal(p) => vec![4, peer(*p), 0, 0, 0, 0],
            Inner::HalfClosedRemote(p) => vec![5, peer(*p), 0, 0, 0, 0],
            Inner::Closed(Cause::EndStream) => vec![6, 0, 0, 0, 0, 0],
            Inner::Closed(Cause::Error(e)) => err(7, e),
            Inner::Closed(Cause::ErrorAfterEndStream(e)) => err(8, e),
            Inner::Closed(Cause::ScheduledLibraryReset(r)) => vec![9, 0, u32::from(*r) as i64, 0, 0, 0],
        }
    }
}
'''

RECV_IDS = '''
#[cfg(feature = "verif-hooks")]
impl Recv {
    /// `[next_stream_id (-1 = overflowed), max_stream_id, refused (-1 = none)]` (verification hook, read-only).
    pub(super) fn verif_disp_ids(&self) -> [i64; 3] {
        [
            match self.next_stream_id {
                Ok(id) => u32::from(id) as i64,
                Err(_) => -1,
            },
            u32::from(self.max_stream_id) as i64,
            self.refused.map(|id| u32::from(id) as i64).unwrap_or(-1),
        ]
    }
}
'''

SEND_IDS = '''
#[cfg(feature = "verif-hooks")]
impl Send {
    /// `[next_stream_id (-1 = overflowed), max_stream_id, is_push_enabled]` (verification hook, read-only).
    pub(super) fn verif_disp_ids(&self) -> [i64; 3] {
        [
            match self.next_stream_id {
                Ok(id) => u32::from(id) as i64,
                Err(_) => -1,
            },
            u32::from(self.max_stream_id) as i64,
            self.is_push_enabled as i64,
        ]
    }
}
'''

INNER_DISP = '''
#[cfg(feature = "verif-hooks")]
impl Inner {
    fn verif_disp_stream(&self, found: i64, s: Option<&Stream>) -> Vec<i64> {
        let mut v = vec![found];
        match s {
            Some(s) => {
                v.extend(s.state.verif_code());
                v.push(
                    (s.is_pending_open as i64)
                        | (s.is_pending_push as i64) << 1
                        | (s.reset_at.is_some() as i64) << 2
                        | (s.is_pending_send as i64) << 3
                        | (s.is_pending_accept as i64) << 4
                        | (s.is_recv as i64) << 5
                        | (s.is_counted as i64) << 6,
                );
                v.push(s.pending_send.is_empty() as i64);
                v.push(s.buffered_send_data as i64);
                v.push(s.ref_count as i64);
            }
            None => v.extend([0; 10]),
        }
        let snd = self.actions.send.verif_disp_ids();
        let rcv = self.actions.recv.verif_disp_ids();
        v.extend([snd[0], rcv[0], snd[1], rcv[1], rcv[2]]);
        v.push(self.actions.conn_error.is_some() as i64);
        v.push(s.map(|s| s.verif_serial).unwrap_or(-1));
        v
    }

    /// The record `store.ids` finds for `id`, and the identifier bookkeeping (verification hook, read-only).
    fn verif_disp(&self, id: StreamId) -> Vec<i64> {
        let s = self.store.verif_find(id);
        self.verif_disp_stream(s.is_some() as i64, s)
    }

    /// The record a handle or a queue holds by key (verification hook, read-only).
    fn verif_disp_key(&self, key: store::Key) -> Vec<i64> {
        let s = &self.store[key];
        let linked = self
            .store
            .verif_find(s.id)
            .map(|t| t.verif_serial == s.verif_serial)
            .unwrap_or(false);
        self.verif_disp_stream(if linked { 1 } else { 2 }, Some(s))
    }
}

#[cfg(feature = "verif-hooks")]
fn verif_disp_error(e: &proto::Error) -> Vec<i64> {
    fn ini(i: Initiator) -> i64 {
        match i {
            Initiator::User => 0,
            Initiator::Library => 1,
            Initiator::Remote => 2,
        }
    }
    match e {
        proto::Error::Reset(id, reason, i) => {
            vec![0, u32::from(*reason) as i64, ini(*i), u32::from(*id) as i64]
        }
        proto::Error::GoAway(d, reason, i) => {
            let mut v = vec![1, u32::from(*reason) as i64, ini(*i)];
            v.extend(d.iter().map(|b| *b as i64));
            v
        }
        proto::Error::Io(kind, msg) => vec![
            2,
            match kind {
                io::ErrorKind::BrokenPipe => 1,
                io::ErrorKind::UnexpectedEof => 2,
                io::ErrorKind::ConnectionReset => 3,
                io::ErrorKind::Other => 4,
                _ => 9,
            },
            msg.is_some() as i64,
        ],
    }
}
'''

STORE_FIND = '''
#[cfg(feature = "verif-hooks")]
impl Store {
    /// The record linked under `id` in the id map (verification hook, read-only).
    pub(super) fn verif_find(&self, id: StreamId) -> Option<&Stream> {
        self.ids.get(&id).map(|i| &self.slab[i.0 as usize])
    }
}
'''


def already(path):
    return MARK in open(path).read()


def main():
    st = REPO + "state.rs"
    if "fn verif_code" not in open(st).read():
        open(st, "a").write(STATE_CODE)
    sto = REPO + "store.rs"
    if "fn verif_find" not in open(sto).read():
        open(sto, "a").write(STORE_FIND)
    rv = REPO + "recv.rs"
    if "fn verif_disp_ids" not in open(rv).read():
        open(rv, "a").write(RECV_IDS)
        insert(rv, "            // Create the RST_STREAM frame\n            let frame = frame::Reset::new(stream_id, Reason::REFUSED_STREAM);\n",
               hook(12, "ev", "disp.send_refusal", "                vec![u32::from(stream_id) as i64]"))
        insert(rv, "                now.saturating_duration_since(reset_at) > reset_duration\n            }) {\n",
               hook(16, "ev", "disp.expire", "                    vec![stream.verif_serial, u32::from(stream.id) as i64]"))
    sd = REPO + "send.rs"
    if "fn verif_disp_ids" not in open(sd).read():
        open(sd, "a").write(SEND_IDS)
    pr = REPO + "prioritize.rs"
    if "disp.park_frame" not in open(pr).read():
        insert(pr, "            // don't notify the connection task. Once additional capacity\n            // becomes available, the frame will be flushed.\n",
               hook(12, "ev", "disp.park_frame",
                    "                vec![\n                    stream.verif_serial,\n                    u32::from(stream.id) as i64,\n                    frame.is_end_stream() as i64,\n                ]"))
    ss = REPO + "streams.rs"
    if "fn verif_disp(" in open(ss).read():
        print("streams.rs already hooked")
        return
    open(ss, "a").write(INNER_DISP)
    # ---- Inner::recv_*
    insert(ss, "        frame: frame::Headers,\n    ) -> Result<(), Error> {\n        let id = frame.stream_id();\n",
           hook(8, "enter", "disp.recv_headers", vec_plus(8, "u32::from(id) as i64, frame.is_end_stream() as i64, frame.is_informational() as i64, frame.is_over_size() as i64", "self.verif_disp(id)")))
    insert(ss, "                frame.is_end_stream() as i64,\n            ]\n        });\n        let id = frame.stream_id();\n",
           hook(8, "enter", "disp.recv_data", vec_plus(8, "u32::from(id) as i64, frame.is_end_stream() as i64, frame.payload().len() as i64, frame.flow_controlled_len() as i64", "self.verif_disp(id)")))
    insert(ss, "        frame: frame::Reset,\n    ) -> Result<(), Error> {\n        let id = frame.stream_id();\n",
           hook(8, "enter", "disp.recv_reset", vec_plus(8, "u32::from(id) as i64, u32::from(frame.reason()) as i64", "self.verif_disp(id)")))
    insert(ss, "        frame: frame::WindowUpdate,\n    ) -> Result<(), Error> {\n        let id = frame.stream_id();\n",
           hook(8, "enter", "disp.recv_window_update", vec_plus(8, "u32::from(id) as i64, frame.size_increment() as i64", "self.verif_disp(id)")))
    insert(ss, "        let id = frame.stream_id();\n        let promised_id = frame.promised_id();\n",
           hook(8, "enter", "disp.recv_push_promise", vec_plus(8, "u32::from(id) as i64, u32::from(promised_id) as i64, frame.is_over_size() as i64", "self.verif_disp(id)")))
    insert(ss, "        frame: &frame::GoAway,\n    ) -> Result<(), Error> {\n",
           hook(8, "enter", "disp.recv_go_away", vec_plus(8, "u32::from(frame.last_stream_id()) as i64, u32::from(frame.reason()) as i64, self.actions.send.verif_disp_ids()[1]", "frame.debug_data().iter().map(|b| *b as i64)")))
    insert(ss, "    fn handle_error<B>(&mut self, send_buffer: &SendBuffer<B>, err: proto::Error) -> StreamId {\n",
           hook(8, "enter", "disp.handle_error", "            verif_disp_error(&err)"))
    insert(ss, "        clear_pending_accept: bool,\n    ) -> Result<(), ()> {\n        let actions = &mut self.actions;\n", "", after=True)  # anchor check only
    insert(ss, "        clear_pending_accept: bool,\n    ) -> Result<(), ()> {\n", hook(8, "enter", "disp.recv_eof", "            vec![self.actions.conn_error.is_some() as i64]"), nth=1)
    insert(ss, "        id: StreamId,\n        reason: Reason,\n    ) -> Result<(), crate::proto::error::GoAway> {\n        let key = match self.store.find_entry(id) {\n",
           hook(8, "enter", "disp.poll2_reset", vec_plus(8, "u32::from(id) as i64, u32::from(reason) as i64", "self.verif_disp(id)")), after=False)
    # the anchor above starts before the hook position; move the hook after the signature
    s = open(ss).read()
    # DynStreams::send_go_away
    insert(ss, "    pub fn send_go_away(&mut self, last_processed_id: StreamId) {\n        let mut me = self.inner.lock().unwrap();\n",
           hook(8, "ev", "disp.go_away_sent", "            vec![\n                u32::from(last_processed_id) as i64,\n                me.actions.recv.verif_disp_ids()[1],\n            ]"))
    # Streams::send_request
    insert(ss, "        let send_buffer = &mut *send_buffer;\n\n        me.actions.ensure_no_conn_error()?;\n        me.actions.send.ensure_next_stream_id()?;\n\n        // The `pending` argument",
           "", after=False)
    insert(ss, "        me.actions.ensure_no_conn_error()?;\n        me.actions.send.ensure_next_stream_id()?;\n\n        // The `pending` argument",
           hook(8, "enter", "disp.send_request",
                "            vec![\n                end_of_stream as i64,\n                me.actions.send.verif_disp_ids()[0],\n                me.actions.conn_error.is_some() as i64,\n                me.counts.peer().is_server() as i64,\n            ]"),
           after=False)


if __name__ == "__main__":
    main()
    sys.exit(0)
