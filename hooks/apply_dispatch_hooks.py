#!/usr/bin/env python3
"""The DISPATCH hook statements in /repo (add-only, every statement guarded by `#[cfg(feature = "verif-hooks")]`).
They were inserted once (helper blocks below + one hook statement at the entry of each function listed); this file
documents the vocabulary and checks that every event is still present (`python3 hooks/apply_dispatch_hooks.py`).

Event vocabulary (family `disp.*`; consumed by lib/props/parts/dispatch.py, model coq/Model/Dispatch.v).
Every `disp.*` scope is opened at the ENTRY of the function, before it changes anything, so its arguments
are the pre-state.

  D(id)  = Inner::verif_disp(id): the record store.ids finds for `id` and the identifier bookkeeping
           [found, S0..S5, flags, q_empty, buffered, ref_count, send_next, recv_next, send_max, recv_max, refused, conn_error, serial]
  DK(key)= Inner::verif_disp_key(key): the same for the record a handle / queue holds by key (found = 2 when the
           record is no longer linked in store.ids under its id)
  S0..S5 = State::verif_code(): [tag, a, b, c, d, e]
           tag 0 Idle, 1 ReservedLocal, 2 ReservedRemote, 3 Open(a = local, b = remote; 0 AwaitingHeaders, 1 Streaming),
           4 HalfClosedLocal(a), 5 HalfClosedRemote(a), 6 Closed(EndStream), 7 Closed(Error(e)), 8 Closed(ErrorAfterEndStream(e)),
           9 Closed(ScheduledLibraryReset(b = reason));
           e: a = 0 Reset (b reason, c initiator, d stream id) | 1 GoAway (b reason, c initiator, e = debug length)
              | 2 Io (b = kind: 1 BrokenPipe 2 UnexpectedEof 3 ConnectionReset 4 Other 9 else, c = has message, e = message length);
           initiator 0 User 1 Library 2 Remote
  flags  = is_pending_open | is_pending_push << 1 | reset_at.is_some() << 2 | is_pending_send << 3
           | is_pending_accept << 4 | is_recv << 5 | is_counted << 6
  next ids: -1 = overflowed; refused: -1 = none

  streams.rs
    disp.recv_headers        enter  [sid, end_stream, informational, over_size] ++ D(sid)     Inner::recv_headers
    disp.recv_data           enter  [sid, end_stream, payload_len, flow_len] ++ D(sid)         Inner::recv_data
    disp.recv_reset          enter  [sid, code] ++ D(sid)                                      Inner::recv_reset
    disp.recv_window_update  enter  [sid, increment] ++ D(sid)                                 Inner::recv_window_update (sid != 0 only looked at)
    disp.recv_push_promise   enter  [sid, promised, over_size] ++ D(sid)                       Inner::recv_push_promise
    disp.recv_go_away        enter  [last, code, send_max, debug...]                           Inner::recv_go_away
    disp.handle_error        enter  E(err)                                                    Inner::handle_error
                                    E = [0, reason, initiator, sid] | [1, reason, initiator, debug...] | [2, kind, has_msg, message bytes...]
    disp.recv_eof            enter  [conn_error.is_some()]                                     Inner::recv_eof
    disp.poll2_reset         enter  [sid, code] ++ D(sid)                                      Inner::send_reset
    disp.go_away_sent        ev     [last, recv_max before]                                   DynStreams::send_go_away
    disp.send_request        enter  [end_of_stream, send_next, conn_error, is_server]          Streams::send_request (under the lock)
    disp.send_data           enter  [end_stream] ++ DK(key)                                    StreamRef::send_data
    disp.send_trailers       enter  DK(key)                                                   StreamRef::send_trailers
    disp.send_reset          enter  [code] ++ DK(key)                                          StreamRef::send_reset
    disp.send_info           enter  [end_stream] ++ DK(key)                                    StreamRef::send_informational_headers
    disp.send_response       enter  [end_of_stream] ++ DK(key)                                 StreamRef::send_response
    disp.push_request        enter  [send_next, send_max, push_enabled] ++ DK(key)             StreamRef::send_push_promise
    disp.drop_ref            enter  DK(key)    (ref_count = the count BEFORE this drop)        drop_stream_ref
    disp.poll_reset          ev     [mode (0 AwaitingHeaders, 1 Streaming)] ++ DK(key)         StreamRef::poll_reset
  recv.rs
    disp.send_refusal        ev     [refused id]            Recv::send_pending_refusal, just before the RST_STREAM is buffered
    disp.expire              ev     [serial, sid]           Recv::clear_expired_reset_streams, per record popped
  prioritize.rs
    disp.park_frame          ev     [serial, sid, end_stream]   Prioritize::send_data: the DATA frame is queued without scheduling

Results are read from existing events: `conn.poll2_result` (the error a received frame produced), the API result of
the harness operation; queued frames from `prio.queue_frame` / `disp.park_frame`; emitted frames from `prio.pop_data`,
`prio.pop_other`, `prio.pop_scheduled_reset`, `prio.pop_drop_push`; `prio.push_back` (reclaim), `prio.pop_pending_open`,
`recv.stream_wu_pop` / `recv.stream_window_update`, `store.unlink`, `store.remove`, `recv.event` (handed to the application),
`counts.can_inc_*` (admission verdicts)."""
import re
import sys

REPO = "/repo/src/proto/streams/"

EVENTS = {
    "streams.rs": ["disp.recv_headers", "disp.recv_data", "disp.recv_reset", "disp.recv_window_update", "disp.recv_push_promise",
                   "disp.recv_go_away", "disp.handle_error", "disp.recv_eof", "disp.poll2_reset", "disp.go_away_sent", "disp.send_request",
                   "disp.send_data", "disp.send_trailers", "disp.send_reset", "disp.send_info", "disp.send_response", "disp.push_request",
                   "disp.drop_ref", "disp.poll_reset"],
    "recv.rs": ["disp.send_refusal", "disp.expire"],
    "prioritize.rs": ["disp.park_frame"],
}
HELPERS = {"state.rs": "fn verif_code", "store.rs": "fn verif_find", "recv.rs": "fn verif_disp_ids", "send.rs": "fn verif_disp_ids",
           "streams.rs": "fn verif_disp_key"}


def main():
    bad = 0
    for fn, evs in EVENTS.items():
        s = open(REPO + fn).read()
        for e in evs:
            if '"%s"' % e not in s:
                print("missing hook event", e, "in", fn)
                bad += 1
    for fn, needle in HELPERS.items():
        if needle not in open(REPO + fn).read():
            print("missing helper", needle, "in", fn)
            bad += 1
    print("dispatch hooks: %d events, %d problems" % (sum(len(v) for v in EVENTS.values()), bad))
    return bad


if __name__ == "__main__":
    sys.exit(1 if main() else 0)
