#!/usr/bin/env python3
"""One-off helper that inserted the receive-flow hook statements into /repo (kept for reference;
the result is committed in /repo as a guarded, add-only hook commit)."""
REPO = "/repo/src/proto/streams/"

def insert(path, anchor, text, after=False):
    s = open(path).read()
    assert s.count(anchor) == 1, (path, anchor, s.count(anchor))
    idx = s.index(anchor)
    if after:
        assert anchor.endswith("\n")
        end = idx + len(anchor)
        s = s[:end] + text + s[end:]
    else:
        s = s[:idx] + text + s[idx:]
    open(path, "w").write(s)

def hook(indent, kind, name, args):
    pad = " " * indent
    fn = "let _verif = crate::verif::enter" if kind == "enter" else "crate::verif::ev"
    return f'{pad}#[cfg(feature = "verif-hooks")]\n{pad}{fn}("{name}", || {{\n{pad}    vec![{args}]\n{pad}}});\n'

def SR(v="stream"):
    return (f"{v}.verif_serial, u32::from({v}.id) as i64, {v}.is_recv as i64, "
            f"isize::from({v}.recv_flow.window_size_raw()) as i64, isize::from({v}.recv_flow.available()) as i64, "
            f"{v}.in_flight_recv_data as i64, {v}.is_pending_window_update as i64, "
            f"{v}.state.is_recv_streaming() as i64, {v}.state.is_local_error() as i64")
CONN = "isize::from(self.flow.window_size_raw()) as i64, isize::from(self.flow.available()) as i64, self.in_flight_data as i64, self.init_window_sz as i64"

p = REPO + "recv.rs"
insert(p, "        // Decrement in-flight data\n        self.in_flight_data -= capacity;\n",
       hook(8, "enter", "recv.release_connection_capacity", f"{CONN}, capacity as i64"))
insert(p, '        tracing::trace!("release_capacity; size={}", capacity);\n',
       hook(8, "enter", "recv.release_capacity", f"{SR()}, {CONN}, capacity as i64"))
insert(p, "        debug_assert_eq!(stream.ref_count, 0);\n\n        if stream.in_flight_recv_data != 0 {\n",
       hook(8, "enter", "recv.release_closed_capacity", f"{SR()}, {CONN}"))
insert(p, '        tracing::trace!(\n            "set_target_connection_window; target={}; available={}, reserved={}",\n',
       hook(8, "enter", "recv.set_target_connection_window", f"{CONN}, target as i64"))
insert(p, "        if let Some(val) = settings.is_extended_connect_protocol_enabled() {\n            self.is_extended_connect_protocol_enabled = val;\n        }\n\n        if let Some(target) = settings.initial_window_size() {\n",
       hook(8, "enter", "recv.apply_local_settings", f"{CONN}, settings.initial_window_size().map(|v| v as i64).unwrap_or(-1)"))
insert(p, "                        stream\n                            .recv_flow\n                            .dec_recv_window(dec)\n",
       hook(24, "ev", "recv.settings_stream", f"{SR()}"))
insert(p, "                        stream\n                            .recv_flow\n                            .inc_window(inc)\n",
       hook(24, "ev", "recv.settings_stream", f"{SR()}"))
insert(p, "        let sz = frame.flow_controlled_len();\n\n        // This should have been enforced at the codec::FramedRead layer, so\n",
       hook(8, "enter", "recv.recv_data", f"{SR()}, {CONN}, frame.flow_controlled_len() as i64, frame.payload().len() as i64, frame.is_end_stream() as i64"))
insert(p, "        // Update stream level flow control\n        stream\n            .recv_flow\n            .send_data(sz)\n",
       hook(8, "ev", "recv.charge_stream", f"{SR()}, sz as i64"))
insert(p, "    pub fn ignore_data(&mut self, sz: WindowSize) -> Result<(), Error> {\n",
       hook(8, "enter", "recv.ignore_data", f"{CONN}, sz as i64"), after=True)
insert(p, "    pub fn consume_connection_window(&mut self, sz: WindowSize) -> Result<(), Error> {\n",
       hook(8, "enter", "recv.consume_connection_window", f"{CONN}, sz as i64"), after=True)
insert(p, "        let mut to_release: WindowSize = 0;\n",
       hook(8, "enter", "recv.clear_recv_buffer", f"{SR()}, {CONN}"))
insert(p, "        if to_release > 0 {\n            stream.in_flight_recv_data -= to_release;\n",
       hook(8, "ev", "recv.clear_release", f"{SR()}, to_release as i64"))
insert(p, "            dst.buffer(frame.into())\n                .expect(\"invalid WINDOW_UPDATE frame\");\n\n            // Update flow control\n            self.flow\n                .inc_window(incr)\n",
       hook(12, "ev", "recv.conn_window_update", f"{CONN}, incr as i64"))
insert(p, "                debug_assert!(!stream.is_pending_window_update);\n",
       hook(16, "ev", "recv.stream_wu_pop", f"{SR()}"), after=True)
insert(p, "                    let frame = frame::WindowUpdate::new(stream.id, incr);\n",
       hook(20, "ev", "recv.stream_window_update", f"{SR()}, incr as i64"))
p = REPO + "streams.rs"
insert(p, "        let id = frame.stream_id();\n\n        let stream = match self.store.find_mut(&id) {\n            Some(stream) => stream,\n            None => {\n                // The GOAWAY process has begun. All streams with a greater ID\n                // than specified as part of GOAWAY should be ignored.\n                if id > self.actions.recv.max_stream_id() {\n                    tracing::trace!(\n                        \"id ({:?}) > max_stream_id ({:?}), ignoring DATA\",\n",
       hook(8, "enter", "inner.recv_data", "u32::from(frame.stream_id()) as i64, frame.flow_controlled_len() as i64, frame.payload().len() as i64, frame.is_end_stream() as i64"))
