#!/usr/bin/env python3
"""Inserts the wake / waker-registration hook statements used by property C06 into /repo (add-only, every statement is
guarded by #[cfg(feature = "verif-hooks")]).  Idempotent: a file that already carries the events is left alone.

Event vocabulary (name, depth, args...) -- `serial` is Stream::verif_serial, `id` the stream id:

  registrations (the polling task stores its waker)
    stream.wait_send   serial id                (already present: poll_capacity / poll_reset)
    stream.wait_open   serial id                Stream::wait_open          (SendRequest::poll_ready on a queued stream)
    stream.wait_recv   serial id site           recv.rs: 1 poll_response, 2 poll_informational, 3 poll_trailers (data still queued), 4 schedule_recv
    stream.wait_push   serial id                Recv::poll_pushed
    conn.task_register                          Streams::poll_complete, under the lock that saw every queue flushed
  primitive notifications (take + wake), `had` = the slot held a waker
    stream.notify_send serial id had            (already present)
    stream.notify_open serial id had            second half of Stream::notify_send
    stream.notify_recv serial id had
    stream.notify_push serial id had
    conn.task_wake     site had                 1 Prioritize::schedule_send, 2 Send::send_headers (pending_open), 3 Recv::release_connection_capacity,
                                                4 Recv::release_capacity, 5 Recv::set_target_connection_window, 6 Drop for Streams,
                                                7 drop_stream_ref (unreferenced closed stream), 8 StreamRef::reserve_capacity,
                                                9 drop_stream_ref (only the connection's reference is left)
    conn.self_wake                              client::Connection::poll re-wakes itself when the last reference went away during the poll
  sites (something a waiter may be waiting for happened; the primitive notifications that follow belong to the site)
    stream.notify_capacity serial id            (already present)
    prio.pop_pending_open  serial id            the queued stream was opened
    stream.set_reset       serial id            local reset
    recv.recv_reset        serial id            RST_STREAM received
    recv.handle_error      serial id            connection error
    recv.recv_eof          serial id            transport ended
    recv.event             serial id kind ended kind: 1 headers, 2 informational headers, 3 trailers, 4 data, 5 promised request (on the promised
                                                stream), 6 poll_data found trailers, 7 after a reset issued through Actions; ended = is_recv_end_stream()
    inner.push_queued      serial id            a promised stream was queued on its parent
"""
import sys

REPO = "/repo/src/"


def nth_index(s, anchor, k):
    idx = -1
    for _ in range(k + 1):
        idx = s.index(anchor, idx + 1)
    return idx


class File:
    def __init__(self, rel):
        self.path = REPO + rel
        self.s = open(self.path).read()
        self.orig = self.s

    def before(self, anchor, text, k=0, count=None):
        if count is not None:
            assert self.s.count(anchor) == count, (self.path, anchor, self.s.count(anchor), count)
        i = nth_index(self.s, anchor, k)
        self.s = self.s[:i] + text + self.s[i:]

    def after(self, anchor, text, k=0, count=None):
        if count is not None:
            assert self.s.count(anchor) == count, (self.path, anchor, self.s.count(anchor), count)
        i = nth_index(self.s, anchor, k) + len(anchor)
        self.s = self.s[:i] + text + self.s[i:]

    def save(self):
        if self.s != self.orig:
            open(self.path, "w").write(self.s)


def ev(indent, name, args, kind="ev"):
    pad = " " * indent
    fn = "let _verif = crate::verif::enter" if kind == "enter" else "crate::verif::ev"
    one = f'{pad}{fn}("{name}", || vec![{args}]);\n'
    if len(one) <= 101:
        return f'{pad}#[cfg(feature = "verif-hooks")]\n{one}'
    items = "".join(f"{pad}        {a.strip()},\n" for a in args.split(";;"))
    return f'{pad}#[cfg(feature = "verif-hooks")]\n{pad}{fn}("{name}", || {{\n{pad}    vec![\n{items}{pad}    ]\n{pad}}});\n'


def S(v="stream"):
    return f"{v}.verif_serial;; u32::from({v}.id) as i64"


def one_line(args):
    return args.replace(";;", ",")


def hook(indent, name, args, kind="ev"):
    """the statement in the form rustfmt gives it"""
    flat = one_line(args)
    pad = " " * indent
    fn = "let _verif = crate::verif::enter" if kind == "enter" else "crate::verif::ev"
    cfg = f'{pad}#[cfg(feature = "verif-hooks")]\n'
    line = f'{pad}{fn}("{name}", || vec![{flat}]);'
    if len(line) <= 100:
        return cfg + line + "\n"
    inner = f"{pad}    vec![{flat}]"
    if len(inner) <= 100:
        return cfg + f'{pad}{fn}("{name}", || {{\n{inner}\n{pad}}});\n'
    return ev(indent, name, args, kind)


def site9():
    """commit 6b1d165 added a wake at the end of drop_stream_ref (only the connection's reference is left): site 9"""
    f = File("proto/streams/streams.rs")
    if "vec![9, me.actions.task.is_some() as i64]" in f.s:
        return
    anchor = "        if let Some(task) = me.actions.task.take() {\n            task.wake();\n        }\n    }\n}\n\nfn maybe_cancel("
    f.before(anchor, hook(8, "conn.task_wake", "9;; me.actions.task.is_some() as i64"), count=1)
    f.save()
    print("wake hook for site 9 inserted")


def main():
    f = File("proto/streams/stream.rs")
    if '"stream.notify_recv"' in f.s:
        print("wake hooks already present")
        site9()
        return 0
    # ---- stream.rs
    f.before("        if let Some(task) = self.open_task.take() {\n", hook(8, "stream.notify_open", S("self") + ";; self.open_task.is_some() as i64"), count=1)
    f.before("        self.open_task = Some(cx.waker().clone());\n", hook(8, "stream.wait_open", S("self")), count=1)
    f.before("        if let Some(task) = self.recv_task.take() {\n", hook(8, "stream.notify_recv", S("self") + ";; self.recv_task.is_some() as i64"), count=1)
    f.before("        if let Some(task) = self.push_task.take() {\n", hook(8, "stream.notify_push", S("self") + ";; self.push_task.is_some() as i64"), count=1)
    f.before("        self.state.set_reset(self.id, reason, initiator);\n", hook(8, "stream.set_reset", S("self"), "enter"), count=1)
    f.save()
    # ---- recv.rs
    f = File("proto/streams/recv.rs")
    E = lambda kind, v="stream": S(v) + f";; {kind};; {v}.state.is_recv_end_stream() as i64"
    f.before("            stream.notify_recv();\n\n            // The receive half may have just ended", hook(12, "recv.event", E(1)), count=1)
    f.before("            stream.notify_recv();\n        }\n\n        Ok(())\n    }\n\n    /// Called by the server to get the request", hook(12, "recv.event", E(2)), count=1)
    f.before("        stream.notify_recv();\n        stream.notify_push();\n\n        Ok(())\n    }\n\n    /// Releases capacity of the connection", hook(8, "recv.event", E(3)), count=1)
    f.before("        stream.notify_recv();\n\n        if stream.state.is_recv_end_stream() {\n            stream.notify_push();", hook(8, "recv.event", E(4)), count=1)
    f.before("        stream.notify_recv();\n        stream.notify_push();\n        Ok(())\n    }\n\n    /// Ensures that `id` is not in the `Idle` state.", hook(8, "recv.event", E(5)), count=1)
    f.before("        stream.notify_send();\n        stream.notify_recv();\n        stream.notify_push();\n\n        Ok(())\n", hook(8, "recv.recv_reset", S(), "enter"), count=1)
    f.before("        // If a receiver is waiting, notify it\n        stream.notify_send();\n", hook(8, "recv.handle_error", S(), "enter"), count=1)
    f.before("        stream.notify_send();\n        stream.notify_recv();\n        stream.notify_push();\n    }\n\n    pub(super) fn clear_recv_buffer", hook(8, "recv.recv_eof", S(), "enter"), count=1)
    f.before("                stream.notify_recv();\n\n                // No more data frames", hook(16, "recv.event", E(6)), count=1)
    f.before("                stream.push_task = Some(cx.waker().clone());\n", hook(16, "stream.wait_push", S()), count=1)
    f.before("                    stream.recv_task = Some(cx.waker().clone());\n                    return Poll::Pending;", hook(20, "stream.wait_recv", S() + ";; 1"), count=1)
    f.before("            stream.recv_task = Some(cx.waker().clone());\n            Poll::Pending\n        } else {\n            // No more frames will be received\n            Poll::Ready(None)\n        }\n    }\n\n    /// Transition the stream based on receiving trailers",
             hook(12, "stream.wait_recv", S() + ";; 2"), count=1)
    f.before("                stream.recv_task = Some(cx.waker().clone());\n                Poll::Pending\n            }\n            None => self.schedule_recv(cx, stream),", hook(16, "stream.wait_recv", S() + ";; 3"), count=1)
    f.before("            stream.recv_task = Some(cx.waker().clone());\n            Poll::Pending\n        } else {\n            // No more frames will be received\n            Poll::Ready(None)\n        }\n    }\n}\n",
             hook(12, "stream.wait_recv", S() + ";; 4"), count=1)
    W = lambda site, indent: hook(indent, "conn.task_wake", f"{site};; task.is_some() as i64")
    f.before("            if let Some(task) = task.take() {\n", W(3, 12), k=0, count=3)
    f.before("            if let Some(task) = task.take() {\n", W(4, 12), k=1, count=3)
    f.before("            if let Some(task) = task.take() {\n", W(5, 12), k=2, count=3)
    f.save()
    # ---- prioritize.rs
    f = File("proto/streams/prioritize.rs")
    f.before("            if let Some(task) = task.take() {\n", hook(12, "conn.task_wake", "1;; task.is_some() as i64"), count=1)
    f.before("                stream.notify_send();\n                return Some(stream);", hook(16, "prio.pop_pending_open", S()), count=1)
    f.save()
    # ---- send.rs
    f = File("proto/streams/send.rs")
    f.before("            if let Some(task) = task.take() {\n", hook(12, "conn.task_wake", "2;; task.is_some() as i64"), count=1)
    f.save()
    # ---- streams.rs
    f = File("proto/streams/streams.rs")
    f.before("                    me.actions.task = Some(cx.waker().clone());\n", hook(20, "conn.task_register", ""), count=1)
    f.before("            parent.notify_push();\n", hook(12, "inner.push_queued", S("parent")), count=1)
    f.before("                if let Some(task) = inner.actions.task.take() {\n", hook(16, "conn.task_wake", "6;; inner.actions.task.is_some() as i64"), count=1)
    f.before("        if let Some(task) = actions.task.take() {\n", hook(8, "conn.task_wake", "7;; actions.task.is_some() as i64"), count=1)
    f.before("        if let Some(task) = me.actions.task.take() {\n", hook(8, "conn.task_wake", "8;; me.actions.task.is_some() as i64"), count=1)
    f.before("            // if a RecvStream is parked, ensure it's notified\n            stream.notify_recv();\n", hook(12, "recv.event", S() + ";; 7;; stream.state.is_recv_end_stream() as i64"), count=1)
    f.before("                // if a RecvStream is parked, ensure it's notified\n                stream.notify_recv();\n", hook(16, "recv.event", S() + ";; 7;; stream.state.is_recv_end_stream() as i64"), count=1)
    f.save()
    # ---- client.rs
    f = File("client.rs")
    f.before("            cx.waker().wake_by_ref();\n", hook(12, "conn.self_wake", ""), count=1)
    f.save()
    print("wake hooks inserted")
    site9()
    return 0


if __name__ == "__main__":
    sys.exit(main())
