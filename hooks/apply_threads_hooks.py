#!/usr/bin/env python3
"""Reference for the hook statements of work package wp-threads (property C20).  The statements were inserted by hand-run
python snippets (add-only, every statement guarded by `#[cfg(feature = "verif-hooks")]`, rustfmt-clean); this file documents the
event vocabulary and where each statement sits.  It is NOT meant to be re-run.

/repo/src/verif.rs  (global cross-thread log, selected at run time)
    start_global() / stop_global() / drain_global() -> Vec<GlobalEv{seq, thread, ev}>
    set_thread_tag(u32)       tag of the current thread (0 main, 1 connection, 2 peer, 10.. workers)
    mark(name, args) -> seq   harness-level markers: "op.begin"/"op.end" [kind], "io.write" [bytes], "io.feed" [frame kind, sid, value]
    two early-return lines inside `record` (-> record_global) and `next_serial` (-> one global counter) while the global log is on.
    Claim used by lib/props/parts/threads.py: an event emitted while `inner` is held is appended to the log before `inner` is
    released, so the events of one lock section are contiguous among events emitted under the lock and sections appear in
    lock-acquisition order.  Which events are emitted under the lock: coq/Gen/LockInventory.v `hook_sites` (class HLocked),
    theorem C20_hooks_under_lock; checked on every threaded run by the atomicity oracle.

/repo/src/proto/streams/prioritize.rs
    enter "prio.buffer_pending"   [in_flight tag (0 Nothing,1 DataFrame,2 Drop), dst.has_send_capacity]       top of Prioritize::buffer_pending
    enter "prio.reclaim_written"  [in_flight tag]                                                           top of Prioritize::reclaim_written_frame
    ev    "prio.stage"            [key stream id, key slot, take limit (=len), remaining of the user's buffer, end_of_stream, key is live]
                                  right after `in_flight_data_frame = DataFrame(..)` in buffer_pending
    ev    "prio.reclaim"          [key stream id, key slot, unwritten tail, end_of_stream, key is live, in_flight tag, in_flight key sid, in_flight key slot]
                                  in reclaim_frame_inner before the match on in_flight_data_frame (only when the codec returned a frame)
    ev    "prio.push_back"        [serial, stream id, slot, buffered_send_data, available > 0]             top of push_back_frame
    ev    "prio.clear_in_flight"  [serial, stream id, slot, in_flight tag, in_flight key sid, in_flight key slot]
                                  in clear_queue right before the `if let InFlightData::DataFrame(key)` test
    snapshot: "in_flight_stream_id", "in_flight_slot" (verif_dump)
/repo/src/proto/streams/store.rs
    ev    "store.slot"            [serial, stream id, slab slot]      after slab.insert in Store::insert and VacantEntry::insert
    ev    "store.free"            [serial, stream id, slab slot]      top of Ptr::remove
    Key::verif_stream_id / verif_slot, Store::verif_key_is_live (read-only accessors)
/repo/src/codec/framed_write.rs
    ev    "codec.buffer_data"     [len, len >= chain_threshold, last_data_frame.is_some()]    Encoder::buffer, DATA arm
    ev    "codec.data_done"       []                                                          Encoder::unset_frame, Next::Data arm (the chained payload is written)

Projection to Model/Handover.v labels: lib/props/parts/threads.py `handover_labels`.
"""
