#!/usr/bin/env python3
"""One-off helper that inserted the counts hook statements into /repo (kept for reference)."""
REPO = "/repo/src/proto/streams/"

def insert(path, anchor, text, after=False):
    s = open(path).read()
    assert s.count(anchor) == 1, (path, anchor, s.count(anchor))
    idx = s.index(anchor)
    if after:
        assert anchor.endswith("\n")
        end = idx + len(anchor)
        s = s[:end] + text + s[end:]
    else:
        s = s[:idx] + text + s[idx:]
    open(path, "w").write(s)

def hook(indent, kind, name, args):
    pad = " " * indent
    fn = "let _verif = crate::verif::enter" if kind == "enter" else "crate::verif::ev"
    return f'{pad}#[cfg(feature = "verif-hooks")]\n{pad}{fn}("{name}", || {{\n{pad}    vec![{args}]\n{pad}}});\n'

def cap(x):
    return f"(if {x} > i64::MAX as usize {{ -1 }} else {{ {x} as i64 }})"
C = f"{cap('self.max_send_streams')}, self.num_send_streams as i64, {cap('self.max_recv_streams')}, self.num_recv_streams as i64, self.max_local_reset_streams as i64, self.num_local_reset_streams as i64, self.max_remote_reset_streams as i64, self.num_remote_reset_streams as i64, self.max_local_error_reset_streams.map(|v| v as i64).unwrap_or(-1), self.num_local_error_reset_streams as i64"
p = REPO + "counts.rs"
insert(p, "    pub fn can_inc_num_recv_streams(&self) -> bool {\n", hook(8, "ev", "counts.can_inc_recv", C), after=True)
insert(p, "    pub fn can_inc_num_send_streams(&self) -> bool {\n", hook(8, "ev", "counts.can_inc_send", C), after=True)
insert(p, "    pub fn can_inc_num_reset_streams(&self) -> bool {\n", hook(8, "ev", "counts.can_inc_reset", C), after=True)
insert(p, "    pub(crate) fn can_inc_num_remote_reset_streams(&self) -> bool {\n", hook(8, "ev", "counts.can_inc_remote_reset", C), after=True)
insert(p, "    pub fn can_inc_num_local_error_resets(&self) -> bool {\n", hook(8, "ev", "counts.can_inc_local_error", C), after=True)
insert(p, "    pub fn inc_num_recv_streams(&mut self, stream: &mut store::Ptr) {\n", hook(8, "ev", "counts.inc_recv", "stream.verif_serial, u32::from(stream.id) as i64, stream.is_counted as i64, " + C), after=True)
insert(p, "    pub fn inc_num_send_streams(&mut self, stream: &mut store::Ptr) {\n", hook(8, "ev", "counts.inc_send", "stream.verif_serial, u32::from(stream.id) as i64, stream.is_counted as i64, " + C), after=True)
insert(p, "    pub fn inc_num_reset_streams(&mut self) {\n", hook(8, "ev", "counts.inc_reset", C), after=True)
insert(p, "    pub(crate) fn inc_num_remote_reset_streams(&mut self) {\n", hook(8, "ev", "counts.inc_remote_reset", C), after=True)
insert(p, "    pub(crate) fn dec_num_remote_reset_streams(&mut self) {\n", hook(8, "ev", "counts.dec_remote_reset", C), after=True)
insert(p, "    pub fn inc_num_local_error_resets(&mut self) {\n", hook(8, "ev", "counts.inc_local_error", C), after=True)
insert(p, "    pub fn apply_remote_settings(&mut self, settings: &frame::Settings, is_initial: bool) {\n",
       hook(8, "ev", "counts.apply_remote_settings", "settings.max_concurrent_streams().map(|v| v as i64).unwrap_or(-1), is_initial as i64, " + C), after=True)
insert(p, "    pub fn transition_after(&mut self, mut stream: store::Ptr, is_reset_counted: bool) {\n",
       hook(8, "enter", "counts.transition_after",
            "stream.verif_serial, u32::from(stream.id) as i64, stream.is_counted as i64, stream.is_closed() as i64, stream.is_pending_reset_expiration() as i64, is_reset_counted as i64, stream.state.is_scheduled_reset() as i64, stream.is_released() as i64, self.peer.is_local_init(stream.id) as i64, stream.ref_count as i64, " + C), after=True)
