#!/usr/bin/env python3
"""Inserts the record-life-cycle hook statements (work package wp-store, properties C19 / C18) into /repo.
Add-only, every statement guarded by `#[cfg(feature = "verif-hooks")]`; idempotent (a second run changes nothing).

Event vocabulary (name: args).  `life(s)` = serial, stream id, slab index, ref_count, flag mask where
mask = is_pending_send | is_pending_send_capacity<<1 | is_pending_accept<<2 | is_pending_window_update<<3 |
       is_pending_open<<4 | reset_at.is_some()<<5.   qcode: 1 NextSend, 2 NextSendCapacity, 3 NextAccept (pending_accept of a
       server / pending_push_promises of a client's parent stream), 4 NextWindowUpdate, 5 NextOpen, 6 NextResetExpire.

  store.inserted        : serial, id, index, slab_len_after          (Store::insert and VacantEntry::insert, after the slab insert)
  store.unlink          : life(s), ids_contains_id, ids_index_of_id|-1   (Ptr::unlink entry)
  store.remove_at       : life(s), ids_contains_id                   (Ptr::remove entry)
  queue.push            : qcode, life(s)                             (Queue::push entry; pre-state, so bit of qcode in mask = "already queued")
  queue.push_front      : qcode, life(s)                             (Queue::push_front entry)
  queue.pop             : qcode, life(s)                             (Queue::pop after the head was resolved; pre-state)
  counts.transition_rec : life(s)                                    (Counts::transition_after entry, right before counts.transition_after)
  streams.ref_new       : life(s)                                    (OpaqueStreamRef::new, before ref_inc; the caller did refs += 1)
  streams.ref_clone     : life(s), refs                              (OpaqueStreamRef::clone, before ref_inc / refs += 1)
  streams.ref_drop      : life(s), refs_after_dec, is_closed         (drop_stream_ref after refs -= 1, before ref_dec)
  streams.ref_drop_end  : refs                                       (drop_stream_ref after its transition block, before the
                                                                      `if me.refs == 1 { wake }` added by fix 6b1d165)
  streams.wake_conn     : task_is_some                               (the `task.take()/wake()` of drop_stream_ref and of Streams::drop)
  streams.clone         : refs                                       (Streams::clone, before refs += 1)
  streams.drop          : refs                                       (Streams::drop, before refs -= 1)
  streams.has_refs      : has_streams, refs                          (Streams::has_streams_or_other_references)
  streams.ppp_push      : life(parent)                               (Inner::recv_push_promise, before the promised record is pushed
                                                                      onto the parent's pending_push_promises)
  budget.record         : payload_len, available, max, num_recv_empty_data_frames   (Counts::record_data_frame entry)
  budget.release        : payload_len, available, max, num_recv_empty_data_frames   (Counts::release_data_frame entry)
  budget.result         : res_is_ok                                  (Inner::recv_data after recv_data + record_data_frame)
  conn.maybe_close_enter:                                            (Connection::maybe_close_connection_if_no_streams entry)
"""
import sys

REPO = "/repo/src/"


def insert(path, anchor, text, after=False, marker=None):
    """Insert `text` before (or after) the unique `anchor`, unless `marker` is already in the file."""
    s = open(path).read()
    assert marker is not None
    if marker in s:
        return False
    assert s.count(anchor) == 1, (path, anchor, s.count(anchor))
    idx = s.index(anchor)
    if after:
        idx += len(anchor)
    s = s[:idx] + text + s[idx:]
    open(path, "w").write(s)
    return True


def hook(indent, kind, name, args):
    pad = " " * indent
    fn = "let _verif = crate::verif::enter" if kind == "enter" else "crate::verif::ev"
    return f'{pad}#[cfg(feature = "verif-hooks")]\n{pad}{fn}("{name}", || {{\n{pad}    vec![{args}]\n{pad}}});\n'


def main():
    done = []
    # ---------------------------------------------------------------- verif.rs: queue codes
    p = REPO + "verif.rs"
    s = open(p).read()
    if "pub fn queue_code" not in s:
        s += '''
/// Small integer naming an intrusive queue type of `proto::streams::stream` (`std::any::type_name` of the
/// `store::Next` implementor): 1 NextSend, 2 NextSendCapacity, 3 NextAccept, 4 NextWindowUpdate, 5 NextOpen,
/// 6 NextResetExpire, 0 unknown.
pub fn queue_code(type_name: &str) -> i64 {
    let short = type_name.rsplit("::").next().unwrap_or("");
    match short {
        "NextSend" => 1,
        "NextSendCapacity" => 2,
        "NextAccept" => 3,
        "NextWindowUpdate" => 4,
        "NextOpen" => 5,
        "NextResetExpire" => 6,
        _ => 0,
    }
}
'''
        open(p, "w").write(s)
        done.append("verif.rs queue_code")

    # ---------------------------------------------------------------- stream.rs: life()
    p = REPO + "proto/streams/stream.rs"
    s = open(p).read()
    if "fn verif_life" not in s:
        s += '''
#[cfg(feature = "verif-hooks")]
impl Stream {
    /// serial, id, ref_count and the queue-membership flags as a bit mask (verification hook, read-only).
    pub(super) fn verif_life(&self, index: i64) -> Vec<i64> {
        let mask = (self.is_pending_send as i64)
            | (self.is_pending_send_capacity as i64) << 1
            | (self.is_pending_accept as i64) << 2
            | (self.is_pending_window_update as i64) << 3
            | (self.is_pending_open as i64) << 4
            | (self.reset_at.is_some() as i64) << 5;
        vec![
            self.verif_serial,
            u32::from(self.id) as i64,
            index,
            self.ref_count as i64,
            mask,
        ]
    }
}
'''
        open(p, "w").write(s)
        done.append("stream.rs verif_life")

    # ---------------------------------------------------------------- store.rs
    p = REPO + "proto/streams/store.rs"
    s = open(p).read()
    if "fn verif_index" not in s:
        s += '''
#[cfg(feature = "verif-hooks")]
impl Key {
    /// Slab index of the key (verification hook, read-only).
    pub(crate) fn verif_index(&self) -> i64 {
        self.index.0 as i64
    }
}
'''
        open(p, "w").write(s)
        done.append("store.rs verif_index")
    if '"store.inserted"' not in open(p).read():
        insert(p, "        let index = SlabIndex(self.slab.insert(val) as u32);\n",
               hook(8, "ev", "store.inserted",
                    "\n                self.slab[index.0 as usize].verif_serial,\n                u32::from(id) as i64,\n"
                    "                index.0 as i64,\n                self.slab.len() as i64,\n            "),
               after=True, marker="@@never@@")
        insert(p, "        let index = SlabIndex(self.slab.insert(value) as u32);\n",
               hook(8, "ev", "store.inserted",
                    "\n                self.slab[index.0 as usize].verif_serial,\n                u32::from(stream_id) as i64,\n"
                    "                index.0 as i64,\n                self.slab.len() as i64,\n            "),
               after=True, marker="@@never@@")
        done.append("store.rs Store::insert, VacantEntry::insert")
    if insert(p, "        // The stream must have been unlinked before this point\n",
              '        #[cfg(feature = "verif-hooks")]\n        crate::verif::ev("store.remove_at", || {\n'
              "            let mut v = self.verif_life(self.key.index.0 as i64);\n"
              "            v.push(self.store.ids.contains_key(&self.key.stream_id) as i64);\n            v\n        });\n",
              marker='"store.remove_at"'):
        done.append("store.rs Ptr::remove")
    if insert(p, "        let id = self.key.stream_id;\n        self.store.ids.swap_remove(&id);\n",
              '        #[cfg(feature = "verif-hooks")]\n        crate::verif::ev("store.unlink", || {\n'
              "            let mut v = self.verif_life(self.key.index.0 as i64);\n"
              "            v.push(self.store.ids.contains_key(&self.key.stream_id) as i64);\n"
              "            v.push(\n                self.store\n                    .ids\n                    .get(&self.key.stream_id)\n"
              "                    .map(|i| i.0 as i64)\n                    .unwrap_or(-1),\n            );\n            v\n        });\n",
              marker='"store.unlink"'):
        done.append("store.rs Ptr::unlink")

    def qhook(name):
        return ('        #[cfg(feature = "verif-hooks")]\n        crate::verif::ev("%s", || {\n'
                "            let mut v = vec![crate::verif::queue_code(std::any::type_name::<N>())];\n"
                "            v.extend(stream.verif_life(stream.key().index.0 as i64));\n            v\n        });\n" % name)
    if insert(p, '        tracing::trace!("Queue::push_back");\n', qhook("queue.push"), after=True, marker='"queue.push"'):
        done.append("store.rs Queue::push")
    if insert(p, '        tracing::trace!("Queue::push_front");\n', qhook("queue.push_front"), after=True, marker='"queue.push_front"'):
        done.append("store.rs Queue::push_front")
    if insert(p, "            let mut stream = store.resolve(idxs.head);\n",
              '            #[cfg(feature = "verif-hooks")]\n            crate::verif::ev("queue.pop", || {\n'
              "                let mut v = vec![crate::verif::queue_code(std::any::type_name::<N>())];\n"
              "                v.extend(stream.verif_life(stream.key().index.0 as i64));\n                v\n            });\n",
              after=True, marker='"queue.pop"'):
        done.append("store.rs Queue::pop")

    # ---------------------------------------------------------------- counts.rs
    p = REPO + "proto/streams/counts.rs"
    if insert(p, '        #[cfg(feature = "verif-hooks")]\n        let _verif = crate::verif::enter("counts.transition_after", || {\n',
              '        #[cfg(feature = "verif-hooks")]\n        crate::verif::ev("counts.transition_rec", || {\n'
              "            stream.verif_life(stream.key().verif_index())\n        });\n",
              marker='"counts.transition_rec"'):
        done.append("counts.rs transition_after")

    # ---------------------------------------------------------------- streams.rs
    p = REPO + "proto/streams/streams.rs"
    if insert(p, "        stream.ref_inc();\n        OpaqueStreamRef {\n",
              '        #[cfg(feature = "verif-hooks")]\n        crate::verif::ev("streams.ref_new", || {\n'
              "            stream.verif_life(stream.key().verif_index())\n        });\n",
              marker='"streams.ref_new"'):
        done.append("streams.rs OpaqueStreamRef::new")
    if True:
        s = open(p).read()
        if '"streams.ref_clone"' not in s:
            a = "        let mut inner = self.inner.lock().unwrap();\n        inner.store.resolve(self.key).ref_inc();\n"
            assert s.count(a) == 1
            t = ("        let mut inner = self.inner.lock().unwrap();\n"
                 '        #[cfg(feature = "verif-hooks")]\n        crate::verif::ev("streams.ref_clone", || {\n'
                 "            let mut v = inner.store[self.key].verif_life(self.key.verif_index());\n"
                 "            v.push(inner.refs as i64);\n            v\n        });\n"
                 "        inner.store.resolve(self.key).ref_inc();\n")
            s = s.replace(a, t)
            open(p, "w").write(s)
            done.append("streams.rs OpaqueStreamRef::clone")
    s = open(p).read()
    if '"streams.ref_drop"' not in s:
        a = "    let mut stream = me.store.resolve(key);\n\n    tracing::trace!(\"drop_stream_ref; stream={:?}\", stream);\n"
        assert s.count(a) == 1
        t = ("    let mut stream = me.store.resolve(key);\n"
             '    #[cfg(feature = "verif-hooks")]\n    crate::verif::ev("streams.ref_drop", || {\n'
             "        let mut v = stream.verif_life(key.verif_index());\n"
             "        v.push(me.refs as i64);\n        v.push(stream.is_closed() as i64);\n        v\n    });\n"
             "\n    tracing::trace!(\"drop_stream_ref; stream={:?}\", stream);\n")
        s = s.replace(a, t)
        a = "    if stream.ref_count == 0 && stream.is_closed() {\n"
        assert s.count(a) == 1
        t = a + ('        #[cfg(feature = "verif-hooks")]\n        crate::verif::ev("streams.wake_conn", || vec![actions.task.is_some() as i64]);\n')
        s = s.replace(a, t)
        open(p, "w").write(s)
        done.append("streams.rs drop_stream_ref")
    s = open(p).read()
    if '"streams.clone"' not in s:
        a = "        self.inner.lock().unwrap().refs += 1;\n"
        assert s.count(a) == 1
        t = ('        #[cfg(feature = "verif-hooks")]\n        crate::verif::ev("streams.clone", || {\n'
             "            vec![self.inner.lock().unwrap().refs as i64]\n        });\n") + a
        s = s.replace(a, t)
        a = "            inner.refs -= 1;\n            if inner.refs == 1 {\n"
        assert s.count(a) == 1
        t = ('            #[cfg(feature = "verif-hooks")]\n            crate::verif::ev("streams.drop", || vec![inner.refs as i64]);\n'
             "            inner.refs -= 1;\n            if inner.refs == 1 {\n"
             '                #[cfg(feature = "verif-hooks")]\n                crate::verif::ev("streams.wake_conn", || {\n'
             "                    vec![inner.actions.task.is_some() as i64]\n                });\n")
        s = s.replace(a, t)
        a = "        let me = self.inner.lock().unwrap();\n        me.counts.has_streams() || me.refs > 1\n"
        assert s.count(a) == 1
        t = ("        let me = self.inner.lock().unwrap();\n"
             '        #[cfg(feature = "verif-hooks")]\n        crate::verif::ev("streams.has_refs", || {\n'
             "            vec![me.counts.has_streams() as i64, me.refs as i64]\n        });\n"
             "        me.counts.has_streams() || me.refs > 1\n")
        s = s.replace(a, t)
        a = "        if let Some(child) = child_key {\n            let mut ppp = self.store[parent_key].pending_push_promises.take();\n"
        assert s.count(a) == 1
        t = ("        if let Some(child) = child_key {\n"
             '            #[cfg(feature = "verif-hooks")]\n            crate::verif::ev("streams.ppp_push", || {\n'
             "                self.store[parent_key].verif_life(parent_key.verif_index())\n            });\n"
             "            let mut ppp = self.store[parent_key].pending_push_promises.take();\n")
        s = s.replace(a, t)
        open(p, "w").write(s)
        done.append("streams.rs Streams clone/drop/has_refs/ppp_push")

    s = open(p).read()
    if '"streams.ref_drop_end"' not in s:
        a = "    if me.refs == 1 {\n        if let Some(task) = me.actions.task.take() {\n"
        assert s.count(a) == 1
        t = ('    #[cfg(feature = "verif-hooks")]\n    crate::verif::ev("streams.ref_drop_end", || vec![me.refs as i64]);\n'
             "    if me.refs == 1 {\n"
             '        #[cfg(feature = "verif-hooks")]\n        crate::verif::ev("streams.wake_conn", || {\n            vec![me.actions.task.is_some() as i64]\n        });\n'
             "        if let Some(task) = me.actions.task.take() {\n")
        s = s.replace(a, t)
        open(p, "w").write(s)
        done.append("streams.rs drop_stream_ref end")

    # ---------------------------------------------------------------- counts.rs / streams.rs: DATA-frame budget (C18)
    p = REPO + "proto/streams/counts.rs"
    s = open(p).read()
    if '"budget.record"' not in s:
        a = "    pub fn record_data_frame(&mut self, payload_len: usize) -> Result<(), BudgetExhausted> {\n"
        assert s.count(a) == 1
        s = s.replace(a, a + hook(8, "ev", "budget.record",
                                  "\n                payload_len as i64,\n                self.data_frame_budget.available as i64,\n"
                                  "                self.data_frame_budget.max as i64,\n                self.num_recv_empty_data_frames as i64,\n            "))
        a = "    pub fn release_data_frame(&mut self, payload_len: usize) {\n"
        assert s.count(a) == 1
        s = s.replace(a, a + hook(8, "ev", "budget.release",
                                  "\n                payload_len as i64,\n                self.data_frame_budget.available as i64,\n"
                                  "                self.data_frame_budget.max as i64,\n                self.num_recv_empty_data_frames as i64,\n            "))
        open(p, "w").write(s)
        done.append("counts.rs budget.record / budget.release")
    p = REPO + "proto/streams/streams.rs"
    s = open(p).read()
    if '"budget.result"' not in s:
        a = ("            // Any stream error after receiving a DATA frame means\n"
             "            // we won't give the data to the user, and so they can't\n")
        assert s.count(a) == 1
        s = s.replace(a, '            #[cfg(feature = "verif-hooks")]\n            crate::verif::ev("budget.result", || vec![res.is_ok() as i64]);\n' + a)
        open(p, "w").write(s)
        done.append("streams.rs budget.result")

    # ---------------------------------------------------------------- connection.rs
    p = REPO + "proto/connection.rs"
    s = open(p).read()
    if '"conn.maybe_close_enter"' not in s:
        a = "    pub fn maybe_close_connection_if_no_streams(&mut self) {\n"
        assert s.count(a) == 1
        t = a + '        #[cfg(feature = "verif-hooks")]\n        crate::verif::ev("conn.maybe_close_enter", Vec::new);\n'
        s = s.replace(a, t)
        open(p, "w").write(s)
        done.append("connection.rs maybe_close_enter")
    print("applied:", done if done else "nothing (already present)")


if __name__ == "__main__":
    sys.exit(main())
