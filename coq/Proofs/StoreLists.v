(* Association-list, queue and handle-multiset lemmas for the store model. *)
From H2V Require Import Base.Tac Model.Counts Model.Store.
Local Open Scope N_scope.

Lemma alook_adel_same {A} k (l : list (N * A)) : alook k (adel k l) = None.
Proof.
  induction l as [|[k' v] l IH]; cbn [alook adel]; [reflexivity|].
  destruct (k' =? k) eqn:E; [exact IH|]. cbn [alook]. rewrite E. exact IH.
Qed.

Lemma alook_adel_other {A} k k' (l : list (N * A)) : k <> k' -> alook k' (adel k l) = alook k' l.
Proof.
  intros Hne. induction l as [|[x v] l IH]; cbn [alook adel]; [reflexivity|].
  destruct (x =? k) eqn:E.
  - apply N.eqb_eq in E. subst x. destruct (k =? k') eqn:E2; [apply N.eqb_eq in E2; congruence|exact IH].
  - cbn [alook]. destruct (x =? k'); [reflexivity|exact IH].
Qed.

Lemma alook_aset_same {A} k (v : A) l : alook k (aset k v l) = Some v.
Proof. unfold aset. cbn [alook]. rewrite N.eqb_refl. reflexivity. Qed.

Lemma alook_aset_other {A} k k' (v : A) l : k <> k' -> alook k' (aset k v l) = alook k' l.
Proof.
  intros Hne. unfold aset. cbn [alook].
  destruct (k =? k') eqn:E; [apply N.eqb_eq in E; congruence|]. apply alook_adel_other; exact Hne.
Qed.

Lemma alook_aset {A} k k' (v : A) l : alook k' (aset k v l) = if k =? k' then Some v else alook k' l.
Proof.
  destruct (k =? k') eqn:E.
  - apply N.eqb_eq in E. subst. apply alook_aset_same.
  - apply N.eqb_neq in E. apply alook_aset_other; exact E.
Qed.

Lemma alook_adel {A} k k' (l : list (N * A)) : alook k' (adel k l) = if k =? k' then None else alook k' l.
Proof.
  destruct (k =? k') eqn:E.
  - apply N.eqb_eq in E. subst. apply alook_adel_same.
  - apply N.eqb_neq in E. apply alook_adel_other; exact E.
Qed.

Lemma alook_In {A} k (v : A) l : alook k l = Some v -> In (k, v) l.
Proof.
  induction l as [|[k' w] l IH]; cbn [alook]; [discriminate|].
  destruct (k' =? k) eqn:E.
  - intros H. inversion H; subst. apply N.eqb_eq in E. subst. left; reflexivity.
  - intros H. right. apply IH; exact H.
Qed.

Lemma alook_None_notin {A} k (l : list (N * A)) : alook k l = None -> ~ In k (map fst l).
Proof.
  induction l as [|[k' w] l IH]; cbn [alook map fst]; [intros _ []|].
  destruct (k' =? k) eqn:E; [discriminate|]. intros H [H1|H1].
  - subst. rewrite N.eqb_refl in E. discriminate.
  - exact (IH H H1).
Qed.

Lemma adel_keys_incl {A} k (l : list (N * A)) x : In x (map fst (adel k l)) -> In x (map fst l) /\ x <> k.
Proof.
  induction l as [|[k' w] l IH]; cbn [adel map fst]; [intros []|].
  destruct (k' =? k) eqn:E.
  - intros H. destruct (IH H) as (A1 & A2). split; [right; exact A1|exact A2].
  - cbn [map fst]. intros [H|H].
    + subst. split; [left; reflexivity|]. apply N.eqb_neq in E. exact E.
    + destruct (IH H) as (A1 & A2). split; [right; exact A1|exact A2].
Qed.

Lemma adel_nodup {A} k (l : list (N * A)) : NoDup (map fst l) -> NoDup (map fst (adel k l)).
Proof.
  induction l as [|[k' w] l IH]; cbn [adel map fst]; [intros H; exact H|].
  intros H. inversion H as [|x xs Hn Hd]; subst.
  destruct (k' =? k); [apply IH; exact Hd|].
  cbn [map fst]. constructor; [|apply IH; exact Hd].
  intros Hin. apply adel_keys_incl in Hin. apply Hn. apply Hin.
Qed.

Lemma aset_nodup {A} k (v : A) l : NoDup (map fst l) -> NoDup (map fst (aset k v l)).
Proof.
  intros H. unfold aset. cbn [map fst]. constructor; [|apply adel_nodup; exact H].
  intros Hin. apply adel_keys_incl in Hin. destruct Hin as (_ & Hne). apply Hne. reflexivity.
Qed.

Lemma amem_alook {A} k (l : list (N * A)) : amem k l = false -> alook k l = None.
Proof. unfold amem. destruct (alook k l); [discriminate|reflexivity]. Qed.

Lemma alook_map {A B} (g : A -> B) k (l : list (N * A)) :
  alook k (map (fun e => (fst e, g (snd e))) l) = option_map g (alook k l).
Proof.
  induction l as [|[k' w] l IH]; cbn [alook map fst snd option_map]; [reflexivity|].
  destruct (k' =? k); [reflexivity|exact IH].
Qed.

Lemma map_fst_map {A B} (g : A -> B) (l : list (N * A)) : map fst (map (fun e => (fst e, g (snd e))) l) = map fst l.
Proof. induction l as [|[k' w] l IH]; cbn [map fst snd]; [reflexivity|]. rewrite IH. reflexivity. Qed.

(* keys *)
Lemma key_eqb_eq a b : key_eqb a b = true <-> a = b.
Proof.
  unfold key_eqb. destruct a as [a1 a2], b as [b1 b2]. cbn [fst snd]. split.
  - intros H. apply andb_true_iff in H. destruct H as (H1 & H2). apply N.eqb_eq in H1. apply N.eqb_eq in H2. congruence.
  - intros H. inversion H; subst. rewrite !N.eqb_refl. reflexivity.
Qed.

Lemma key_eqb_refl a : key_eqb a a = true.
Proof. apply key_eqb_eq. reflexivity. Qed.

Lemma key_eqb_neq a b : key_eqb a b = false <-> a <> b.
Proof.
  split.
  - intros H E. apply key_eqb_eq in E. congruence.
  - intros H. destruct (key_eqb a b) eqn:E; [apply key_eqb_eq in E; congruence|reflexivity].
Qed.

Lemma fid_eqb_eq a b : fid_eqb a b = true <-> a = b.
Proof. split; [destruct a, b; cbn [fid_eqb]; congruence|intros ->; destruct b; reflexivity]. Qed.

Lemma fid_eqb_refl a : fid_eqb a a = true.
Proof. destruct a; reflexivity. Qed.

Lemma qid_eqb_eq a b : qid_eqb a b = true <-> a = b.
Proof.
  split.
  - destruct a, b; cbn [qid_eqb]; try congruence. intros H. apply N.eqb_eq in H. congruence.
  - intros ->. destruct b; cbn [qid_eqb]; try reflexivity. apply N.eqb_refl.
Qed.

(* handle multiset *)
Fixpoint hcount (k : key) (l : list (key * N)) : N :=
  match l with [] => 0 | (k', _) :: l' => (if key_eqb k k' then 1 else 0) + hcount k l' end.

Lemma h_eqb_eq a b : h_eqb a b = true <-> a = b.
Proof.
  unfold h_eqb. destruct a as [ka sa], b as [kb sb]. cbn [fst snd]. split.
  - intros H. apply andb_true_iff in H. destruct H as (H1 & H2). apply key_eqb_eq in H1. apply N.eqb_eq in H2. congruence.
  - intros H. inversion H; subst. rewrite key_eqb_refl, N.eqb_refl. reflexivity.
Qed.

Lemma hmem_In h l : hmem h l = true <-> In h l.
Proof.
  induction l as [|x l IH]; cbn [hmem In]; [split; [discriminate|intros []]|].
  rewrite orb_true_iff, IH, h_eqb_eq. split; intros [H|H]; auto.
Qed.

Lemma hdel_In h x l : In x (hdel h l) -> In x l.
Proof.
  induction l as [|y l IH]; cbn [hdel]; [intros []|].
  destruct (h_eqb h y); [intros H; right; exact H|].
  intros [H|H]; [left; exact H|right; apply IH; exact H].
Qed.

Lemma hcount_hdel k s l : In (k, s) l -> hcount k l = hcount k (hdel (k, s) l) + 1.
Proof.
  induction l as [|[k' s'] l IH]; cbn [In hdel hcount]; [intros []|].
  destruct (h_eqb (k, s) (k', s')) eqn:E.
  - intros _. apply h_eqb_eq in E. inversion E; subst. rewrite key_eqb_refl. lia.
  - intros [H|H]; [inversion H; subst; rewrite (proj2 (h_eqb_eq _ _) eq_refl) in E; discriminate|].
    cbn [hcount]. rewrite (IH H). lia.
Qed.

Lemma hcount_hdel_other k k' s l : k <> k' -> hcount k (hdel (k', s) l) = hcount k l.
Proof.
  intros Hne. induction l as [|[k2 s2] l IH]; cbn [hdel hcount]; [reflexivity|].
  destruct (h_eqb (k', s) (k2, s2)) eqn:E.
  - apply h_eqb_eq in E. inversion E; subst. destruct (key_eqb k k2) eqn:E2; [apply key_eqb_eq in E2; congruence|lia].
  - cbn [hcount]. rewrite IH. reflexivity.
Qed.

Lemma hdel_length h l : In h l -> length l = S (length (hdel h l)).
Proof.
  induction l as [|y l IH]; cbn [In hdel]; [intros []|].
  destruct (h_eqb h y) eqn:E; [reflexivity|].
  intros [H|H]; [subst; rewrite (proj2 (h_eqb_eq _ _) eq_refl) in E; discriminate|].
  cbn [length]. rewrite (IH H). reflexivity.
Qed.

Lemma hcount_zero_notin k s l : hcount k l = 0 -> ~ In (k, s) l.
Proof.
  induction l as [|[k' s'] l IH]; cbn [hcount In]; [intros _ []|].
  intros H [H1|H1].
  - inversion H1; subst. rewrite key_eqb_refl in H. lia.
  - apply IH; [|exact H1]. destruct (key_eqb k k'); lia.
Qed.

(* queue entries *)
Fixpoint qcount (f : fid) (k : key) (l : list (qid * key)) : N :=
  match l with
  | [] => 0
  | (q, k') :: l' => (if fid_eqb (flag_of q) f && key_eqb k k' then 1 else 0) + qcount f k l'
  end.

Lemma qcount_app f k l1 l2 : qcount f k (l1 ++ l2) = qcount f k l1 + qcount f k l2.
Proof. induction l1 as [|[q k'] l1 IH]; cbn [app qcount]; [lia|]. rewrite IH. lia. Qed.

Lemma qcount_zero_notin f k q l : qcount f k l = 0 -> flag_of q = f -> ~ In (q, k) l.
Proof.
  induction l as [|[q' k'] l IH]; cbn [qcount In]; [intros _ _ []|].
  intros H Hf [H1|H1].
  - inversion H1; subst. rewrite fid_eqb_refl, key_eqb_refl in H. cbn [andb] in H. lia.
  - apply (IH); [|exact Hf|exact H1]. destruct (fid_eqb (flag_of q') f && key_eqb k k'); lia.
Qed.

Lemma qfirst_In q k l : qfirst q l = Some k -> In (q, k) l.
Proof.
  induction l as [|[q' k'] l IH]; cbn [qfirst]; [discriminate|].
  destruct (qid_eqb q q') eqn:E.
  - intros H. inversion H; subst. apply qid_eqb_eq in E. subst. left; reflexivity.
  - intros H. right. apply IH; exact H.
Qed.

Lemma qlast_In q k l : qlast q l = Some k -> In (q, k) l.
Proof.
  induction l as [|[q' k'] l IH]; cbn [qlast]; [discriminate|].
  destruct (qlast q l) as [x|] eqn:E.
  - intros H. inversion H; subst. right. apply IH. reflexivity.
  - destruct (qid_eqb q q') eqn:E2; [|discriminate]. intros H. inversion H; subst. apply qid_eqb_eq in E2. subst. left; reflexivity.
Qed.

Lemma qdel_first_In q x l : In x (qdel_first q l) -> In x l.
Proof.
  induction l as [|[q' k'] l IH]; cbn [qdel_first]; [intros []|].
  destruct (qid_eqb q q'); [intros H; right; exact H|].
  intros [H|H]; [left; exact H|right; apply IH; exact H].
Qed.

Lemma qcount_qdel_first q k l f k2 :
  qfirst q l = Some k ->
  qcount f k2 l = qcount f k2 (qdel_first q l) + (if fid_eqb (flag_of q) f && key_eqb k2 k then 1 else 0).
Proof.
  induction l as [|[q' k'] l IH]; cbn [qfirst qdel_first qcount]; [discriminate|].
  destruct (qid_eqb q q') eqn:E.
  - intros H. inversion H; subst. apply qid_eqb_eq in E. subst. lia.
  - intros H. cbn [qcount]. rewrite (IH H). lia.
Qed.
