(* Property C06, part 2: enabledness and variant on the lock-stepped flow models.

   Send side (Model/SendFlow.v): in every state satisfying the invariant of Proofs/SendFlowInv.v, a stream whose head
   DATA frame is empty or which holds assigned capacity can be popped by the connection task (the label is neither
   Stuck nor a Panic) and emits DATA; every successful pop strictly decreases the queued work
   qsum = sum over streams of (queued DATA octets + queued DATA frames), which is never negative: the connection task
   cannot spin on pops, and queued data with open windows cannot sit.

   Receive side (Model/RecvFlow.v): see Properties/C06.v, which restates Proofs/RecvFlowRun.v (an owed WINDOW_UPDATE is
   queued; the queued stream can be popped; the pop settles the debt). *)
From H2V Require Import Base.Tac Model.SendFlow Proofs.SendFlowLists Proofs.SendFlowInv.
Local Open Scope Z_scope.

Definition qm (s : sstream) : Z := sumz (s_frames s) + Z.of_nat (length (s_frames s)).

Fixpoint qsum (l : list sstream) : Z :=
  match l with [] => 0 | s :: l' => qm s + qsum l' end.

Lemma qm_nonneg s : s_ok s -> 0 <= qm s.
Proof.
  intros (_ & _ & _ & _ & K6 & _). unfold qm. pose proof (sumz_nonneg _ K6). lia.
Qed.

Lemma qsum_nonneg l : Forall s_ok l -> 0 <= qsum l.
Proof.
  induction 1 as [|x l Hx Hl IH]; cbn [qsum]; [lia|]. pose proof (qm_nonneg _ Hx). lia.
Qed.

Lemma qsum_upd s s' l :
  NoDup (map s_id l) -> find_s (s_id s') l = Some s -> qsum (upd_s s' l) = qsum l - qm s + qm s'.
Proof.
  induction l as [|x l IH]; cbn [find_s upd_s qsum map]; [discriminate|].
  intros ND. inversion ND as [|? ? Hn ND']; subst.
  destruct (N.eqb (s_id x) (s_id s')) eqn:E.
  - intros H; inversion H; subst. cbn [qsum]. lia.
  - intros H. cbn [qsum]. rewrite (IH ND' H). lia.
Qed.

(* enabledness: the connection task's pop of a sendable head frame is a possible, panic-free step that emits DATA *)
Theorem send_pop_enabled st sid s f q mx :
  Inv st -> find_s sid (c_strs st) = Some s -> s_frames s = f :: q -> s_dead s = false ->
  (f = 0 \/ 0 < s_avail s) -> 0 < mx ->
  exists st' outs, step st (LPopData sid f mx) = Ok st' (OData sid (Z.min (Z.min f mx) (s_avail s)) :: outs).
Proof.
  intros HI F EQ Hdead Hsend Hmx. unfold Inv in HI.
  cbn [step]. rewrite F, EQ. rewrite Z.eqb_refl. cbn [negb]. rewrite Hdead. cbn [andb].
  stream_facts HI F.
  rewrite EQ in K5, K6. cbn [sumz] in K5. inversion K6 as [|? ? Kf Kq]; subst.
  pose proof (sumz_nonneg _ Kq) as Hq.
  destruct ((0 <? f) && (s_avail s =? 0)) eqn:Eg1; [exfalso; lia|].
  rewrite (as_size_nonneg (s_avail s)) by assumption.
  set (len := Z.min (Z.min f mx) (s_avail s)).
  assert (Hlen : 0 <= len <= f /\ len <= s_avail s) by (unfold len; lia).
  destruct ((0 <? len) && (as_size (s_win s) <? len)) eqn:Eg2; [exfalso; unfold as_size in *; lia|].
  assert (Hwin : 0 < len -> len <= s_win s) by (unfold as_size in *; lia).
  destruct ((0 <? len) && (s_win s <? len)) eqn:Ep6; [exfalso; lia|].
  destruct (s_buf s <? len) eqn:Ep7; [exfalso; lia|].
  destruct (s_req s <? len) eqn:Ep8; [exfalso; lia|].
  match goal with |- context [notify_if_up ?a ?b ?c] => destruct (notify_if_up a b c) as [s2 outs] eqn:En end.
  assert (Hin : s_avail s <= sum_avail (c_strs st)).
  { apply sum_avail_ge; [apply s_ok_avail_nonneg; assumption|]. eapply find_s_In; eauto. }
  destruct ((0 <? len) && (c_win st <? len)) eqn:Ep9; [exfalso; lia|].
  eexists; eexists. reflexivity.
Qed.

(* variant: a successful pop strictly decreases the queued work, which stays non-negative *)
Theorem send_pop_decreases st sid sz mx st' outs :
  Inv st -> 0 <= sz -> 0 < mx -> step st (LPopData sid sz mx) = Ok st' outs ->
  0 <= qsum (c_strs st') < qsum (c_strs st).
Proof.
  intros HI Hsz Hmx Hstep.
  assert (Hpost : 0 <= qsum (c_strs st')).
  { pose proof (step_inv 0 st (LPopData sid sz mx) ltac:(lia) HI ltac:(cbn; lia)) as X.
    rewrite Hstep in X. cbn [step_result_ok] in X. destruct X as ((d' & _ & HI') & _).
    destruct HI' as (_ & _ & _ & _ & _ & _ & HF & _). apply qsum_nonneg. exact HF. }
  split; [exact Hpost|]. clear Hpost.
  unfold Inv in HI. cbn [step] in Hstep.
  destruct (find_s sid (c_strs st)) as [s|] eqn:F; [|discriminate].
  destruct (s_frames s) as [|f q] eqn:EQ; [discriminate|].
  destruct (negb (f =? sz)) eqn:Ef; [discriminate|].
  apply negb_false_iff, Z.eqb_eq in Ef. subst f.
  destruct (s_dead s && (0 <? sz)); [discriminate|].
  destruct ((0 <? sz) && (s_avail s =? 0)) eqn:Eg1; [discriminate|].
  stream_facts HI F.
  rewrite (as_size_nonneg (s_avail s)) in Hstep by assumption.
  set (len := Z.min (Z.min sz mx) (s_avail s)) in *.
  destruct ((0 <? len) && (as_size (s_win s) <? len)); [discriminate|].
  destruct ((0 <? len) && (s_win s <? len)); [discriminate|].
  destruct (s_buf s <? len); [discriminate|].
  destruct (s_req s <? len); [discriminate|].
  set (q' := if len <? sz then (sz - len) :: q else q) in *.
  match type of Hstep with context [notify_if_up ?a ?b ?c] => destruct (notify_if_up a b c) as [s2 o2] eqn:En end.
  destruct ((0 <? len) && (c_win st <? len)); [discriminate|].
  inversion Hstep; subst st' outs. clear Hstep.
  pose proof (notify_same _ _ _ _ _ En) as (S1 & _ & _ & _ & _ & S6).
  simp_s.
  assert (F2 : find_s (s_id s2) (c_strs st) = Some s) by (rewrite S1, Hid; exact F).
  rewrite (qsum_upd s s2 _ H8 F2).
  assert (Hdec : qm s2 < qm s).
  { unfold qm. rewrite S6, EQ. unfold q'. cbn [sumz length].
    destruct (len <? sz) eqn:El; cbn [sumz length]; [|lia].
    assert (0 < len) by (unfold len in *; lia). lia. }
  lia.
Qed.
