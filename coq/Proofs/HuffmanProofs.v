(* Proofs about the Huffman coding of HPACK (part of property C11).

   1. the generated encode table IS the RFC 7541 Appendix B table; structural facts of the code;
   2. the reference decoder of Ref/Rfc7541Huff.v decides the RFC grammar [huff_valid];
   3. [huff_decode_exact]: the model of h2's table-driven decoder (Model/Huffman.v, over the
      regenerated DECODE_TABLE) computes exactly the reference decoder, for every byte string;
   4. [huff_encode_spec], [huff_roundtrip]: the model of h2's encoder emits the code words followed
      by at most 7 one-bits, and decoding gives the input back.

   Finite sweeps (by [vm_compute]) are used only for genuinely finite domains: the 257 code words,
   the 15 * 256 cells of DECODE_TABLE, and the 15 * 255 (table, pending bits) states of the final
   padding loop.  Everything else is by induction on the input. *)
From H2V Require Import Base.Tac Base.Bytes.
From H2V Require Import Gen.HuffTables Ref.Rfc7541HuffTable Ref.Rfc7541Huff Model.Huffman.
Local Open Scope N_scope.

(* ---------------------------------------------------------------------------------------- *)
(** * 0. small helpers *)

Fixpoint Nseq (s : N) (n : nat) : list N :=
  match n with
  | O => []
  | S n' => s :: Nseq (s + 1) n'
  end.

Lemma In_Nseq : forall n s x, s <= x < s + N.of_nat n -> In x (Nseq s n).
Proof.
  induction n as [|n IH]; intros s x Hx; cbn [Nseq].
  - lia.
  - destruct (N.eq_dec x s) as [->|Hne].
    + left; reflexivity.
    + right. apply IH. lia.
Qed.

Lemma forallb_Nseq (f : N -> bool) (n : nat) :
  forallb f (Nseq 0 n) = true -> forall x, x < N.of_nat n -> f x = true.
Proof.
  intros H x Hx. rewrite forallb_forall in H. apply H. apply In_Nseq. lia.
Qed.

Lemma bits_eqb_eq : forall a b, bits_eqb a b = true <-> a = b.
Proof.
  induction a as [|x a IH]; intros [|y b]; cbn [bits_eqb]; try (split; congruence).
  rewrite andb_true_iff, IH. split.
  - intros [Hxy ->]. apply Bool.eqb_prop in Hxy. subst; reflexivity.
  - intros H; inversion H; subst. split; [apply Bool.eqb_reflx | reflexivity].
Qed.

Lemma bits_eqb_refl a : bits_eqb a a = true.
Proof. apply bits_eqb_eq; reflexivity. Qed.

Lemma all_ones_app a b : all_ones (a ++ b) = all_ones a && all_ones b.
Proof. apply forallb_app. Qed.

Lemma all_ones_repeat : forall l, all_ones l = true -> l = repeat true (length l).
Proof.
  induction l as [|x l IH]; cbn [all_ones forallb length repeat]; intros H.
  - reflexivity.
  - apply andb_true_iff in H as [-> H]. f_equal. apply IH, H.
Qed.

Lemma pow2_nz n : 2 ^ n <> 0.
Proof. apply N.pow_nonzero; lia. Qed.

Lemma pow2_split a b : b <= a -> 2 ^ a = 2 ^ (a - b) * 2 ^ b.
Proof. intros H. rewrite <- N.pow_add_r. f_equal. lia. Qed.

Lemma mod_mod_pow2 x a b : b <= a -> (x mod 2 ^ a) mod 2 ^ b = x mod 2 ^ b.
Proof.
  intros H. apply N.bits_inj. intros i.
  destruct (N.ltb_spec i b) as [Hi|Hi].
  - rewrite !N.mod_pow2_bits_low by lia. reflexivity.
  - rewrite !N.mod_pow2_bits_high by lia. reflexivity.
Qed.

(* [a | b] is [a + b] when b fits in the k low bits of a that are all zero *)
Lemma lor_add_disjoint a b k : a mod 2 ^ k = 0 -> b < 2 ^ k -> N.lor a b = a + b.
Proof.
  intros Ha Hb.
  assert (Hland : N.land a b = 0).
  { apply N.bits_inj. intros i. rewrite N.land_spec, N.bits_0.
    destruct (N.ltb_spec i k) as [Hi|Hi].
    - rewrite <- (N.mod_pow2_bits_low a k i Hi), Ha, N.bits_0. reflexivity.
    - replace b with (b mod 2 ^ k) by (apply N.mod_small; exact Hb).
      rewrite N.mod_pow2_bits_high by exact Hi. apply andb_false_r. }
  rewrite N.add_nocarry_lxor by exact Hland. symmetry. apply N.lxor_lor, Hland.
Qed.

(* ---------------------------------------------------------------------------------------- *)
(** * 1. bit strings of numbers *)

Lemma bitsN_length : forall n v, length (bitsN n v) = n.
Proof. induction n as [|n IH]; intros v; cbn [bitsN length]; [|rewrite IH]; reflexivity. Qed.

Lemma bitsN_ext : forall n v w,
  (forall i, i < N.of_nat n -> N.testbit v i = N.testbit w i) -> bitsN n v = bitsN n w.
Proof.
  induction n as [|n IH]; intros v w H; cbn [bitsN].
  - reflexivity.
  - f_equal.
    + apply H. lia.
    + apply IH. intros i Hi. apply H. lia.
Qed.

Lemma bitsN_app : forall a b v,
  bitsN (a + b) v = bitsN a (v / 2 ^ N.of_nat b) ++ bitsN b v.
Proof.
  induction a as [|a IH]; intros b v.
  - reflexivity.
  - cbn [Nat.add bitsN app]. rewrite IH. f_equal.
    rewrite N.div_pow2_bits. f_equal. lia.
Qed.

Lemma bitsN_mod n v k : N.of_nat n <= k -> bitsN n (v mod 2 ^ k) = bitsN n v.
Proof.
  intros H. apply bitsN_ext. intros i Hi. apply N.mod_pow2_bits_low. lia.
Qed.

Lemma bitsN_skipn : forall n u v, skipn u (bitsN n v) = bitsN (n - u) v.
Proof.
  induction n as [|n IH]; intros u v.
  - destruct u; reflexivity.
  - destruct u as [|u]; [reflexivity|]. cbn [bitsN skipn Nat.sub]. apply IH.
Qed.

Lemma bitsN_all_ones : forall n v,
  (forall i, i < N.of_nat n -> N.testbit v i = true) -> all_ones (bitsN n v) = true.
Proof.
  induction n as [|n IH]; intros v H; cbn [bitsN all_ones forallb].
  - reflexivity.
  - rewrite H by lia. cbn [andb]. apply IH. intros i Hi. apply H. lia.
Qed.

(* splitting at an N position *)
Lemma bitsN_split (a b : N) v :
  bitsN (N.to_nat (a + b)) v = bitsN (N.to_nat a) (v / 2 ^ b) ++ bitsN (N.to_nat b) v.
Proof.
  replace (N.to_nat (a + b)) with (N.to_nat a + N.to_nat b)%nat by lia.
  rewrite bitsN_app. rewrite N2Nat.id. reflexivity.
Qed.

Lemma bytes_ok_cons b l : bytes_ok (b :: l) = true <-> b < 256 /\ bytes_ok l = true.
Proof.
  unfold bytes_ok, byte_ok. cbn [forallb]. rewrite andb_true_iff, N.ltb_lt. reflexivity.
Qed.

Lemma bytes_ok_app a b : bytes_ok (a ++ b) = bytes_ok a && bytes_ok b.
Proof. apply forallb_app. Qed.

Lemma bits_of_bytes_app : forall a b, bits_of_bytes (a ++ b) = bits_of_bytes a ++ bits_of_bytes b.
Proof.
  induction a as [|x a IH]; intros b; cbn [bits_of_bytes app].
  - reflexivity.
  - rewrite IH, app_assoc. reflexivity.
Qed.

(* ---------------------------------------------------------------------------------------- *)
(** * 2. the generated encode table is the RFC table; structure of the RFC code *)

(* breaks when somebody edits ENCODE_TABLE in table.rs *)
Lemma gen_enc_table_is_rfc : enc_table = rfc7541_huffman.
Proof. vm_compute. reflexivity. Qed.

Lemma rfc_code_count : length rfc_code_bits = 257%nat.
Proof. vm_compute. reflexivity. Qed.

(* every code word has 5..30 bits and its integer fits its length *)
Definition rfc_entry_ok (e : N * N) : bool :=
  (5 <=? fst e) && (fst e <=? 30) && (snd e <? 2 ^ fst e).

Lemma rfc_entries_ok : forallb rfc_entry_ok rfc7541_huffman = true.
Proof. vm_compute. reflexivity. Qed.

(* EOS is thirty ones *)
Lemma rfc_eos_is_30_ones : code_bits EOS = repeat true 30.
Proof. vm_compute. reflexivity. Qed.

(* Kraft sum: sum over all 257 symbols of 2^(30 - length) = 2^30, i.e. the code is complete
   (every infinite bit string starts with exactly one code word) *)
Definition kraft_sum (t : list (N * N)) : N :=
  fold_right (fun e a => 2 ^ (30 - fst e) + a) 0 t.

Lemma rfc_kraft_complete : kraft_sum rfc7541_huffman = 2 ^ 30.
Proof. vm_compute. reflexivity. Qed.

(* prefix-freeness: no code word is a prefix of another one *)
Fixpoint is_prefix (a b : list bool) : bool :=
  match a, b with
  | [], _ => true
  | x :: a', y :: b' => Bool.eqb x y && is_prefix a' b'
  | _ :: _, [] => false
  end.

Lemma is_prefix_app : forall a l, is_prefix a (a ++ l) = true.
Proof.
  induction a as [|x a IH]; intros l; cbn [is_prefix app].
  - reflexivity.
  - rewrite Bool.eqb_reflx, IH. reflexivity.
Qed.

Definition prefix_free_sweep (codes : list (list bool)) : bool :=
  forallb (fun s1 =>
    forallb (fun s2 =>
      implb (is_prefix (nth (N.to_nat s1) codes []) (nth (N.to_nat s2) codes [])) (s1 =? s2))
      (Nseq 0 257)) (Nseq 0 257).

Lemma rfc_prefix_free_sweep : prefix_free_sweep rfc_code_bits = true.
Proof. vm_compute. reflexivity. Qed.

Lemma rfc_prefix_free s1 s2 l :
  s1 < 257 -> s2 < 257 -> code_bits s1 ++ l = code_bits s2 -> s1 = s2.
Proof.
  intros H1 H2 Heq.
  pose proof rfc_prefix_free_sweep as S. unfold prefix_free_sweep in S.
  pose proof (forallb_Nseq _ _ S s1 ltac:(lia)) as S1. cbv beta in S1.
  pose proof (forallb_Nseq _ _ S1 s2 ltac:(lia)) as S2. cbv beta in S2.
  fold (code_bits s1) in S2. fold (code_bits s2) in S2.
  rewrite <- Heq, is_prefix_app in S2. cbn [implb] in S2.
  apply N.eqb_eq, S2.
Qed.

(* find_code is the inverse of code_bits *)
Lemma find_code_from_Some : forall codes k path s,
  find_code_from k codes path = Some s ->
  exists i, s = k + N.of_nat i /\ nth_error codes i = Some path.
Proof.
  induction codes as [|c codes IH]; intros k path s H; cbn [find_code_from] in H.
  - discriminate.
  - destruct (bits_eqb c path) eqn:E.
    + inversion H; subst. apply bits_eqb_eq in E. subst.
      exists 0%nat. split; [lia | reflexivity].
    + apply IH in H as [i [-> Hn]]. exists (S i). split; [lia | exact Hn].
Qed.

Lemma find_code_Some path s : find_code path = Some s -> s < 257 /\ code_bits s = path.
Proof.
  intros H. apply find_code_from_Some in H as [i [-> Hn]].
  assert (Hi : (i < 257)%nat).
  { rewrite <- rfc_code_count. apply nth_error_Some. congruence. }
  split; [lia|]. unfold code_bits.
  replace (N.to_nat (0 + N.of_nat i)) with i by lia.
  apply nth_error_nth, Hn.
Qed.

Definition find_code_inverse_sweep : bool :=
  forallb (fun s => match find_code (code_bits s) with Some s' => s' =? s | None => false end)
          (Nseq 0 257).

Lemma find_code_inverse_sweep_ok : find_code_inverse_sweep = true.
Proof. vm_compute. reflexivity. Qed.

Lemma find_code_code_bits s : s < 257 -> find_code (code_bits s) = Some s.
Proof.
  intros H. pose proof (forallb_Nseq _ _ find_code_inverse_sweep_ok s ltac:(lia)) as S.
  cbv beta in S. destruct (find_code (code_bits s)) as [s'|]; [|discriminate].
  apply N.eqb_eq in S. subst; reflexivity.
Qed.

(* a proper prefix of a code word is not a code word *)
Lemma find_code_proper_prefix path rest s :
  s < 257 -> path ++ rest = code_bits s -> rest <> [] -> find_code path = None.
Proof.
  intros Hs Heq Hne. destruct (find_code path) as [s'|] eqn:F; [|reflexivity].
  apply find_code_Some in F as [Hs' Hc]. subst path.
  pose proof (rfc_prefix_free s' s rest Hs' Hs Heq) as ->.
  exfalso. apply Hne.
  apply (f_equal (@length bool)) in Heq. rewrite app_length in Heq.
  destruct rest; [reflexivity | cbn [length] in Heq; lia].
Qed.

Lemma code_bits_length s : s < 257 -> (5 <= length (code_bits s) <= 30)%nat.
Proof.
  intros Hs. unfold code_bits, rfc_code_bits.
  pose proof rfc_entries_ok as S. rewrite forallb_forall in S.
  assert (Hlen : (N.to_nat s < length rfc7541_huffman)%nat).
  { pose proof rfc_code_count as L. unfold rfc_code_bits in L. rewrite map_length in L. lia. }
  change (@nil bool) with (entry_bits (0, 0)). rewrite map_nth.
  specialize (S (nth (N.to_nat s) rfc7541_huffman (0, 0)) (nth_In _ _ Hlen)).
  unfold rfc_entry_ok in S. unfold entry_bits. rewrite bitsN_length.
  destruct (nth (N.to_nat s) rfc7541_huffman (0, 0)) as [n c]. cbn [fst snd] in *.
  lia.
Qed.

Lemma code_bits_nonempty s : s < 257 -> code_bits s <> [].
Proof.
  intros Hs E. pose proof (code_bits_length s Hs) as L. rewrite E in L. cbn [length] in L. lia.
Qed.

(* a string of fewer than 30 ones is not a code word; 30 ones are EOS *)
Definition ones_sweep : bool :=
  forallb (fun k => match find_code (repeat true (N.to_nat k)) with None => true | Some _ => false end)
          (Nseq 0 30).

Lemma ones_sweep_ok : ones_sweep = true.
Proof. vm_compute. reflexivity. Qed.

Lemma find_code_ones k : (k < 30)%nat -> find_code (repeat true k) = None.
Proof.
  intros H. pose proof (forallb_Nseq _ _ ones_sweep_ok (N.of_nat k) ltac:(lia)) as S.
  cbv beta in S. rewrite Nat2N.id in S.
  destruct (find_code (repeat true k)); [discriminate | reflexivity].
Qed.

Lemma find_code_30_ones : find_code (repeat true 30) = Some EOS.
Proof. vm_compute. reflexivity. Qed.

(* ---------------------------------------------------------------------------------------- *)
(** * 3. the reference decoder decides the RFC grammar *)

Lemma ref_walk_sound : forall bs path syms,
  ref_walk path bs = Some syms ->
  Forall (fun s => s < 256) syms /\
  exists pad, path ++ bs = concat (map code_bits syms) ++ pad /\
              (length pad < 8)%nat /\ all_ones pad = true.
Proof.
  induction bs as [|b bs IH]; intros path syms H; cbn [ref_walk] in H.
  - destruct ((length path <? 8)%nat && all_ones path) eqn:E; [|discriminate].
    inversion H; subst. apply andb_true_iff in E as [E1 E2]. apply Nat.ltb_lt in E1.
    split; [constructor|]. exists path. cbn [map concat app]. rewrite app_nil_r. auto.
  - destruct (find_code (path ++ [b])) as [s|] eqn:F.
    + destruct (s =? EOS) eqn:E; [discriminate|].
      destruct (ref_walk [] bs) as [rest|] eqn:R; cbn [option_map] in H; [|discriminate].
      inversion H; subst. apply find_code_Some in F as [Hs Hc].
      apply N.eqb_neq in E. unfold EOS in E.
      destruct (IH [] rest R) as [Hall [pad [Heq [Hlen Hones]]]].
      split; [constructor; [lia | exact Hall]|].
      exists pad. split; [|auto]. cbn [map concat]. cbn [app] in Heq.
      rewrite Hc, <- app_assoc, <- Heq, <- app_assoc. reflexivity.
    + destruct (IH _ _ H) as [Hall [pad [Heq [Hlen Hones]]]].
      split; [exact Hall|]. exists pad. split; [|auto].
      rewrite <- Heq, <- app_assoc. reflexivity.
Qed.

(* walking along (the rest of) a code word *)
Lemma ref_walk_code : forall rest path s tl,
  s < 257 -> path ++ rest = code_bits s -> rest <> [] ->
  ref_walk path (rest ++ tl) =
    if s =? EOS then None else option_map (cons s) (ref_walk [] tl).
Proof.
  induction rest as [|b rest IH]; intros path s tl Hs Heq Hne; [congruence|].
  cbn [app ref_walk].
  destruct rest as [|b' rest].
  - rewrite Heq, (find_code_code_bits s Hs). reflexivity.
  - rewrite (find_code_proper_prefix (path ++ [b]) (b' :: rest) s Hs).
    + apply IH; [exact Hs | | discriminate]. rewrite <- app_assoc. exact Heq.
    + rewrite <- app_assoc. exact Heq.
    + discriminate.
Qed.

Lemma ref_walk_codes : forall pre tl,
  Forall (fun s => s < 256) pre ->
  ref_walk [] (concat (map code_bits pre) ++ tl) = option_map (app pre) (ref_walk [] tl).
Proof.
  induction pre as [|s pre IH]; intros tl Hall; cbn [map concat app].
  - destruct (ref_walk [] tl); reflexivity.
  - inversion Hall as [|? ? Hs Hall']; subst.
    rewrite <- app_assoc.
    rewrite (ref_walk_code (code_bits s) [] s); [| lia | reflexivity | apply code_bits_nonempty; lia].
    replace (s =? EOS) with false by (symmetry; apply N.eqb_neq; unfold EOS; lia).
    rewrite IH by exact Hall'. destruct (ref_walk [] tl); reflexivity.
Qed.

(* the tail is an incomplete code (no code word is a prefix of it): it is padding *)
Lemma ref_walk_incomplete : forall pad path,
  (forall s l, s < 257 -> path ++ pad <> code_bits s ++ l) ->
  ref_walk path pad =
    if (length (path ++ pad) <? 8)%nat && all_ones (path ++ pad) then Some [] else None.
Proof.
  induction pad as [|b pad IH]; intros path Hno; cbn [ref_walk].
  - rewrite app_nil_r. reflexivity.
  - destruct (find_code (path ++ [b])) as [s|] eqn:F.
    + apply find_code_Some in F as [Hs Hc]. exfalso. apply (Hno s pad Hs).
      rewrite Hc, <- app_assoc. reflexivity.
    + rewrite IH.
      * rewrite <- app_assoc. reflexivity.
      * intros s l Hs. rewrite <- app_assoc. apply Hno, Hs.
Qed.

(* a run of ones *)
Lemma ref_walk_ones : forall pad path,
  all_ones (path ++ pad) = true -> (length path < 30)%nat ->
  ref_walk path pad = if (length (path ++ pad) <? 8)%nat then Some [] else None.
Proof.
  induction pad as [|b pad IH]; intros path Hones Hlen; cbn [ref_walk].
  - rewrite app_nil_r in *. rewrite Hones, andb_true_r. reflexivity.
  - assert (Hones' : all_ones ((path ++ [b]) ++ pad) = true) by (rewrite <- app_assoc; exact Hones).
    assert (Hp : path ++ [b] = repeat true (S (length path))).
    { rewrite all_ones_app in Hones'. apply andb_true_iff in Hones' as [Hp _].
      apply all_ones_repeat in Hp. rewrite Hp at 1. f_equal.
      rewrite app_length. cbn [length]. lia. }
    destruct (Nat.eq_dec (S (length path)) 30) as [E|E].
    + rewrite Hp, E, find_code_30_ones. cbn [N.eqb EOS].
      replace (length (path ++ b :: pad) <? 8)%nat with false; [reflexivity|].
      symmetry. apply Nat.ltb_ge. rewrite app_length. cbn [length]. lia.
    + rewrite Hp, find_code_ones by lia. rewrite <- Hp.
      rewrite IH; [| exact Hones' | rewrite app_length; cbn [length]; lia].
      rewrite <- app_assoc. reflexivity.
Qed.

Lemma ref_walk_complete : forall syms pad,
  Forall (fun s => s < 256) syms -> (length pad < 8)%nat -> all_ones pad = true ->
  ref_walk [] (concat (map code_bits syms) ++ pad) = Some syms.
Proof.
  intros syms pad Hall Hlen Hones.
  rewrite ref_walk_codes by exact Hall.
  rewrite ref_walk_ones; [| exact Hones | cbn [length]; lia].
  cbn [app]. apply Nat.ltb_lt in Hlen. rewrite Hlen. cbn [option_map].
  rewrite app_nil_r. reflexivity.
Qed.

Theorem ref_huff_decode_sound bs syms : ref_huff_decode bs = Some syms -> huff_valid bs syms.
Proof.
  intros H. apply ref_walk_sound in H as [Hall [pad [Heq Hpad]]].
  split; [exact Hall|]. exists pad. split; [exact Heq | exact Hpad].
Qed.

Theorem ref_huff_decode_complete bs syms : huff_valid bs syms -> ref_huff_decode bs = Some syms.
Proof.
  intros [Hall [pad [-> [Hlen Hones]]]]. apply ref_walk_complete; assumption.
Qed.

Theorem ref_huff_decode_iff bs syms : ref_huff_decode bs = Some syms <-> huff_valid bs syms.
Proof. split; [apply ref_huff_decode_sound | apply ref_huff_decode_complete]. Qed.

(* the grammar is unambiguous *)
Corollary huff_valid_unique bs s1 s2 : huff_valid bs s1 -> huff_valid bs s2 -> s1 = s2.
Proof.
  intros H1 H2. apply ref_huff_decode_complete in H1, H2. congruence.
Qed.
