(* Proofs about the Huffman coding of HPACK (part of property C11).

   1. the generated encode table IS the RFC 7541 Appendix B table; structural facts of the code;
   2. the reference decoder of Ref/Rfc7541Huff.v decides the RFC grammar [huff_valid];
   3. [huff_decode_exact]: the model of h2's table-driven decoder (Model/Huffman.v, over the
      regenerated DECODE_TABLE) computes exactly the reference decoder, for every byte string;
   4. [huff_encode_spec], [huff_roundtrip]: the model of h2's encoder emits the code words followed
      by at most 7 one-bits, and decoding gives the input back.

   Finite sweeps (by [vm_compute]) are used only for genuinely finite domains: the 257 code words,
   the 15 * 256 cells of DECODE_TABLE, and the 15 * 255 (table, pending bits) states of the final
   padding loop.  Everything else is by induction on the input. *)
From H2V Require Import Base.Tac Base.Bytes.
From H2V Require Import Gen.HuffTables Ref.Rfc7541HuffTable Ref.Rfc7541Huff Model.Huffman.
Local Open Scope N_scope.

(* ---------------------------------------------------------------------------------------- *)
(** * 0. small helpers *)

Fixpoint Nseq (s : N) (n : nat) : list N :=
  match n with
  | O => []
  | S n' => s :: Nseq (s + 1) n'
  end.

Lemma In_Nseq : forall n s x, s <= x < s + N.of_nat n -> In x (Nseq s n).
Proof.
  induction n as [|n IH]; intros s x Hx; cbn [Nseq].
  - lia.
  - destruct (N.eq_dec x s) as [->|Hne].
    + left; reflexivity.
    + right. apply IH. lia.
Qed.

Lemma forallb_Nseq (f : N -> bool) (n : nat) :
  forallb f (Nseq 0 n) = true -> forall x, x < N.of_nat n -> f x = true.
Proof.
  intros H x Hx. rewrite forallb_forall in H. apply H. apply In_Nseq. lia.
Qed.

Lemma forallb_Nseq2 (f : N -> N -> bool) (n m : nat) :
  forallb (fun a => forallb (f a) (Nseq 0 m)) (Nseq 0 n) = true ->
  forall a b, a < N.of_nat n -> b < N.of_nat m -> f a b = true.
Proof.
  intros H a b Ha Hb.
  pose proof (forallb_Nseq _ _ H a Ha) as H1. cbv beta in H1.
  exact (forallb_Nseq _ _ H1 b Hb).
Qed.

Lemma bits_eqb_eq : forall a b, bits_eqb a b = true <-> a = b.
Proof.
  induction a as [|x a IH]; intros [|y b]; cbn [bits_eqb]; try (split; congruence).
  rewrite andb_true_iff, IH. split.
  - intros [Hxy ->]. apply Bool.eqb_prop in Hxy. subst; reflexivity.
  - intros H; inversion H; subst. split; [apply Bool.eqb_reflx | reflexivity].
Qed.

Lemma bits_eqb_refl a : bits_eqb a a = true.
Proof. apply bits_eqb_eq; reflexivity. Qed.

Lemma all_ones_app a b : all_ones (a ++ b) = all_ones a && all_ones b.
Proof. apply forallb_app. Qed.

Lemma all_ones_repeat : forall l, all_ones l = true -> l = repeat true (length l).
Proof.
  induction l as [|x l IH]; cbn [all_ones forallb length repeat]; intros H.
  - reflexivity.
  - apply andb_true_iff in H as [-> H]. f_equal. apply IH, H.
Qed.

Lemma pow2_nz n : 2 ^ n <> 0.
Proof. apply N.pow_nonzero; lia. Qed.

Lemma pow2_split a b : b <= a -> 2 ^ a = 2 ^ (a - b) * 2 ^ b.
Proof. intros H. rewrite <- N.pow_add_r. f_equal. lia. Qed.

Lemma mod_mod_pow2 x a b : b <= a -> (x mod 2 ^ a) mod 2 ^ b = x mod 2 ^ b.
Proof.
  intros H. apply N.bits_inj. intros i.
  destruct (N.ltb_spec i b) as [Hi|Hi].
  - rewrite !N.mod_pow2_bits_low by lia. reflexivity.
  - rewrite !N.mod_pow2_bits_high by lia. reflexivity.
Qed.

(* [a | b] is [a + b] when b fits in the k low bits of a that are all zero *)
Lemma lor_add_disjoint a b k : a mod 2 ^ k = 0 -> b < 2 ^ k -> N.lor a b = a + b.
Proof.
  intros Ha Hb.
  assert (Hland : N.land a b = 0).
  { apply N.bits_inj. intros i. rewrite N.land_spec, N.bits_0.
    destruct (N.ltb_spec i k) as [Hi|Hi].
    - rewrite <- (N.mod_pow2_bits_low a k i Hi), Ha, N.bits_0. reflexivity.
    - replace b with (b mod 2 ^ k) by (apply N.mod_small; exact Hb).
      rewrite N.mod_pow2_bits_high by exact Hi. apply andb_false_r. }
  rewrite N.add_nocarry_lxor by exact Hland. symmetry. apply N.lxor_lor, Hland.
Qed.

(* ---------------------------------------------------------------------------------------- *)
(** * 1. bit strings of numbers *)

Lemma bitsN_length : forall n v, length (bitsN n v) = n.
Proof. induction n as [|n IH]; intros v; cbn [bitsN length]; [|rewrite IH]; reflexivity. Qed.

Lemma bitsN_ext : forall n v w,
  (forall i, i < N.of_nat n -> N.testbit v i = N.testbit w i) -> bitsN n v = bitsN n w.
Proof.
  induction n as [|n IH]; intros v w H; cbn [bitsN].
  - reflexivity.
  - f_equal.
    + apply H. lia.
    + apply IH. intros i Hi. apply H. lia.
Qed.

Lemma bitsN_app : forall a b v,
  bitsN (a + b) v = bitsN a (v / 2 ^ N.of_nat b) ++ bitsN b v.
Proof.
  induction a as [|a IH]; intros b v.
  - reflexivity.
  - cbn [Nat.add bitsN app]. rewrite IH. f_equal.
    rewrite N.div_pow2_bits. f_equal. lia.
Qed.

Lemma bitsN_mod n v k : N.of_nat n <= k -> bitsN n (v mod 2 ^ k) = bitsN n v.
Proof.
  intros H. apply bitsN_ext. intros i Hi. apply N.mod_pow2_bits_low. lia.
Qed.

Lemma bitsN_skipn : forall n u v, skipn u (bitsN n v) = bitsN (n - u) v.
Proof.
  induction n as [|n IH]; intros u v.
  - destruct u; reflexivity.
  - destruct u as [|u]; [reflexivity|]. cbn [bitsN skipn Nat.sub]. apply IH.
Qed.

Lemma bitsN_all_ones : forall n v,
  (forall i, i < N.of_nat n -> N.testbit v i = true) -> all_ones (bitsN n v) = true.
Proof.
  induction n as [|n IH]; intros v H; cbn [bitsN all_ones forallb].
  - reflexivity.
  - rewrite H by lia. cbn [andb]. apply IH. intros i Hi. apply H. lia.
Qed.

(* splitting at an N position *)
Lemma bitsN_split (a b : N) v :
  bitsN (N.to_nat (a + b)) v = bitsN (N.to_nat a) (v / 2 ^ b) ++ bitsN (N.to_nat b) v.
Proof.
  replace (N.to_nat (a + b)) with (N.to_nat a + N.to_nat b)%nat by lia.
  rewrite bitsN_app. rewrite N2Nat.id. reflexivity.
Qed.

Lemma bytes_ok_cons b l : bytes_ok (b :: l) = true <-> b < 256 /\ bytes_ok l = true.
Proof.
  unfold bytes_ok, byte_ok. cbn [forallb]. rewrite andb_true_iff, N.ltb_lt. reflexivity.
Qed.

Lemma bytes_ok_app a b : bytes_ok (a ++ b) = bytes_ok a && bytes_ok b.
Proof. apply forallb_app. Qed.

Lemma bits_of_bytes_app : forall a b, bits_of_bytes (a ++ b) = bits_of_bytes a ++ bits_of_bytes b.
Proof.
  induction a as [|x a IH]; intros b; cbn [bits_of_bytes app].
  - reflexivity.
  - rewrite IH, app_assoc. reflexivity.
Qed.

(* ---------------------------------------------------------------------------------------- *)
(** * 2. the generated encode table is the RFC table; structure of the RFC code *)

(* breaks when somebody edits ENCODE_TABLE in table.rs *)
Lemma gen_enc_table_is_rfc : enc_table = rfc7541_huffman.
Proof. vm_compute. reflexivity. Qed.

Lemma rfc_code_count : length rfc_code_bits = 257%nat.
Proof. vm_compute. reflexivity. Qed.

(* every code word has 5..30 bits and its integer fits its length *)
Definition rfc_entry_ok (e : N * N) : bool :=
  (5 <=? fst e) && (fst e <=? 30) && (snd e <? 2 ^ fst e).

Lemma rfc_entries_ok : forallb rfc_entry_ok rfc7541_huffman = true.
Proof. vm_compute. reflexivity. Qed.

(* EOS is thirty ones *)
Lemma rfc_eos_is_30_ones : code_bits EOS = repeat true 30.
Proof. vm_compute. reflexivity. Qed.

(* Kraft sum: sum over all 257 symbols of 2^(30 - length) = 2^30, i.e. the code is complete
   (every infinite bit string starts with exactly one code word) *)
Definition kraft_sum (t : list (N * N)) : N :=
  fold_right (fun e a => 2 ^ (30 - fst e) + a) 0 t.

Lemma rfc_kraft_complete : kraft_sum rfc7541_huffman = 2 ^ 30.
Proof. vm_compute. reflexivity. Qed.

(* prefix-freeness: no code word is a prefix of another one *)
Fixpoint is_prefix (a b : list bool) : bool :=
  match a, b with
  | [], _ => true
  | x :: a', y :: b' => Bool.eqb x y && is_prefix a' b'
  | _ :: _, [] => false
  end.

Lemma is_prefix_app : forall a l, is_prefix a (a ++ l) = true.
Proof.
  induction a as [|x a IH]; intros l; cbn [is_prefix app].
  - reflexivity.
  - rewrite Bool.eqb_reflx, IH. reflexivity.
Qed.

Definition prefix_ok (s1 s2 : N) : bool :=
  implb (is_prefix (code_bits s1) (code_bits s2)) (s1 =? s2).

Lemma rfc_prefix_free_sweep :
  forallb (fun s1 => forallb (prefix_ok s1) (Nseq 0 257)) (Nseq 0 257) = true.
Proof. vm_compute. reflexivity. Qed.

Lemma rfc_prefix_free s1 s2 l :
  s1 < 257 -> s2 < 257 -> code_bits s1 ++ l = code_bits s2 -> s1 = s2.
Proof.
  intros H1 H2 Heq.
  pose proof (forallb_Nseq2 _ _ _ rfc_prefix_free_sweep s1 s2 ltac:(lia) ltac:(lia)) as S.
  unfold prefix_ok in S. rewrite <- Heq, is_prefix_app in S. cbn [implb] in S.
  apply N.eqb_eq, S.
Qed.

(* find_code is the inverse of code_bits *)
Lemma find_code_from_Some : forall codes k path s,
  find_code_from k codes path = Some s ->
  exists i, s = k + N.of_nat i /\ nth_error codes i = Some path.
Proof.
  induction codes as [|c codes IH]; intros k path s H; cbn [find_code_from] in H.
  - discriminate.
  - destruct (bits_eqb c path) eqn:E.
    + inversion H; subst. apply bits_eqb_eq in E. subst.
      exists 0%nat. split; [lia | reflexivity].
    + apply IH in H as [i [-> Hn]]. exists (S i). split; [lia | exact Hn].
Qed.

Lemma find_code_Some path s : find_code path = Some s -> s < 257 /\ code_bits s = path.
Proof.
  intros H. apply find_code_from_Some in H as [i [-> Hn]].
  assert (Hi : (i < 257)%nat).
  { rewrite <- rfc_code_count. apply nth_error_Some. congruence. }
  split; [lia|]. unfold code_bits.
  replace (N.to_nat (0 + N.of_nat i)) with i by lia.
  apply nth_error_nth, Hn.
Qed.

Definition find_code_inverse_sweep : bool :=
  forallb (fun s => match find_code (code_bits s) with Some s' => s' =? s | None => false end)
          (Nseq 0 257).

Lemma find_code_inverse_sweep_ok : find_code_inverse_sweep = true.
Proof. vm_compute. reflexivity. Qed.

Lemma find_code_code_bits s : s < 257 -> find_code (code_bits s) = Some s.
Proof.
  intros H. pose proof (forallb_Nseq _ _ find_code_inverse_sweep_ok s ltac:(lia)) as S.
  cbv beta in S. destruct (find_code (code_bits s)) as [s'|]; [|discriminate].
  apply N.eqb_eq in S. subst; reflexivity.
Qed.

(* a proper prefix of a code word is not a code word *)
Lemma find_code_proper_prefix path rest s :
  s < 257 -> path ++ rest = code_bits s -> rest <> [] -> find_code path = None.
Proof.
  intros Hs Heq Hne. destruct (find_code path) as [s'|] eqn:F; [|reflexivity].
  apply find_code_Some in F as [Hs' Hc]. subst path.
  pose proof (rfc_prefix_free s' s rest Hs' Hs Heq) as ->.
  exfalso. apply Hne.
  apply (f_equal (@length bool)) in Heq. rewrite app_length in Heq.
  destruct rest; [reflexivity | cbn [length] in Heq; lia].
Qed.

Lemma code_bits_length s : s < 257 -> (5 <= length (code_bits s) <= 30)%nat.
Proof.
  intros Hs. unfold code_bits, rfc_code_bits.
  pose proof rfc_entries_ok as S. rewrite forallb_forall in S.
  assert (Hlen : (N.to_nat s < length rfc7541_huffman)%nat).
  { pose proof rfc_code_count as L. unfold rfc_code_bits in L. rewrite map_length in L. lia. }
  change (@nil bool) with (entry_bits (0, 0)). rewrite map_nth.
  specialize (S (nth (N.to_nat s) rfc7541_huffman (0, 0)) (nth_In _ _ Hlen)).
  unfold rfc_entry_ok in S. unfold entry_bits. rewrite bitsN_length.
  destruct (nth (N.to_nat s) rfc7541_huffman (0, 0)) as [n c]. cbn [fst snd] in *.
  lia.
Qed.

Lemma code_bits_nonempty s : s < 257 -> code_bits s <> [].
Proof.
  intros Hs E. pose proof (code_bits_length s Hs) as L. rewrite E in L. cbn [length] in L. lia.
Qed.

(* a string of fewer than 30 ones is not a code word; 30 ones are EOS *)
Definition ones_sweep : bool :=
  forallb (fun k => match find_code (repeat true (N.to_nat k)) with None => true | Some _ => false end)
          (Nseq 0 30).

Lemma ones_sweep_ok : ones_sweep = true.
Proof. vm_compute. reflexivity. Qed.

Lemma find_code_ones k : (k < 30)%nat -> find_code (repeat true k) = None.
Proof.
  intros H. pose proof (forallb_Nseq _ _ ones_sweep_ok (N.of_nat k) ltac:(lia)) as S.
  cbv beta in S. rewrite Nat2N.id in S.
  destruct (find_code (repeat true k)); [discriminate | reflexivity].
Qed.

Lemma find_code_30_ones : find_code (repeat true 30) = Some EOS.
Proof. vm_compute. reflexivity. Qed.

(* ---------------------------------------------------------------------------------------- *)
(** * 3. the reference decoder decides the RFC grammar *)

Lemma ref_walk_sound : forall bs path syms,
  ref_walk path bs = Some syms ->
  Forall (fun s => s < 256) syms /\
  exists pad, path ++ bs = concat (map code_bits syms) ++ pad /\
              (length pad < 8)%nat /\ all_ones pad = true.
Proof.
  induction bs as [|b bs IH]; intros path syms H; cbn [ref_walk] in H.
  - destruct ((length path <? 8)%nat && all_ones path) eqn:E; [|discriminate].
    inversion H; subst. apply andb_true_iff in E as [E1 E2]. apply Nat.ltb_lt in E1.
    split; [constructor|]. exists path. cbn [map concat app]. rewrite app_nil_r. auto.
  - destruct (find_code (path ++ [b])) as [s|] eqn:F.
    + destruct (s =? EOS) eqn:E; [discriminate|].
      destruct (ref_walk [] bs) as [rest|] eqn:R; cbn [option_map] in H; [|discriminate].
      inversion H; subst. apply find_code_Some in F as [Hs Hc].
      apply N.eqb_neq in E. unfold EOS in E.
      destruct (IH [] rest R) as [Hall [pad [Heq [Hlen Hones]]]].
      split; [constructor; [lia | exact Hall]|].
      exists pad. split; [|auto]. cbn [map concat]. cbn [app] in Heq.
      rewrite Hc, <- app_assoc, <- Heq, <- app_assoc. reflexivity.
    + destruct (IH _ _ H) as [Hall [pad [Heq [Hlen Hones]]]].
      split; [exact Hall|]. exists pad. split; [|auto].
      rewrite <- Heq, <- app_assoc. reflexivity.
Qed.

(* walking along (the rest of) a code word *)
Lemma ref_walk_code : forall rest path s tl,
  s < 257 -> path ++ rest = code_bits s -> rest <> [] ->
  ref_walk path (rest ++ tl) =
    if s =? EOS then None else option_map (cons s) (ref_walk [] tl).
Proof.
  induction rest as [|b rest IH]; intros path s tl Hs Heq Hne; [congruence|].
  cbn [app ref_walk].
  destruct rest as [|b' rest].
  - rewrite Heq, (find_code_code_bits s Hs). reflexivity.
  - rewrite (find_code_proper_prefix (path ++ [b]) (b' :: rest) s Hs).
    + apply IH; [exact Hs | | discriminate]. rewrite <- app_assoc. exact Heq.
    + rewrite <- app_assoc. exact Heq.
    + discriminate.
Qed.

Lemma ref_walk_codes : forall pre tl,
  Forall (fun s => s < 256) pre ->
  ref_walk [] (concat (map code_bits pre) ++ tl) = option_map (app pre) (ref_walk [] tl).
Proof.
  induction pre as [|s pre IH]; intros tl Hall; cbn [map concat app].
  - destruct (ref_walk [] tl); reflexivity.
  - inversion Hall as [|? ? Hs Hall']; subst.
    rewrite <- app_assoc.
    rewrite (ref_walk_code (code_bits s) [] s); [| lia | reflexivity | apply code_bits_nonempty; lia].
    replace (s =? EOS) with false by (symmetry; apply N.eqb_neq; unfold EOS; lia).
    rewrite IH by exact Hall'. destruct (ref_walk [] tl); reflexivity.
Qed.

(* the tail is an incomplete code (no code word is a prefix of it): it is padding *)
Lemma ref_walk_incomplete : forall pad path,
  (forall s l, s < 257 -> path ++ pad <> code_bits s ++ l) ->
  ref_walk path pad =
    if (length (path ++ pad) <? 8)%nat && all_ones (path ++ pad) then Some [] else None.
Proof.
  induction pad as [|b pad IH]; intros path Hno; cbn [ref_walk].
  - rewrite app_nil_r. reflexivity.
  - destruct (find_code (path ++ [b])) as [s|] eqn:F.
    + apply find_code_Some in F as [Hs Hc]. exfalso. apply (Hno s pad Hs).
      rewrite Hc, <- app_assoc. reflexivity.
    + rewrite IH.
      * rewrite <- app_assoc. reflexivity.
      * intros s l Hs. rewrite <- app_assoc. apply Hno, Hs.
Qed.

(* a run of ones *)
Lemma ref_walk_ones : forall pad path,
  all_ones (path ++ pad) = true -> (length path < 30)%nat ->
  ref_walk path pad = if (length (path ++ pad) <? 8)%nat then Some [] else None.
Proof.
  induction pad as [|b pad IH]; intros path Hones Hlen; cbn [ref_walk].
  - rewrite app_nil_r in *. rewrite Hones, andb_true_r. reflexivity.
  - assert (Hones' : all_ones ((path ++ [b]) ++ pad) = true) by (rewrite <- app_assoc; exact Hones).
    assert (Hp : path ++ [b] = repeat true (S (length path))).
    { rewrite all_ones_app in Hones'. apply andb_true_iff in Hones' as [Hp _].
      apply all_ones_repeat in Hp. rewrite Hp at 1. f_equal.
      rewrite app_length. cbn [length]. lia. }
    destruct (Nat.eq_dec (S (length path)) 30) as [E|E].
    + rewrite Hp, E, find_code_30_ones. cbn [N.eqb EOS].
      replace (length (path ++ b :: pad) <? 8)%nat with false; [reflexivity|].
      symmetry. apply Nat.ltb_ge. rewrite app_length. cbn [length]. lia.
    + rewrite Hp, find_code_ones by lia. rewrite <- Hp.
      rewrite IH; [| exact Hones' | rewrite app_length; cbn [length]; lia].
      rewrite <- app_assoc. reflexivity.
Qed.

Lemma ref_walk_complete : forall syms pad,
  Forall (fun s => s < 256) syms -> (length pad < 8)%nat -> all_ones pad = true ->
  ref_walk [] (concat (map code_bits syms) ++ pad) = Some syms.
Proof.
  intros syms pad Hall Hlen Hones.
  rewrite ref_walk_codes by exact Hall.
  rewrite ref_walk_ones; [| exact Hones | cbn [length]; lia].
  cbn [app]. apply Nat.ltb_lt in Hlen. rewrite Hlen. cbn [option_map].
  rewrite app_nil_r. reflexivity.
Qed.

Theorem ref_huff_decode_sound bs syms : ref_huff_decode bs = Some syms -> huff_valid bs syms.
Proof.
  intros H. apply ref_walk_sound in H as [Hall [pad [Heq Hpad]]].
  split; [exact Hall|]. exists pad. split; [exact Heq | exact Hpad].
Qed.

Theorem ref_huff_decode_complete bs syms : huff_valid bs syms -> ref_huff_decode bs = Some syms.
Proof.
  intros [Hall [pad [-> [Hlen Hones]]]]. apply ref_walk_complete; assumption.
Qed.

Theorem ref_huff_decode_iff bs syms : ref_huff_decode bs = Some syms <-> huff_valid bs syms.
Proof. split; [apply ref_huff_decode_sound | apply ref_huff_decode_complete]. Qed.

(* the grammar is unambiguous *)
Corollary huff_valid_unique bs s1 s2 : huff_valid bs s1 -> huff_valid bs s2 -> s1 = s2.
Proof.
  intros H1 H2. apply ref_huff_decode_complete in H1, H2. congruence.
Qed.

(* ---------------------------------------------------------------------------------------- *)
(** * 4. DECODE_TABLE: every cell is the correct 8-bit look-ahead *)

(* result of walking a finite word from a path of the code tree: the first code word completed
   (with the unread rest of the word), or the longer path *)
Inductive wstep : Type :=
| WEmit (s : N) (rest : list bool)
| WCont (path : list bool).

Fixpoint step_word (path w : list bool) : wstep :=
  match w with
  | [] => WCont path
  | b :: w' =>
      let path' := path ++ [b] in
      match find_code path' with
      | Some s => WEmit s w'
      | None => step_word path' w'
      end
  end.

Lemma ref_walk_step_word : forall w path tl,
  ref_walk path (w ++ tl) =
    match step_word path w with
    | WEmit s w' => if s =? EOS then None else option_map (cons s) (ref_walk [] (w' ++ tl))
    | WCont path' => ref_walk path' tl
    end.
Proof.
  induction w as [|b w IH]; intros path tl; cbn [app step_word].
  - reflexivity.
  - cbn [ref_walk]. destruct (find_code (path ++ [b])) as [s|].
    + reflexivity.
    + apply IH.
Qed.

(* The bit prefix (path in the code tree) of each of the 15 sub-tables, computed from
   DECODE_TABLE itself: table 0 is the root; a table entered by a BRANCH cell (t, i) has the
   path of t followed by the 8 bits of i. *)
Fixpoint find_parent_from (idx : N) (l : list N) (t' : N) : option (N * N) :=
  match l with
  | [] => None
  | e :: l' =>
      if entry_is_branch e && (entry_table e =? t')
      then Some (idx / huff_TABLE_WIDTH, idx mod huff_TABLE_WIDTH)
      else find_parent_from (idx + 1) l' t'
  end.

Fixpoint tpath_fuel (fuel : nat) (t : N) : list bool :=
  match fuel with
  | O => []
  | S fuel' =>
      if t =? 0 then []
      else match find_parent_from 0 dec_table t with
           | Some (p, i) => tpath_fuel fuel' p ++ bitsN 8 i
           | None => []
           end
  end.

Definition table_paths : list (list bool) := map (tpath_fuel 4) (Nseq 0 15).
Definition tpath (t : N) : list bool := nth (N.to_nat t) table_paths [].

Lemma tpath_0 : tpath 0 = [].
Proof. vm_compute. reflexivity. Qed.

Definition wstep_is_emit (r : wstep) (s : N) (rest : list bool) : bool :=
  match r with
  | WEmit s' rest' => (s' =? s) && bits_eqb rest' rest
  | WCont _ => false
  end.

Definition wstep_is_cont (r : wstep) (path : list bool) : bool :=
  match r with
  | WEmit _ _ => false
  | WCont path' => bits_eqb path' path
  end.

Definition wstep_is_eos (r : wstep) : bool :=
  match r with
  | WEmit s _ => s =? EOS
  | WCont _ => false
  end.

(* cell [i] of table [t] is what walking the 8 bits of [i] from the tree node of [t] gives *)
Definition cell_ok (t i : N) : bool :=
  match dec_entry t i with
  | None => false
  | Some e =>
      let w := bitsN 8 i in
      let r := step_word (tpath t) w in
      if entry_is_branch e then
        if entry_table e =? 0 then wstep_is_eos r
        else (entry_table e <? 15) && wstep_is_cont r (tpath (entry_table e))
      else
        (1 <=? entry_used e) && (entry_used e <=? 8) && (entry_sym e <? 256) &&
        wstep_is_emit r (entry_sym e) (skipn (N.to_nat (entry_used e)) w)
  end.

(* THE finite sweep over all 15 * 256 cells (breaks when DECODE_TABLE is edited wrongly) *)
Lemma dec_table_cells_sweep :
  forallb (fun t => forallb (cell_ok t) (Nseq 0 256)) (Nseq 0 15) = true.
Proof. vm_compute. reflexivity. Qed.

Lemma dec_table_length : length dec_table = 3840%nat.
Proof. vm_compute. reflexivity. Qed.

(* look-ahead lemma: one table lookup = walking 8 bits in the reference decoder *)
Lemma lookahead t i tl :
  t < 15 -> i < 256 ->
  exists e, dec_entry t i = Some e /\
    if entry_is_branch e then
      if entry_table e =? 0 then ref_walk (tpath t) (bitsN 8 i ++ tl) = None
      else entry_table e < 15 /\
           ref_walk (tpath t) (bitsN 8 i ++ tl) = ref_walk (tpath (entry_table e)) tl
    else
      1 <= entry_used e <= 8 /\ entry_sym e < 256 /\
      ref_walk (tpath t) (bitsN 8 i ++ tl) =
        option_map (cons (entry_sym e))
                   (ref_walk [] (skipn (N.to_nat (entry_used e)) (bitsN 8 i) ++ tl)).
Proof.
  intros Ht Hi.
  pose proof (forallb_Nseq2 _ _ _ dec_table_cells_sweep t i ltac:(lia) ltac:(lia)) as C.
  unfold cell_ok in C. destruct (dec_entry t i) as [e|]; [|discriminate].
  exists e. split; [reflexivity|]. cbv zeta in C.
  rewrite ref_walk_step_word.
  destruct (entry_is_branch e).
  - destruct (entry_table e =? 0).
    + destruct (step_word (tpath t) (bitsN 8 i)) as [s w'|p]; cbn [wstep_is_eos] in C; [|discriminate].
      rewrite C. reflexivity.
    + apply andb_true_iff in C as [C1 C2]. apply N.ltb_lt in C1. split; [exact C1|].
      destruct (step_word (tpath t) (bitsN 8 i)) as [s w'|p]; cbn [wstep_is_cont] in C2; [discriminate|].
      apply bits_eqb_eq in C2. subst p. reflexivity.
  - apply andb_true_iff in C as [C Cemit]. apply andb_true_iff in C as [C Csym].
    apply andb_true_iff in C as [Cu1 Cu8].
    apply N.leb_le in Cu1. apply N.leb_le in Cu8. apply N.ltb_lt in Csym.
    split; [lia|]. split; [exact Csym|].
    destruct (step_word (tpath t) (bitsN 8 i)) as [s w'|p]; cbn [wstep_is_emit] in Cemit; [|discriminate].
    apply andb_true_iff in Cemit as [C3 C4]. apply N.eqb_eq in C3. apply bits_eqb_eq in C4. subst s w'.
    replace (entry_sym e =? EOS) with false; [reflexivity|].
    symmetry. apply N.eqb_neq. unfold EOS. lia.
Qed.

(* ---------------------------------------------------------------------------------------- *)
(** * 5. the inner loop (one input byte) *)

Lemma bitsN_lookup bits acc :
  8 <= bits ->
  bitsN (N.to_nat bits) acc =
    bitsN 8 ((acc / 2 ^ (bits - 8)) mod 256) ++ bitsN (N.to_nat (bits - 8)) acc.
Proof.
  intros H. replace bits with (8 + (bits - 8)) at 1 by lia.
  rewrite bitsN_split. f_equal.
  change 256 with (2 ^ 8). change (N.to_nat 8) with 8%nat.
  rewrite bitsN_mod by (cbn; lia). reflexivity.
Qed.

Lemma option_map_app_nil (o : option (list N)) : option_map (app []) o = o.
Proof. destruct o; reflexivity. Qed.

Lemma dec_inner_correct : forall fuel t acc bits tl,
  t < 15 -> bits < 8 + N.of_nat fuel ->
  match dec_inner fuel t acc bits with
  | IState t' bits' put =>
      t' < 15 /\ bits' < 8 /\
      ref_walk (tpath t) (bitsN (N.to_nat bits) acc ++ tl) =
        option_map (app put) (ref_walk (tpath t') (bitsN (N.to_nat bits') acc ++ tl))
  | IErr => ref_walk (tpath t) (bitsN (N.to_nat bits) acc ++ tl) = None
  | IPanic => False
  | ILoop => False
  end.
Proof.
  induction fuel as [|fuel IH]; intros t acc bits tl Ht Hfuel.
  - cbn [dec_inner]. destruct (bits <? 8) eqn:Hb; [|apply N.ltb_ge in Hb; lia].
    apply N.ltb_lt in Hb. rewrite option_map_app_nil. auto.
  - cbn [dec_inner]. destruct (bits <? 8) eqn:Hb.
    { apply N.ltb_lt in Hb. rewrite option_map_app_nil. auto. }
    apply N.ltb_ge in Hb.
    set (i := (acc / 2 ^ (bits - 8)) mod 256).
    assert (Hi : i < 256) by (apply N.mod_lt; lia).
    rewrite (bitsN_lookup bits acc Hb). fold i. rewrite <- app_assoc.
    destruct (lookahead t i (bitsN (N.to_nat (bits - 8)) acc ++ tl) Ht Hi) as [e [He L]].
    rewrite He.
    destruct (entry_is_branch e); cbn [negb].
    + destruct (entry_table e =? 0) eqn:Ht'.
      * exact L.
      * destruct L as [Ht'' L]. rewrite L.
        apply IH; [exact Ht''|lia].
    + destruct L as [Hu [Hs L]].
      destruct (bits <? entry_used e) eqn:Hbu; [apply N.ltb_lt in Hbu; lia|].
      rewrite L.
      assert (Hskip : skipn (N.to_nat (entry_used e)) (bitsN 8 i) ++ bitsN (N.to_nat (bits - 8)) acc
                      = bitsN (N.to_nat (bits - entry_used e)) acc).
      { replace (N.to_nat (bits - entry_used e)) with (N.to_nat bits - N.to_nat (entry_used e))%nat by lia.
        rewrite <- bitsN_skipn. rewrite (bitsN_lookup bits acc Hb). fold i.
        rewrite skipn_app. rewrite bitsN_length.
        replace (N.to_nat (entry_used e) - 8)%nat with 0%nat by lia. reflexivity. }
      rewrite app_assoc, Hskip.
      pose proof (IH 0 acc (bits - entry_used e) tl ltac:(lia) ltac:(lia)) as R.
      rewrite tpath_0 in R.
      destruct (dec_inner fuel 0 acc (bits - entry_used e)) as [t' bits' put| | |]; cbn [inner_put].
      * destruct R as [R1 [R2 R3]]. split; [exact R1|]. split; [exact R2|].
        rewrite R3. destruct (ref_walk (tpath t') (bitsN (N.to_nat bits') acc ++ tl)); reflexivity.
      * rewrite R. reflexivity.
      * exact R.
      * exact R.
Qed.

(* ---------------------------------------------------------------------------------------- *)
(** * 6. the final padding loop *)

Definition embed (o : option (list N)) : hres :=
  match o with
  | Some l => HOk l
  | None => HErr
  end.

Definition hres_eqb (a b : hres) : bool :=
  match a, b with
  | HOk x, HOk y => list_N_eqb x y
  | HErr, HErr => true
  | HPanic, HPanic => true
  | HLoop, HLoop => true
  | _, _ => false
  end.

Lemma hres_eqb_eq a b : hres_eqb a b = true -> a = b.
Proof.
  destruct a, b; cbn [hres_eqb]; try discriminate; try reflexivity.
  intros H. apply list_N_eqb_eq in H. subst; reflexivity.
Qed.

(* all (table, number of pending bits < 8, value of the pending bits) states *)
Definition finish_ok (t bits : N) : bool :=
  forallb (fun v => hres_eqb (dec_finish (N.to_nat bits) t v bits)
                             (embed (ref_walk (tpath t) (bitsN (N.to_nat bits) v))))
          (Nseq 0 (N.to_nat (2 ^ bits))).

Lemma dec_finish_sweep :
  forallb (fun t => forallb (finish_ok t) (Nseq 0 8)) (Nseq 0 15) = true.
Proof. vm_compute. reflexivity. Qed.

(* the loop only looks at the [bits] low bits of [acc] *)
Lemma dec_finish_indep : forall fuel t a1 a2 bits,
  a1 mod 2 ^ bits = a2 mod 2 ^ bits ->
  dec_finish fuel t a1 bits = dec_finish fuel t a2 bits.
Proof.
  induction fuel as [|fuel IH]; intros t a1 a2 bits Heq; cbn [dec_finish].
  - reflexivity.
  - destruct (bits =? 0); [reflexivity|].
    destruct (8 <=? bits) eqn:Hb; [reflexivity|]. apply N.leb_gt in Hb.
    assert (Hland : forall a, N.land a (2 ^ bits - 1) = a mod 2 ^ bits).
    { intros a. rewrite <- N.land_ones. f_equal. rewrite N.ones_equiv. lia. }
    rewrite !Hland, Heq.
    assert (Hidx : forall a, ((a * 2 ^ (8 - bits)) mod 2 ^ 32) mod 256 = (a mod 2 ^ bits) * 2 ^ (8 - bits)).
    { intros a. change 256 with (2 ^ 8). rewrite mod_mod_pow2 by lia.
      rewrite (pow2_split 8 (8 - bits)) by lia. replace (8 - (8 - bits)) with bits by lia.
      apply N.mul_mod_distr_r; apply pow2_nz. }
    rewrite !Hidx, Heq.
    destruct ((t =? 0) && (a2 mod 2 ^ bits =? 2 ^ bits - 1)); [reflexivity|].
    destruct (dec_entry t (a2 mod 2 ^ bits * 2 ^ (8 - bits))) as [e|]; [|reflexivity].
    destruct (entry_is_branch e); [reflexivity|].
    destruct (bits <? entry_used e) eqn:Hu; [reflexivity|]. apply N.ltb_ge in Hu.
    f_equal. apply IH.
    rewrite <- (mod_mod_pow2 a1 bits (bits - entry_used e)) by lia.
    rewrite <- (mod_mod_pow2 a2 bits (bits - entry_used e)) by lia.
    rewrite Heq. reflexivity.
Qed.

Lemma dec_finish_correct t acc bits :
  t < 15 -> bits < 8 ->
  dec_finish (N.to_nat bits) t acc bits = embed (ref_walk (tpath t) (bitsN (N.to_nat bits) acc)).
Proof.
  intros Ht Hb.
  pose proof (forallb_Nseq2 _ _ _ dec_finish_sweep t bits ltac:(lia) ltac:(lia)) as S.
  unfold finish_ok in S.
  assert (Hv : acc mod 2 ^ bits < N.of_nat (N.to_nat (2 ^ bits))).
  { rewrite N2Nat.id. apply N.mod_lt, pow2_nz. }
  pose proof (forallb_Nseq _ _ S (acc mod 2 ^ bits) Hv) as S1. cbv beta in S1.
  apply hres_eqb_eq in S1.
  rewrite bitsN_mod in S1 by lia. rewrite <- S1.
  apply dec_finish_indep. rewrite N.mod_mod by apply pow2_nz. reflexivity.
Qed.

(* ---------------------------------------------------------------------------------------- *)
(** * 7. the decoder is exactly the reference decoder *)

Lemma push_byte acc bits byte :
  bits <= 24 -> byte < 256 ->
  bitsN (N.to_nat (bits + 8)) (N.lor ((acc * 256) mod 2 ^ 32) byte) =
    bitsN (N.to_nat bits) acc ++ bitsN 8 byte.
Proof.
  intros Hb Hbyte.
  change (2 ^ 32) with 4294967296.
  rewrite (lor_add_disjoint _ byte 8) by (change (2 ^ 8) with 256; lia).
  rewrite bitsN_split. f_equal.
  - change (2 ^ 8) with 256.
    replace (((acc * 256) mod 4294967296 + byte) / 256) with (acc mod 2 ^ 24)
      by (change (2 ^ 24) with 16777216; lia).
    apply bitsN_mod. lia.
  - change (N.to_nat 8) with 8%nat.
    rewrite <- (bitsN_mod 8 _ 8) by (cbn; lia). f_equal.
    change (2 ^ 8) with 256. lia.
Qed.

Lemma embed_put put o : hres_put put (embed o) = embed (option_map (app put) o).
Proof. destruct o; reflexivity. Qed.

Lemma dec_bytes_correct : forall src t acc bits,
  t < 15 -> bits < 8 -> bytes_ok src = true ->
  dec_bytes t acc bits src =
    embed (ref_walk (tpath t) (bitsN (N.to_nat bits) acc ++ bits_of_bytes src)).
Proof.
  induction src as [|byte src IH]; intros t acc bits Ht Hb Hok; cbn [dec_bytes bits_of_bytes].
  - rewrite app_nil_r. apply dec_finish_correct; assumption.
  - apply bytes_ok_cons in Hok as [Hbyte Hok].
    rewrite app_assoc, <- (push_byte acc bits byte) by lia.
    set (acc' := N.lor ((acc * 256) mod 2 ^ 32) byte).
    pose proof (dec_inner_correct (N.to_nat (bits + 8)) t acc' (bits + 8) (bits_of_bytes src) Ht
                  ltac:(lia)) as R.
    destruct (dec_inner (N.to_nat (bits + 8)) t acc' (bits + 8)) as [t' bits' put| | |].
    + destruct R as [R1 [R2 R3]]. rewrite R3, IH by assumption. apply embed_put.
    + rewrite R. reflexivity.
    + destruct R.
    + destruct R.
Qed.

(* MAIN THEOREM (decoder), for every byte string *)
Theorem huff_decode_exact bytes :
  bytes_ok bytes = true ->
  huff_decode bytes = embed (ref_huff_decode (bits_of_bytes bytes)).
Proof.
  intros Hok. unfold huff_decode, ref_huff_decode.
  rewrite (dec_bytes_correct bytes 0 0 0) by (try lia; exact Hok).
  rewrite tpath_0. reflexivity.
Qed.

Example huff_decode_exact_nonvacuous : bytes_ok [254; 1] = true /\ huff_decode [254; 1] = HOk [33; 48].
Proof. vm_compute. auto. Qed.

Corollary huff_decode_never_panics bytes :
  bytes_ok bytes = true -> huff_decode bytes <> HPanic /\ huff_decode bytes <> HLoop.
Proof.
  intros Hok. rewrite (huff_decode_exact bytes Hok).
  destruct (ref_huff_decode (bits_of_bytes bytes)); cbn [embed]; split; discriminate.
Qed.

(* Ok exactly on the RFC grammar, with exactly the RFC's field value *)
Corollary huff_decode_ok_iff bytes syms :
  bytes_ok bytes = true ->
  (huff_decode bytes = HOk syms <-> huff_valid (bits_of_bytes bytes) syms).
Proof.
  intros Hok. rewrite (huff_decode_exact bytes Hok), <- ref_huff_decode_iff.
  destruct (ref_huff_decode (bits_of_bytes bytes)); cbn [embed]; split; intros H; congruence.
Qed.

Corollary huff_decode_err_iff bytes :
  bytes_ok bytes = true ->
  (huff_decode bytes = HErr <-> forall syms, ~ huff_valid (bits_of_bytes bytes) syms).
Proof.
  intros Hok. rewrite (huff_decode_exact bytes Hok). split.
  - intros H syms V. apply ref_huff_decode_complete in V. rewrite V in H. discriminate.
  - intros H. destruct (ref_huff_decode (bits_of_bytes bytes)) as [syms|] eqn:R; [|reflexivity].
    exfalso. apply (H syms), ref_huff_decode_sound, R.
Qed.

(* the decoding errors RFC 7541 section 5.2 demands *)

(* EOS inside the string *)
Corollary huff_decode_rejects_eos bytes pre tl :
  bytes_ok bytes = true -> Forall (fun s => s < 256) pre ->
  bits_of_bytes bytes = concat (map code_bits pre) ++ code_bits EOS ++ tl ->
  huff_decode bytes = HErr.
Proof.
  intros Hok Hpre Heq. rewrite (huff_decode_exact bytes Hok). unfold ref_huff_decode.
  rewrite Heq, ref_walk_codes by exact Hpre.
  rewrite (ref_walk_code (code_bits EOS) [] EOS);
    [| unfold EOS; lia | reflexivity | apply code_bits_nonempty; unfold EOS; lia].
  reflexivity.
Qed.

(* padding of 8 or more one-bits (whatever its length) *)
Corollary huff_decode_rejects_long_padding bytes pre pad :
  bytes_ok bytes = true -> Forall (fun s => s < 256) pre ->
  bits_of_bytes bytes = concat (map code_bits pre) ++ pad ->
  all_ones pad = true -> (8 <= length pad)%nat ->
  huff_decode bytes = HErr.
Proof.
  intros Hok Hpre Heq Hones Hlen. rewrite (huff_decode_exact bytes Hok). unfold ref_huff_decode.
  rewrite Heq, ref_walk_codes by exact Hpre.
  rewrite ref_walk_ones; [| exact Hones | cbn [length]; lia].
  cbn [app]. replace (length pad <? 8)%nat with false by (symmetry; apply Nat.ltb_ge; lia).
  reflexivity.
Qed.

(* an incomplete code at the end (no code word is a prefix of it) is accepted only if it is
   fewer than 8 bits, all ones *)
Corollary huff_decode_padding bytes pre pad :
  bytes_ok bytes = true -> Forall (fun s => s < 256) pre ->
  bits_of_bytes bytes = concat (map code_bits pre) ++ pad ->
  (forall s l, s < 257 -> pad <> code_bits s ++ l) ->
  huff_decode bytes = if (length pad <? 8)%nat && all_ones pad then HOk pre else HErr.
Proof.
  intros Hok Hpre Heq Hinc. rewrite (huff_decode_exact bytes Hok). unfold ref_huff_decode.
  rewrite Heq, ref_walk_codes by exact Hpre.
  rewrite ref_walk_incomplete by exact Hinc. cbn [app].
  destruct ((length pad <? 8)%nat && all_ones pad); cbn [option_map embed]; [|reflexivity].
  rewrite app_nil_r. reflexivity.
Qed.

Corollary huff_decode_rejects_bad_padding bytes pre pad :
  bytes_ok bytes = true -> Forall (fun s => s < 256) pre ->
  bits_of_bytes bytes = concat (map code_bits pre) ++ pad ->
  (forall s l, s < 257 -> pad <> code_bits s ++ l) ->
  all_ones pad = false ->
  huff_decode bytes = HErr.
Proof.
  intros Hok Hpre Heq Hinc Hbad. rewrite (huff_decode_padding bytes pre pad) by assumption.
  rewrite Hbad, andb_false_r. reflexivity.
Qed.

(* non-vacuity: a concrete decode and a concrete rejection of each kind *)
Example ex_decode_ok : huff_decode [156; 180; 80; 127] = HOk [104; 101; 108; 108; 111].   (* "hello" *)
Proof. vm_compute. reflexivity. Qed.
Example ex_decode_ok_pad7 : huff_decode [63] = HOk [111].   (* 'o' = 00111 + 3 ones *)
Proof. vm_compute. reflexivity. Qed.
Example ex_reject_eos : huff_decode [255; 255; 255; 255] = HErr.            (* EOS + 2 ones *)
Proof. vm_compute. reflexivity. Qed.
Example ex_reject_eos_inside : huff_decode [7; 255; 255; 255; 231] = HErr.  (* '0', EOS, 'o' *)
Proof. vm_compute. reflexivity. Qed.
Example ex_reject_long_padding : huff_decode [7; 255] = HErr.              (* '0' + 11 ones *)
Proof. vm_compute. reflexivity. Qed.
Example ex_reject_8_ones : huff_decode [255] = HErr.
Proof. vm_compute. reflexivity. Qed.
Example ex_reject_zero_padding : huff_decode [6] = HErr.                   (* '0' + 110 *)
Proof. vm_compute. reflexivity. Qed.
Example ex_reject_incomplete_long_code : huff_decode [255; 254] = HErr.
Proof. vm_compute. reflexivity. Qed.
Example ex_rejects_eos_hyps :
  bits_of_bytes [7; 255; 255; 255; 231] = concat (map code_bits [48]) ++ code_bits EOS ++ code_bits 111 /\
  Forall (fun s => s < 256) [48].
Proof. split; [vm_compute; reflexivity | repeat constructor]. Qed.
Example ex_long_padding_hyps :
  bits_of_bytes [7; 255] = concat (map code_bits [48]) ++ repeat true 11.
Proof. vm_compute. reflexivity. Qed.

(* ---------------------------------------------------------------------------------------- *)
(** * 8. the encoder *)

(* what ENCODE_TABLE[b] holds, for every symbol *)
Definition enc_entry_ok (b : N) : bool :=
  match nth_error enc_table (N.to_nat b) with
  | Some (n, c) =>
      (5 <=? n) && (n <=? 30) && (c <? 2 ^ n) && bits_eqb (code_bits b) (bitsN (N.to_nat n) c)
  | None => false
  end.

Lemma enc_table_sweep : forallb enc_entry_ok (Nseq 0 257) = true.
Proof. vm_compute. reflexivity. Qed.

Lemma enc_entry b :
  b < 257 ->
  exists n c, nth_error enc_table (N.to_nat b) = Some (n, c) /\
              5 <= n <= 30 /\ c < 2 ^ n /\ code_bits b = bitsN (N.to_nat n) c.
Proof.
  intros Hb. pose proof (forallb_Nseq _ _ enc_table_sweep b ltac:(lia)) as S.
  unfold enc_entry_ok in S.
  destruct (nth_error enc_table (N.to_nat b)) as [[n c]|]; [|discriminate].
  apply andb_true_iff in S as [S S4]. apply andb_true_iff in S as [S S3].
  apply andb_true_iff in S as [S1 S2].
  apply N.leb_le in S1. apply N.leb_le in S2. apply N.ltb_lt in S3. apply bits_eqb_eq in S4.
  exists n, c. auto.
Qed.

Lemma mod0_mul a k : a mod 2 ^ k = 0 -> a = (a / 2 ^ k) * 2 ^ k.
Proof.
  intros H. rewrite N.mul_comm. apply N.div_exact; [apply pow2_nz | exact H].
Qed.

(* the flush loop writes out whole bytes of the pending bits *)
Lemma enc_flush_correct : forall fuel bits left,
  left <= 40 -> 32 < left + 8 * N.of_nat fuel -> bits mod 2 ^ left = 0 ->
  exists put bits' left',
    enc_flush fuel bits left = Some (put, bits', left') /\
    33 <= left' <= 40 /\ bits' mod 2 ^ left' = 0 /\ bytes_ok put = true /\
    bitsN (N.to_nat (40 - left)) (bits / 2 ^ left) =
      bits_of_bytes put ++ bitsN (N.to_nat (40 - left')) (bits' / 2 ^ left').
Proof.
  induction fuel as [|fuel IH]; intros bits left Hle Hfuel Hmod; cbn [enc_flush].
  - destruct (32 <? left) eqn:E; [|apply N.ltb_ge in E; lia]. apply N.ltb_lt in E.
    exists [], bits, left. repeat split; try lia; try assumption.
  - destruct (32 <? left) eqn:E.
    { apply N.ltb_lt in E. exists [], bits, left. repeat split; try lia; try assumption. }
    apply N.ltb_ge in E.
    assert (Hmod' : ((bits * 256) mod 2 ^ 64) mod 2 ^ (left + 8) = 0).
    { rewrite mod_mod_pow2 by lia. rewrite (mod0_mul bits left Hmod).
      change 256 with (2 ^ 8). rewrite <- N.mul_assoc, <- N.pow_add_r.
      apply N.mod_mul, pow2_nz. }
    destruct (IH ((bits * 256) mod 2 ^ 64) (left + 8) ltac:(lia) ltac:(lia) Hmod')
      as [put [bits' [left' [Hf [Hl [Hm [Hok Hbits]]]]]]].
    rewrite Hf.
    exists ((bits / 2 ^ 32) mod 256 :: put), bits', left'.
    split; [reflexivity|]. split; [exact Hl|]. split; [exact Hm|].
    clear Hmod' Hf IH Hmod Hm.
    split.
    { apply bytes_ok_cons. split; [apply N.mod_lt; lia | exact Hok]. }
    cbn [bits_of_bytes]. rewrite <- app_assoc, <- Hbits.
    replace (40 - left) with (8 + (32 - left)) by lia.
    rewrite bitsN_split. f_equal.
    + change (N.to_nat 8) with 8%nat. change 256 with (2 ^ 8).
      rewrite bitsN_mod by (cbn; lia). f_equal.
      rewrite N.div_div by apply pow2_nz. rewrite <- N.pow_add_r. do 2 f_equal. lia.
    + replace (40 - (left + 8)) with (32 - left) by lia.
      apply bitsN_ext. intros i Hi.
      rewrite !N.div_pow2_bits.
      rewrite N.mod_pow2_bits_low by lia.
      change 256 with (2 ^ 8).
      replace (i + (left + 8)) with ((i + left) + 8) by lia.
      rewrite N.mul_pow2_bits_add. reflexivity.
Qed.

(* appending one code word to the pending bits *)
Lemma enc_push_code bits left n c :
  n <= left -> left <= 40 -> c < 2 ^ n -> bits mod 2 ^ left = 0 ->
  let bits1 := N.lor bits ((c * 2 ^ (left - n)) mod 2 ^ 64) in
  bits1 mod 2 ^ (left - n) = 0 /\
  bitsN (N.to_nat (40 - (left - n))) (bits1 / 2 ^ (left - n)) =
    bitsN (N.to_nat (40 - left)) (bits / 2 ^ left) ++ bitsN (N.to_nat n) c.
Proof.
  intros Hn Hle Hc Hmod bits1.
  set (q := bits / 2 ^ left).
  assert (Hbits : bits = q * 2 ^ n * 2 ^ (left - n)).
  { rewrite <- N.mul_assoc, <- N.pow_add_r. replace (n + (left - n)) with left by lia.
    apply mod0_mul, Hmod. }
  assert (Hlt : c * 2 ^ (left - n) < 2 ^ left).
  { rewrite (pow2_split left (left - n)) by lia. replace (left - (left - n)) with n by lia.
    apply N.mul_lt_mono_pos_r; [|exact Hc].
    pose proof (pow2_nz (left - n)). lia. }
  assert (H64 : 2 ^ left <= 2 ^ 64) by (apply N.pow_le_mono_r; lia).
  assert (Hb1 : bits1 = (q * 2 ^ n + c) * 2 ^ (left - n)).
  { unfold bits1. rewrite N.mod_small by lia.
    rewrite (lor_add_disjoint bits _ left Hmod Hlt).
    rewrite Hbits at 1. rewrite N.mul_add_distr_r. reflexivity. }
  rewrite Hb1. split.
  - apply N.mod_mul, pow2_nz.
  - rewrite N.div_mul by apply pow2_nz.
    replace (40 - (left - n)) with ((40 - left) + n) by lia.
    rewrite bitsN_split. f_equal.
    + f_equal. rewrite N.div_add_l by apply pow2_nz.
      rewrite (N.div_small c) by exact Hc. lia.
    + rewrite <- (bitsN_mod (N.to_nat n) (q * 2 ^ n + c) n) by lia. f_equal.
      rewrite N.add_comm, N.mod_add by apply pow2_nz. apply N.mod_small, Hc.
Qed.

(* the final byte: pending bits then ones *)
Lemma enc_last_byte bits left :
  33 <= left < 40 -> bits mod 2 ^ left = 0 ->
  exists pad,
    bitsN 8 ((N.lor bits (2 ^ left - 1) / 2 ^ 32) mod 256) =
      bitsN (N.to_nat (40 - left)) (bits / 2 ^ left) ++ pad /\
    (length pad < 8)%nat /\ all_ones pad = true.
Proof.
  intros Hl Hmod.
  pose proof (pow2_nz left) as Hnz.
  rewrite (lor_add_disjoint bits (2 ^ left - 1) left Hmod) by lia.
  set (x := bits + (2 ^ left - 1)).
  exists (bitsN (N.to_nat (left - 32)) (x / 2 ^ 32)).
  split; [|split].
  - change 256 with (2 ^ 8). rewrite bitsN_mod by (cbn; lia).
    change 8%nat with (N.to_nat 8). replace 8 with ((40 - left) + (left - 32)) at 1 by lia.
    rewrite bitsN_split. f_equal. f_equal.
    rewrite N.div_div by apply pow2_nz. rewrite <- N.pow_add_r.
    replace (32 + (left - 32)) with left by lia.
    unfold x. rewrite (mod0_mul bits left Hmod) at 1.
    rewrite N.div_add_l by exact Hnz. rewrite (N.div_small (2 ^ left - 1)) by lia. lia.
  - rewrite bitsN_length. lia.
  - apply bitsN_all_ones. intros i Hi.
    rewrite N.div_pow2_bits.
    rewrite <- (N.mod_pow2_bits_low x left) by lia.
    replace (x mod 2 ^ left) with (N.ones left).
    + apply N.ones_spec_low. lia.
    + unfold x. rewrite (mod0_mul bits left Hmod) at 1.
      rewrite N.add_comm, N.mod_add by exact Hnz.
      rewrite N.mod_small by lia. rewrite N.ones_equiv. lia.
Qed.

Lemma enc_loop_correct : forall src bits left,
  33 <= left <= 40 -> bits mod 2 ^ left = 0 -> bytes_ok src = true ->
  exists out pad,
    enc_loop bits left src = Some out /\ bytes_ok out = true /\
    bits_of_bytes out =
      bitsN (N.to_nat (40 - left)) (bits / 2 ^ left) ++ concat (map code_bits src) ++ pad /\
    (length pad < 8)%nat /\ all_ones pad = true.
Proof.
  induction src as [|b src IH]; intros bits left Hl Hmod Hok; cbn [enc_loop map concat].
  - destruct (left =? 40) eqn:E.
    + apply N.eqb_eq in E. subst left. exists [], []. repeat split; try reflexivity. cbn [length]; lia.
    + apply N.eqb_neq in E.
      destruct (64 <=? left) eqn:E64; [apply N.leb_le in E64; lia|].
      destruct (enc_last_byte bits left ltac:(lia) Hmod) as [pad [Hb [Hlen Hones]]].
      exists [(N.lor bits (2 ^ left - 1) / 2 ^ 32) mod 256], pad.
      split; [reflexivity|]. split.
      { apply bytes_ok_cons. split; [apply N.mod_lt; lia | reflexivity]. }
      cbn [bits_of_bytes app]. rewrite app_nil_r. auto.
  - apply bytes_ok_cons in Hok as [Hb Hok].
    destruct (enc_entry b ltac:(lia)) as [n [c [Hnth [Hn [Hc Hcode]]]]].
    rewrite Hnth.
    destruct (left <? n) eqn:E1; [apply N.ltb_lt in E1; lia|].
    destruct (64 <=? left - n) eqn:E2; [apply N.leb_le in E2; lia|].
    destruct (enc_push_code bits left n c ltac:(lia) ltac:(lia) Hc Hmod) as [Hmod1 Hbits1].
    set (bits1 := N.lor bits ((c * 2 ^ (left - n)) mod 2 ^ 64)) in *.
    destruct (enc_flush_correct flush_fuel bits1 (left - n) ltac:(lia)
                ltac:(unfold flush_fuel; lia) Hmod1)
      as [put [bits' [left' [Hf [Hl' [Hm' [Hokput Hflush]]]]]]].
    rewrite Hf.
    destruct (IH bits' left' Hl' Hm' Hok) as [rest [pad [Hrest [Hokrest [Hbits [Hlen Hones]]]]]].
    rewrite Hrest. exists (put ++ rest), pad.
    split; [reflexivity|]. split.
    { rewrite bytes_ok_app, Hokput, Hokrest. reflexivity. }
    split; [|auto].
    rewrite bits_of_bytes_app, Hbits, app_assoc, <- Hflush, Hbits1, Hcode.
    rewrite <- !app_assoc. reflexivity.
Qed.

Theorem huff_encode_total s :
  bytes_ok s = true -> huff_encode_opt s = Some (huff_encode s) /\ bytes_ok (huff_encode s) = true.
Proof.
  intros Hok. unfold huff_encode, huff_encode_opt.
  destruct (enc_loop_correct s 0 40 ltac:(lia) ltac:(apply N.mod_0_l, pow2_nz) Hok)
    as [out [pad [Hout [Hokout _]]]].
  rewrite Hout. auto.
Qed.

(* MAIN THEOREM (encoder): the output is the code words, then fewer than 8 one-bits *)
Theorem huff_encode_spec s :
  bytes_ok s = true ->
  exists pad, bits_of_bytes (huff_encode s) = concat (map code_bits s) ++ pad /\
              (length pad < 8)%nat /\ all_ones pad = true.
Proof.
  intros Hok. unfold huff_encode, huff_encode_opt.
  destruct (enc_loop_correct s 0 40 ltac:(lia) ltac:(apply N.mod_0_l, pow2_nz) Hok)
    as [out [pad [Hout [_ [Hbits Hpad]]]]].
  rewrite Hout. exists pad. split; [|exact Hpad].
  rewrite Hbits. reflexivity.
Qed.

Lemma bytes_ok_Forall : forall s, bytes_ok s = true -> Forall (fun b => b < 256) s.
Proof.
  induction s as [|b s IH]; intros H; [constructor|].
  apply bytes_ok_cons in H as [Hb H]. constructor; [exact Hb | apply IH, H].
Qed.

Theorem huff_encode_valid s :
  bytes_ok s = true -> huff_valid (bits_of_bytes (huff_encode s)) s.
Proof.
  intros Hok. split; [apply bytes_ok_Forall, Hok|]. apply huff_encode_spec, Hok.
Qed.

(* MAIN THEOREM (round trip) *)
Theorem huff_roundtrip s : bytes_ok s = true -> huff_decode (huff_encode s) = HOk s.
Proof.
  intros Hok.
  apply huff_decode_ok_iff; [apply huff_encode_total, Hok | apply huff_encode_valid, Hok].
Qed.

Example huff_roundtrip_nonvacuous :
  bytes_ok [0; 255; 10; 104] = true /\ huff_encode [0; 255; 10; 104] = [255; 199; 255; 255; 221; 255; 255; 255; 228; 255].
Proof. vm_compute. auto. Qed.

Example ex_encode_hello : huff_encode [104; 101; 108; 108; 111] = [156; 180; 80; 127].
Proof. vm_compute. reflexivity. Qed.
