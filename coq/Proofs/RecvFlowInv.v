(* Invariants of the receive-flow model: connection conservation (R1), attribution of every
   in-flight byte to exactly one record (R2), stream conservation (R3), no lost credit (Q), absence
   of panics, and preservation by every label. *)
From H2V Require Import Base.Tac Model.RecvFlow Proofs.RecvFlowLists.
Local Open Scope Z_scope.

Ltac simp_r :=
  unfold kput, kset_strs, kset_flow in *;
  cbn [r_id r_win r_avail r_infl r_pend r_isrecv r_base r_done r_unl
       k_win k_avail k_infl k_init k_target k_strs] in *.

Ltac rlia := unfold in_i32r, ras_size, RMINW, RMAXW, RDEFAULT in *; lia.

(* Q: a record whose application holds the handle, has released everything and is owed a
   WINDOW_UPDATE is queued for one *)
Definition rQ (s : rstream) : Prop :=
  r_isrecv s = true -> r_done s = false -> r_unl s = false -> r_infl s = 0 ->
  unclaimed (r_win s) (r_avail s) <> None -> r_pend s = true.

Definition rokb (s : rstream) : Prop :=
  0 <= r_infl s /\ r_win s <= r_avail s /\ r_avail s + r_infl s <= r_base s /\
  (r_isrecv s = true -> r_done s = false -> r_unl s = false -> r_avail s + r_infl s = r_base s) /\
  r_base s <= RMAXW /\ RMINW <= r_win s /\ rQ s.

(* a record still linked in the store follows SETTINGS_INITIAL_WINDOW_SIZE *)
Definition rlink (init : Z) (s : rstream) : Prop :=
  r_unl s = false -> r_base s <= init /\ init - RMAXW <= r_win s.

Definition rok (init : Z) (s : rstream) : Prop := rokb s /\ rlink init s.

Definition RInvG (P : rstream -> Prop) (d : Z) (st : rstate) : Prop :=
  0 <= d /\ 0 <= k_infl st /\ k_infl st = sum_infl (k_strs st) + d /\
  k_avail st + k_infl st = k_target st /\ 0 <= k_target st /\ k_target st <= RMAXW /\
  0 <= k_init st /\ k_init st <= RMAXW /\ 0 <= k_win st /\ RMINW <= k_avail st /\
  NoDup (map r_id (k_strs st)) /\ Forall P (k_strs st).

(* [d] = bytes charged to the connection by a step that then reported a connection error: they
   are attributed to no record and never returned *)
Definition RInvD (d : Z) (st : rstate) : Prop := RInvG (rok (k_init st)) d st.

Definition RInv (st : rstate) : Prop := RInvD 0 st.

Lemma rokb_intro s :
  0 <= r_infl s -> r_win s <= r_avail s -> r_avail s + r_infl s <= r_base s ->
  (r_isrecv s = true -> r_done s = false -> r_unl s = false -> r_avail s + r_infl s = r_base s) ->
  r_base s <= RMAXW -> RMINW <= r_win s -> rQ s -> rokb s.
Proof. unfold rokb. auto 10. Qed.

Lemma rokb_infl s : rokb s -> 0 <= r_infl s.
Proof. intros H. apply H. Qed.

Lemma rok_infl init s : rok init s -> 0 <= r_infl s.
Proof. intros (H & _). apply H. Qed.

Lemma in_i32r_true z : RMINW <= z <= RMAXW -> in_i32r z = true.
Proof. rlia. Qed.

Lemma RInvG_sum_nonneg (P : rstream -> Prop) l :
  (forall x, P x -> 0 <= r_infl x) -> Forall P l -> 0 <= sum_infl l.
Proof.
  intros HP HF. apply sum_infl_nonneg. exact (Forall_impl (fun s => 0 <= r_infl s) HP HF).
Qed.

Lemma RInvG_infl_ge (P : rstream -> Prop) d st key s :
  (forall x, P x -> 0 <= r_infl x) -> RInvG P d st -> rfind key (k_strs st) = Some s ->
  r_infl s <= k_infl st - d.
Proof.
  intros HP (C1 & C2 & C3 & C4 & C5 & C6 & C7 & C8 & C9 & C10 & C11 & C12) F.
  pose proof (sum_infl_ge s _ (Forall_impl (fun s => 0 <= r_infl s) HP C12) (rfind_In _ _ _ F)). lia.
Qed.

Lemma RInvG_upd (P : rstream -> Prop) d st s s' w a i d' :
  (forall x, P x -> 0 <= r_infl x) ->
  RInvG P d st -> rfind (r_id s') (k_strs st) = Some s -> P s' ->
  0 <= d' -> 0 <= w -> RMINW <= a -> a + i = k_target st ->
  i = k_infl st - d - r_infl s + r_infl s' + d' ->
  RInvG P d' (mkK w a i (k_init st) (k_target st) (rupd s' (k_strs st))).
Proof.
  intros HP (C1 & C2 & C3 & C4 & C5 & C6 & C7 & C8 & C9 & C10 & C11 & C12) F Ps' Hd' Hw Ha Hai Hi.
  pose proof (sum_rupd s s' _ C11 F) as Hsum.
  assert (HF : Forall P (rupd s' (k_strs st))).
  { apply rfind_Forall; [rewrite rupd_ids; exact C11|].
    intros key x Fx. apply rfind_rupd_inv in Fx. destruct Fx as [(_ & ->)|(_ & Fx)]; [exact Ps'|].
    eapply Forall_rfind; eauto. }
  pose proof (RInvG_sum_nonneg P _ HP HF) as Hnn.
  unfold RInvG. simp_r. rewrite rupd_ids. repeat apply conj; auto; lia.
Qed.

Lemma RInvG_flow (P : rstream -> Prop) d st w a i d' :
  (forall x, P x -> 0 <= r_infl x) ->
  RInvG P d st -> 0 <= d' -> 0 <= w -> RMINW <= a -> a + i = k_target st ->
  i = k_infl st - d + d' ->
  RInvG P d' (mkK w a i (k_init st) (k_target st) (k_strs st)).
Proof.
  intros HP (C1 & C2 & C3 & C4 & C5 & C6 & C7 & C8 & C9 & C10 & C11 & C12) Hd' Hw Ha Hai Hi.
  pose proof (RInvG_sum_nonneg P _ HP C12) as Hnn.
  unfold RInvG. simp_r. repeat apply conj; auto; lia.
Qed.

Lemma RInvD_upd d st s s' w a i d' :
  RInvD d st -> rfind (r_id s') (k_strs st) = Some s -> rok (k_init st) s' ->
  0 <= d' -> 0 <= w -> RMINW <= a -> a + i = k_target st ->
  i = k_infl st - d - r_infl s + r_infl s' + d' ->
  RInvD d' (mkK w a i (k_init st) (k_target st) (rupd s' (k_strs st))).
Proof.
  intros HI F Hok Hd' Hw Ha Hai Hi. unfold RInvD. cbn [k_init].
  apply (RInvG_upd _ d st s); auto. apply rok_infl.
Qed.

Lemma RInvD_flow d st w a i d' :
  RInvD d st -> 0 <= d' -> 0 <= w -> RMINW <= a -> a + i = k_target st ->
  i = k_infl st - d + d' ->
  RInvD d' (kset_flow st w a i).
Proof.
  intros HI Hd' Hw Ha Hai Hi. unfold RInvD, kset_flow. cbn [k_init].
  apply (RInvG_flow _ d st); auto. apply rok_infl.
Qed.

Lemma RInvD_kput d st s s' :
  RInvD d st -> rfind (r_id s') (k_strs st) = Some s -> rok (k_init st) s' ->
  r_infl s' = r_infl s -> RInvD d (kput st s').
Proof.
  intros HI F Hok Hi. pose proof HI as (C1 & C2 & C3 & C4 & C5 & C6 & C7 & C8 & C9 & C10 & C11 & C12).
  unfold kput, kset_strs. apply (RInvD_upd d st s); auto. lia.
Qed.

Lemma RInvD_infl_ge d st key s :
  RInvD d st -> rfind key (k_strs st) = Some s -> r_infl s <= k_infl st - d.
Proof. intros HI F. eapply RInvG_infl_ge; eauto. apply rok_infl. Qed.

Lemma RInvD_rok d st key s : RInvD d st -> rfind key (k_strs st) = Some s -> rok (k_init st) s.
Proof.
  intros (C1 & C2 & C3 & C4 & C5 & C6 & C7 & C8 & C9 & C10 & C11 & C12) F.
  eapply Forall_rfind; eauto.
Qed.

Lemma RInvD_In d st s : RInvD d st -> In s (k_strs st) -> rok (k_init st) s.
Proof.
  intros (C1 & C2 & C3 & C4 & C5 & C6 & C7 & C8 & C9 & C10 & C11 & C12) HIn.
  rewrite Forall_forall in C12. auto.
Qed.

(* ------------------------------------------------------------------------------------------- *)
(* the two connection-level primitives *)

Lemma release_conn_eq st cap :
  0 <= cap <= k_infl st -> RMINW <= k_avail st + cap <= RMAXW ->
  release_conn st cap = ROk (kset_flow st (k_win st) (k_avail st + cap) (k_infl st - cap)) [].
Proof.
  intros H1 H2. unfold release_conn.
  destruct (k_infl st <? cap) eqn:E; [exfalso; lia|].
  rewrite in_i32r_true by exact H2. reflexivity.
Qed.

Lemma consume_conn_spec d st sz :
  RInvD d st -> 0 <= sz ->
  consume_conn st sz = ROk st [RConnErr] \/
  (consume_conn st sz = ROk (kset_flow st (k_win st - sz) (k_avail st - sz) (k_infl st + sz)) [] /\
   RInvD (d + sz) (kset_flow st (k_win st - sz) (k_avail st - sz) (k_infl st + sz)) /\
   sz <= k_win st).
Proof.
  intros HI Hsz. pose proof HI as (C1 & C2 & C3 & C4 & C5 & C6 & C7 & C8 & C9 & C10 & C11 & C12).
  unfold consume_conn.
  destruct (ras_size (k_win st) <? sz) eqn:E1; [left; reflexivity|].
  destruct (negb (in_i32r (k_win st - sz)) || negb (in_i32r (k_avail st - sz))) eqn:E2; [left; reflexivity|].
  right. split; [reflexivity|]. split; [|rlia].
  apply (RInvD_flow d); auto; rlia.
Qed.

Lemma release_conn_spec d st cap :
  RInvD d st -> 0 <= cap <= d ->
  release_conn st cap = ROk (kset_flow st (k_win st) (k_avail st + cap) (k_infl st - cap)) [] /\
  RInvD (d - cap) (kset_flow st (k_win st) (k_avail st + cap) (k_infl st - cap)).
Proof.
  intros HI Hc. pose proof HI as (C1 & C2 & C3 & C4 & C5 & C6 & C7 & C8 & C9 & C10 & C11 & C12).
  pose proof (RInvG_sum_nonneg _ _ (rok_infl (k_init st)) C12) as Hnn.
  split.
  - apply release_conn_eq; rlia.
  - apply (RInvD_flow d); auto; rlia.
Qed.

Lemma consume_release_spec d st sz :
  RInvD d st -> 0 <= sz ->
  consume_conn st sz = ROk st [RConnErr] \/
  exists st1 st2, consume_conn st sz = ROk st1 [] /\ release_conn st1 sz = ROk st2 [] /\
                  RInvD d st2 /\ RInvD (d + sz) st1.
Proof.
  intros HI Hsz. pose proof HI as (C1 & _).
  destruct (consume_conn_spec d st sz HI Hsz) as [E|(E & HI1 & _)]; [left; exact E|right].
  destruct (release_conn_spec (d + sz) _ sz HI1 ltac:(lia)) as (E2 & HI2).
  replace (d + sz - sz) with d in HI2 by lia.
  eexists; eexists. split; [exact E|]. split; [exact E2|]. split; [exact HI2|exact HI1].
Qed.

(* ------------------------------------------------------------------------------------------- *)
(* release_capacity *)

Lemma release_stream_spec d st key cap s :
  RInvD d st -> 0 <= cap -> rfind key (k_strs st) = Some s ->
  (r_infl s < cap /\ release_stream st key cap = ROk st [RRes (-3)]) \/
  (cap <= r_infl s /\ exists st', release_stream st key cap = ROk st' [] /\ RInvD d st').
Proof.
  intros HI Hcap F. pose proof HI as (C1 & C2 & C3 & C4 & C5 & C6 & C7 & C8 & C9 & C10 & C11 & C12).
  pose proof (RInvD_rok _ _ _ _ HI F) as ((K1 & K2 & K3 & K4 & K5 & K6 & K7) & KL).
  pose proof (RInvD_infl_ge _ _ _ _ HI F) as Hge.
  pose proof (rfind_id _ _ _ F) as Hid.
  unfold release_stream. rewrite F.
  destruct (r_infl s <? cap) eqn:E; [left; split; [lia|reflexivity]|right].
  split; [lia|].
  rewrite release_conn_eq by rlia.
  cbn [rthen rbind rhas_conn_err existsb app].
  rewrite in_i32r_true by rlia. cbn [negb].
  eexists. split; [reflexivity|].
  simp_r.
  set (pend := match unclaimed (r_win s) (r_avail s + cap) with Some _ => true | None => r_pend s end).
  apply (RInvD_upd d st s); simp_r; auto; try lia; [rewrite Hid; exact F|].
  split.
  - apply rokb_intro; unfold rQ; simp_r; [lia|lia|lia| |lia|lia|].
    + intros A1 A2 A3. specialize (K4 A1 A2 A3). lia.
    + intros _ _ _ _ Hu. unfold pend.
      destruct (unclaimed (r_win s) (r_avail s + cap)); [reflexivity|exfalso; apply Hu; reflexivity].
  - unfold rlink; simp_r. exact KL.
Qed.

(* ------------------------------------------------------------------------------------------- *)
(* apply_local_settings: the per-stream loop *)

Lemma mem_key_head key t : mem_key key (key :: t) = true.
Proof. cbn [mem_key]. rewrite N.eqb_refl. reflexivity. Qed.

Lemma mem_key_tail k key t : k <> key -> mem_key k (key :: t) = mem_key k t.
Proof.
  intros Hne. cbn [mem_key]. destruct (N.eqb key k) eqn:E; [apply N.eqb_eq in E; congruence|reflexivity].
Qed.

Lemma settings_streams_ok d old delta touched : forall st,
  RInvG rokb d st -> delta = k_init st - old -> 0 <= old <= RMAXW ->
  nodup_keysr touched = true ->
  (forall key s, rfind key (k_strs st) = Some s -> mem_key key touched = true -> rlink old s) ->
  match settings_streams st delta touched with
  | ROk st' o =>
      o = [] /\ RInvG rokb d st' /\ k_init st' = k_init st /\
      (forall key s', rfind key (k_strs st') = Some s' ->
         if mem_key key touched then rlink (k_init st) s' else rfind key (k_strs st) = Some s')
  | RStuck _ => True
  | RPanic _ => False
  end.
Proof.
  induction touched as [|key t IH]; intros st HI Hdelta Hold Hnd Hlink; cbn [settings_streams].
  - split; [reflexivity|]. split; [exact HI|]. split; [reflexivity|]. intros key s' F. exact F.
  - destruct (rfind key (k_strs st)) as [s|] eqn:F; [|exact I].
    destruct (r_unl s) eqn:EU; [exact I|].
    pose proof HI as (C1 & C2 & C3 & C4 & C5 & C6 & C7 & C8 & C9 & C10 & C11 & C12).
    pose proof (Forall_rfind _ _ C12 _ _ F) as (K1 & K2 & K3 & K4 & K5 & K6 & K7).
    pose proof (Hlink _ _ F (mem_key_head key t) EU) as (L1 & L2).
    pose proof (rfind_id _ _ _ F) as Hid.
    cbn [nodup_keysr] in Hnd. apply andb_true_iff in Hnd. destruct Hnd as (Hnk & Hnd).
    apply negb_true_iff in Hnk.
    cbv zeta.
    rewrite (in_i32r_true (r_win s + delta)) by rlia.
    rewrite (in_i32r_true (r_avail s + delta)) by rlia.
    destruct (RMAXW <? r_win s + delta) eqn:EM; [exfalso; lia|].
    cbn [negb orb].
    set (pend := if delta <? 0
                 then match unclaimed (r_win s + delta) (r_avail s + delta) with Some _ => true | None => r_pend s end
                 else r_pend s).
    set (s1 := mkR (r_id s) (r_win s + delta) (r_avail s + delta) (r_infl s) pend (r_isrecv s)
                   (r_base s + delta) (r_done s) false).
    assert (Hb1 : rokb s1).
    { unfold s1; apply rokb_intro; unfold rQ; simp_r; [rlia|rlia|rlia| |rlia|rlia|].
      - intros A1 A2 _. specialize (K4 A1 A2 EU). lia.
      - intros A1 A2 _ A4 Hu. unfold pend. destruct (delta <? 0) eqn:ED.
        + destruct (unclaimed (r_win s + delta) (r_avail s + delta)); [reflexivity|exfalso; apply Hu; reflexivity].
        + apply (K7 A1 A2 EU A4). intros Hn. apply Hu. apply unclaimed_shift_up; [lia|exact Hn]. }
    assert (Hl1 : rlink (k_init st) s1) by (unfold s1, rlink; simp_r; intros _; lia).
    assert (F1 : rfind (r_id s1) (k_strs st) = Some s) by (unfold s1; simp_r; rewrite Hid; exact F).
    assert (HI1 : RInvG rokb d (kput st s1)).
    { unfold kput, kset_strs. apply (RInvG_upd rokb d st s); auto; try lia. exact rokb_infl.
      unfold s1; simp_r; lia. }
    specialize (IH (kput st s1) HI1 Hdelta Hold Hnd).
    assert (Hlink1 : forall k x, rfind k (k_strs (kput st s1)) = Some x -> mem_key k t = true -> rlink old x).
    { intros k x Fx Hm. simp_r. apply rfind_rupd_inv in Fx.
      destruct Fx as [(-> & _)|(Hne & Fx)].
      - unfold s1 in Hm; simp_r. rewrite Hid in Hm. congruence.
      - apply (Hlink k x Fx). rewrite mem_key_tail; [exact Hm|]. unfold s1 in Hne; simp_r. congruence. }
    specialize (IH Hlink1).
    destruct (settings_streams (kput st s1) delta t) as [st' o|n|n]; [|exact I|exact IH].
    destruct IH as (Ho & HI' & Hinit & Hpost).
    split; [exact Ho|]. split; [exact HI'|]. split; [exact Hinit|].
    intros k x' Fx'. specialize (Hpost k x' Fx'). simp_r.
    destruct (N.eq_dec k key) as [->|Hne].
    + rewrite mem_key_head. rewrite Hnk in Hpost.
      apply rfind_rupd_inv in Hpost. destruct Hpost as [(_ & ->)|(Hne & _)]; [exact Hl1|].
      unfold s1 in Hne; simp_r. congruence.
    + rewrite (mem_key_tail k key t Hne).
      destruct (mem_key k t); [exact Hpost|].
      apply rfind_rupd_inv in Hpost. destruct Hpost as [(Hk & _)|(_ & Fx)]; [|exact Fx].
      unfold s1 in Hk; simp_r. congruence.
Qed.

(* ------------------------------------------------------------------------------------------- *)
(* what the environment guarantees about label arguments: unsigned values within 31 bits (frame
   lengths, the bound release_capacity and the SETTINGS parser enforce) *)
Definition rlabel_ok (l : rlabel) : Prop :=
  match l with
  | RNew _ init => 0 <= init <= RMAXW
  | RDataUnknown sz => 0 <= sz <= RMAXW
  | RData _ _ sz payload _ => 0 <= payload /\ payload <= sz /\ sz <= RMAXW
  | RRelease _ cap => 0 <= cap <= RMAXW
  | RClear _ _ to_release => 0 <= to_release <= RMAXW
  | RSetTarget target => 0 <= target <= RMAXW
  | RApplySettings new_init _ => 0 <= new_init <= RMAXW
  | _ => True
  end.

(* Result of one label from a state with unattributed charge d: no panic; d never shrinks and grows
   only on a step that reports a connection error. *)
Definition rstep_result_ok (d : Z) (r : routcome) : Prop :=
  match r with
  | ROk st' outs => (exists d', d <= d' /\ RInvD d' st') /\ (rhas_conn_err outs = false -> RInvD d st')
  | RStuck _ => True
  | RPanic _ => False
  end.

Lemma res_ok d st' o : RInvD d st' -> rstep_result_ok d (ROk st' o).
Proof. intros HI. cbn [rstep_result_ok]. split; [exists d; split; [lia|exact HI]|auto]. Qed.

Lemma res_err d d' st' o :
  d <= d' -> RInvD d' st' -> rhas_conn_err o = true -> rstep_result_ok d (ROk st' o).
Proof.
  intros Hd HI Ho. cbn [rstep_result_ok]. split; [exists d'; split; [exact Hd|exact HI]|].
  rewrite Ho. discriminate.
Qed.

Ltac rthen_red := cbn [rthen rbind rhas_conn_err existsb app orb].

Theorem rstep_inv d st l : 0 <= d -> RInvD d st -> rlabel_ok l -> rstep_result_ok d (rstep st l).
Proof.
  intros Hd HI Hl.
  pose proof HI as (C1 & C2 & C3 & C4 & C5 & C6 & C7 & C8 & C9 & C10 & C11 & C12).
  destruct l as [key init|key|sz|key k sz payload isrecv|key cap|key isrecv tr|key|target
                |new_init touched| |key streaming]; cbn [rstep rlabel_ok] in *.
  - (* RNew *)
    destruct (rfind key (k_strs st)) eqn:F; [exact I|].
    destruct (negb ((init =? k_init st) || (init =? 0))) eqn:E; [exact I|].
    apply res_ok.
    assert (Hok : rok (k_init st) (mkR key init init 0 false true init false false)).
    { split.
      - apply rokb_intro; unfold rQ; simp_r; [rlia|rlia|rlia|intros _ _ _; lia|rlia|rlia|].
        intros _ _ _ _ Hu. exfalso. apply Hu. apply unclaimed_refl.
      - unfold rlink; simp_r. intros _. rlia. }
    unfold RInvD, RInvG. simp_r. cbn [sum_infl map r_infl r_id].
    repeat apply conj; try assumption; try lia.
    + constructor; [apply rfind_none_notin; exact F|exact C11].
    + constructor; [exact Hok|exact C12].
  - (* RRemove *)
    destruct (rfind key (k_strs st)) as [s|] eqn:F; [|exact I].
    destruct (r_infl s =? 0) eqn:E; [|exact I].
    apply res_ok. unfold RInvD, RInvG. simp_r. rewrite (sum_rdel _ _ _ F).
    pose proof (rdel_ids_NoDup key _ C11) as ND.
    repeat apply conj; auto; try lia.
    apply rfind_Forall; [exact ND|]. intros k x Fx.
    apply rfind_rdel in Fx; [|exact C11]. destruct Fx as (_ & Fx). eapply Forall_rfind; eauto.
  - (* RDataUnknown *)
    destruct (consume_release_spec d st sz HI ltac:(lia)) as [E|(st1 & st2 & E1 & E2 & HI2 & _)].
    + rewrite E. rthen_red. apply res_ok. exact HI.
    + rewrite E1. rthen_red. rewrite E2. apply res_ok. exact HI2.
  - (* RData *)
    destruct Hl as (Hp0 & Hp1 & Hsz).
    destruct (rfind key (k_strs st)) as [s|] eqn:F; [|exact I].
    pose proof (RInvD_rok _ _ _ _ HI F) as ((K1 & K2 & K3 & K4 & K5 & K6 & K7) & KL).
    pose proof (rfind_id _ _ _ F) as Hid.
    destruct k.
    + (* DIgnore *)
      destruct (consume_release_spec d st sz HI ltac:(lia)) as [E|(st1 & st2 & E1 & E2 & HI2 & _)].
      * rewrite E. rthen_red. apply res_ok. exact HI.
      * rewrite E1. rthen_red. rewrite E2. apply res_ok. exact HI2.
    + (* DProtoErr *) apply res_ok. exact HI.
    + (* DStreamErr *)
      destruct (consume_release_spec d st sz HI ltac:(lia)) as [E|(st1 & st2 & E1 & E2 & HI2 & _)].
      * rewrite E. rthen_red. apply res_ok. exact HI.
      * rewrite E1. rthen_red. rewrite E2. apply res_ok. exact HI2.
    + (* DConnErr *)
      destruct (consume_release_spec d st sz HI ltac:(lia)) as [E|(st1 & st2 & E1 & E2 & _ & HI1)].
      * rewrite E. rthen_red. apply res_ok. exact HI.
      * rewrite E1. rthen_red. apply (res_err d (d + sz)); [lia|exact HI1|reflexivity].
    + (* DNoRecv *)
      destruct isrecv; [exact I|].
      destruct (consume_release_spec d st sz HI ltac:(lia)) as [E|(st1 & st2 & E1 & E2 & HI2 & _)].
      * rewrite E. rthen_red. apply res_ok. exact HI.
      * rewrite E1. rthen_red. destruct (ras_size (r_win s) <? sz); [exact I|].
        rewrite E2. apply res_ok. exact HI2.
    + (* DCharged *)
      destruct isrecv; cbn [negb]; [|exact I].
      destruct (r_isrecv s) eqn:ER; cbn [negb]; [|exact I].
      destruct (consume_conn_spec d st sz HI ltac:(lia)) as [E|(E & HI1 & Hw)].
      { rewrite E. rthen_red. apply res_ok. exact HI. }
      rewrite E. rthen_red.
      destruct (ras_size (r_win s) <? sz) eqn:E1; [exact I|].
      destruct (negb (in_i32r (r_win s - sz)) || negb (in_i32r (r_avail s - sz))) eqn:E2.
      { apply (res_err d (d + sz)); [lia|exact HI1|reflexivity]. }
      set (st1 := kset_flow st (k_win st - sz) (k_avail st - sz) (k_infl st + sz)) in *.
      set (s2 := mkR (r_id s) (r_win s - sz) (r_avail s - sz) (r_infl s + sz) (r_pend s) true
                     (r_base s) (r_done s) (r_unl s)).
      assert (F2 : rfind (r_id s2) (k_strs st) = Some s) by (unfold s2; simp_r; rewrite Hid; exact F).
      assert (Hok2 : rok (k_init st) s2).
      { split.
        - unfold s2; apply rokb_intro; unfold rQ; simp_r; [rlia|rlia|rlia| |rlia|rlia|].
          + intros _ A2 A3. specialize (K4 eq_refl A2 A3). lia.
          + intros _ A2 A3 A4 Hu. assert (sz = 0) by lia. subst sz.
            replace (r_win s - 0) with (r_win s) in Hu by lia.
            replace (r_avail s - 0) with (r_avail s) in Hu by lia.
            apply (K7 ER A2 A3); [lia|exact Hu].
        - unfold s2, rlink; simp_r. intros A. specialize (KL A). rlia. }
      assert (D10 : RMINW <= k_avail st - sz).
      { destruct HI1 as (_ & _ & _ & _ & _ & _ & _ & _ & _ & X & _). exact X. }
      assert (HI2 : RInvD d (kput st1 s2)).
      { unfold st1. simp_r. apply (RInvD_upd d st s); auto; try rlia. unfold s2; simp_r; lia. }
      destruct (0 <? sz - payload) eqn:EP; [|apply res_ok; exact HI2].
      assert (F3 : rfind key (k_strs (kput st1 s2)) = Some s2).
      { unfold st1. simp_r. rewrite <- Hid. apply (rfind_rupd_same s2 _ s). exact F2. }
      destruct (release_stream_spec d _ key (sz - payload) s2 HI2 ltac:(lia) F3) as [(A & _)|(_ & st3 & E3 & HI3)].
      { exfalso. unfold s2 in A; simp_r. lia. }
      rewrite E3. apply res_ok. exact HI3.
  - (* RRelease *)
    destruct (rfind key (k_strs st)) as [s|] eqn:F.
    + destruct (release_stream_spec d st key cap s HI ltac:(lia) F) as [(_ & E)|(_ & st' & E & HI')];
        rewrite E; apply res_ok; assumption.
    + unfold release_stream. rewrite F. exact I.
  - (* RClear *)
    destruct (rfind key (k_strs st)) as [s|] eqn:F; [|exact I].
    destruct isrecv; [exact I|].
    destruct (r_infl s <? tr) eqn:E; [exact I|].
    pose proof (RInvD_rok _ _ _ _ HI F) as ((K1 & K2 & K3 & K4 & K5 & K6 & K7) & KL).
    pose proof (RInvD_infl_ge _ _ _ _ HI F) as Hge.
    pose proof (rfind_id _ _ _ F) as Hid.
    set (s' := mkR (r_id s) (r_win s) (r_avail s) (r_infl s - tr) (r_pend s) false (r_base s) (r_done s) (r_unl s)).
    assert (F' : rfind (r_id s') (k_strs st) = Some s) by (unfold s'; simp_r; rewrite Hid; exact F).
    assert (Hok : rok (k_init st) s').
    { split.
      - unfold s'; apply rokb_intro; unfold rQ; simp_r;
          [lia|lia|lia|intros A; discriminate A|lia|lia|intros A; discriminate A].
      - unfold s', rlink; simp_r. exact KL. }
    destruct (0 <? tr) eqn:E0.
    + rewrite release_conn_eq by (simp_r; rlia).
      apply res_ok. simp_r. apply (RInvD_upd d st s); auto; try rlia. unfold s'; simp_r; lia.
    + apply res_ok. simp_r. apply (RInvD_upd d st s); auto; try rlia. unfold s'; simp_r; lia.
  - (* RReleaseClosed *)
    destruct (rfind key (k_strs st)) as [s|] eqn:F; [|exact I].
    pose proof (RInvD_rok _ _ _ _ HI F) as ((K1 & K2 & K3 & K4 & K5 & K6 & K7) & KL).
    pose proof (RInvD_infl_ge _ _ _ _ HI F) as Hge.
    pose proof (rfind_id _ _ _ F) as Hid.
    set (s' := mkR (r_id s) (r_win s) (r_avail s) 0 (r_pend s) (r_isrecv s) (r_base s) true (r_unl s)).
    assert (F' : rfind (r_id s') (k_strs st) = Some s) by (unfold s'; simp_r; rewrite Hid; exact F).
    assert (Hok : rok (k_init st) s').
    { split.
      - unfold s'; apply rokb_intro; unfold rQ; simp_r;
          [lia|lia|lia|intros _ A; discriminate A|lia|lia|intros _ A; discriminate A].
      - unfold s', rlink; simp_r. exact KL. }
    destruct (r_infl s =? 0) eqn:E0.
    + apply res_ok. simp_r. apply (RInvD_upd d st s); auto; try rlia. unfold s'; simp_r; lia.
    + rewrite release_conn_eq by (simp_r; rlia).
      apply res_ok. simp_r. apply (RInvD_upd d st s); auto; try rlia. unfold s'; simp_r; lia.
  - (* RSetTarget *)
    cbv zeta.
    destruct (negb (in_i32r (k_avail st + k_infl st))) eqn:E0; [apply res_ok; exact HI|].
    destruct (k_avail st + k_infl st <? 0) eqn:E1; [exfalso; lia|].
    set (a := if k_avail st + k_infl st <? target
              then k_avail st + (target - (k_avail st + k_infl st))
              else k_avail st - (k_avail st + k_infl st - target)).
    assert (Ha : a = target - k_infl st) by (unfold a; destruct (k_avail st + k_infl st <? target); lia).
    destruct (negb (in_i32r a)) eqn:E2; [apply res_ok; exact HI|].
    apply res_ok. unfold RInvD, RInvG. simp_r. repeat apply conj; auto; rlia.
  - (* RApplySettings *)
    destruct (negb (nodup_keysr touched)) eqn:EN; [exact I|]. apply negb_false_iff in EN.
    cbv zeta.
    destruct (new_init - k_init st =? 0) eqn:E0.
    + destruct touched; [|exact I]. apply res_ok.
      assert (new_init = k_init st) as -> by lia.
      unfold RInvD, RInvG in *. simp_r. repeat apply conj; auto.
    + set (st0 := mkK (k_win st) (k_avail st) (k_infl st) new_init (k_target st) (k_strs st)).
      assert (HI0 : RInvG rokb d st0).
      { unfold st0, RInvG. simp_r. repeat apply conj; auto; try lia.
        apply (Forall_impl rokb (P := rok (k_init st))); [intros x Hx; apply Hx|exact C12]. }
      assert (Hlink0 : forall k s, rfind k (k_strs st0) = Some s -> mem_key k touched = true -> rlink (k_init st) s).
      { intros k s F _. unfold st0 in F; simp_r. apply (RInvD_rok _ _ _ _ HI F). }
      pose proof (settings_streams_ok d (k_init st) (new_init - k_init st) touched st0 HI0
                    ltac:(reflexivity) ltac:(lia) EN Hlink0) as X.
      destruct (settings_streams st0 (new_init - k_init st) touched) as [st1 o|n|n]; [|exact I|exact X].
      destruct X as (-> & HI1 & Hinit & Hpost).
      cbn [rhas_conn_err existsb]. apply res_ok.
      destruct HI1 as (D1 & D2 & D3 & D4 & D5 & D6 & D7 & D8 & D9 & D10 & D11 & D12).
      unfold RInvD, RInvG. simp_r. rewrite mark_done_sum, mark_done_ids.
      repeat apply conj; auto.
      apply rfind_Forall; [rewrite mark_done_ids; exact D11|].
      intros k x Fx. rewrite rfind_mark_done in Fx.
      destruct (rfind k (k_strs st1)) as [s1|] eqn:F1; [|discriminate].
      inversion Fx; subst x.
      pose proof (Forall_rfind _ _ D12 _ _ F1) as (K1 & K2 & K3 & K4 & K5 & K6 & K7).
      pose proof (rfind_id _ _ _ F1) as Hid.
      specialize (Hpost k s1 F1). unfold mark1. rewrite Hid.
      destruct (mem_key k touched).
      * split; [repeat apply conj; assumption|]. rewrite Hinit. unfold st0 in Hpost; simp_r. exact Hpost.
      * split.
        -- apply rokb_intro; unfold rQ; simp_r;
             [lia|lia|lia|intros _ _ A; discriminate A|lia|lia|intros _ _ A; discriminate A].
        -- unfold rlink; simp_r. intros A; discriminate A.
  - (* RConnWU *)
    destruct (unclaimed (k_win st) (k_avail st)) as [incr|] eqn:EU; [|exact I].
    apply unclaimed_some in EU. destruct EU as (-> & U1 & U2).
    rewrite in_i32r_true by rlia. cbn [negb orb].
    destruct (RMAXW <? k_win st + (k_avail st - k_win st)) eqn:EM; [exfalso; lia|].
    apply res_ok. apply (RInvD_flow d); auto; lia.
  - (* RStreamWUPop *)
    destruct (rfind key (k_strs st)) as [s|] eqn:F; [|exact I].
    pose proof (RInvD_rok _ _ _ _ HI F) as ((K1 & K2 & K3 & K4 & K5 & K6 & K7) & KL).
    pose proof (rfind_id _ _ _ F) as Hid.
    destruct streaming; cbn [negb].
    + destruct (unclaimed (r_win s) (r_avail s)) as [incr|] eqn:EU.
      * pose proof (unclaimed_some _ _ _ EU) as (-> & U1 & U2).
        rewrite in_i32r_true by rlia. cbn [negb orb].
        destruct (RMAXW <? r_win s + (r_avail s - r_win s)) eqn:EM; [exfalso; lia|].
        apply res_ok. apply (RInvD_kput d st s); [exact HI|simp_r; rewrite Hid; exact F| |reflexivity].
        split.
        -- apply rokb_intro; unfold rQ; simp_r; [rlia|rlia|rlia|exact K4|rlia|rlia|].
           intros _ _ _ _ Hu. exfalso. apply Hu.
           replace (r_win s + (r_avail s - r_win s)) with (r_avail s) by lia. apply unclaimed_refl.
        -- unfold rlink; simp_r. intros A. specialize (KL A). lia.
      * apply res_ok. apply (RInvD_kput d st s); [exact HI|simp_r; rewrite Hid; exact F| |reflexivity].
        split.
        -- apply rokb_intro; unfold rQ; simp_r; [rlia|rlia|rlia|exact K4|rlia|rlia|].
           intros _ _ _ _ Hu. exfalso. apply Hu. exact EU.
        -- unfold rlink; simp_r. exact KL.
    + apply res_ok. apply (RInvD_kput d st s); [exact HI|simp_r; rewrite Hid; exact F| |reflexivity].
      split.
      * apply rokb_intro; unfold rQ; simp_r;
          [rlia|rlia|rlia|intros _ A; discriminate A|rlia|rlia|intros _ A; discriminate A].
      * unfold rlink; simp_r. exact KL.
Qed.
