(* C02: every run of the send-flow model is accepted by the RFC 9113 6.9 accountant. *)
From H2V Require Import Base.Tac Model.SendFlow Ref.Accountant
     Proofs.SendFlowLists Proofs.SendFlowInv Proofs.SendFlowView.
Local Open Scope Z_scope.

(* wire-level events of one label *)
Definition data_evs (outs : list out) : list wev :=
  flat_map (fun o => match o with OData k len => [WData k len] | _ => [] end) outs.

Definition wevs (l : label) (outs : list out) : list wev :=
  match l with
  | LNew key _ => [WOpen key]
  | LRecvStreamWU key _ inc => [WGrant key inc]
  | LRecvConnWU inc _ => [WGrantConn inc]
  | LApplySettings new _ _ => [WInit new]
  | _ => data_evs outs
  end.

(* per-record part of the simulation, stated on the window view *)
Definition rs_ok (a : acct) (p : N * (Z * bool)) : Prop :=
  snd (snd p) = false ->
  exists c sn, a_find (fst p) (a_streams a) = Some (c, sn) /\ fst (snd p) <= c - sn.

Definition R (st : fstate) (a : acct) : Prop :=
  c_win st <= a_credit a - a_sent a /\ c_init st = a_init a /\ Forall (rs_ok a) (map sproj (c_strs st)).

Lemma R_view st st' a : wview st' = wview st -> R st a -> R st' a.
Proof.
  unfold wview, R. intros E (A & B & C). inversion E as [[E1 E2 E3]]. rewrite E1, E2, E3. auto.
Qed.

Lemma data_evs_quiet outs : quiet outs -> data_evs outs = [].
Proof.
  intros (Q & _). unfold data_evs. induction outs as [|x outs IH]; cbn [flat_map]; [reflexivity|].
  rewrite IH by (intros k len H; apply (Q k len); right; exact H).
  destruct x; try reflexivity. exfalso. apply (Q sid len). left. reflexivity.
Qed.

Lemma shuffle_sim st a r :
  R st a -> shuffle_ok st r ->
  match r with
  | Ok st' outs => acct_run a (data_evs outs) = Some a /\ R st' a /\ has_conn_err outs = false
  | _ => True
  end.
Proof.
  intros HR. destruct r as [st' outs| |]; cbn [shuffle_ok]; auto.
  intros (V & Q). rewrite (data_evs_quiet _ Q). cbn [acct_run].
  split; [reflexivity|]. split; [eapply R_view; eauto|apply Q].
Qed.

(* accountant lookups *)
Lemma a_find_upd_same key v l x : a_find key l = Some x -> a_find key (a_upd key v l) = Some v.
Proof.
  induction l as [|[k y] l IH]; cbn [a_find a_upd]; [discriminate|].
  destruct (N.eqb k key) eqn:E; cbn [a_find]; rewrite E; auto.
Qed.

Lemma a_find_upd_other key key' v l : key' <> key -> a_find key' (a_upd key v l) = a_find key' l.
Proof.
  intros Hne. induction l as [|[k y] l IH]; cbn [a_find a_upd]; [reflexivity|].
  destruct (N.eqb k key) eqn:E; cbn [a_find].
  - apply N.eqb_eq in E. subst k. destruct (N.eqb key key') eqn:E2; [apply N.eqb_eq in E2; congruence|reflexivity].
  - destruct (N.eqb k key'); auto.
Qed.

Lemma a_find_map delta key l :
  a_find key (map (fun kv : N * (Z * Z) => (fst kv, (fst (snd kv) + delta, snd (snd kv)))) l)
  = match a_find key l with Some (c, s) => Some (c + delta, s) | None => None end.
Proof.
  induction l as [|[k [c s]] l IH]; cbn [a_find map fst snd]; [reflexivity|].
  destruct (N.eqb k key); auto.
Qed.

(* generic update of one record's window in the view *)
Lemma Forall_rs_weaken a a' v :
  (forall p, rs_ok a p -> rs_ok a' p) -> Forall (rs_ok a) v -> Forall (rs_ok a') v.
Proof. intros H. apply Forall_impl. exact H. Qed.

Lemma sproj_upd_other s' l :
  map sproj (upd_s s' l) =
  map (fun p => if N.eqb (fst p) (s_id s') then sproj s' else p) (map sproj l)
  \/ True.
Proof. right. exact I. Qed.

Lemma In_sproj_upd s' l p :
  NoDup (map s_id l) -> In p (map sproj (upd_s s' l)) ->
  p = sproj s' \/ (In p (map sproj l) /\ fst p <> s_id s').
Proof.
  induction l as [|x l IH]; cbn [upd_s map]; intros ND HIn; [destruct HIn|].
  inversion ND as [|? ? Hn ND']; subst.
  destruct (N.eqb (s_id x) (s_id s')) eqn:E.
  - cbn [map In] in HIn. destruct HIn as [H|H]; [left; auto|].
    right. split; [right; exact H|].
    apply N.eqb_eq in E. intros Heq. apply Hn. rewrite E, <- Heq.
    apply in_map_iff in H. destruct H as (y & Hy & HyIn). subst p. cbn [sproj fst].
    apply in_map. exact HyIn.
  - cbn [map In] in HIn. destruct HIn as [H|H].
    + right. split; [left; exact H|]. subst p. cbn [sproj fst]. apply N.eqb_neq. exact E.
    + destruct (IH ND' H) as [H1|(H1 & H2)]; [left; exact H1|right; split; [right; exact H1|exact H2]].
Qed.

Definition events_ok (a : acct) (es : list wev) (st' : fstate) : Prop :=
  exists a', acct_run a es = Some a' /\ R st' a'.

Lemma In_sproj_key p l : In p (map sproj l) -> In (fst p) (map s_id l).
Proof.
  intros H. apply in_map_iff in H. destruct H as (y & Hy & HyIn). subst p. cbn [sproj fst].
  apply in_map. exact HyIn.
Qed.

Lemma rs_ok_same_streams a a' p :
  a_find (fst p) (a_streams a') = a_find (fst p) (a_streams a) -> rs_ok a p -> rs_ok a' p.
Proof. unfold rs_ok. intros E H Hd. rewrite E. auto. Qed.

(* replace one record by one with a different window: the other records keep their entries *)
Lemma R_streams_upd st a a' s s' :
  NoDup (map s_id (c_strs st)) -> find_s (s_id s') (c_strs st) = Some s ->
  Forall (rs_ok a) (map sproj (c_strs st)) ->
  (forall k, k <> s_id s' -> a_find k (a_streams a') = a_find k (a_streams a)) ->
  rs_ok a' (sproj s') ->
  Forall (rs_ok a') (map sproj (upd_s s' (c_strs st))).
Proof.
  intros ND F HF Hother Hnew. apply Forall_forall. intros p Hp.
  destruct (In_sproj_upd s' _ p ND Hp) as [->|(Hin & Hne)]; [exact Hnew|].
  rewrite Forall_forall in HF. apply (rs_ok_same_streams a a'); [apply Hother; exact Hne|apply HF; exact Hin].
Qed.

(* ---- SETTINGS_INITIAL_WINDOW_SIZE change: loop invariants on the window view ---- *)

Lemma mem_touched_app k t1 t2 : mem_touched k (t1 ++ t2) = mem_touched k t1 || mem_touched k t2.
Proof.
  induction t1 as [|[x o] t1 IH]; cbn [app mem_touched]; [reflexivity|].
  rewrite IH. apply orb_assoc.
Qed.

(* [delta] is what the accountant adds to every stream credit (new - old); records whose key is
   in [done] have already received it *)
Definition pend_ok (a : acct) (delta : Z) (done : list (N * obs)) (p : N * (Z * bool)) : Prop :=
  snd (snd p) = false ->
  exists c sn, a_find (fst p) (a_streams a) = Some (c, sn) /\
    if mem_touched (fst p) done then fst (snd p) <= c + delta - sn else fst (snd p) <= c - sn.

Lemma pend_start a delta v : Forall (rs_ok a) v -> Forall (pend_ok a delta []) v.
Proof. apply Forall_impl. intros p H Hd. destruct (H Hd) as (c & sn & A & B). exists c, sn. auto. Qed.

Lemma pend_upd a delta done st s s' o :
  NoDup (map s_id (c_strs st)) -> find_s (s_id s') (c_strs st) = Some s ->
  mem_touched (s_id s') done = false ->
  Forall (pend_ok a delta done) (map sproj (c_strs st)) ->
  (s_dead s' = false -> s_dead s = false /\ s_win s' <= s_win s + delta) ->
  Forall (pend_ok a delta (done ++ [(s_id s', o)])) (map sproj (upd_s s' (c_strs st))).
Proof.
  intros ND F Hnd HF Hnew. apply Forall_forall. intros p Hp.
  destruct (In_sproj_upd s' _ p ND Hp) as [->|(Hin & Hne)].
  - unfold pend_ok, sproj. cbn [fst snd]. intros Hdead.
    destruct (Hnew Hdead) as (Hd0 & Hw).
    rewrite Forall_forall in HF.
    pose proof (HF (sproj s) (in_map sproj _ _ (find_s_In _ _ _ F))) as X.
    unfold pend_ok, sproj in X. cbn [fst snd] in X.
    rewrite (find_s_id _ _ _ F) in X. rewrite Hnd in X.
    destruct (X Hd0) as (c & sn & A & B). exists c, sn. split; [exact A|].
    rewrite mem_touched_app. cbn [mem_touched]. rewrite N.eqb_refl. rewrite orb_true_r. lia.
  - rewrite Forall_forall in HF. pose proof (HF p Hin) as X. unfold pend_ok in *. intros Hdead.
    destruct (X Hdead) as (c & sn & A & B). exists c, sn. split; [exact A|].
    rewrite mem_touched_app. cbn [mem_touched].
    destruct (N.eqb (s_id s') (fst p)) eqn:E; [apply N.eqb_eq in E; congruence|].
    rewrite orb_false_r. exact B.
Qed.

Lemma pend_view a delta done st st' :
  wview st' = wview st -> Forall (pend_ok a delta done) (map sproj (c_strs st)) ->
  Forall (pend_ok a delta done) (map sproj (c_strs st')).
Proof. unfold wview. intros E H. inversion E as [[E1 E2 E3]]. rewrite E3. exact H. Qed.

Lemma ids_view st st' : wview st' = wview st -> map s_id (c_strs st') = map s_id (c_strs st).
Proof.
  unfold wview. intros E. inversion E as [[E1 E2 E3]].
  assert (X : forall l, map s_id l = map fst (map sproj l)).
  { intros l. rewrite map_map. apply map_ext. reflexivity. }
  rewrite !X, E3. reflexivity.
Qed.

Lemma settings_dec_pend a dec touched : forall st total done st1 outs total',
  0 <= dec -> NoDup (map s_id (c_strs st)) ->
  (forall k, mem_touched k done = true -> mem_touched k touched = false) -> nodup_keys touched = true ->
  Forall (pend_ok a (- dec) done) (map sproj (c_strs st)) ->
  settings_dec st dec total touched = (Ok st1 outs, total') -> outs = [] ->
  Forall (pend_ok a (- dec) (done ++ touched)) (map sproj (c_strs st1)) /\
  c_win st1 = c_win st /\ c_init st1 = c_init st /\ map s_id (c_strs st1) = map s_id (c_strs st).
Proof.
  induction touched as [|[sid o] t IH]; intros st total done st1 outs total' Hdec ND Hdis Hnd HP E Ho;
    cbn [settings_dec] in E.
  - inversion E; subst. rewrite app_nil_r. auto.
  - destruct (find_s sid (c_strs st)) as [s|] eqn:F; [|discriminate].
    pose proof (find_s_id _ _ _ F) as Hid.
    destruct (negb (in_i32 (s_win s - dec))); [inversion E; subst; discriminate|].
    cbn [nodup_keys] in Hnd. apply andb_true_iff in Hnd. destruct Hnd as (Hn1 & Hn2).
    apply negb_true_iff in Hn1.
    assert (Hdone : mem_touched sid done = false).
    { destruct (mem_touched sid done) eqn:Em; [|reflexivity].
      specialize (Hdis sid Em). cbn [mem_touched] in Hdis. rewrite N.eqb_refl in Hdis. discriminate. }
    assert (Step : forall s', s_id s' = sid -> s_win s' = s_win s - dec -> s_dead s' = s_dead s ->
              forall r, settings_dec (put st s') dec r t = (Ok st1 outs, total') ->
              Forall (pend_ok a (- dec) (done ++ (sid, o) :: t)) (map sproj (c_strs st1)) /\
              c_win st1 = c_win st /\ c_init st1 = c_init st /\ map s_id (c_strs st1) = map s_id (c_strs st)).
    { intros s' E1 E2 E3 r Er.
      assert (F' : find_s (s_id s') (c_strs st) = Some s) by (rewrite E1; exact F).
      pose proof (pend_upd a (- dec) done st s s' o ND F' ltac:(rewrite E1; exact Hdone) HP
                    ltac:(intros Hd; rewrite E3 in Hd; split; [exact Hd|lia])) as HP'.
      rewrite E1 in HP'.
      destruct (IH (put st s') r (done ++ [(sid, o)]) st1 outs total' Hdec) as (A & B & C & D); auto.
      - simp_s. rewrite upd_ids. exact ND.
      - intros k Hk. rewrite mem_touched_app in Hk. cbn [mem_touched] in Hk.
        apply orb_true_iff in Hk. destruct Hk as [Hk|Hk].
        + specialize (Hdis k Hk). cbn [mem_touched] in Hdis. apply orb_false_iff in Hdis. apply Hdis.
        + rewrite orb_false_r in Hk. apply N.eqb_eq in Hk. subst k. exact Hn1.
      - rewrite <- app_assoc in A. cbn [app] in A. split; [exact A|].
        simp_s. rewrite upd_ids in D. auto. }
    simp_s.
    destruct (as_size (s_win s - dec) <? as_size (s_avail s)).
    + eapply Step; [| | |exact E]; [cbn [s_id]; exact Hid|reflexivity|reflexivity].
    + eapply Step; [| | |exact E]; [cbn [s_id]; exact Hid|reflexivity|reflexivity].
Qed.

Lemma mark_untouched_pend a delta t l :
  Forall (pend_ok a delta t) (map sproj l) ->
  Forall (fun p => snd (snd p) = false ->
            exists c sn, a_find (fst p) (a_streams a) = Some (c, sn) /\ fst (snd p) <= c + delta - sn)
         (map sproj (mark_untouched t l)).
Proof.
  unfold mark_untouched. induction l as [|x l IH]; cbn [map]; intros H; [constructor|].
  inversion H as [|? ? Hx Hl]; subst. constructor; [|apply IH; exact Hl].
  destruct (mem_touched (s_id x) t) eqn:E.
  - unfold pend_ok, sproj in *. cbn [fst snd] in *. rewrite E in Hx. exact Hx.
  - unfold sproj. simp_s. cbn [fst snd]. discriminate.
Qed.

Lemma settings_inc_pend a inc touched : forall st outs0 done st1 outs,
  0 <= inc -> NoDup (map s_id (c_strs st)) ->
  (forall k, mem_touched k done = true -> mem_touched k touched = false) -> nodup_keys touched = true ->
  Forall (pend_ok a inc done) (map sproj (c_strs st)) ->
  settings_inc st outs0 inc touched = Ok st1 outs -> has_conn_err outs = false ->
  Forall (pend_ok a inc (done ++ touched)) (map sproj (c_strs st1)) /\
  c_win st1 = c_win st /\ c_init st1 = c_init st.
Proof.
  induction touched as [|[sid o] t IH]; intros st outs0 done st1 outs Hinc ND Hdis Hnd HP E Herr;
    cbn [settings_inc] in E.
  - inversion E; subst. rewrite app_nil_r. auto.
  - cbn [nodup_keys] in Hnd. apply andb_true_iff in Hnd. destruct Hnd as (Hn1 & Hn2).
    apply negb_true_iff in Hn1.
    assert (Hdone : mem_touched sid done = false).
    { destruct (mem_touched sid done) eqn:Em; [|reflexivity].
      specialize (Hdis sid Em). cbn [mem_touched] in Hdis. rewrite N.eqb_refl in Hdis. discriminate. }
    assert (Hdis' : forall k, mem_touched k (done ++ [(sid, o)]) = true -> mem_touched k t = false).
    { intros k Hk. rewrite mem_touched_app in Hk. cbn [mem_touched] in Hk.
      apply orb_true_iff in Hk. destruct Hk as [Hk|Hk].
      + specialize (Hdis k Hk). cbn [mem_touched] in Hdis. apply orb_false_iff in Hdis. apply Hdis.
      + rewrite orb_false_r in Hk. apply N.eqb_eq in Hk. subst k. exact Hn1. }
    unfold recv_stream_wu in E.
    destruct (find_s sid (c_strs st)) as [s|] eqn:F; [|discriminate].
    pose proof (find_s_id _ _ _ F) as Hid.
    assert (Next : forall stm s' om, s_id s' = sid ->
              (s_dead s' = false -> s_dead s = false /\ s_win s' <= s_win s + inc) ->
              wview stm = wview (put st s') ->
              settings_inc stm om inc t = Ok st1 outs ->
              Forall (pend_ok a inc (done ++ (sid, o) :: t)) (map sproj (c_strs st1)) /\
              c_win st1 = c_win st /\ c_init st1 = c_init st).
    { intros stm s' om E1 E2 V Em.
      assert (F' : find_s (s_id s') (c_strs st) = Some s) by (rewrite E1; exact F).
      pose proof (pend_upd a inc done st s s' o ND F' ltac:(rewrite E1; exact Hdone) HP E2) as HP'.
      rewrite E1 in HP'.
      assert (HPm : Forall (pend_ok a inc (done ++ [(sid, o)])) (map sproj (c_strs stm))).
      { apply (pend_view a inc _ (put st s') stm V). simp_s. exact HP'. }
      destruct (IH stm om (done ++ [(sid, o)]) st1 outs Hinc) as (A & B & C); auto.
      - rewrite (ids_view _ _ V). simp_s. rewrite upd_ids. exact ND.
      - rewrite <- app_assoc in A. cbn [app] in A. split; [exact A|].
        unfold wview in V. inversion V as [[V1 V2 V3]]. simp_s. split; congruence. }
    destruct (o_send_closed o && (s_buf s =? 0)).
    + (* marked dead *)
      apply (Next (put st (set_dead s)) (set_dead s) (outs0 ++ []));
        [simp_s; exact Hid|simp_s; discriminate|reflexivity|exact E].
    + destruct (negb (in_i32 (s_win s + inc)) || (MAXW <? s_win s + inc)).
      * (* stream error => connection error in the output *)
        inversion E; subst. rewrite !has_conn_err_app in Herr. cbn [has_conn_err] in Herr.
        rewrite !orb_true_r in Herr. discriminate.
      * set (s' := set_win s (s_win s + inc)) in *.
        pose proof (try_assign_shuffle (put st s') sid o) as X.
        destruct (try_assign (put st s') sid o) as [stm o1| |] eqn:Et; try discriminate.
        cbn [shuffle_ok] in X. destruct X as (V & Q).
        assert (Ho1 : match o1 with OStreamErr _ :: _ => False | _ => True end).
        { destruct o1 as [|x o1]; [exact I|]. destruct x; try exact I.
          destruct Q as (_ & Q2). cbn [has_conn_err] in Q2.
          (* a try_assign output never starts with a stream error: its outputs are notifications *)
          exfalso. clear -Et. unfold try_assign in Et.
          destruct (find_s sid (c_strs (put st s'))) as [sx|]; [|discriminate].
          destruct (o_pending_open o); [inversion Et|].
          destruct (s_req sx <? as_size (s_avail sx)); [discriminate|].
          destruct (as_size (s_win sx) <? as_size (s_avail sx)); [discriminate|].
          match type of Et with (if ?c then _ else _) = _ => destruct c; [inversion Et|] end.
          match type of Et with (if ?c then _ else _) = _ => destruct c; [inversion Et|] end.
          match type of Et with (if ?c then _ else _) = _ => destruct c; [|inversion Et] end.
          match type of Et with (if ?c then _ else _) = _ => destruct c; [discriminate|] end.
          match type of Et with context [notify_if_up ?A ?B ?C] => destruct (notify_if_up A B C) as [s1 ox] eqn:En end.
          match type of Et with (if ?c then _ else _) = _ => destruct c; [discriminate|] end.
          inversion Et; subst. unfold notify_if_up in En.
          match type of En with (if ?c then _ else _) = _ => destruct c; inversion En end. }
        assert (Em : settings_inc stm (outs0 ++ o1) inc t = Ok st1 outs).
        { destruct o1 as [|x o1]; [exact E|]. destruct x; try exact E. destruct Ho1. }
        apply (Next stm s' (outs0 ++ o1));
          [unfold s'; simp_s; exact Hid|unfold s'; simp_s; intros Hd; split; [exact Hd|lia]|exact V|exact Em].
Qed.

Theorem step_sim d st a l st' outs :
  0 <= d -> InvD d st -> R st a -> label_ok l ->
  step st l = Ok st' outs -> has_conn_err outs = false ->
  events_ok a (wevs l outs) st'.
Proof.
  intros Hd HI HR Hl Hstep Herr. unfold events_ok.
  pose proof HI as (H1 & H2 & H3 & H4 & H5 & H6 & H7 & H8).
  pose proof HR as (R1 & R2 & R3).
  assert (Shuffle : forall r, shuffle_ok st r -> r = Ok st' outs -> events_ok a (data_evs outs) st').
  { intros r Hs ->. pose proof (shuffle_sim st a _ HR Hs) as (A & B & _). exists a. split; assumption. }
  destruct l as [sid init|sid|sid o sz eos vs|sid o cap vs|sid o inc|inc vs|sid o isr qe vs|sid vs|sid o vs
                |new touched vs|sid sz mx|sid o|sid|sid|sid|sid o]; cbn [step label_ok wevs] in *.
  - (* LNew *)
    destruct (find_s sid (c_strs st)) eqn:F; [discriminate|].
    destruct (negb ((init =? c_init st) || (init =? 0))) eqn:E; [discriminate|].
    apply negb_false_iff, orb_true_iff in E.
    inversion Hstep; subst. cbn [acct_run acct_step].
    eexists. split; [reflexivity|]. unfold R. simp_s. cbn [a_credit a_sent a_init a_streams map].
    repeat split; auto. constructor.
    + unfold rs_ok, sproj. cbn [fst snd a_streams a_find]. intros _. rewrite N.eqb_refl.
      exists (a_init a), 0. split; [reflexivity|]. cbn [fst snd s_win]. destruct E as [E|E]; lia.
    + apply Forall_forall. intros p Hp Hdead. rewrite Forall_forall in R3.
      destruct (R3 p Hp Hdead) as (c & sn & A & B).
      cbn [a_streams a_find].
      destruct (N.eqb sid (fst p)) eqn:Ek.
      * exfalso. apply N.eqb_eq in Ek. apply (find_s_none_notin _ _ F). rewrite Ek.
        apply In_sproj_key. exact Hp.
      * exists c, sn. split; assumption.
  - (* LRemove *)
    destruct (find_s sid (c_strs st)) as [s|] eqn:F; [|discriminate].
    destruct (s_avail s =? 0); [|discriminate].
    inversion Hstep; subst. cbn [data_evs flat_map acct_run]. exists a. split; [reflexivity|].
    unfold R. simp_s. repeat split; auto.
    apply Forall_forall. intros p Hp. rewrite Forall_forall in R3. apply R3.
    clear -Hp. induction (c_strs st) as [|x l IH]; cbn [del_s map] in *; [destruct Hp|].
    destruct (N.eqb (s_id x) sid); [right; exact Hp|].
    cbn [map In] in Hp. destruct Hp as [H|H]; [left; exact H|right; auto].
  - (* LSendData *)
    destruct (find_s sid (c_strs st)) as [s|] eqn:F; [|discriminate].
    destruct (MAXW <? sz); [inversion Hstep; subst; exists a; split; [reflexivity|exact HR]|].
    destruct (negb (o_streaming o)); [inversion Hstep; subst; exists a; split; [reflexivity|exact HR]|].
    destruct (s_dead s); [discriminate|].
    pose proof (find_s_id _ _ _ F) as Hid.
    set (s1 := set_bufq s (s_buf s + sz) (s_frames s ++ [sz])) in *.
    assert (V1 : forall sx, s_id sx = s_id s -> s_win sx = s_win s -> s_dead sx = s_dead s ->
                 wview (put st sx) = wview st).
    { intros sx E1 E2 E3. apply (wview_put st s sx); [rewrite E1, Hid; exact F|exact E2|exact E3]. }
    assert (R1s : shuffle_ok st
                   (if s_req s1 <? s_buf s1
                    then try_assign (put st (set_req s1 (Z.min (s_buf s1) U32MAX))) sid o
                    else Ok (put st s1) [])).
    { destruct (s_req s1 <? s_buf s1).
      - apply (shuffle_view st (put st (set_req s1 (Z.min (s_buf s1) U32MAX)))); [|apply try_assign_shuffle].
        apply V1; unfold s1; simp_s; reflexivity.
      - split; [apply V1; unfold s1; simp_s; reflexivity|apply quiet_nil]. }
    destruct eos.
    + eapply Shuffle; [|exact Hstep].
      apply bind_shuffle; [exact R1s|]. intros st1 o1 Hq. apply add_outs_shuffle; [exact Hq|apply reserve_shuffle].
    + destruct vs; [|discriminate]. eapply Shuffle; [exact R1s|exact Hstep].
  - (* LReserve *) eapply Shuffle; [apply reserve_shuffle|exact Hstep].
  - (* LRecvStreamWU *)
    unfold recv_stream_wu in Hstep.
    destruct (find_s sid (c_strs st)) as [s|] eqn:F; [|discriminate].
    pose proof (find_s_id _ _ _ F) as Hid.
    subst sid. cbn [acct_run acct_step].
    destruct (o_send_closed o && (s_buf s =? 0)).
    + (* marked dead: the record imposes no obligation any more *)
      inversion Hstep; subst.
      destruct (a_find (s_id s) (a_streams a)) as [[c sn]|] eqn:Fa.
      * cbn [acct_run acct_step]. try rewrite Fa. eexists. split; [reflexivity|]. unfold R. simp_s. cbn [a_credit a_sent a_init a_streams].
        repeat split; auto.
        apply (R_streams_upd st a _ s (set_dead s) H8); [simp_s; exact F|exact R3| |].
        -- intros k Hk. cbn [a_streams]. apply a_find_upd_other. simp_s. exact Hk.
        -- unfold rs_ok, sproj; simp_s. cbn [fst snd]. discriminate.
      * cbn [acct_run acct_step]. try rewrite Fa. exists a. split; [reflexivity|]. unfold R. simp_s. repeat split; auto.
        apply (R_streams_upd st a a s (set_dead s) H8); [simp_s; exact F|exact R3|auto|].
        unfold rs_ok, sproj; simp_s. cbn [fst snd]. discriminate.
    + destruct (negb (in_i32 (s_win s + inc)) || (MAXW <? s_win s + inc)) eqn:E.
      * (* stream error: window unchanged, credit grows *)
        inversion Hstep; subst.
        destruct (a_find (s_id s) (a_streams a)) as [[c sn]|] eqn:Fa.
        -- cbn [acct_run acct_step]. try rewrite Fa. eexists. split; [reflexivity|]. unfold R. cbn [a_credit a_sent a_init a_streams].
           repeat split; auto.
           apply Forall_forall. intros p Hp Hdead. rewrite Forall_forall in R3.
           destruct (R3 p Hp Hdead) as (c' & sn' & A & B).
           destruct (N.eq_dec (fst p) (s_id s)) as [Ek|Ek].
           ++ rewrite Ek in *. rewrite Fa in A. inversion A; subst.
              exists (c' + inc), sn'. split; [cbn [a_streams]; apply (a_find_upd_same _ _ _ _ Fa)|lia].
           ++ exists c', sn'. split; [cbn [a_streams]; rewrite a_find_upd_other; auto|exact B].
        -- cbn [acct_run acct_step]. try rewrite Fa. exists a. split; [reflexivity|exact HR].
      * apply orb_false_iff in E. destruct E as (E1 & E2).
        set (s' := set_win s (s_win s + inc)) in *.
        pose proof (try_assign_shuffle (put st s') (s_id s) o) as X.
        rewrite Hstep in X. cbn [shuffle_ok] in X. destruct X as (V & Q).
        assert (RR : forall a', c_win st <= a_credit a' - a_sent a' -> c_init st = a_init a' ->
                      Forall (rs_ok a') (map sproj (upd_s s' (c_strs st))) -> R st' a').
        { intros a' A B C. apply (R_view (put st s') st' a' V). unfold R. simp_s. auto. }
        destruct (a_find (s_id s) (a_streams a)) as [[c sn]|] eqn:Fa.
        -- cbn [acct_run acct_step]. try rewrite Fa. eexists. split; [reflexivity|].
           apply RR; cbn [a_credit a_sent a_init a_streams]; auto.
           apply (R_streams_upd st a _ s s' H8); [unfold s'; simp_s; exact F|exact R3| |].
           ++ intros k Hk. cbn [a_streams]. apply a_find_upd_other. unfold s' in Hk; simp_s. exact Hk.
           ++ unfold rs_ok, sproj, s'; simp_s. cbn [fst snd a_streams]. intros Hdead.
              rewrite (a_find_upd_same _ _ _ _ Fa). exists (c + inc), sn. split; [reflexivity|].
              rewrite Forall_forall in R3.
              destruct (R3 (sproj s) (in_map sproj _ _ (find_s_In _ _ _ F)) Hdead) as (c' & sn' & A & B).
              cbn [sproj fst snd] in A, B. rewrite Fa in A. inversion A; subst. lia.
        -- cbn [acct_run acct_step]. try rewrite Fa. exists a. split; [reflexivity|].
           apply RR; auto.
           apply (R_streams_upd st a a s s' H8); [unfold s'; simp_s; exact F|exact R3|auto|].
           unfold rs_ok, sproj, s'; simp_s. cbn [fst snd]. intros Hdead.
           rewrite Forall_forall in R3.
           destruct (R3 (sproj s) (in_map sproj _ _ (find_s_In _ _ _ F)) Hdead) as (c' & sn' & A & B).
           cbn [sproj fst snd] in A. rewrite Fa in A. discriminate.
  - (* LRecvConnWU *)
    cbn [acct_run acct_step].
    destruct (negb (in_i32 (c_win st + inc)) || (MAXW <? c_win st + inc)) eqn:E.
    + inversion Hstep; subst. cbn [has_conn_err] in Herr. discriminate.
    + pose proof (assign_conn_shuffle (set_cwin st (c_win st + inc)) inc vs) as X.
      rewrite Hstep in X. cbn [shuffle_ok] in X. destruct X as (V & Q).
      eexists. split; [reflexivity|].
      apply (R_view (set_cwin st (c_win st + inc)) st' _ V).
      unfold R. simp_s. cbn [a_credit a_sent a_init a_streams]. repeat split; auto; lia.
  - (* LSendReset *)
    destruct (find_s sid (c_strs st)) as [s|] eqn:F; [|discriminate].
    pose proof (find_s_id _ _ _ F) as Hid.
    eapply Shuffle; [|exact Hstep].
    destruct isr; [apply vs_nil_shuffle|].
    assert (V0 : wview (put st (set_parked s false)) = wview st).
    { apply (wview_put st s); simp_s; [rewrite Hid; exact F|reflexivity|reflexivity]. }
    assert (Qw : quiet (if s_parked s then [OWake sid] else [])).
    { destruct (s_parked s); [|apply quiet_nil]. split; [|reflexivity].
      intros k len [X|[]]. discriminate. }
    destruct (o_closed o && qe && (s_buf s =? 0)).
    { destruct vs; [|exact I]. split; [exact V0|exact Qw]. }
    apply add_outs_shuffle; [exact Qw|].
    apply (shuffle_view st (put st (set_parked s false)) _ V0).
    apply bind_shuffle.
    + apply clear_queue_shuffle.
    + intros st1 o1 Hq. apply add_outs_shuffle; [exact Hq|apply reclaim_all_shuffle].
  - (* LHandleError *)
    eapply Shuffle; [|exact Hstep].
    apply bind_shuffle; [apply clear_queue_shuffle|].
    intros st1 o1 Hq. apply add_outs_shuffle; [exact Hq|apply reclaim_all_shuffle].
  - (* LImplicitReset *)
    eapply Shuffle; [|exact Hstep].
    destruct (o_closed o); [apply vs_nil_shuffle|apply reclaim_reserved_shuffle].
  - (* LApplySettings *)
    destruct (negb (nodup_keys touched)) eqn:End; [discriminate|]. apply negb_false_iff in End.
    cbn [acct_run acct_step].
    assert (P0 : forall delta, Forall (pend_ok a delta []) (map sproj (c_strs (set_cinit st new)))).
    { intros delta. apply pend_start. exact R3. }
    assert (Fin : forall stf delta,
              Forall (fun p => snd (snd p) = false ->
                        exists c sn, a_find (fst p) (a_streams a) = Some (c, sn) /\ fst (snd p) <= c + delta - sn)
                     (map sproj (c_strs stf)) ->
              c_win stf = c_win st -> c_init stf = new -> delta = new - a_init a ->
              R stf (mkA (a_credit a) (a_sent a) new
                         (map (fun kv : N * (Z * Z) => (fst kv, (fst (snd kv) + delta, snd (snd kv)))) (a_streams a)))).
    { intros stf delta HF E1 E2 E3. unfold R. cbn [a_credit a_sent a_init a_streams].
      repeat split; [lia|exact E2|].
      revert HF. apply Forall_impl. intros p Hp. unfold rs_ok. cbn [a_streams]. intros Hdead.
      destruct (Hp Hdead) as (c & sn & A & B). rewrite a_find_map, A. exists (c + delta), sn. auto. }
    destruct (new <? c_init st) eqn:E1.
    + destruct (settings_dec (set_cinit st new) (c_init st - new) 0 touched) as [r total] eqn:ES.
      destruct r as [st1 o1| |]; try discriminate.
      destruct o1 as [|x o1]; [|inversion Hstep; subst; clear -Herr ES;
        exfalso; revert ES; generalize (set_cinit st new) as s0, 0 as t0;
        induction touched as [|[k o] t IH]; intros s0 t0 ES; cbn [settings_dec] in ES; [discriminate|];
        destruct (find_s k (c_strs s0)); [|discriminate];
        destruct (negb (in_i32 _)); [inversion ES; subst; discriminate|];
        destruct (_ <? _); eapply IH; eauto].
      destruct (settings_dec_pend a (c_init st - new) touched (set_cinit st new) 0 [] st1 [] total
                  ltac:(lia) H8 ltac:(intros k Hk; discriminate) End (P0 _) ES eq_refl) as (A & B & C & D).
      cbn [app] in A.
      pose proof (assign_conn_shuffle (set_strs st1 (mark_untouched touched (c_strs st1))) total vs) as X.
      rewrite Hstep in X. cbn [shuffle_ok] in X. destruct X as (V & Q).
      eexists. split; [reflexivity|].
      apply (R_view (set_strs st1 (mark_untouched touched (c_strs st1))) st' _ V).
      apply (Fin _ (new - a_init a)); simp_s; auto.
      pose proof (mark_untouched_pend a (- (c_init st - new)) touched (c_strs st1) A) as M.
      replace (- (c_init st - new)) with (new - a_init a) in M by lia. exact M.
    + destruct (c_init st <? new) eqn:E2.
      * destruct vs; [|discriminate].
        destruct (settings_inc_pend a (new - c_init st) touched (set_cinit st new) [] [] st' outs
                    ltac:(lia) H8 ltac:(intros k Hk; discriminate) End (P0 _) Hstep Herr) as (A & B & C).
        cbn [app] in A.
        eexists. split; [reflexivity|].
        apply (Fin _ (new - a_init a)); simp_s; auto.
        revert A. apply Forall_impl. intros p Hp Hdead. destruct (Hp Hdead) as (c & sn & A1 & A2).
        exists c, sn. split; [exact A1|]. destruct (mem_touched (fst p) touched); lia.
      * destruct vs; [|discriminate]. destruct touched; [|discriminate].
        inversion Hstep; subst. eexists. split; [reflexivity|].
        apply (Fin _ (new - a_init a)); simp_s; auto.
        revert R3. apply Forall_impl. intros p Hp Hdead. destruct (Hp Hdead) as (c & sn & A1 & A2).
        exists c, sn. split; [exact A1|]. lia.
  - (* LPopData *)
    destruct Hl as (Hsz & Hmx).
    destruct (find_s sid (c_strs st)) as [s|] eqn:F; [|discriminate].
    destruct (s_frames s) as [|f q] eqn:EQ; [discriminate|].
    destruct (negb (f =? sz)) eqn:Ef; [discriminate|].
    apply negb_false_iff, Z.eqb_eq in Ef. subst f.
    destruct (s_dead s && (0 <? sz)) eqn:Edead; [discriminate|].
    destruct ((0 <? sz) && (s_avail s =? 0)) eqn:Eg1; [discriminate|].
    pose proof (Forall_find _ _ _ _ H7 F) as (K1 & K2 & K3 & K5 & K6 & K7 & K8 & K9).
    pose proof (find_s_id _ _ _ F) as Hid.
    pose proof (sum_avail_nonneg _ (s_ok_avail_nonneg _ H7)) as Hs.
    rewrite (as_size_nonneg (s_avail s)) in Hstep by assumption.
    set (len := Z.min (Z.min sz mx) (s_avail s)) in *.
    destruct ((0 <? len) && (as_size (s_win s) <? len)) eqn:Eg2; [discriminate|].
    assert (Hlen : 0 <= len <= sz /\ len <= s_avail s) by (unfold len; lia).
    assert (Hwin : 0 < len -> len <= s_win s) by (unfold as_size in *; lia).
    destruct ((0 <? len) && (s_win s <? len)); [discriminate|].
    destruct (s_buf s <? len); [discriminate|].
    destruct (s_req s <? len); [discriminate|].
    set (q' := if len <? sz then (sz - len) :: q else q) in *.
    set (s1 := set_req (set_bufq (set_avail (set_win s (s_win s - len)) (s_avail s - len)) (s_buf s - len) q') (s_req s - len)) in *.
    destruct (notify_if_up (c_maxbuf st) (capacity (c_maxbuf st) s) s1) as [s2 outs2] eqn:En.
    destruct (notify_proj _ _ _ _ _ En) as (P1 & P2 & P3).
    pose proof (notify_quiet _ _ _ _ _ En) as Q2.
    destruct ((0 <? len) && (c_win st <? len)); [discriminate|].
    inversion Hstep; subst st' outs. clear Hstep.
    assert (Hin : s_avail s <= sum_avail (c_strs st)).
    { apply sum_avail_ge; [apply s_ok_avail_nonneg; assumption|]. eapply find_s_In; eauto. }
    assert (F2 : find_s (s_id s2) (c_strs st) = Some s) by (rewrite P1; unfold s1; simp_s; rewrite Hid; exact F).
    cbn [data_evs flat_map app]. fold (data_evs outs2). rewrite (data_evs_quiet _ Q2).
    cbn [acct_run acct_step].
    destruct (len =? 0) eqn:E0.
    + apply Z.eqb_eq in E0. exists a. split; [reflexivity|].
      unfold R. simp_s. repeat split; [lia|exact R2|].
      apply (R_streams_upd st a a s s2 H8 F2 R3); [auto|].
      unfold rs_ok, sproj. cbn [fst snd]. rewrite P1, P2, P3. unfold s1; simp_s. intros Hdead.
      rewrite Forall_forall in R3.
      destruct (R3 (sproj s) (in_map sproj _ _ (find_s_In _ _ _ F)) Hdead) as (c & sn & A & B).
      cbn [sproj fst snd] in A, B. exists c, sn. split; [exact A|lia].
    + apply Z.eqb_neq in E0.
      assert (Hnd : s_dead s = false).
      { destruct (s_dead s); [|reflexivity]. cbn [andb] in Edead. lia. }
      rewrite Forall_forall in R3.
      destruct (R3 (sproj s) (in_map sproj _ _ (find_s_In _ _ _ F)) Hnd) as (c & sn & A & B).
      cbn [sproj fst snd] in A, B. rewrite Hid in A. rewrite A.
      assert (Hc : (sn + len <=? c) && (a_sent a + len <=? a_credit a) = true) by lia.
      rewrite Hc. eexists. split; [reflexivity|].
      unfold R. simp_s. cbn [a_credit a_sent a_init a_streams]. repeat split; [lia|exact R2|].
      apply (R_streams_upd st a _ s s2 H8 F2); [apply Forall_forall; exact R3| |].
      * intros k Hk. cbn [a_streams]. apply a_find_upd_other. rewrite P1 in Hk. unfold s1 in Hk; simp_s.
        rewrite Hid in Hk. exact Hk.
      * unfold rs_ok, sproj. cbn [fst snd a_streams]. rewrite P1, P2, P3. unfold s1; simp_s. intros _.
        rewrite Hid. rewrite (a_find_upd_same _ _ _ _ A). exists c, (sn + len). split; [reflexivity|lia].
  - (* LPollCapacity *)
    destruct (find_s sid (c_strs st)) as [s|] eqn:F; [|discriminate].
    pose proof (find_s_id _ _ _ F) as Hid.
    assert (V1 : forall sx, s_id sx = s_id s -> s_win sx = s_win s -> s_dead sx = s_dead s ->
                 wview (put st sx) = wview st).
    { intros sx E1 E2 E3. apply (wview_put st s sx); [rewrite E1, Hid; exact F|exact E2|exact E3]. }
    eapply Shuffle; [|exact Hstep].
    assert (Qr : forall v, quiet [ORes v]).
    { intros v. split; [|reflexivity]. intros k len [X|[]]. discriminate. }
    destruct (negb (o_streaming o)); [split; [reflexivity|apply Qr]|].
    destruct (negb (s_capinc s)); [split; [apply V1; simp_s; reflexivity|apply Qr]|].
    destruct (capacity (c_maxbuf st) (set_capinc s false) =? 0);
      (split; [apply V1; simp_s; reflexivity|apply Qr]).
  - (* LCapacity *)
    destruct (find_s sid (c_strs st)) as [s|] eqn:F; [|discriminate].
    eapply Shuffle; [|exact Hstep]. split; [reflexivity|]. split; [|reflexivity].
    intros k len [X|[]]. discriminate.
  - (* LNotify *)
    eapply Shuffle; [|exact Hstep].
    destruct (find_s sid (c_strs st)) as [s|] eqn:F; [|apply shuffle_refl].
    pose proof (find_s_id _ _ _ F) as Hid.
    split; [apply (wview_put st s); simp_s; [rewrite Hid; exact F|reflexivity|reflexivity]|].
    destruct (s_parked s); [|apply quiet_nil]. split; [|reflexivity]. intros k len [X|[]]. discriminate.
  - (* LWait *)
    eapply Shuffle; [|exact Hstep].
    destruct (find_s sid (c_strs st)) as [s|] eqn:F; [|apply shuffle_refl].
    pose proof (find_s_id _ _ _ F) as Hid.
    split; [apply (wview_put st s); simp_s; [rewrite Hid; exact F|reflexivity|reflexivity]|apply quiet_nil].
  - (* LTryAssign *) eapply Shuffle; [apply try_assign_shuffle|exact Hstep].
Qed.
