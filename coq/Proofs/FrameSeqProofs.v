(* Frame SEQUENCES (C12 for streams of frames).  The single-frame theorems of C12 are lifted to every
   list of well-formed frames:
     A. reference (Ref/Rfc9113Frame.v): rfc_decode_stream is compositional, hence
        rfc_decode_stream (encode f1 ++ ... ++ encode fn) = Some [value f1; ...; value fn]
        (the 9-octet head's Length field determines the split; a HEADERS / PUSH_PROMISE with its
        CONTINUATION frames is ONE logical frame);
     B. the model's own reader (Model/ReadBuf.v), through [poll_next] = one call of
        FramedRead::poll_next (Model/WireCodec.v): a logical frame at the front of the buffer comes out
        as its event and leaves exactly the octets behind it; a strict prefix of a logical frame yields
        Pending; [pump] is the iteration of [poll_next]; hence feed_all on ANY chunking of the
        concatenation yields the frames in order, and on any chunking of a PREFIX of it a prefix of them. *)
From H2V Require Import Base.Tac Base.Bytes Gen.FrameConsts Ref.Rfc9113Frame Model.FrameCodec Model.WriteBuf
  Model.ReadBuf Model.WireCodec Proofs.WriteBufProofs Proofs.FrameCodecProofs Proofs.ReadBufProofs.
From H2V Require Proofs.DataPathProofs.
Local Open Scope N_scope.

Notation strict_prefix := DataPathProofs.strict_prefix.

(* ====================================================================================== *)
(* A. the reference stream decoder is compositional *)

Lemma rfc_split_fuel : forall f1 f2 bs,
  (length bs < f1)%nat -> (length bs < f2)%nat -> rfc_split f1 bs = rfc_split f2 bs.
Proof.
  induction f1 as [|f1 IH]; intros f2 bs H1 H2; [lia|]. destruct f2 as [|f2]; [lia|].
  cbn [rfc_split]. destruct (declared_length bs) as [len|]; [|reflexivity].
  destruct (9 + len <=? olen bs) eqn:E; [|reflexivity]. apply N.leb_le in E.
  assert (Hl : (length (drop (9 + len) bs) + 9 <= length bs)%nat).
  { unfold drop, olen in *. rewrite skipn_length. lia. }
  rewrite (IH f2 (drop (9 + len) bs)) by lia. reflexivity.
Qed.

Lemma declared_length_app a b len : declared_length a = Some len -> declared_length (a ++ b) = Some len.
Proof. destruct a as [|x [|y [|z a]]]; cbn [declared_length app]; try discriminate; auto. Qed.

Lemma rfc_split_app : forall fuel a fa,
  rfc_split fuel a = (fa, []) ->
  forall b F, (length (a ++ b) < F)%nat ->
  rfc_split F (a ++ b) = (fa ++ fst (rfc_frames b), snd (rfc_frames b)).
Proof.
  assert (Base : forall b F, (length b < F)%nat -> rfc_split F b = (fst (rfc_frames b), snd (rfc_frames b))).
  { intros b F HF. unfold rfc_frames. rewrite (rfc_split_fuel F (S (length b))) by lia.
    destruct (rfc_split (S (length b)) b); reflexivity. }
  induction fuel as [|fuel IH]; intros a fa H b F HF.
  - cbn [rfc_split] in H. inversion H; subst. cbn [app]. apply Base. exact HF.
  - cbn [rfc_split] in H. destruct (declared_length a) as [len|] eqn:Ed.
    + destruct (9 + len <=? olen a) eqn:E.
      * destruct (rfc_split fuel (drop (9 + len) a)) as [fs t] eqn:Er. inversion H; subst. clear H.
        apply N.leb_le in E.
        destruct F as [|F]; [lia|]. cbn [rfc_split]. rewrite (declared_length_app _ b _ Ed).
        assert (E2 : (9 + len <=? olen (a ++ b)) = true).
        { apply N.leb_le. unfold olen in *. rewrite app_length. lia. }
        rewrite E2. change take with takeN. change drop with dropN in *. change olen with lenN in *.
        rewrite ReadBufProofs.takeN_app_le, ReadBufProofs.dropN_app_le by exact E.
        rewrite (IH _ _ Er b F).
        -- reflexivity.
        -- rewrite app_length in *. unfold dropN, lenN in *. rewrite skipn_length. lia.
      * inversion H; subst. discriminate.
    + inversion H; subst. cbn [app]. apply Base. exact HF.
Qed.

Lemma rfc_frames_app a b fa :
  rfc_frames a = (fa, []) -> rfc_frames (a ++ b) = (fa ++ fst (rfc_frames b), snd (rfc_frames b)).
Proof. unfold rfc_frames at 1 2. intros H. eapply rfc_split_app; [exact H|lia]. Qed.

Lemma rfc_parse_all_app max : forall x y wx wy,
  rfc_parse_all max x = Some wx -> rfc_parse_all max y = Some wy ->
  rfc_parse_all max (x ++ y) = Some (wx ++ wy).
Proof.
  induction x as [|f x IH]; intros y wx wy Hx Hy; cbn [rfc_parse_all app] in *.
  - inversion Hx; subst. exact Hy.
  - destruct (rfc_parse_frame max f) as [w| |]; try discriminate.
    destruct (rfc_parse_all max x) as [wx'|] eqn:E; [|discriminate]. cbn [option_map] in Hx.
    inversion Hx; subst. rewrite (IH y wx' wy eq_refl Hy). reflexivity.
Qed.

Lemma rfc_reassemble_app : forall wa cur ra,
  rfc_reassemble cur wa = Some ra ->
  forall wb rb, rfc_reassemble None wb = Some rb ->
  rfc_reassemble cur (wa ++ wb) = Some (ra ++ rb).
Proof.
  induction wa as [|w wa IH]; intros cur ra Ha wb rb Hb.
  - cbn [rfc_reassemble] in Ha. destruct cur; [discriminate|]. inversion Ha; subst. exact Hb.
  - cbn [rfc_reassemble app] in *.
    destruct cur as [o|].
    + destruct w as [s es pad dt|s es eh p fr|s p|s c|ack ps|s eh pr fr|ack op|l c dbg|s inc|s eh fr|ty fl s pl];
        try discriminate.
      destruct (s =? open_stream o); [|discriminate].
      destruct eh.
      * destruct (rfc_reassemble None wa) as [r|] eqn:E; [|discriminate]. cbn [option_map] in Ha.
        inversion Ha; subst. rewrite (IH None r E wb rb Hb). reflexivity.
      * apply (IH _ _ Ha _ _ Hb).
    + destruct w as [s es pad dt|s es eh p fr|s p|s c|ack ps|s eh pr fr|ack op|l c dbg|s inc|s eh fr|ty fl s pl];
        try discriminate;
        try (destruct eh);
        try (apply (IH _ _ Ha _ _ Hb));
        (destruct (rfc_reassemble None wa) as [r|] eqn:E; [|discriminate]; cbn [option_map] in Ha;
         inversion Ha; subst; rewrite (IH None r E wb rb Hb); reflexivity).
Qed.

Theorem rfc_decode_stream_app max a b wa wb :
  rfc_decode_stream max a = Some wa -> rfc_decode_stream max b = Some wb ->
  rfc_decode_stream max (a ++ b) = Some (wa ++ wb).
Proof.
  unfold rfc_decode_stream. intros Ha Hb.
  destruct (rfc_frames a) as [fa ta] eqn:Ea. destruct ta; [|discriminate].
  rewrite (rfc_frames_app a b fa Ea).
  destruct (rfc_frames b) as [fb tb] eqn:Eb. cbn [fst snd]. destruct tb; [|discriminate].
  destruct (rfc_parse_all max fa) as [xa|] eqn:Pa; [|discriminate].
  destruct (rfc_parse_all max fb) as [xb|] eqn:Pb; [|discriminate].
  rewrite (rfc_parse_all_app max fa fb xa xb Pa Pb).
  apply rfc_reassemble_app; assumption.
Qed.

Definition frames_wf (max : N) (fs : list frame) : bool := forallb (frame_wf max) fs.

(* C12 for sequences, reference side: the concatenation of the encodings of well-formed frames is cut
   by the Length fields, parsed and reassembled (RFC 9113 4.1, 4.3, 6.10) into exactly their values *)
Theorem frames_roundtrip_stream : forall max fs,
  42 <= max -> max <= MAX_MAX_FRAME_SIZE -> frames_wf max fs = true ->
  exists bs, encode_all max fs = EOk bs /\ rfc_decode_stream max bs = Some (map wire_value_of fs).
Proof.
  intros max fs H42 Hmax. induction fs as [|f fs IH]; intros Hwf.
  - exists []. split; reflexivity.
  - cbn [frames_wf forallb] in Hwf. apply andb_true_iff in Hwf. destruct Hwf as [Hf Hfs].
    destruct (IH Hfs) as (bs & He & Hd).
    destruct (C12_roundtrip_stream max f H42 Hmax Hf) as (b1 & He1 & Hd1).
    exists (b1 ++ bs). cbn [encode_all map]. rewrite He1, He. split; [reflexivity|].
    change (wire_value_of f :: map wire_value_of fs) with ([wire_value_of f] ++ map wire_value_of fs).
    apply rfc_decode_stream_app; assumption.
Qed.

(* ====================================================================================== *)
(* B. the model's reader *)

(* ---- a complete physical frame, as the length-delimited layer sees it ---- *)
Definition framed (max : N) (fr : list N) : Prop :=
  exists l0 l1 l2 r, fr = l0 :: l1 :: l2 :: r /\ (l0 * 256 + l1) * 256 + l2 <= max /\
                     lenN fr = (l0 * 256 + l1) * 256 + l2 + 9.

Lemma framed_encoded max k fl sid p :
  lenN p <= max -> lenN p < 16777216 -> framed max (head_encode k fl sid (lenN p) ++ p).
Proof.
  intros Hm H24. unfold head_encode, enc_u24. cbn [app].
  eexists _, _, _, _. split; [reflexivity|].
  assert (E1 : ((lenN p / 65536) mod 256 * 256 + (lenN p / 256) mod 256) * 256 + lenN p mod 256 = lenN p) by lia.
  rewrite E1. split; [exact Hm|]. rewrite !FrameCodecProofs.lenN_cons, FrameCodecProofs.lenN_app.
  unfold enc_u32. rewrite !FrameCodecProofs.lenN_cons, FrameCodecProofs.lenN_nil. lia.
Qed.

Lemma framed_parsed max bs l : model_parse max bs = POk l -> framed max bs.
Proof.
  unfold model_parse. destruct bs as [|l0 [|l1 [|l2 r]]]; try discriminate.
  destruct (max <? (l0 * 256 + l1) * 256 + l2) eqn:Emax; [discriminate|]. apply N.ltb_ge in Emax.
  destruct (lenN (l0 :: l1 :: l2 :: r) =? (l0 * 256 + l1) * 256 + l2 + ld_length_adjustment) eqn:El; [|discriminate].
  apply N.eqb_eq in El. intros _. exists l0, l1, l2, r. auto.
Qed.

Lemma framed_len max fr : framed max fr -> (9 <= length fr)%nat.
Proof. intros (l0 & l1 & l2 & r & -> & _ & Hl). unfold lenN in Hl. lia. Qed.

Lemma framed_out max fr more : framed max fr -> ld_decode max LdHead (fr ++ more) = LdOut fr more.
Proof.
  intros (l0 & l1 & l2 & r & -> & Hm & Hl). cbn [app ld_decode].
  destruct (max <? (l0 * 256 + l1) * 256 + l2) eqn:E; [apply N.ltb_lt in E; lia|].
  change (l0 :: l1 :: l2 :: r ++ more) with ((l0 :: l1 :: l2 :: r) ++ more).
  unfold ld_data, ld_length_adjustment. rewrite <- Hl, FrameCodecProofs.lenN_app.
  destruct (lenN (l0 :: l1 :: l2 :: r) + lenN more <? lenN (l0 :: l1 :: l2 :: r)) eqn:E2; [apply N.ltb_lt in E2; lia|].
  rewrite FrameCodecProofs.takeN_app_exact, FrameCodecProofs.dropN_app_exact. reflexivity.
Qed.

Lemma framed_need max fr pre : framed max fr -> strict_prefix pre fr ->
  exists s, ld_decode max LdHead pre = LdNeed s.
Proof.
  intros (l0 & l1 & l2 & r & -> & Hm & Hl) (suf & Hne & Hp).
  destruct pre as [|a [|b [|c pre]]]; try (exists LdHead; reflexivity).
  cbn [app] in Hp. injection Hp as Ea Eb Ec Er. subst a b c. cbn [ld_decode].
  destruct (max <? (l0 * 256 + l1) * 256 + l2) eqn:E; [apply N.ltb_lt in E; lia|].
  unfold ld_data, ld_length_adjustment.
  assert (Hs : 1 <= lenN suf) by (destruct suf; [congruence|rewrite FrameCodecProofs.lenN_cons; lia]).
  assert (Hlen : lenN (l0 :: l1 :: l2 :: pre) + lenN suf = lenN (l0 :: l1 :: l2 :: r)).
  { rewrite <- Er. rewrite !FrameCodecProofs.lenN_cons, FrameCodecProofs.lenN_app. lia. }
  destruct (lenN (l0 :: l1 :: l2 :: pre) <? (l0 * 256 + l1) * 256 + l2 + 9) eqn:E2; [eauto|].
  apply N.ltb_ge in E2. lia.
Qed.

(* ---- poll_next: fuel, unfolding ---- *)
Lemma poll_enough {HS} (ops : hpack_ops HS) : forall F1 F2 (st : rstate HS),
  (length (r_buf st) < F1)%nat -> (length (r_buf st) < F2)%nat -> poll_next ops F1 st = poll_next ops F2 st.
Proof.
  induction F1 as [|F1 IH]; intros F2 st H1 H2; [lia|].
  destruct F2 as [|F2]; [lia|].
  cbn [poll_next]. destruct (r_dead st); [reflexivity|].
  destruct (ld_decode (r_max_frame st) (r_ld st) (r_buf st)) as [s|fr rest|] eqn:El; try reflexivity.
  destruct (decode_frame ops (r_max_hls st) (r_max_cont st) (r_partial st) (r_hs st) fr) as [[pt hs] d] eqn:Ed.
  pose proof (ld_decode_out_len _ _ _ _ _ El) as Hlen.
  destruct d as [|e|e]; try reflexivity.
  pose proof (decode_frame_continues _ _ _ _ _ _ _ _ _ Ed ltac:(discriminate)) as H9.
  apply IH; cbn [r_buf set_core]; rewrite <- Hlen, app_length in H1, H2; lia.
Qed.

Lemma poll_unfold {HS} (ops : hpack_ops HS) (st : rstate HS) :
  poll ops st =
  if r_dead st then (st, None) else
  match ld_decode (r_max_frame st) (r_ld st) (r_buf st) with
  | LdNeed s => (set_core st (r_buf st) s (r_partial st) (r_hs st) false, None)
  | LdError => (set_core st (r_buf st) (r_ld st) (r_partial st) (r_hs st) true,
                Some (EvError (PEGoAway [] reason_FRAME_SIZE_ERROR)))
  | LdOut bytes rest =>
      let '(pt, hs, d) := decode_frame ops (r_max_hls st) (r_max_cont st) (r_partial st) (r_hs st) bytes in
      match d with
      | DNone => poll ops (set_core st rest LdHead pt hs false)
      | DEvent e => (set_core st rest LdHead pt hs false, Some e)
      | DStop e => (set_core st rest LdHead pt hs true, Some e)
      end
  end.
Proof.
  unfold poll at 1. cbn [poll_next]. destruct (r_dead st); [reflexivity|].
  destruct (ld_decode (r_max_frame st) (r_ld st) (r_buf st)) as [s|fr rest|] eqn:El; try reflexivity.
  destruct (decode_frame ops (r_max_hls st) (r_max_cont st) (r_partial st) (r_hs st) fr) as [[pt hs] d] eqn:Ed.
  pose proof (ld_decode_out_len _ _ _ _ _ El) as Hlen.
  destruct d as [|e|e]; try reflexivity.
  pose proof (decode_frame_continues _ _ _ _ _ _ _ _ _ Ed ltac:(discriminate)) as H9.
  apply (f_equal (@length N)) in Hlen. rewrite app_length in Hlen.
  unfold poll. apply poll_enough; cbn [r_buf set_core]; lia.
Qed.

(* [pump] (the reader of C12) is the iteration of poll_next until Pending *)
Lemma drain_poll {HS} (ops : hpack_ops HS) : forall n (st : rstate HS),
  (length (r_buf st) <= n)%nat ->
  drain ops st =
  match poll ops st with
  | (st', None) => (st', [])
  | (st', Some e) => let (s2, evs) := drain ops st' in (s2, e :: evs)
  end.
Proof.
  assert (Dead : forall st : rstate HS, r_dead st = true -> drain ops st = (st, [])).
  { intros st Hd. rewrite run_unfold, Hd. reflexivity. }
  induction n as [|n IH]; intros st Hn; rewrite run_unfold, poll_unfold.
  all: destruct (r_dead st) eqn:Hdead; [reflexivity|].
  all: destruct (ld_decode (r_max_frame st) (r_ld st) (r_buf st)) as [s|fr rest|] eqn:El;
       [reflexivity| |rewrite Dead by reflexivity; reflexivity].
  all: destruct (decode_frame ops (r_max_hls st) (r_max_cont st) (r_partial st) (r_hs st) fr) as [[pt hs] d] eqn:Ed.
  all: pose proof (ld_decode_out_len _ _ _ _ _ El) as Hlen.
  all: destruct d as [|e|e]; [ |reflexivity|rewrite Dead by reflexivity; reflexivity].
  - pose proof (decode_frame_continues _ _ _ _ _ _ _ _ _ Ed ltac:(discriminate)) as H9.
    rewrite <- Hlen, app_length in Hn. lia.
  - pose proof (decode_frame_continues _ _ _ _ _ _ _ _ _ Ed ltac:(discriminate)) as H9.
    apply IH. cbn [r_buf set_core]. rewrite <- Hlen, app_length in Hn. lia.
Qed.

(* ---- one physical frame at the front of the buffer / a strict prefix of one ---- *)
Lemma poll_frame {HS} (ops : hpack_ops HS) (st : rstate HS) fr more :
  r_dead st = false -> r_ld st = LdHead -> r_buf st = fr ++ more -> framed (r_max_frame st) fr ->
  poll ops st =
    let '(pt, hs, d) := decode_frame ops (r_max_hls st) (r_max_cont st) (r_partial st) (r_hs st) fr in
    match d with
    | DNone => poll ops (set_core st more LdHead pt hs false)
    | DEvent e => (set_core st more LdHead pt hs false, Some e)
    | DStop e => (set_core st more LdHead pt hs true, Some e)
    end.
Proof.
  intros Hd Hl Hb Hf. rewrite poll_unfold, Hd, Hl, Hb, (framed_out _ _ more Hf). reflexivity.
Qed.

Lemma poll_need {HS} (ops : hpack_ops HS) (st : rstate HS) fr :
  r_dead st = false -> r_ld st = LdHead -> framed (r_max_frame st) fr -> strict_prefix (r_buf st) fr ->
  snd (poll ops st) = None.
Proof.
  intros Hd Hl Hf Hp. rewrite poll_unfold, Hd, Hl.
  destruct (framed_need _ _ _ Hf Hp) as [s Hs]. rewrite Hs. reflexivity.
Qed.

(* ---- a logical frame: physical frames of which only the last makes decode_frame return a frame ---- *)
Inductive lrun (mh mc rmax : N) : option partial -> list N -> list (list N) -> event (list N) -> list N -> Prop :=
| lrun_last : forall pt hs fr ev hs',
    framed rmax fr -> decode_frame hp_raw mh mc pt hs fr = (None, hs', DEvent ev) ->
    lrun mh mc rmax pt hs [fr] ev hs'
| lrun_more : forall pt hs fr pt' hs1 frs ev hs',
    framed rmax fr -> decode_frame hp_raw mh mc pt hs fr = (pt', hs1, DNone) ->
    lrun mh mc rmax pt' hs1 frs ev hs' ->
    lrun mh mc rmax pt hs (fr :: frs) ev hs'.

Lemma lrun_nonempty mh mc rmax pt hs frs ev hs' :
  lrun mh mc rmax pt hs frs ev hs' -> (9 <= length (concat frs))%nat.
Proof.
  intros H. induction H as [pt hs fr ev hs' Hf _|pt hs fr pt' hs1 frs ev hs' Hf _ _ IH];
    cbn [concat]; rewrite app_length; pose proof (framed_len _ _ Hf); lia.
Qed.

Lemma poll_lrun mh mc rmax pt hs frs ev hs' :
  lrun mh mc rmax pt hs frs ev hs' ->
  forall (st : rstate (list N)) more,
    r_dead st = false -> r_ld st = LdHead -> r_max_hls st = mh -> r_max_cont st = mc -> r_max_frame st = rmax ->
    r_partial st = pt -> r_hs st = hs -> r_buf st = concat frs ++ more ->
    poll hp_raw st = (set_core st more LdHead None hs' false, Some ev).
Proof.
  intros H. induction H as [pt hs fr ev hs' Hf Hdf|pt hs fr pt' hs1 frs ev hs' Hf Hdf _ IH];
    intros st more Hd Hl Hmh Hmc Hmf Hpt Hhs Hb.
  - cbn [concat] in Hb. rewrite app_nil_r in Hb. subst mh mc rmax pt hs.
    rewrite (poll_frame hp_raw st fr more Hd Hl Hb Hf), Hdf. reflexivity.
  - cbn [concat] in Hb. rewrite <- app_assoc in Hb. subst mh mc rmax pt hs.
    rewrite (poll_frame hp_raw st fr _ Hd Hl Hb Hf), Hdf.
    rewrite (IH (set_core st (concat frs ++ more) LdHead pt' hs1 false) more); reflexivity.
Qed.

Lemma poll_lrun_prefix mh mc rmax pt hs frs ev hs' :
  lrun mh mc rmax pt hs frs ev hs' ->
  forall (st : rstate (list N)),
    r_dead st = false -> r_ld st = LdHead -> r_max_hls st = mh -> r_max_cont st = mc -> r_max_frame st = rmax ->
    r_partial st = pt -> r_hs st = hs -> strict_prefix (r_buf st) (concat frs) ->
    snd (poll hp_raw st) = None.
Proof.
  intros H. induction H as [pt hs fr ev hs' Hf Hdf|pt hs fr pt' hs1 frs ev hs' Hf Hdf _ IH];
    intros st Hd Hl Hmh Hmc Hmf Hpt Hhs Hp.
  - cbn [concat] in Hp. rewrite app_nil_r in Hp. subst rmax. eapply poll_need; eassumption.
  - cbn [concat] in Hp. destruct Hp as (suf & Hne & Hp).
    destruct (DataPathProofs.app_split _ _ _ _ Hp) as [(l & A1 & A2)|(l & A0 & A1 & A2)].
    + subst mh mc rmax pt hs.
      rewrite (poll_frame hp_raw st fr l Hd Hl A1 Hf), Hdf.
      apply IH; try reflexivity. cbn [r_buf set_core]. exists suf. split; [exact Hne|symmetry; exact A2].
    + subst rmax. eapply poll_need; try eassumption. exists l. split; [exact A0|symmetry; exact A1].
Qed.

(* ---- what the encoder writes for one frame value is such a logical frame ---- *)
Definition raw_event (f : frame) : event (list N) :=
  if is_header_frame f then EvHeaders (strip_block f) (frame_block f) else EvFrame f.

Lemma raw_event_frame_raw_event f : raw_event_frame (raw_event f) = Some f.
Proof. destruct f; reflexivity. Qed.

Lemma lrun_continuations mh mc rmax smax sid :
  1 <= smax -> smax <= MAX_MAX_FRAME_SIZE -> smax <= rmax -> sid <> 0 -> sid < 2147483648 ->
  forall fuel rest F0 acc cnt,
    (length rest < fuel)%nat -> frame_sid F0 = sid ->
    cnt + N.of_nat (length (cont_frames fuel smax sid rest)) <= mc + 1 ->
    lrun mh mc rmax (Some {| pt_frame := F0; pt_buf := []; pt_count := cnt |}) acc
         (cont_frames fuel smax sid rest) (EvHeaders (set_end_headers F0) (acc ++ rest)) (acc ++ rest).
Proof.
  intros H1 H2 Hr Hs0 Hs31. pose proof H2 as H2'. unfold MAX_MAX_FRAME_SIZE in H2'.
  induction fuel as [|fuel IH]; intros rest F0 acc cnt Hf Hsid Hcnt; [lia|].
  cbn [cont_frames] in *. destruct (smax <? lenN rest) eqn:E.
  - apply N.ltb_lt in E. pose proof (length_dropN_lt smax rest H1 E) as Hlt.
    assert (Hlt' : lenN (takeN smax rest) = smax) by (rewrite FrameCodecProofs.lenN_takeN; lia).
    cbn [length] in Hcnt.
    pose proof (cont_frames_nonempty fuel smax sid (dropN smax rest) ltac:(lia)) as Hne.
    assert (Hlen1 : 1 <= N.of_nat (length (cont_frames fuel smax sid (dropN smax rest)))).
    { destruct (cont_frames fuel smax sid (dropN smax rest)); [congruence | cbn [length]; lia]. }
    eapply lrun_more.
    + rewrite <- Hlt' at 1. apply framed_encoded; lia.
    + rewrite <- Hlt' at 1.
      rewrite (decode_continuation mh mc _ acc 0 sid (takeN smax rest) Hs0 Hs31)
        by (cbn [pt_frame pt_buf pt_count]; auto; intros; lia).
      change (0 =? 0) with true. cbv iota. cbn [pt_frame pt_count]. reflexivity.
    + replace (acc ++ rest) with ((acc ++ takeN smax rest) ++ dropN smax rest)
        by (rewrite <- app_assoc, FrameCodecProofs.takeN_dropN; reflexivity).
      apply IH; [lia|exact Hsid|lia].
  - apply N.ltb_ge in E. eapply lrun_last.
    + apply framed_encoded; lia.
    + unfold headers_END_HEADERS.
      rewrite (decode_continuation mh mc _ acc 4 sid rest Hs0 Hs31)
        by (cbn [pt_frame pt_buf pt_count]; auto; intros; discriminate).
      change (4 =? 0) with false. cbv iota. cbn [pt_frame]. reflexivity.
Qed.

Lemma decode_frame_single mh mc hs bs f :
  load_frame bs = POk (LdFrame f) ->
  (is_header_frame f = true -> has_bit (frame_flags f) headers_END_HEADERS = true) ->
  decode_frame hp_raw mh mc None hs bs =
    (None, (if is_header_frame f then frame_block f else hs), DEvent (raw_event f)).
Proof.
  intros Hlf Heh. unfold decode_frame.
  assert (H9 : exists h p, parse_head bs = Some (h, p)).
  { unfold load_frame in Hlf. destruct (parse_head bs) as [[h p]|]; [eauto | discriminate]. }
  destruct H9 as (h & p & Hph). rewrite Hph. cbn [andb]. rewrite Hlf. unfold raw_event.
  destruct (is_header_frame f) eqn:Eh; [|reflexivity].
  cbn [hp_raw hp_load hp_begin app hpack_verdict]. rewrite (Heh eq_refl). reflexivity.
Qed.

Definition cont_ok (smax rmax hls : N) (f : frame) : Prop :=
  continuations_needed smax f <= calc_max_continuation_frames hls rmax + 1.

Theorem encode_lrun smax rmax hls f :
  42 <= smax -> smax <= MAX_MAX_FRAME_SIZE -> smax <= rmax ->
  frame_wf smax f = true -> cont_ok smax rmax hls f ->
  exists frs, encode smax f = EOk (concat frs) /\
    forall mh hs, exists hs', lrun mh (calc_max_continuation_frames hls rmax) rmax None hs frs (raw_event f) hs'.
Proof.
  intros H42 Hmax Hr Hwf Hcont. unfold cont_ok in Hcont.
  pose proof Hmax as Hmax'. unfold MAX_MAX_FRAME_SIZE in Hmax'.
  set (mc := calc_max_continuation_frames hls rmax) in *.
  destruct (single_frame smax f) eqn:Es.
  { destruct (C12_roundtrip smax f H42 Hmax Hwf Es) as (bs & He & _ & Hm).
    exists [bs]. cbn [concat]. rewrite app_nil_r. split; [exact He|]. intros mh hs.
    apply (model_parse_max_mono smax rmax) in Hm; [|exact Hr].
    destruct (model_parse_ld rmax bs _ [] Hm) as [_ Hlf].
    eexists. apply lrun_last; [eapply framed_parsed; exact Hm|].
    apply decode_frame_single; [exact Hlf|].
    intros Hh. destruct f; try discriminate; cbn [frame_wf] in Hwf; split_andb; boolprops; cbn [frame_flags];
      unfold headers_END_HEADERS, headers_END_STREAM in *.
    - match goal with H : _ \/ _ |- _ => destruct H as [H|H]; apply N.eqb_eq in H; subst; reflexivity end.
    - subst. reflexivity. }
  destruct f as [sid flags pad data | sid flags dep block | sid dep | sid flags promised block | s
                 | ack payload | last code debug | sid inc | sid code]; try discriminate.
  - (* HEADERS + CONTINUATION *)
    cbn [single_frame] in Es. apply N.leb_gt in Es.
    cbn [frame_wf] in Hwf. unfold sid_ok in Hwf. split_andb. boolprops. destruct dep; [discriminate|].
    match goal with H : sid <> 0 |- _ => rename H into Hs0 end.
    assert (Hfl : flags = 4 \/ flags = 5).
    { unfold headers_END_HEADERS, headers_END_STREAM in *.
      match goal with H : _ \/ _ |- _ => destruct H as [H|H]; apply N.eqb_eq in H; lia end. }
    cbn [continuations_needed] in Hcont.
    assert (E1 : (smax <? lenN block) = true) by (apply N.ltb_lt; lia). rewrite E1 in Hcont.
    cbn [encode]. unfold headers_encode, header_block_encode, HEADER_LEN, kind_headers, headers_END_HEADERS.
    assert (Hb4 : has_bit flags 4 = true) by (destruct Hfl; subst flags; reflexivity). rewrite Hb4.
    destruct (smax + 9 <? 9) eqn:E9; [apply N.ltb_lt in E9; lia|].
    rewrite WriteBufProofs.lenN_nil.
    destruct (smax + 9 - 9 <? 0) eqn:E0; [apply N.ltb_lt in E0; lia|].
    replace (smax + 9 - 9 - 0) with smax by lia. rewrite E1.
    assert (Hlt : lenN (takeN smax block) = smax) by (rewrite FrameCodecProofs.lenN_takeN; lia).
    rewrite Hlt. replace (0 + smax) with smax by lia.
    destruct (16777216 <=? smax) eqn:E2; [apply N.leb_le in E2; lia|].
    cbn [with_continuations app].
    set (rest := dropN smax block) in *.
    assert (Hfuel : (length rest < S (length rest))%nat) by lia.
    rewrite (continuations_encode_frames smax sid ltac:(lia) Hmax _ _ Hfuel).
    exists ((head_encode 1 (flags - 4) sid smax ++ takeN smax block) :: cont_frames (S (length rest)) smax sid rest).
    split; [reflexivity|]. intros mh hs. eexists.
    eapply lrun_more.
    + rewrite <- Hlt at 1. apply framed_encoded; lia.
    + rewrite <- Hlt at 1. change 1 with kind_headers at 1.
      apply (decode_open_headers mh mc hs (flags - 4) sid (takeN smax block) Hs0 ltac:(lia)).
      destruct Hfl; subst flags; [left | right]; reflexivity.
    + pose proof (lrun_continuations mh mc rmax smax sid ltac:(lia) Hmax Hr Hs0 ltac:(lia)
                    (S (length rest)) rest (FHeaders sid (flags - 4) None []) (takeN smax block) 0
                    Hfuel eq_refl ltac:(lia)) as Hl.
      unfold rest in Hl at 2 3. rewrite FrameCodecProofs.takeN_dropN in Hl.
      replace (raw_event (FHeaders sid flags None block))
        with (EvHeaders (set_end_headers (FHeaders sid (flags - 4) None [])) block)
        by (destruct Hfl; subst flags; reflexivity).
      exact Hl.
  - (* PUSH_PROMISE + CONTINUATION *)
    cbn [single_frame] in Es. apply N.leb_gt in Es.
    cbn [frame_wf] in Hwf. unfold sid_ok in Hwf. split_andb. boolprops.
    match goal with H : sid <> 0 |- _ => rename H into Hs0 end.
    unfold headers_END_HEADERS in *. subst flags.
    cbn [continuations_needed] in Hcont.
    assert (E1 : (smax - 4 <? lenN block) = true) by (apply N.ltb_lt; lia). rewrite E1 in Hcont.
    cbn [encode]. unfold push_promise_encode, header_block_encode, HEADER_LEN, kind_push_promise, headers_END_HEADERS.
    change (has_bit 4 4) with true. cbv iota.
    destruct (smax + 9 <? 9) eqn:E9; [apply N.ltb_lt in E9; lia|].
    change (lenN (enc_u32 promised)) with 4.
    destruct (smax + 9 - 9 <? 4) eqn:E0; [apply N.ltb_lt in E0; lia|].
    replace (smax + 9 - 9 - 4) with (smax - 4) by lia. rewrite E1.
    assert (Hlt : lenN (takeN (smax - 4) block) = smax - 4) by (rewrite FrameCodecProofs.lenN_takeN; lia).
    rewrite Hlt. replace (4 + (smax - 4)) with smax by lia.
    destruct (16777216 <=? smax) eqn:E2; [apply N.leb_le in E2; lia|].
    cbn [with_continuations]. change (4 - 4) with 0.
    set (rest := dropN (smax - 4) block) in *.
    set (part := takeN (smax - 4) block) in *.
    assert (Hfuel : (length rest < S (length rest))%nat) by lia.
    rewrite (continuations_encode_frames smax sid ltac:(lia) Hmax _ _ Hfuel).
    assert (Hpl : lenN (enc_u32 promised ++ part) = smax).
    { rewrite FrameCodecProofs.lenN_app, Hlt. change (lenN (enc_u32 promised)) with 4. lia. }
    exists ((head_encode 5 0 sid smax ++ enc_u32 promised ++ part) :: cont_frames (S (length rest)) smax sid rest).
    split; [reflexivity|]. intros mh hs. eexists.
    eapply lrun_more.
    + rewrite <- Hpl at 1. apply framed_encoded; lia.
    + rewrite <- Hpl at 1. change 5 with kind_push_promise at 1.
      apply (decode_open_push_promise mh mc hs sid promised part Hs0 ltac:(lia) ltac:(lia)).
    + pose proof (lrun_continuations mh mc rmax smax sid ltac:(lia) Hmax Hr Hs0 ltac:(lia)
                    (S (length rest)) rest (FPushPromise sid 0 promised []) part 0
                    Hfuel eq_refl ltac:(lia)) as Hl.
      unfold rest in Hl at 2 3. unfold part in Hl at 1 2. rewrite FrameCodecProofs.takeN_dropN in Hl.
      exact Hl.
Qed.

(* ---- one logical frame through poll_next ---- *)

(* a reader between two frames: alive, no frame half read, no header block open *)
Definition rclean (rmax hls : N) (st : rstate (list N)) : Prop :=
  r_dead st = false /\ r_ld st = LdHead /\ r_partial st = None /\
  r_max_frame st = rmax /\ r_max_cont st = calc_max_continuation_frames hls rmax.

Lemma rclean_set_core rmax hls st b hs :
  rclean rmax hls st -> rclean rmax hls (set_core st b LdHead None hs false).
Proof. intros (_ & _ & _ & A & B). unfold rclean. cbn [set_core r_dead r_ld r_partial r_max_frame r_max_cont]. auto. Qed.

Lemma rclean_init rmax hls hs0 : rclean rmax hls (rinit hs0 rmax hls).
Proof. unfold rclean, rinit. cbn. auto. Qed.

(* what the encoder writes for a well-formed frame value [f], in front of ANY further octets, comes out
   of ONE call of poll_next as the event carrying [f], and exactly the further octets stay buffered;
   any strict prefix of it yields Pending *)
Theorem poll_logical smax rmax hls f :
  42 <= smax -> smax <= MAX_MAX_FRAME_SIZE -> smax <= rmax ->
  frame_wf smax f = true -> cont_ok smax rmax hls f ->
  exists bs, encode smax f = EOk bs /\ (9 <= length bs)%nat /\
    (forall st more, rclean rmax hls st -> r_buf st = bs ++ more ->
       exists hs', poll hp_raw st = (set_core st more LdHead None hs' false, Some (raw_event f))) /\
    (forall st, rclean rmax hls st -> strict_prefix (r_buf st) bs -> snd (poll hp_raw st) = None).
Proof.
  intros H42 Hmax Hr Hwf Hc.
  destruct (encode_lrun smax rmax hls f H42 Hmax Hr Hwf Hc) as (frs & He & Hl).
  exists (concat frs). split; [exact He|]. split; [|split].
  - destruct (Hl 0 []) as (hs' & H). eapply lrun_nonempty. exact H.
  - intros st more (Hd & Hld & Hpt & Hmf & Hmc) Hb.
    destruct (Hl (r_max_hls st) (r_hs st)) as (hs' & H). exists hs'.
    eapply poll_lrun; try eassumption; try reflexivity.
  - intros st (Hd & Hld & Hpt & Hmf & Hmc) Hp.
    destruct (Hl (r_max_hls st) (r_hs st)) as (hs' & H).
    eapply poll_lrun_prefix; try eassumption; try reflexivity.
Qed.

(* ---- sequences of frames through the reader of C12 ---- *)

Lemma drain_empty {HS} (ops : hpack_ops HS) (st : rstate HS) :
  r_dead st = false -> r_ld st = LdHead -> r_buf st = [] -> snd (drain ops st) = [].
Proof. intros Hd Hl Hb. rewrite run_unfold, Hd, Hl, Hb. reflexivity. Qed.

Lemma drain_frames smax rmax hls :
  42 <= smax -> smax <= MAX_MAX_FRAME_SIZE -> smax <= rmax ->
  forall fs, frames_wf smax fs = true -> Forall (cont_ok smax rmax hls) fs ->
  exists bs, encode_all smax fs = EOk bs /\
    forall st w tail, rclean rmax hls st -> r_buf st = w -> w ++ tail = bs ->
      exists fs1 fs2, fs = fs1 ++ fs2 /\
        map raw_event_frame (snd (drain hp_raw st)) = map Some fs1 /\ (tail = [] -> fs2 = []).
Proof.
  intros H42 Hmax Hr. induction fs as [|f fs IH]; intros Hwf Hc.
  - exists []. split; [reflexivity|]. intros st w tail (Hd & Hl & _) Hb E.
    apply app_eq_nil in E. destruct E as [-> _]. exists [], []. split; [reflexivity|].
    rewrite (drain_empty hp_raw st Hd Hl Hb). auto.
  - cbn [frames_wf forallb] in Hwf. apply andb_true_iff in Hwf. destruct Hwf as [Hf Hfs].
    inversion Hc as [|x l Hc1 Hc2]; subst.
    destruct (IH Hfs Hc2) as (bs' & He' & Hd').
    destruct (poll_logical smax rmax hls f H42 Hmax Hr Hf Hc1) as (b1 & He1 & H9 & Hfull & Hpre).
    exists (b1 ++ bs'). cbn [encode_all]. rewrite He1, He'. split; [reflexivity|].
    intros st w tail Hcl Hb E.
    rewrite (drain_poll hp_raw (length (r_buf st)) st (le_n _)).
    destruct (DataPathProofs.app_split _ _ _ _ E) as [(l & A1 & A2)|(l & A0 & A1 & A2)].
    + destruct (Hfull st l Hcl ltac:(rewrite Hb; exact A1)) as (hs' & Hp). rewrite Hp.
      destruct (Hd' (set_core st l LdHead None hs' false) l tail (rclean_set_core _ _ _ _ _ Hcl) eq_refl (eq_sym A2))
        as (fs1 & fs2 & S1 & S2 & S3).
      destruct (drain hp_raw (set_core st l LdHead None hs' false)) as [s2 evs]. cbn [snd] in *.
      exists (f :: fs1), fs2. split; [cbn [app]; congruence|]. split; [|exact S3].
      cbn [map]. rewrite raw_event_frame_raw_event, S2. reflexivity.
    + assert (Hsp : strict_prefix (r_buf st) b1) by (exists l; split; [exact A0|rewrite Hb; symmetry; exact A1]).
      pose proof (Hpre st Hcl Hsp) as Hn.
      destruct (poll hp_raw st) as [st' o]. cbn [snd] in Hn. subst o.
      exists [], (f :: fs). split; [reflexivity|]. split; [reflexivity|].
      intros ->. symmetry in A2. apply app_eq_nil in A2. destruct A2 as [-> _]. congruence.
Qed.

Lemma feed_all_single {HS} (ops : hpack_ops HS) (st : rstate HS) bs :
  snd (feed_all ops st [bs]) = snd (feed ops st bs).
Proof. cbn [feed_all]. destruct (feed ops st bs) as [s1 e1]. cbn [snd]. apply app_nil_r. Qed.

(* C12 for sequences, model side: whatever prefix [w] of the sender's octet stream has arrived, in
   whatever reads, the model's reader has delivered a prefix of the frames, in order, each exactly as it
   was submitted to the encoder (header blocks reassembled); when all of it has arrived, all frames *)
Theorem reader_frames_prefix smax rmax hls :
  42 <= smax -> smax <= MAX_MAX_FRAME_SIZE -> smax <= rmax ->
  forall fs, frames_wf smax fs = true -> Forall (cont_ok smax rmax hls) fs ->
  exists bs, encode_all smax fs = EOk bs /\
    forall chunks tail, concat chunks ++ tail = bs ->
      exists fs1 fs2, fs = fs1 ++ fs2 /\
        map raw_event_frame (snd (feed_all hp_raw (rinit [] rmax hls) chunks)) = map Some fs1 /\
        (tail = [] -> fs2 = []).
Proof.
  intros H42 Hmax Hr fs Hwf Hc.
  destruct (drain_frames smax rmax hls H42 Hmax Hr fs Hwf Hc) as (bs & He & Hd).
  exists bs. split; [exact He|]. intros chunks tail E.
  rewrite C12_read_chunking_init, feed_all_single, feed_run.
  apply (Hd _ (concat chunks) tail); [|reflexivity|exact E].
  unfold rclean, with_buf, rinit. cbn. auto.
Qed.

(* ---- the prefix form on the reference side ---- *)
(* every prefix [w] of the octet stream of [fs] is: the complete encodings of a prefix [fs1] of the frames
   -- which the reference decodes to exactly their values -- followed by a STRICT prefix of the encoding
   of the next frame ("need more": rfc_decode_stream answers None for a stream that ends inside a frame
   or inside a CONTINUATION run, see rfc_frames / rfc_reassemble) *)
Theorem frames_stream_prefix : forall max fs,
  42 <= max -> max <= MAX_MAX_FRAME_SIZE -> frames_wf max fs = true ->
  exists bs, encode_all max fs = EOk bs /\
    forall w tail, w ++ tail = bs ->
      exists fs1 fs2 w1 w2,
        fs = fs1 ++ fs2 /\ w = w1 ++ w2 /\ encode_all max fs1 = EOk w1 /\
        rfc_decode_stream max w1 = Some (map wire_value_of fs1) /\
        (w2 = [] \/ exists f fs2' b, fs2 = f :: fs2' /\ encode max f = EOk b /\ strict_prefix w2 b).
Proof.
  intros max fs H42 Hmax. induction fs as [|f fs IH]; intros Hwf.
  - exists []. split; [reflexivity|]. intros w tail E. apply app_eq_nil in E. destruct E as [-> _].
    exists [], [], [], []. repeat split; auto.
  - cbn [frames_wf forallb] in Hwf. apply andb_true_iff in Hwf. destruct Hwf as [Hf Hfs].
    destruct (IH Hfs) as (bs & He & Hp).
    destruct (C12_roundtrip_stream max f H42 Hmax Hf) as (b1 & He1 & Hd1).
    exists (b1 ++ bs). cbn [encode_all]. rewrite He1, He. split; [reflexivity|].
    intros w tail E.
    destruct (DataPathProofs.app_split _ _ _ _ E) as [(l & A1 & A2)|(l & A0 & A1 & A2)].
    + destruct (Hp l tail (eq_sym A2)) as (fs1 & fs2 & w1 & w2 & S1 & S2 & S3 & S4 & S5).
      exists (f :: fs1), fs2, (b1 ++ w1), w2.
      split; [cbn [app]; congruence|]. split; [rewrite <- app_assoc; congruence|].
      split; [cbn [encode_all]; rewrite He1, S3; reflexivity|]. split; [|exact S5].
      cbn [map]. change (wire_value_of f :: map wire_value_of fs1) with ([wire_value_of f] ++ map wire_value_of fs1).
      apply rfc_decode_stream_app; assumption.
    + exists [], (f :: fs), [], w. split; [reflexivity|]. split; [reflexivity|]. split; [reflexivity|].
      split; [reflexivity|]. right. exists f, fs, b1. split; [reflexivity|]. split; [exact He1|].
      exists l. split; [exact A0|symmetry; exact A1].
Qed.

(* non-vacuity: under a sender limit of 64 octets a 200-octet block makes HEADERS + three CONTINUATION
   frames; with a DATA frame, a PUSH_PROMISE needing one CONTINUATION and an RST_STREAM behind it, the
   eight physical frames decode -- reference and model reader fed 7-octet reads -- to the four values *)
Example frames_seq_nonvacuous :
  let fs := [FHeaders 1 (headers_END_HEADERS + headers_END_STREAM) None (repeat 65 200);
             FData 3 0 None [1; 2; 3];
             FPushPromise 1 headers_END_HEADERS 2 (repeat 66 70);
             FReset 3 8] in
  frames_wf 64 fs = true /\ Forall (cont_ok 64 16384 16777216) fs /\
  match encode_all 64 fs with
  | EOk bs =>
      payload_lengths (S (length bs)) bs = Some [64; 64; 64; 8; 3; 64; 10; 4] /\
      rfc_decode_stream 64 bs = Some (map wire_value_of fs) /\
      map raw_event_frame (snd (feed_all hp_raw (rinit [] 16384 16777216) (cut (repeat 7 60) bs))) = map Some fs /\
      map raw_event_frame (snd (feed_all hp_raw (rinit [] 16384 16777216) [firstn (length bs - 1) bs]))
        = map Some (removelast fs)
  | _ => False
  end.
Proof.
  cbv zeta. split; [vm_compute; reflexivity|]. split.
  - repeat constructor; unfold cont_ok; vm_compute; discriminate.
  - vm_compute. repeat split; reflexivity.
Qed.
