(* C13: proofs about Model/HttpRules.v against Ref/Rfc9113Http.v. *)
From Coq Require Import String Ascii.
From H2V Require Import Base.Tac Base.Bytes Model.HttpTokens Ref.Rfc9113Http Model.HttpRules.
Local Open Scope N_scope.

(* ------------------------------------------------------------------------------------------ *)
(* small facts *)

Lemma octets_bstr s : octets s = bstr s.
Proof. induction s as [|c s IH]; cbn [octets bstr]; [reflexivity|]. rewrite IH. reflexivity. Qed.

Lemma list_N_eqb_refl a : list_N_eqb a a = true.
Proof. apply list_N_eqb_eq. reflexivity. Qed.

Lemma list_N_eqb_sym a b : list_N_eqb a b = list_N_eqb b a.
Proof.
  destruct (list_N_eqb a b) eqn:E1, (list_N_eqb b a) eqn:E2; try reflexivity.
  - apply list_N_eqb_eq in E1. subst. rewrite list_N_eqb_refl in E2. discriminate.
  - apply list_N_eqb_eq in E2. subst. rewrite list_N_eqb_refl in E1. discriminate.
Qed.

Lemma named_bstr s f : named s f = list_N_eqb (fst f) (bstr s).
Proof. unfold named. rewrite octets_bstr. reflexivity. Qed.

Lemma has_cons s f r : has s (f :: r) = named s f || has s r.
Proof. reflexivity. Qed.

Lemma occurrences_cons s f r :
  occurrences s (f :: r) = if named s f then S (occurrences s r) else occurrences s r.
Proof. unfold occurrences. cbn [filter]. destruct (named s f); reflexivity. Qed.

Lemma has_false_occ s fs : has s fs = false -> occurrences s fs = O.
Proof.
  induction fs as [|f r IH]; [reflexivity|]. rewrite has_cons, occurrences_cons.
  destruct (named s f); cbn [orb]; [discriminate|exact IH].
Qed.

Lemma has_value_of s fs : has s fs = is_some (value_of s fs).
Proof.
  induction fs as [|f r IH]; [reflexivity|]. rewrite has_cons. cbn [value_of].
  destruct (named s f); cbn [orb is_some]; [reflexivity|exact IH].
Qed.

Lemma value_of_in s fs v : value_of s fs = Some v -> exists f, In f fs /\ named s f = true /\ snd f = v.
Proof.
  induction fs as [|f r IH]; cbn [value_of]; [discriminate|].
  destruct (named s f) eqn:E.
  - intros H. inversion H. exists f. cbn [In]. auto.
  - intros H. destruct (IH H) as (g & A & B & C). exists g. cbn [In]. auto.
Qed.

(* ------------------------------------------------------------------------------------------ *)
(* Header::new against 8.2.1 / 8.3 *)

Definition pname (h : hname) : string :=
  match h with
  | HField => "" | HAuthority => ":authority" | HMethod => ":method" | HScheme => ":scheme"
  | HPath => ":path" | HProtocol => ":protocol" | HStatus => ":status"
  end.

Definition hname_eqb (a b : hname) : bool :=
  match a, b with
  | HField, HField | HAuthority, HAuthority | HMethod, HMethod | HScheme, HScheme
  | HPath, HPath | HProtocol, HProtocol | HStatus, HStatus => true
  | _, _ => false
  end.

Lemma hname_eqb_eq a b : hname_eqb a b = true <-> a = b.
Proof. destruct a, b; cbn [hname_eqb]; split; congruence. Qed.

Lemma pname_eqb a b : a <> HField -> list_N_eqb (bstr (pname a)) (bstr (pname b)) = hname_eqb a b.
Proof. destruct a, b; intros H; try congruence; reflexivity. Qed.

Lemma name_char_not_bad b : name_char_ok b = true -> bad_name_octet b = false.
Proof. unfold name_char_ok, bad_name_octet, in_range. lia. Qed.

Lemma value_char_not_bad b : value_char_ok b = true -> bad_value_octet b = false.
Proof. unfold value_char_ok, bad_value_octet. lia. Qed.

Lemma forallb_existsb_false {A} (p q : A -> bool) l :
  (forall x, p x = true -> q x = false) -> forallb p l = true -> existsb q l = false.
Proof.
  intros H. induction l as [|x l IH]; cbn [forallb existsb]; [reflexivity|].
  rewrite andb_true_iff. intros [A1 A2]. rewrite (H x A1), (IH A2). reflexivity.
Qed.

Lemma name_ok_regular n : name_ok n = true -> bad_regular_name n = false.
Proof.
  destruct n as [|c r]; cbn [name_ok bad_regular_name]; [discriminate|].
  rewrite andb_true_iff. intros [_ H]. exact (forallb_existsb_false _ _ _ name_char_not_bad H).
Qed.

Lemma value_ok_octets v : value_ok v = true -> existsb bad_value_octet v = false.
Proof. exact (forallb_existsb_false _ _ _ value_char_not_bad). Qed.

(* what Header::new accepted *)
Lemma header_new_field f :
  header_new f = Some HField ->
  is_pseudo f = false /\ name_ok (fst f) = true /\ value_ok (snd f) = true.
Proof.
  unfold header_new, is_pseudo. destruct (fst f) as [|c rest] eqn:Ef; [discriminate|].
  destruct (c =? 58) eqn:Ec.
  - repeat match goal with
    | |- (if ?b then _ else _) = _ -> _ => destruct b
    end; discriminate.
  - destruct (name_ok (c :: rest)) eqn:En; [|discriminate].
    destruct (value_ok (snd f)) eqn:Ev; [|discriminate]. auto.
Qed.

Lemma header_new_pseudo f h :
  header_new f = Some h -> h <> HField ->
  fst f = bstr (pname h) /\ is_pseudo f = true /\
  (h = HStatus -> status_ok (snd f) = true) /\ (h = HMethod -> method_ok (snd f) = true).
Proof.
  unfold header_new, is_pseudo. destruct (fst f) as [|c rest] eqn:Ef; [discriminate|].
  destruct (c =? 58) eqn:Ec.
  - apply N.eqb_eq in Ec. subst c.
    destruct (list_N_eqb rest (bstr "authority")) eqn:E1.
    { apply list_N_eqb_eq in E1. subst rest. destruct (utf8_ok (snd f)); [|discriminate].
      intros H _. inversion H. repeat split; try reflexivity; discriminate. }
    destruct (list_N_eqb rest (bstr "method")) eqn:E2.
    { apply list_N_eqb_eq in E2. subst rest. destruct (method_ok (snd f)) eqn:Em; [|discriminate].
      intros H _. inversion H. repeat split; try reflexivity; try discriminate. }
    destruct (list_N_eqb rest (bstr "scheme")) eqn:E3.
    { apply list_N_eqb_eq in E3. subst rest. destruct (utf8_ok (snd f)); [|discriminate].
      intros H _. inversion H. repeat split; try reflexivity; discriminate. }
    destruct (list_N_eqb rest (bstr "path")) eqn:E4.
    { apply list_N_eqb_eq in E4. subst rest. destruct (utf8_ok (snd f)); [|discriminate].
      intros H _. inversion H. repeat split; try reflexivity; discriminate. }
    destruct (list_N_eqb rest (bstr "protocol")) eqn:E5.
    { apply list_N_eqb_eq in E5. subst rest. destruct (utf8_ok (snd f)); [|discriminate].
      intros H _. inversion H. repeat split; try reflexivity; discriminate. }
    destruct (list_N_eqb rest (bstr "status")) eqn:E6.
    { apply list_N_eqb_eq in E6. subst rest. destruct (status_ok (snd f)) eqn:Es; [|discriminate].
      intros H _. inversion H. repeat split; try reflexivity; try discriminate. }
    discriminate.
  - destruct (name_ok (c :: rest)); [|discriminate]. destruct (value_ok (snd f)); [|discriminate].
    intros H Hn. inversion H. congruence.
Qed.

Lemma is_pseudo_named_false s f :
  is_pseudo f = false -> (match bstr s with c :: _ => c =? 58 | [] => false end) = true -> named s f = false.
Proof.
  intros Hp Hs. rewrite named_bstr. destruct (list_N_eqb (fst f) (bstr s)) eqn:E; [|reflexivity].
  apply list_N_eqb_eq in E. unfold is_pseudo in Hp. rewrite E in Hp. rewrite Hp in Hs. discriminate.
Qed.

Lemma regular_not_pname f h : is_pseudo f = false -> h <> HField -> named (pname h) f = false.
Proof. intros Hp Hh. apply is_pseudo_named_false; [exact Hp|]. destruct h; try congruence; reflexivity. Qed.

Lemma pseudo_named f h h' :
  fst f = bstr (pname h) -> h <> HField -> named (pname h') f = hname_eqb h h'.
Proof. intros E Hh. rewrite named_bstr, E. apply pname_eqb. exact Hh. Qed.

Lemma pseudo_known f h :
  fst f = bstr (pname h) -> h <> HField -> existsb (fun s => named s f) defined_pseudo = true.
Proof.
  intros E Hh. unfold defined_pseudo, request_pseudo, response_pseudo. cbn [List.app existsb].
  rewrite !named_bstr, E. destruct h; try congruence; reflexivity.
Qed.

Lemma header_new_not_bad f h : header_new f = Some h -> bad_field f = false.
Proof.
  intros H. destruct (hname_eqb h HField) eqn:Eh.
  - apply hname_eqb_eq in Eh. subst h.
    destruct (header_new_field f H) as (A & B & C). unfold bad_field. rewrite A.
    rewrite (name_ok_regular _ B), (value_ok_octets _ C). reflexivity.
  - assert (Hh : h <> HField) by (intros X; subst h; discriminate).
    destruct (header_new_pseudo f _ H Hh) as (A & B & _).
    unfold bad_field, unknown_pseudo. rewrite B, (pseudo_known f h A Hh). reflexivity.
Qed.

(* connection-specific fields and TE: the code's tests are the reference's *)
Lemma conn_specific_ref f : conn_specific_name (fst f) = connection_specific f.
Proof.
  unfold conn_specific_name, connection_specific, connection_specific_names. cbn [existsb].
  rewrite !named_bstr.
  destruct (list_N_eqb (fst f) (bstr "connection")), (list_N_eqb (fst f) (bstr "transfer-encoding")),
    (list_N_eqb (fst f) (bstr "upgrade")), (list_N_eqb (fst f) (bstr "keep-alive")),
    (list_N_eqb (fst f) (bstr "proxy-connection")); reflexivity.
Qed.

Lemma te_ref f : te_not_trailers f = bad_te f.
Proof. unfold te_not_trailers, bad_te, named. reflexivity. Qed.

Lemma pseudo_not_conn f h : fst f = bstr (pname h) -> h <> HField -> connection_specific f = false /\ bad_te f = false.
Proof.
  intros E Hh. unfold connection_specific, connection_specific_names, bad_te. cbn [existsb].
  rewrite !named_bstr, E. destruct h; try congruence; split; reflexivity.
Qed.

(* ------------------------------------------------------------------------------------------ *)
(* HeaderBlock::load: what an accepted block looks like *)

Definition regular_fields (fs : list field) : list field := filter (fun f => negb (is_pseudo f)) fs.

Lemma ps_get_set_same h v p : h <> HField -> ps_get h (ps_set h v p) = Some v.
Proof. destruct h; intros H; try congruence; reflexivity. Qed.

Lemma ps_get_set_other h h' v p : h <> h' -> ps_get h' (ps_set h v p) = ps_get h' p.
Proof. destruct h, h'; intros H; try congruence; reflexivity. Qed.

Ltac lsimpl := cbn [l_reg l_mal l_over l_size l_ps l_fields add_size set_reg set_mal set_over put_ps put_field] in *.

Lemma check_size_cont max s s1 :
  check_size max s = Continue s1 ->
  l_reg s1 = l_reg s /\ l_mal s1 = l_mal s /\ l_ps s1 = l_ps s /\ l_fields s1 = l_fields s /\
  (l_over s1 = false -> l_over s = false).
Proof.
  unfold check_size. destruct (_ <? _); [discriminate|]. intros H. inversion H as [H1]. clear H.
  destruct ((max <=? l_size s) && negb (l_over s)); lsimpl; repeat split; auto; discriminate.
Qed.

Lemma load_from_spec max fs : forall s b,
  load_from max s fs = LOk b ->
  l_mal s = false /\
  (forall f, In f fs -> header_new f <> None) /\
  existsb connection_specific fs = false /\ existsb bad_te fs = false /\
  (l_reg s = true -> existsb is_pseudo fs = false) /\
  pseudo_after_regular fs = false /\
  (b_over b = false ->
     l_over s = false /\
     b_fields b = l_fields s ++ regular_fields fs /\
     forall h, h <> HField ->
       match ps_get h (l_ps s) with
       | Some v => ps_get h (b_pseudo b) = Some v /\ has (pname h) fs = false
       | None => ps_get h (b_pseudo b) = value_of (pname h) fs /\ (occurrences (pname h) fs <= 1)%nat
       end).
Proof.
  induction fs as [|f r IH]; intros s b H; cbn [load_from] in H.
  - destruct (l_mal s) eqn:Em; [discriminate|]. inversion H as [Hb]. clear H.
    split; [reflexivity|]. split; [intros f []|]. split; [reflexivity|]. split; [reflexivity|].
    split; [intros _; reflexivity|]. split; [reflexivity|].
    cbn [b_over b_fields b_pseudo]. intros Ho. split; [exact Ho|].
    split; [cbn [regular_fields filter]; rewrite app_nil_r; reflexivity|].
    intros h Hh. destruct (ps_get h (l_ps s)); split; auto.
  - destruct (header_new f) as [h|] eqn:Eh; [|discriminate].
    destruct (load_field max s h f) as [s'|] eqn:El; [|discriminate].
    specialize (IH s' b H). destruct IH as (M & V & C & T & R & P & O).
    assert (V' : forall g, In g (f :: r) -> header_new g <> None).
    { intros g [<-|Hg]; [congruence|exact (V g Hg)]. }
    destruct (hname_eqb h HField) eqn:Ehf.
    + (* a regular field *)
      apply hname_eqb_eq in Ehf. subst h.
      destruct (header_new_field f Eh) as (Fp & Fn & Fv).
      cbn [load_field] in El.
      destruct (conn_specific_name (fst f)) eqn:Ec.
      { inversion El as [El']. subst s'. lsimpl. discriminate. }
      destruct (te_not_trailers f) eqn:Et.
      { inversion El as [El']. subst s'. lsimpl. discriminate. }
      destruct (check_size max (add_size (lenN (fst f) + lenN (snd f) + 32) (set_reg s))) as [s1|] eqn:Ecs; [|discriminate].
      destruct (check_size_cont _ _ _ Ecs) as (K1 & K2 & K3 & K4 & K5). lsimpl.
      inversion El as [El']. clear El.
      assert (Hreg : l_reg s' = true) by (subst s'; destruct (l_over s1); lsimpl; congruence).
      assert (Hmal : l_mal s' = l_mal s) by (subst s'; destruct (l_over s1); lsimpl; congruence).
      assert (Hps : l_ps s' = l_ps s) by (subst s'; destruct (l_over s1); lsimpl; congruence).
      specialize (R Hreg).
      rewrite conn_specific_ref in Ec. rewrite te_ref in Et.
      cbn [existsb pseudo_after_regular]. rewrite Ec, Et, Fp, C, T, R. cbn [orb].
      split; [congruence|]. split; [exact V'|]. split; [reflexivity|]. split; [reflexivity|].
      split; [intros _; reflexivity|]. split; [reflexivity|].
      intros Ho. destruct (O Ho) as (O1 & O2 & O3).
      assert (Es' : s' = put_field f s1 /\ l_over s1 = false).
      { subst s'. destruct (l_over s1) eqn:Eo; lsimpl; [congruence|auto]. }
      destruct Es' as (Es' & Eo).
      split; [exact (K5 Eo)|]. split.
      * rewrite O2, Es'. lsimpl. cbn [regular_fields filter]. rewrite Fp. cbn [negb].
        rewrite K4, <- app_assoc. reflexivity.
      * intros h Hh. specialize (O3 h Hh). rewrite Hps in O3.
        rewrite has_cons, occurrences_cons. cbn [value_of]. rewrite (regular_not_pname f h Fp Hh). cbn [orb]. exact O3.
    + (* a pseudo-header field *)
      assert (Hh : h <> HField) by (intros X; subst h; discriminate).
      destruct (header_new_pseudo f h Eh Hh) as (Fn & Fp & _).
      assert (El2 : (if l_reg s then Continue (set_mal s)
                     else if is_some (ps_get h (l_ps s)) then Continue (set_mal s)
                     else match check_size max (add_size (pname_len h + lenN (snd f) + 32) s) with
                          | Break => Break
                          | Continue s1 => Continue (if l_over s1 then s1 else put_ps h (snd f) s1)
                          end) = Continue s').
      { destruct h; try congruence; exact El. }
      clear El.
      destruct (l_reg s) eqn:Er.
      { inversion El2 as [El']. subst s'. lsimpl. discriminate. }
      destruct (ps_get h (l_ps s)) as [old|] eqn:Eg; cbn [is_some] in El2.
      { inversion El2 as [El']. subst s'. lsimpl. discriminate. }
      destruct (check_size max (add_size (pname_len h + lenN (snd f) + 32) s)) as [s1|] eqn:Ecs; [|discriminate].
      destruct (check_size_cont _ _ _ Ecs) as (K1 & K2 & K3 & K4 & K5). lsimpl.
      inversion El2 as [El']. clear El2.
      assert (Hmal : l_mal s' = l_mal s) by (subst s'; destruct (l_over s1); lsimpl; congruence).
      destruct (pseudo_not_conn f h Fn Hh) as (Nc & Nt).
      cbn [existsb pseudo_after_regular]. rewrite Nc, Nt, Fp, C, T, P. cbn [orb].
      split; [congruence|]. split; [exact V'|]. split; [reflexivity|]. split; [reflexivity|].
      split; [discriminate|]. split; [reflexivity|].
      intros Ho. destruct (O Ho) as (O1 & O2 & O3).
      assert (Es' : s' = put_ps h (snd f) s1 /\ l_over s1 = false).
      { subst s'. destruct (l_over s1) eqn:Eo; lsimpl; [congruence|auto]. }
      destruct Es' as (Es' & Eo).
      split; [exact (K5 Eo)|]. split.
      * rewrite O2, Es'. lsimpl. cbn [regular_fields filter]. rewrite Fp. cbn [negb]. rewrite K4. reflexivity.
      * intros h' Hh'. specialize (O3 h' Hh').
        rewrite Es' in O3. lsimpl. rewrite K3 in O3.
        rewrite has_cons, occurrences_cons. cbn [value_of]. rewrite (pseudo_named f h h' Fn Hh).
        destruct (hname_eqb h h') eqn:Ehh.
        -- apply hname_eqb_eq in Ehh. subst h'. rewrite Eg. rewrite ps_get_set_same in O3 by exact Hh.
           destruct O3 as (O4 & O5). split; [exact O4|]. rewrite (has_false_occ _ _ O5). lia.
        -- assert (Hne : h <> h') by (intros X; subst h'; destruct h; discriminate).
           rewrite ps_get_set_other in O3 by exact Hne. cbn [orb]. exact O3.
Qed.

Lemma ps_get_empty h : ps_get h pseudo_empty = None.
Proof. destruct h; reflexivity. Qed.

Lemma existsb_false_forall {A} (p : A -> bool) l : (forall x, In x l -> p x = false) -> existsb p l = false.
Proof.
  induction l as [|x l IH]; intros H; cbn [existsb]; [reflexivity|].
  rewrite (H x (or_introl eq_refl)), IH; [reflexivity|]. intros y Hy. apply H. right. exact Hy.
Qed.

Lemma load_spec max fs b :
  load max fs = LOk b ->
  (forall f, In f fs -> header_new f <> None) /\
  existsb bad_field fs = false /\ existsb connection_specific fs = false /\ existsb bad_te fs = false /\
  pseudo_after_regular fs = false /\
  (b_over b = false ->
     b_fields b = regular_fields fs /\
     forall h, h <> HField ->
       ps_get h (b_pseudo b) = value_of (pname h) fs /\ (occurrences (pname h) fs <= 1)%nat).
Proof.
  unfold load. intros H. destruct (load_from_spec max fs lstate0 b H) as (_ & V & C & T & _ & P & O).
  split; [exact V|]. split.
  { apply existsb_false_forall. intros f Hf. specialize (V f Hf).
    destruct (header_new f) as [h|] eqn:E; [|congruence]. exact (header_new_not_bad f h E). }
  split; [exact C|]. split; [exact T|]. split; [exact P|].
  intros Ho. destruct (O Ho) as (_ & O2 & O3). split; [exact O2|].
  intros h Hh. specialize (O3 h Hh). cbn [lstate0 l_ps] in O3. rewrite ps_get_empty in O3. exact O3.
Qed.

Lemma no_dup_pseudo fs :
  (forall h, h <> HField -> (occurrences (pname h) fs <= 1)%nat) -> duplicated_pseudo fs = false.
Proof.
  intros H. unfold duplicated_pseudo, defined_pseudo, request_pseudo, response_pseudo. cbn [List.app existsb].
  pose proof (H HMethod ltac:(discriminate)) as H1. pose proof (H HScheme ltac:(discriminate)) as H2.
  pose proof (H HAuthority ltac:(discriminate)) as H3. pose proof (H HPath ltac:(discriminate)) as H4.
  pose proof (H HProtocol ltac:(discriminate)) as H5. pose proof (H HStatus ltac:(discriminate)) as H6.
  cbn [pname] in *.
  repeat match goal with
  | |- context [Nat.ltb 1 ?x] => let E := fresh "E" in destruct (Nat.ltb 1 x) eqn:E; [apply Nat.ltb_lt in E; lia|]
  end. reflexivity.
Qed.

Lemma load_ok_bad_fields max fs b : load max fs = LOk b -> b_over b = false -> bad_fields fs = false.
Proof.
  intros H Ho. destruct (load_spec max fs b H) as (_ & B & C & T & P & O). destruct (O Ho) as (_ & O3).
  unfold bad_fields. rewrite B, C, T, P. cbn [orb]. apply no_dup_pseudo. intros h Hh. exact (proj2 (O3 h Hh)).
Qed.

(* a block without pseudo-header fields has no duplicated pseudo-header field *)
Lemma named_pname_pseudo f h : h <> HField -> named (pname h) f = true -> is_pseudo f = true.
Proof.
  intros Hh H. rewrite named_bstr in H. apply list_N_eqb_eq in H. unfold is_pseudo. rewrite H.
  destruct h; try congruence; reflexivity.
Qed.

Lemma no_pseudo_occ fs h : existsb is_pseudo fs = false -> h <> HField -> occurrences (pname h) fs = O.
Proof.
  intros H Hh. induction fs as [|f r IH]; [reflexivity|]. cbn [existsb] in H. apply orb_false_iff in H.
  destruct H as (H1 & H2). rewrite occurrences_cons. destruct (named (pname h) f) eqn:E.
  - rewrite (named_pname_pseudo f h Hh E) in H1. discriminate.
  - exact (IH H2).
Qed.

(* ------------------------------------------------------------------------------------------ *)
(* content-length *)

Lemma pseudo_not_cl f : is_pseudo f = true -> named "content-length" f = false.
Proof.
  unfold is_pseudo, named. destruct (fst f) as [|c r]; [discriminate|]. intros H. apply N.eqb_eq in H. subst c.
  reflexivity.
Qed.

Lemma values_of_regular fs : values_of "content-length" fs = all_values cl_name (regular_fields fs).
Proof.
  unfold values_of, all_values, regular_fields. induction fs as [|f r IH]; [reflexivity|]. cbn [filter].
  destruct (is_pseudo f) eqn:Ep; cbn [negb].
  - rewrite (pseudo_not_cl f Ep). exact IH.
  - cbn [filter]. unfold cl_name at 1. rewrite <- named_bstr. destruct (named "content-length" f); cbn [map]; rewrite IH; reflexivity.
Qed.

Lemma first_value_all n l : first_value n l = match all_values n l with [] => None | v :: _ => Some v end.
Proof.
  unfold all_values. induction l as [|f r IH]; [reflexivity|]. cbn [first_value filter].
  destruct (list_N_eqb (fst f) n); [reflexivity|exact IH].
Qed.

Lemma parse_u64_decimal v n : parse_u64 v = Some n -> decimal v = Some n.
Proof.
  unfold parse_u64, decimal. destruct v as [|x r]; [discriminate|].
  destruct (19 <? lenN (x :: r)); [discriminate|].
  change (forallb is_digit (x :: r)) with (forallb digit (x :: r)).
  destruct (forallb digit (x :: r)); [|discriminate]. intros H. exact H.
Qed.

Lemma all_same_ok (l : list (option N)) n :
  (forall x, In x l -> x = Some n) ->
  existsb (fun v => match v with None => true | Some _ => false end) l = false /\ all_equal l = true.
Proof.
  induction l as [|a l IH]; intros H; [split; reflexivity|].
  assert (Ha : a = Some n) by (apply H; left; reflexivity).
  destruct IH as (I1 & I2); [intros x Hx; apply H; right; exact Hx|].
  subst a. cbn [existsb]. rewrite I1. split; [reflexivity|].
  destruct l as [|b l']; [reflexivity|].
  assert (Hb : b = Some n) by (apply H; right; left; reflexivity). subst b.
  cbn [all_equal] in *. rewrite N.eqb_refl. exact I2.
Qed.

Lemma opt_N_eqb_some a n : opt_N_eqb a (Some n) = true -> a = Some n.
Proof. destruct a as [x|]; cbn [opt_N_eqb]; [|discriminate]. intros H. apply N.eqb_eq in H. congruence. Qed.

Lemma existsb_false_in {A} (p : A -> bool) l x : existsb p l = false -> In x l -> p x = false.
Proof.
  intros H Hx. destruct (p x) eqn:E; [|reflexivity]. rewrite <- H. symmetry. apply existsb_exists. exists x. auto.
Qed.

Lemma head_cl_ok cl eos b fs cl' :
  head_content_length cl eos b = Some cl' -> cl <> CLHead -> b_fields b = regular_fields fs ->
  bad_content_length fs = false.
Proof.
  intros H Hc Hf. unfold bad_content_length. rewrite values_of_regular, <- Hf.
  assert (K : match first_value cl_name (b_fields b) with
              | None => True
              | Some v => exists m, parse_u64 v = Some m /\
                  existsb (fun w => negb (opt_N_eqb (parse_u64 w) (Some m))) (all_values cl_name (b_fields b)) = false
              end).
  { unfold head_content_length in H.
    destruct cl as [| |rem]; try congruence;
      (destruct (first_value cl_name (b_fields b)) as [v|]; [|exact I];
       destruct (parse_u64 v) as [m|]; [|discriminate]; exists m; split; [reflexivity|];
       destruct (existsb _ (all_values cl_name (b_fields b))); [discriminate|reflexivity]). }
  rewrite first_value_all in K. destruct (all_values cl_name (b_fields b)) as [|v vs] eqn:Ev; [reflexivity|].
  destruct K as (m & _ & K2).
  assert (A : forall x, In x (map decimal (v :: vs)) -> x = Some m).
  { intros x Hx. apply in_map_iff in Hx. destruct Hx as (w & <- & Hw).
    apply parse_u64_decimal. apply opt_N_eqb_some.
    pose proof (existsb_false_in _ _ w K2 Hw) as E. cbn beta in E. apply negb_false_iff in E. exact E. }
  destruct (all_same_ok _ m A) as (A1 & A2). rewrite A1, A2. reflexivity.
Qed.
