(* C13: proofs about Model/HttpRules.v against Ref/Rfc9113Http.v. *)
From Coq Require Import String Ascii.
From H2V Require Import Base.Tac Base.Bytes Model.HttpTokens Ref.Rfc9113Http Model.HttpRules.
Local Open Scope N_scope.

(* ------------------------------------------------------------------------------------------ *)
(* small facts *)

Lemma octets_bstr s : octets s = bstr s.
Proof. induction s as [|c s IH]; cbn [octets bstr]; [reflexivity|]. rewrite IH. reflexivity. Qed.

Lemma list_N_eqb_refl a : list_N_eqb a a = true.
Proof. apply list_N_eqb_eq. reflexivity. Qed.

Lemma list_N_eqb_sym a b : list_N_eqb a b = list_N_eqb b a.
Proof.
  destruct (list_N_eqb a b) eqn:E1, (list_N_eqb b a) eqn:E2; try reflexivity.
  - apply list_N_eqb_eq in E1. subst. rewrite list_N_eqb_refl in E2. discriminate.
  - apply list_N_eqb_eq in E2. subst. rewrite list_N_eqb_refl in E1. discriminate.
Qed.

Lemma named_bstr s f : named s f = list_N_eqb (fst f) (bstr s).
Proof. unfold named. rewrite octets_bstr. reflexivity. Qed.

Lemma has_cons s f r : has s (f :: r) = named s f || has s r.
Proof. reflexivity. Qed.

Lemma occurrences_cons s f r :
  occurrences s (f :: r) = if named s f then S (occurrences s r) else occurrences s r.
Proof. unfold occurrences. cbn [filter]. destruct (named s f); reflexivity. Qed.

Lemma has_false_occ s fs : has s fs = false -> occurrences s fs = O.
Proof.
  induction fs as [|f r IH]; [reflexivity|]. rewrite has_cons, occurrences_cons.
  destruct (named s f); cbn [orb]; [discriminate|exact IH].
Qed.

Lemma has_value_of s fs : has s fs = is_some (value_of s fs).
Proof.
  induction fs as [|f r IH]; [reflexivity|]. rewrite has_cons. cbn [value_of].
  destruct (named s f); cbn [orb is_some]; [reflexivity|exact IH].
Qed.

Lemma value_of_in s fs v : value_of s fs = Some v -> exists f, In f fs /\ named s f = true /\ snd f = v.
Proof.
  induction fs as [|f r IH]; cbn [value_of]; [discriminate|].
  destruct (named s f) eqn:E.
  - intros H. inversion H. exists f. cbn [In]. auto.
  - intros H. destruct (IH H) as (g & A & B & C). exists g. cbn [In]. auto.
Qed.

(* ------------------------------------------------------------------------------------------ *)
(* Header::new against 8.2.1 / 8.3 *)

Definition pname (h : hname) : string :=
  match h with
  | HField => "" | HAuthority => ":authority" | HMethod => ":method" | HScheme => ":scheme"
  | HPath => ":path" | HProtocol => ":protocol" | HStatus => ":status"
  end.

Definition hname_eqb (a b : hname) : bool :=
  match a, b with
  | HField, HField | HAuthority, HAuthority | HMethod, HMethod | HScheme, HScheme
  | HPath, HPath | HProtocol, HProtocol | HStatus, HStatus => true
  | _, _ => false
  end.

Lemma hname_eqb_eq a b : hname_eqb a b = true <-> a = b.
Proof. destruct a, b; cbn [hname_eqb]; split; congruence. Qed.

Lemma pname_eqb a b : a <> HField -> list_N_eqb (bstr (pname a)) (bstr (pname b)) = hname_eqb a b.
Proof. destruct a, b; intros H; try congruence; reflexivity. Qed.

Lemma name_char_not_bad b : name_char_ok b = true -> bad_name_octet b = false.
Proof. unfold name_char_ok, bad_name_octet, in_range. lia. Qed.

Lemma value_char_not_bad b : value_char_ok b = true -> bad_value_octet b = false.
Proof. unfold value_char_ok, bad_value_octet. lia. Qed.

Lemma forallb_existsb_false {A} (p q : A -> bool) l :
  (forall x, p x = true -> q x = false) -> forallb p l = true -> existsb q l = false.
Proof.
  intros H. induction l as [|x l IH]; cbn [forallb existsb]; [reflexivity|].
  rewrite andb_true_iff. intros [A1 A2]. rewrite (H x A1), (IH A2). reflexivity.
Qed.

Lemma name_ok_regular n : name_ok n = true -> bad_regular_name n = false.
Proof.
  destruct n as [|c r]; cbn [name_ok bad_regular_name]; [discriminate|].
  rewrite andb_true_iff. intros [_ H]. exact (forallb_existsb_false _ _ _ name_char_not_bad H).
Qed.

Lemma value_ok_octets v : value_ok v = true -> existsb bad_value_octet v = false.
Proof. exact (forallb_existsb_false _ _ _ value_char_not_bad). Qed.

(* what Header::new accepted *)
Lemma header_new_field f :
  header_new f = Some HField ->
  is_pseudo f = false /\ name_ok (fst f) = true /\ value_ok (snd f) = true.
Proof.
  unfold header_new, is_pseudo. destruct (fst f) as [|c rest] eqn:Ef; [discriminate|].
  destruct (c =? 58) eqn:Ec.
  - repeat match goal with
    | |- (if ?b then _ else _) = _ -> _ => destruct b
    end; discriminate.
  - destruct (name_ok (c :: rest)) eqn:En; [|discriminate].
    destruct (value_ok (snd f)) eqn:Ev; [|discriminate]. auto.
Qed.

Lemma header_new_pseudo f h :
  header_new f = Some h -> h <> HField ->
  fst f = bstr (pname h) /\ is_pseudo f = true /\
  (h = HStatus -> status_ok (snd f) = true) /\ (h = HMethod -> method_ok (snd f) = true).
Proof.
  unfold header_new, is_pseudo. destruct (fst f) as [|c rest] eqn:Ef; [discriminate|].
  destruct (c =? 58) eqn:Ec.
  - apply N.eqb_eq in Ec. subst c.
    destruct (list_N_eqb rest (bstr "authority")) eqn:E1.
    { apply list_N_eqb_eq in E1. subst rest. destruct (utf8_ok (snd f)); [|discriminate].
      intros H _. inversion H. repeat split; try reflexivity; discriminate. }
    destruct (list_N_eqb rest (bstr "method")) eqn:E2.
    { apply list_N_eqb_eq in E2. subst rest. destruct (method_ok (snd f)) eqn:Em; [|discriminate].
      intros H _. inversion H. repeat split; try reflexivity; try discriminate. }
    destruct (list_N_eqb rest (bstr "scheme")) eqn:E3.
    { apply list_N_eqb_eq in E3. subst rest. destruct (utf8_ok (snd f)); [|discriminate].
      intros H _. inversion H. repeat split; try reflexivity; discriminate. }
    destruct (list_N_eqb rest (bstr "path")) eqn:E4.
    { apply list_N_eqb_eq in E4. subst rest. destruct (utf8_ok (snd f)); [|discriminate].
      intros H _. inversion H. repeat split; try reflexivity; discriminate. }
    destruct (list_N_eqb rest (bstr "protocol")) eqn:E5.
    { apply list_N_eqb_eq in E5. subst rest. destruct (utf8_ok (snd f)); [|discriminate].
      intros H _. inversion H. repeat split; try reflexivity; discriminate. }
    destruct (list_N_eqb rest (bstr "status")) eqn:E6.
    { apply list_N_eqb_eq in E6. subst rest. destruct (status_ok (snd f)) eqn:Es; [|discriminate].
      intros H _. inversion H. repeat split; try reflexivity; try discriminate. }
    discriminate.
  - destruct (name_ok (c :: rest)); [|discriminate]. destruct (value_ok (snd f)); [|discriminate].
    intros H Hn. inversion H. congruence.
Qed.

Lemma is_pseudo_named_false s f :
  is_pseudo f = false -> (match bstr s with c :: _ => c =? 58 | [] => false end) = true -> named s f = false.
Proof.
  intros Hp Hs. rewrite named_bstr. destruct (list_N_eqb (fst f) (bstr s)) eqn:E; [|reflexivity].
  apply list_N_eqb_eq in E. unfold is_pseudo in Hp. rewrite E in Hp. rewrite Hp in Hs. discriminate.
Qed.

Lemma regular_not_pname f h : is_pseudo f = false -> h <> HField -> named (pname h) f = false.
Proof. intros Hp Hh. apply is_pseudo_named_false; [exact Hp|]. destruct h; try congruence; reflexivity. Qed.

Lemma pseudo_named f h h' :
  fst f = bstr (pname h) -> h <> HField -> named (pname h') f = hname_eqb h h'.
Proof. intros E Hh. rewrite named_bstr, E. apply pname_eqb. exact Hh. Qed.

Lemma pseudo_known f h :
  fst f = bstr (pname h) -> h <> HField -> existsb (fun s => named s f) defined_pseudo = true.
Proof.
  intros E Hh. unfold defined_pseudo, request_pseudo, response_pseudo. cbn [List.app existsb].
  rewrite !named_bstr, E. destruct h; try congruence; reflexivity.
Qed.

Lemma header_new_not_bad f h : header_new f = Some h -> bad_field f = false.
Proof.
  intros H. destruct (hname_eqb h HField) eqn:Eh.
  - apply hname_eqb_eq in Eh. subst h.
    destruct (header_new_field f H) as (A & B & C). unfold bad_field. rewrite A.
    rewrite (name_ok_regular _ B), (value_ok_octets _ C). reflexivity.
  - assert (Hh : h <> HField) by (intros X; subst h; discriminate).
    destruct (header_new_pseudo f _ H Hh) as (A & B & _).
    unfold bad_field, unknown_pseudo. rewrite B, (pseudo_known f h A Hh). reflexivity.
Qed.

(* connection-specific fields and TE: the code's tests are the reference's *)
Lemma conn_specific_ref f : conn_specific_name (fst f) = connection_specific f.
Proof.
  unfold conn_specific_name, connection_specific, connection_specific_names. cbn [existsb].
  rewrite !named_bstr.
  destruct (list_N_eqb (fst f) (bstr "connection")), (list_N_eqb (fst f) (bstr "transfer-encoding")),
    (list_N_eqb (fst f) (bstr "upgrade")), (list_N_eqb (fst f) (bstr "keep-alive")),
    (list_N_eqb (fst f) (bstr "proxy-connection")); reflexivity.
Qed.

Lemma te_ref f : te_not_trailers f = bad_te f.
Proof. unfold te_not_trailers, bad_te, named. reflexivity. Qed.

Lemma pseudo_not_conn f h : fst f = bstr (pname h) -> h <> HField -> connection_specific f = false /\ bad_te f = false.
Proof.
  intros E Hh. unfold connection_specific, connection_specific_names, bad_te. cbn [existsb].
  rewrite !named_bstr, E. destruct h; try congruence; split; reflexivity.
Qed.

(* ------------------------------------------------------------------------------------------ *)
(* HeaderBlock::load: what an accepted block looks like *)

Definition regular_fields (fs : list field) : list field := filter (fun f => negb (is_pseudo f)) fs.

Lemma ps_get_set_same h v p : h <> HField -> ps_get h (ps_set h v p) = Some v.
Proof. destruct h; intros H; try congruence; reflexivity. Qed.

Lemma ps_get_set_other h h' v p : h <> h' -> ps_get h' (ps_set h v p) = ps_get h' p.
Proof. destruct h, h'; intros H; try congruence; reflexivity. Qed.

Ltac lsimpl := cbn [l_reg l_mal l_over l_size l_ps l_fields add_size set_reg set_mal set_over put_ps put_field] in *.

Lemma check_size_cont max s s1 :
  check_size max s = Continue s1 ->
  l_reg s1 = l_reg s /\ l_mal s1 = l_mal s /\ l_ps s1 = l_ps s /\ l_fields s1 = l_fields s /\
  (l_over s1 = false -> l_over s = false).
Proof.
  unfold check_size. destruct (_ <? _); [discriminate|]. intros H. inversion H as [H1]. clear H.
  destruct ((max <=? l_size s) && negb (l_over s)); lsimpl; repeat split; auto; discriminate.
Qed.

Lemma load_from_spec max fs : forall s b,
  load_from max s fs = LOk b ->
  l_mal s = false /\
  (forall f, In f fs -> header_new f <> None) /\
  existsb connection_specific fs = false /\ existsb bad_te fs = false /\
  (l_reg s = true -> existsb is_pseudo fs = false) /\
  pseudo_after_regular fs = false /\
  (b_over b = false ->
     l_over s = false /\
     b_fields b = l_fields s ++ regular_fields fs /\
     forall h, h <> HField ->
       match ps_get h (l_ps s) with
       | Some v => ps_get h (b_pseudo b) = Some v /\ has (pname h) fs = false
       | None => ps_get h (b_pseudo b) = value_of (pname h) fs /\ (occurrences (pname h) fs <= 1)%nat
       end).
Proof.
  induction fs as [|f r IH]; intros s b H; cbn [load_from] in H.
  - destruct (l_mal s) eqn:Em; [discriminate|]. inversion H as [Hb]. clear H.
    split; [reflexivity|]. split; [intros f []|]. split; [reflexivity|]. split; [reflexivity|].
    split; [intros _; reflexivity|]. split; [reflexivity|].
    cbn [b_over b_fields b_pseudo]. intros Ho. split; [exact Ho|].
    split; [cbn [regular_fields filter]; rewrite app_nil_r; reflexivity|].
    intros h Hh. destruct (ps_get h (l_ps s)); split; auto.
  - destruct (header_new f) as [h|] eqn:Eh; [|discriminate].
    destruct (load_field max s h f) as [s'|] eqn:El; [|discriminate].
    specialize (IH s' b H). destruct IH as (M & V & C & T & R & P & O).
    assert (V' : forall g, In g (f :: r) -> header_new g <> None).
    { intros g [<-|Hg]; [congruence|exact (V g Hg)]. }
    destruct (hname_eqb h HField) eqn:Ehf.
    + (* a regular field *)
      apply hname_eqb_eq in Ehf. subst h.
      destruct (header_new_field f Eh) as (Fp & Fn & Fv).
      cbn [load_field] in El.
      destruct (conn_specific_name (fst f)) eqn:Ec.
      { inversion El as [El']. subst s'. lsimpl. discriminate. }
      destruct (te_not_trailers f) eqn:Et.
      { inversion El as [El']. subst s'. lsimpl. discriminate. }
      destruct (check_size max (add_size (lenN (fst f) + lenN (snd f) + 32) (set_reg s))) as [s1|] eqn:Ecs; [|discriminate].
      destruct (check_size_cont _ _ _ Ecs) as (K1 & K2 & K3 & K4 & K5). lsimpl.
      inversion El as [El']. clear El.
      assert (Hreg : l_reg s' = true) by (subst s'; destruct (l_over s1); lsimpl; congruence).
      assert (Hmal : l_mal s' = l_mal s) by (subst s'; destruct (l_over s1); lsimpl; congruence).
      assert (Hps : l_ps s' = l_ps s) by (subst s'; destruct (l_over s1); lsimpl; congruence).
      specialize (R Hreg).
      rewrite conn_specific_ref in Ec. rewrite te_ref in Et.
      cbn [existsb pseudo_after_regular]. rewrite Ec, Et, Fp, C, T, R. cbn [orb].
      split; [congruence|]. split; [exact V'|]. split; [reflexivity|]. split; [reflexivity|].
      split; [intros _; reflexivity|]. split; [reflexivity|].
      intros Ho. destruct (O Ho) as (O1 & O2 & O3).
      assert (Es' : s' = put_field f s1 /\ l_over s1 = false).
      { subst s'. destruct (l_over s1) eqn:Eo; lsimpl; [congruence|auto]. }
      destruct Es' as (Es' & Eo).
      split; [exact (K5 Eo)|]. split.
      * rewrite O2, Es'. lsimpl. cbn [regular_fields filter]. rewrite Fp. cbn [negb].
        rewrite K4, <- app_assoc. reflexivity.
      * intros h Hh. specialize (O3 h Hh). rewrite Hps in O3.
        rewrite has_cons, occurrences_cons. cbn [value_of]. rewrite (regular_not_pname f h Fp Hh). cbn [orb]. exact O3.
    + (* a pseudo-header field *)
      assert (Hh : h <> HField) by (intros X; subst h; discriminate).
      destruct (header_new_pseudo f h Eh Hh) as (Fn & Fp & _).
      assert (El2 : (if l_reg s then Continue (set_mal s)
                     else if is_some (ps_get h (l_ps s)) then Continue (set_mal s)
                     else match check_size max (add_size (pname_len h + lenN (snd f) + 32) s) with
                          | Break => Break
                          | Continue s1 => Continue (if l_over s1 then s1 else put_ps h (snd f) s1)
                          end) = Continue s').
      { destruct h; try congruence; exact El. }
      clear El.
      destruct (l_reg s) eqn:Er.
      { inversion El2 as [El']. subst s'. lsimpl. discriminate. }
      destruct (ps_get h (l_ps s)) as [old|] eqn:Eg; cbn [is_some] in El2.
      { inversion El2 as [El']. subst s'. lsimpl. discriminate. }
      destruct (check_size max (add_size (pname_len h + lenN (snd f) + 32) s)) as [s1|] eqn:Ecs; [|discriminate].
      destruct (check_size_cont _ _ _ Ecs) as (K1 & K2 & K3 & K4 & K5). lsimpl.
      inversion El2 as [El']. clear El2.
      assert (Hmal : l_mal s' = l_mal s) by (subst s'; destruct (l_over s1); lsimpl; congruence).
      destruct (pseudo_not_conn f h Fn Hh) as (Nc & Nt).
      cbn [existsb pseudo_after_regular]. rewrite Nc, Nt, Fp, C, T, P. cbn [orb].
      split; [congruence|]. split; [exact V'|]. split; [reflexivity|]. split; [reflexivity|].
      split; [discriminate|]. split; [reflexivity|].
      intros Ho. destruct (O Ho) as (O1 & O2 & O3).
      assert (Es' : s' = put_ps h (snd f) s1 /\ l_over s1 = false).
      { subst s'. destruct (l_over s1) eqn:Eo; lsimpl; [congruence|auto]. }
      destruct Es' as (Es' & Eo).
      split; [exact (K5 Eo)|]. split.
      * rewrite O2, Es'. lsimpl. cbn [regular_fields filter]. rewrite Fp. cbn [negb]. rewrite K4. reflexivity.
      * intros h' Hh'. specialize (O3 h' Hh').
        rewrite Es' in O3. lsimpl. rewrite K3 in O3.
        rewrite has_cons, occurrences_cons. cbn [value_of]. rewrite (pseudo_named f h h' Fn Hh).
        destruct (hname_eqb h h') eqn:Ehh.
        -- apply hname_eqb_eq in Ehh. subst h'. rewrite Eg. rewrite ps_get_set_same in O3 by exact Hh.
           destruct O3 as (O4 & O5). split; [exact O4|]. rewrite (has_false_occ _ _ O5). lia.
        -- assert (Hne : h <> h') by (intros X; subst h'; destruct h; discriminate).
           rewrite ps_get_set_other in O3 by exact Hne. cbn [orb]. exact O3.
Qed.

Lemma ps_get_empty h : ps_get h pseudo_empty = None.
Proof. destruct h; reflexivity. Qed.

Lemma existsb_false_forall {A} (p : A -> bool) l : (forall x, In x l -> p x = false) -> existsb p l = false.
Proof.
  induction l as [|x l IH]; intros H; cbn [existsb]; [reflexivity|].
  rewrite (H x (or_introl eq_refl)), IH; [reflexivity|]. intros y Hy. apply H. right. exact Hy.
Qed.

Lemma load_spec max fs b :
  load max fs = LOk b ->
  (forall f, In f fs -> header_new f <> None) /\
  existsb bad_field fs = false /\ existsb connection_specific fs = false /\ existsb bad_te fs = false /\
  pseudo_after_regular fs = false /\
  (b_over b = false ->
     b_fields b = regular_fields fs /\
     forall h, h <> HField ->
       ps_get h (b_pseudo b) = value_of (pname h) fs /\ (occurrences (pname h) fs <= 1)%nat).
Proof.
  unfold load. intros H. destruct (load_from_spec max fs lstate0 b H) as (_ & V & C & T & _ & P & O).
  split; [exact V|]. split.
  { apply existsb_false_forall. intros f Hf. specialize (V f Hf).
    destruct (header_new f) as [h|] eqn:E; [|congruence]. exact (header_new_not_bad f h E). }
  split; [exact C|]. split; [exact T|]. split; [exact P|].
  intros Ho. destruct (O Ho) as (_ & O2 & O3). split; [exact O2|].
  intros h Hh. specialize (O3 h Hh). cbn [lstate0 l_ps] in O3. rewrite ps_get_empty in O3. exact O3.
Qed.

Lemma no_dup_pseudo fs :
  (forall h, h <> HField -> (occurrences (pname h) fs <= 1)%nat) -> duplicated_pseudo fs = false.
Proof.
  intros H. unfold duplicated_pseudo, defined_pseudo, request_pseudo, response_pseudo. cbn [List.app existsb].
  pose proof (H HMethod ltac:(discriminate)) as H1. pose proof (H HScheme ltac:(discriminate)) as H2.
  pose proof (H HAuthority ltac:(discriminate)) as H3. pose proof (H HPath ltac:(discriminate)) as H4.
  pose proof (H HProtocol ltac:(discriminate)) as H5. pose proof (H HStatus ltac:(discriminate)) as H6.
  cbn [pname] in *.
  repeat match goal with
  | |- context [Nat.ltb 1 ?x] => let E := fresh "E" in destruct (Nat.ltb 1 x) eqn:E; [apply Nat.ltb_lt in E; lia|]
  end. reflexivity.
Qed.

Lemma load_ok_bad_fields max fs b : load max fs = LOk b -> b_over b = false -> bad_fields fs = false.
Proof.
  intros H Ho. destruct (load_spec max fs b H) as (_ & B & C & T & P & O). destruct (O Ho) as (_ & O3).
  unfold bad_fields. rewrite B, C, T, P. cbn [orb]. apply no_dup_pseudo. intros h Hh. exact (proj2 (O3 h Hh)).
Qed.

(* a block without pseudo-header fields has no duplicated pseudo-header field *)
Lemma named_pname_pseudo f h : h <> HField -> named (pname h) f = true -> is_pseudo f = true.
Proof.
  intros Hh H. rewrite named_bstr in H. apply list_N_eqb_eq in H. unfold is_pseudo. rewrite H.
  destruct h; try congruence; reflexivity.
Qed.

Lemma no_pseudo_occ fs h : existsb is_pseudo fs = false -> h <> HField -> occurrences (pname h) fs = O.
Proof.
  intros H Hh. induction fs as [|f r IH]; [reflexivity|]. cbn [existsb] in H. apply orb_false_iff in H.
  destruct H as (H1 & H2). rewrite occurrences_cons. destruct (named (pname h) f) eqn:E.
  - rewrite (named_pname_pseudo f h Hh E) in H1. discriminate.
  - exact (IH H2).
Qed.

(* ------------------------------------------------------------------------------------------ *)
(* content-length *)

Lemma pseudo_not_cl f : is_pseudo f = true -> named "content-length" f = false.
Proof.
  unfold is_pseudo, named. destruct (fst f) as [|c r]; [discriminate|]. intros H. apply N.eqb_eq in H. subst c.
  reflexivity.
Qed.

Lemma values_of_regular fs : values_of "content-length" fs = all_values cl_name (regular_fields fs).
Proof.
  unfold values_of, all_values, regular_fields. induction fs as [|f r IH]; [reflexivity|]. cbn [filter].
  destruct (is_pseudo f) eqn:Ep; cbn [negb].
  - rewrite (pseudo_not_cl f Ep). exact IH.
  - cbn [filter]. unfold cl_name at 1. rewrite <- named_bstr. destruct (named "content-length" f); cbn [map]; rewrite IH; reflexivity.
Qed.

Lemma first_value_all n l : first_value n l = match all_values n l with [] => None | v :: _ => Some v end.
Proof.
  unfold all_values. induction l as [|f r IH]; [reflexivity|]. cbn [first_value filter].
  destruct (list_N_eqb (fst f) n); [reflexivity|exact IH].
Qed.

Lemma parse_u64_decimal v n : parse_u64 v = Some n -> decimal v = Some n.
Proof.
  unfold parse_u64, decimal. destruct v as [|x r]; [discriminate|].
  destruct (19 <? lenN (x :: r)); [discriminate|].
  change (forallb is_digit (x :: r)) with (forallb digit (x :: r)).
  destruct (forallb digit (x :: r)); [|discriminate]. intros H. exact H.
Qed.

Lemma all_same_ok (l : list (option N)) n :
  (forall x, In x l -> x = Some n) ->
  existsb (fun v => match v with None => true | Some _ => false end) l = false /\ all_equal l = true.
Proof.
  induction l as [|a l IH]; intros H; [split; reflexivity|].
  assert (Ha : a = Some n) by (apply H; left; reflexivity).
  destruct IH as (I1 & I2); [intros x Hx; apply H; right; exact Hx|].
  subst a. cbn [existsb]. rewrite I1. split; [reflexivity|].
  destruct l as [|b l']; [reflexivity|].
  assert (Hb : b = Some n) by (apply H; right; left; reflexivity). subst b.
  cbn [all_equal] in *. rewrite N.eqb_refl. exact I2.
Qed.

Lemma opt_N_eqb_some a n : opt_N_eqb a (Some n) = true -> a = Some n.
Proof. destruct a as [x|]; cbn [opt_N_eqb]; [|discriminate]. intros H. apply N.eqb_eq in H. congruence. Qed.

Lemma existsb_false_in {A} (p : A -> bool) l x : existsb p l = false -> In x l -> p x = false.
Proof.
  intros H Hx. destruct (p x) eqn:E; [|reflexivity]. rewrite <- H. symmetry. apply existsb_exists. exists x. auto.
Qed.

Lemma head_cl_ok cl eos b fs cl' :
  head_content_length cl eos b = Some cl' -> cl <> CLHead -> b_fields b = regular_fields fs ->
  bad_content_length fs = false.
Proof.
  intros H Hc Hf. unfold bad_content_length. rewrite values_of_regular, <- Hf.
  assert (K : match first_value cl_name (b_fields b) with
              | None => True
              | Some v => exists m, parse_u64 v = Some m /\
                  existsb (fun w => negb (opt_N_eqb (parse_u64 w) (Some m))) (all_values cl_name (b_fields b)) = false
              end).
  { unfold head_content_length in H.
    destruct cl as [| |rem]; try congruence;
      (destruct (first_value cl_name (b_fields b)) as [v|]; [|exact I];
       destruct (parse_u64 v) as [m|]; [|discriminate]; exists m; split; [reflexivity|];
       destruct (existsb _ (all_values cl_name (b_fields b))); [discriminate|reflexivity]). }
  rewrite first_value_all in K. destruct (all_values cl_name (b_fields b)) as [|v vs] eqn:Ev; [reflexivity|].
  destruct K as (m & _ & K2).
  assert (A : forall x, In x (map decimal (v :: vs)) -> x = Some m).
  { intros x Hx. apply in_map_iff in Hx. destruct Hx as (w & <- & Hw).
    apply parse_u64_decimal. apply opt_N_eqb_some.
    pose proof (existsb_false_in _ _ w K2 Hw) as E. cbn beta in E. apply negb_false_iff in E. exact E. }
  destruct (all_same_ok _ m A) as (A1 & A2). rewrite A1, A2. reflexivity.
Qed.

(* ------------------------------------------------------------------------------------------ *)
(* the conversions against 8.3.1 / 8.3.2 / 8.5 *)

Definition bad_request_ps (P : pseudo) : bool :=
  is_some (p_status P) || negb (is_some (p_method P)) ||
  (if value_is "CONNECT" (p_method P) && negb (is_some (p_protocol P)) then
     is_some (p_scheme P) || is_some (p_path P) || negb (is_some (p_authority P))
   else
     negb (is_some (p_scheme P)) || negb (is_some (p_path P)) || value_is "" (p_path P) ||
     (is_some (p_protocol P) && negb (value_is "CONNECT" (p_method P)))).

Lemma bad_request_ps_eq fs P :
  (forall h, h <> HField -> ps_get h P = value_of (pname h) fs) -> bad_request fs = bad_request_ps P.
Proof.
  intros H.
  pose proof (H HStatus ltac:(discriminate)) as H1. pose proof (H HMethod ltac:(discriminate)) as H2.
  pose proof (H HProtocol ltac:(discriminate)) as H3. pose proof (H HScheme ltac:(discriminate)) as H4.
  pose proof (H HPath ltac:(discriminate)) as H5. pose proof (H HAuthority ltac:(discriminate)) as H6.
  cbn [pname ps_get] in *.
  unfold bad_request, bad_request_ps. rewrite !has_value_of. rewrite <- H1, <- H2, <- H3, <- H4, <- H5, <- H6.
  reflexivity.
Qed.

Lemma lenN_zero (p : list N) : list_N_eqb p [] = (lenN p =? 0).
Proof.
  destruct p as [|x r]; [reflexivity|]. unfold lenN. cbn [length list_N_eqb]. symmetry. apply N.eqb_neq. lia.
Qed.

Lemma convert_request_ok v P fields rq :
  convert_request v P fields = Some rq -> bad_request_ps P = false /\ p_method P = Some (rq_method rq).
Proof.
  unfold convert_request, bad_request_ps. destruct P as [m s a p pr st].
  cbn [p_method p_scheme p_authority p_path p_protocol p_status].
  destruct m as [m0|]; [|discriminate]. cbn [value_is is_some].
  change (octets "CONNECT") with (bstr "CONNECT"). change (octets "") with (@nil N).
  destruct (list_N_eqb m0 (bstr "CONNECT")) eqn:Ec; destruct pr, st, a, s, p;
    cbn [is_some negb andb orb value_is uri_from_parts_ok]; try discriminate; try rewrite lenN_zero;
    intros H;
    repeat match type of H with
    | context [if ?b then _ else _] => let E := fresh "E" in destruct b eqn:E; try discriminate H
    end;
    (split; [|inversion H; reflexivity]);
    repeat match goal with
    | E : (_ || _) = false |- _ => apply orb_false_iff in E; destruct E
    | E : negb _ = false |- _ => apply negb_false_iff in E
    end;
    try reflexivity; try congruence;
    try (rewrite orb_false_r; assumption).
Qed.

Lemma status_1xx_num v :
  status_ok v = true ->
  (match v with [a; b; c] => (a =? 49) && is_digit b && is_digit c | _ => false end)
  = (100 <=? status_num v) && (status_num v <? 200).
Proof.
  destruct v as [|a [|b [|c [|d r]]]]; cbn [status_ok]; try discriminate.
  unfold in_range, is_digit, status_num. lia.
Qed.

Lemma status_of_block max fs b v :
  load max fs = LOk b -> value_of ":status" fs = Some v -> status_ok v = true.
Proof.
  intros H Hv. destruct (load_spec max fs b H) as (V & _).
  destruct (value_of_in _ _ _ Hv) as (f & Hin & Hn & Hs). specialize (V f Hin).
  destruct (header_new f) as [h|] eqn:E; [|congruence].
  destruct (hname_eqb h HField) eqn:Eh.
  - apply hname_eqb_eq in Eh. subst h. destruct (header_new_field f E) as (A & _).
    change ":status"%string with (pname HStatus) in Hn. rewrite (regular_not_pname f HStatus A ltac:(discriminate)) in Hn. discriminate.
  - assert (Hh : h <> HField) by (intros X; subst h; discriminate).
    destruct (header_new_pseudo f h E Hh) as (A & _ & S & _).
    change ":status"%string with (pname HStatus) in Hn. rewrite (pseudo_named f h HStatus A Hh) in Hn.
    apply hname_eqb_eq in Hn. rewrite <- Hs. exact (S Hn).
Qed.

(* the informational test of the code is the reference's on an accepted block *)
Lemma informational_ref max fs b :
  load max fs = LOk b -> b_over b = false -> ps_informational (b_pseudo b) = status_1xx fs.
Proof.
  intros H Ho. destruct (load_spec max fs b H) as (_ & _ & _ & _ & _ & O). destruct (O Ho) as (_ & O3).
  destruct (O3 HStatus ltac:(discriminate)) as (E & _). cbn [ps_get pname] in E.
  unfold ps_informational, status_1xx. rewrite E. destruct (value_of ":status" fs) as [v|] eqn:Ev; [|reflexivity].
  rewrite <- (status_1xx_num v (status_of_block max fs b v H Ev)). reflexivity.
Qed.

Lemma delivers_false_stream k : delivers k StreamError = false. Proof. destruct k; reflexivity. Qed.
Lemma delivers_false_conn k c : delivers k (ConnError c) = false. Proof. destruct k; reflexivity. Qed.
Lemma delivers_false_431 k : delivers k Respond431 = false. Proof. destruct k; reflexivity. Qed.

(* a request handed to the application (accept) *)
Lemma C13_request ext max cl eos v fs hk :
  cl <> CLHead ->
  delivers Request (model_head Server ext max cl eos v fs) = true ->
  malformed_block Server Request hk eos fs = false.
Proof.
  intros Hcl. unfold model_head, of_load. destruct (load max fs) as [b| | |] eqn:El; cbn [delivers]; try discriminate.
  unfold recv_head. destruct (ps_informational (b_pseudo b) && eos); [cbn [fst delivers]; discriminate|].
  destruct (head_content_length cl eos b) as [cl'|] eqn:Ecl; [|cbn [fst delivers]; discriminate].
  destruct (b_over b) eqn:Eo; [cbn [fst delivers]; discriminate|].
  destruct (is_some (p_protocol (b_pseudo b)) && negb ext); [cbn [fst delivers]; discriminate|].
  destruct (is_some (p_status (b_pseudo b)) && true); [cbn [fst delivers]; discriminate|].
  destruct (convert_request v (b_pseudo b) (b_fields b)) as [rq|] eqn:Ecv; [|cbn [fst delivers]; discriminate].
  intros _. destruct (load_spec max fs b El) as (_ & _ & _ & _ & _ & O). destruct (O Eo) as (O2 & O3).
  unfold malformed_block, malformed. cbn [kind_received_by negb accounted orb andb].
  rewrite (load_ok_bad_fields max fs b El Eo).
  rewrite (bad_request_ps_eq fs (b_pseudo b) (fun h Hh => proj1 (O3 h Hh))).
  rewrite (proj1 (convert_request_ok _ _ _ _ Ecv)).
  rewrite (head_cl_ok cl eos b fs cl' Ecl Hcl O2). reflexivity.
Qed.

(* a final response handed to the application *)
Lemma C13_response ext max cl eos v fs hk :
  (accounted Response hk = true -> cl <> CLHead) -> has ":status" fs = true ->
  delivers Response (model_head Client ext max cl eos v fs) = true ->
  malformed_block Client Response hk eos fs = false.
Proof.
  intros Hcl Hst. unfold model_head, of_load. destruct (load max fs) as [b| | |] eqn:El; cbn [delivers]; try discriminate.
  unfold recv_head. destruct (ps_informational (b_pseudo b) && eos); [cbn [fst delivers]; discriminate|].
  destruct (head_content_length cl eos b) as [cl'|] eqn:Ecl; [|cbn [fst delivers]; discriminate].
  destruct (b_over b) eqn:Eo; [cbn [fst delivers]; discriminate|].
  cbn [andb]. rewrite !andb_false_r.
  unfold convert_response.
  destruct (is_some (p_method (b_pseudo b)) || is_some (p_scheme (b_pseudo b)) || is_some (p_authority (b_pseudo b)) ||
            is_some (p_path (b_pseudo b)) || is_some (p_protocol (b_pseudo b))) eqn:Erq; [cbn [fst delivers]; discriminate|].
  cbn [fst]. rewrite (informational_ref max fs b El Eo).
  destruct (status_1xx fs) eqn:E1; [cbn [delivers]; discriminate|]. intros _.
  destruct (load_spec max fs b El) as (_ & _ & _ & _ & _ & O). destruct (O Eo) as (O2 & O3).
  unfold malformed_block, malformed. cbn [kind_received_by negb orb].
  rewrite (load_ok_bad_fields max fs b El Eo), E1. unfold bad_response, request_pseudo. cbn [existsb].
  rewrite Hst, !has_value_of.
  pose proof (proj1 (O3 HMethod ltac:(discriminate))) as H2. pose proof (proj1 (O3 HProtocol ltac:(discriminate))) as H3.
  pose proof (proj1 (O3 HScheme ltac:(discriminate))) as H4. pose proof (proj1 (O3 HPath ltac:(discriminate))) as H5.
  pose proof (proj1 (O3 HAuthority ltac:(discriminate))) as H6. cbn [pname ps_get] in *.
  rewrite <- H2, <- H3, <- H4, <- H5, <- H6.
  repeat (apply orb_false_iff in Erq; destruct Erq as (Erq & ?)).
  repeat match goal with E : is_some _ = false |- _ => rewrite E; clear E end. cbn [orb negb].
  destruct (accounted Response hk) eqn:Ea; [|reflexivity].
  rewrite (head_cl_ok cl eos b fs cl' Ecl (Hcl eq_refl) O2). reflexivity.
Qed.

(* an interim response handed to the application *)
Lemma C13_informational ext max cl eos v fs hk :
  delivers Informational (model_head Client ext max cl eos v fs) = true ->
  malformed_block Client Informational hk eos fs = false.
Proof.
  unfold model_head, of_load. destruct (load max fs) as [b| | |] eqn:El; cbn [delivers]; try discriminate.
  unfold recv_head. destruct (ps_informational (b_pseudo b) && eos) eqn:Eie; [cbn [fst delivers]; discriminate|].
  destruct (head_content_length cl eos b) as [cl'|] eqn:Ecl; [|cbn [fst delivers]; discriminate].
  destruct (b_over b) eqn:Eo; [cbn [fst delivers]; discriminate|].
  cbn [andb]. rewrite !andb_false_r.
  unfold convert_response.
  destruct (is_some (p_method (b_pseudo b)) || is_some (p_scheme (b_pseudo b)) || is_some (p_authority (b_pseudo b)) ||
            is_some (p_path (b_pseudo b)) || is_some (p_protocol (b_pseudo b))) eqn:Erq; [cbn [fst delivers]; discriminate|].
  cbn [fst]. rewrite (informational_ref max fs b El Eo) in *.
  destruct (status_1xx fs) eqn:E1; [|cbn [delivers]; discriminate]. intros _.
  cbn [andb] in Eie. subst eos.
  destruct (load_spec max fs b El) as (_ & _ & _ & _ & _ & O). destruct (O Eo) as (O2 & O3).
  unfold malformed_block, malformed. cbn [kind_received_by negb orb accounted andb].
  rewrite (load_ok_bad_fields max fs b El Eo), E1. unfold bad_response, request_pseudo. cbn [existsb].
  assert (Hst : has ":status" fs = true).
  { rewrite has_value_of. unfold status_1xx in E1. destruct (value_of ":status" fs); [reflexivity|discriminate]. }
  rewrite Hst, !has_value_of.
  pose proof (proj1 (O3 HMethod ltac:(discriminate))) as H2. pose proof (proj1 (O3 HProtocol ltac:(discriminate))) as H3.
  pose proof (proj1 (O3 HScheme ltac:(discriminate))) as H4. pose proof (proj1 (O3 HPath ltac:(discriminate))) as H5.
  pose proof (proj1 (O3 HAuthority ltac:(discriminate))) as H6. cbn [pname ps_get] in *.
  rewrite <- H2, <- H3, <- H4, <- H5, <- H6.
  repeat (apply orb_false_iff in Erq; destruct Erq as (Erq & ?)).
  repeat match goal with E : is_some _ = false |- _ => rewrite E; clear E end. reflexivity.
Qed.

(* a promised request handed to the application *)
Lemma C13_pushed max v fs hk eos :
  delivers PushedRequest (model_push Client max v fs) = true ->
  malformed_block Client PushedRequest hk eos fs = false.
Proof.
  unfold model_push, of_load. destruct (load max fs) as [b| | |] eqn:El; cbn [delivers]; try discriminate.
  unfold recv_push. destruct (b_over b) eqn:Eo; [cbn [delivers]; discriminate|].
  destruct (convert_request v (b_pseudo b) (b_fields b)) as [rq|] eqn:Ecv; [|cbn [delivers]; discriminate].
  destruct (validate_push (rq_method rq) (b_fields b)) eqn:Ev; [|cbn [delivers]; discriminate]. intros _.
  destruct (load_spec max fs b El) as (_ & _ & _ & _ & _ & O). destruct (O Eo) as (O2 & O3).
  destruct (convert_request_ok _ _ _ _ Ecv) as (C1 & C2).
  unfold malformed_block, malformed. cbn [kind_received_by negb orb accounted andb].
  rewrite (load_ok_bad_fields max fs b El Eo). unfold bad_pushed_request.
  rewrite (bad_request_ps_eq fs (b_pseudo b) (fun h Hh => proj1 (O3 h Hh))), C1.
  pose proof (proj1 (O3 HMethod ltac:(discriminate))) as H2. cbn [pname ps_get] in H2. rewrite <- H2, C2.
  unfold validate_push in Ev. apply andb_true_iff in Ev. destruct Ev as (Ev1 & Ev2).
  cbn [value_is]. change (octets "GET") with (bstr "GET"). change (octets "HEAD") with (bstr "HEAD").
  rewrite Ev2. cbn [negb orb].
  unfold declared_length. rewrite values_of_regular, <- O2.
  rewrite first_value_all in Ev1. destruct (all_values cl_name (b_fields b)) as [|w ws]; [reflexivity|].
  apply opt_N_eqb_some in Ev1. rewrite (parse_u64_decimal w 0 Ev1). reflexivity.
Qed.

(* a trailer section handed to the application *)
Lemma C13_trailers r max cl eos fs hk :
  existsb is_pseudo fs = false ->
  delivers Trailers (model_trailers max cl eos fs) = true ->
  malformed_block r Trailers hk eos fs = false.
Proof.
  intros Hp. unfold model_trailers, of_load. destruct (load max fs) as [b| | |] eqn:El; cbn [delivers]; try discriminate.
  unfold recv_trailers. destruct eos; cbn [negb]; [|cbn [fst delivers]; discriminate].
  destruct (ensure_content_length_zero cl); cbn [negb fst delivers]; [|discriminate]. intros _.
  destruct (load_spec max fs b El) as (_ & B & C & T & P & _).
  unfold malformed_block, malformed, bad_fields. rewrite B, C, T, P, Hp.
  rewrite (no_dup_pseudo fs); [|intros h Hh; rewrite (no_pseudo_occ fs h Hp Hh); lia].
  destruct r; reflexivity.
Qed.

(* ------------------------------------------------------------------------------------------ *)
(* C13, receive side *)

(* the two known deviations, by class: a block handed over as a response that has no :status
   field (KF-C13-1); a block handed over as trailers that has a pseudo-header field (KF-C13-2) *)
Definition KnownClass (k : kind) (fs : list field) : Prop :=
  (k = Response /\ has ":status" fs = false) \/ (k = Trailers /\ existsb is_pseudo fs = true).

(* boolean form, shared with the oracle of lib/props/parts/httprules.py *)
Definition known_class_b (k : kind) (fs : list field) : bool :=
  match k with
  | Response => negb (has ":status" fs)
  | Trailers => existsb is_pseudo fs
  | _ => false
  end.

Lemma known_class_b_iff k fs : known_class_b k fs = true <-> KnownClass k fs.
Proof.
  unfold known_class_b, KnownClass. destruct k; split; intros H;
    try discriminate; try (destruct H as [[X _]|[X _]]; discriminate).
  - left. split; [reflexivity|]. apply negb_true_iff in H. exact H.
  - destruct H as [[_ X]|[X _]]; [|discriminate]. rewrite X. reflexivity.
  - right. split; [reflexivity|exact H].
  - destruct H as [[X _]|[_ X]]; [discriminate|exact X].
Qed.

Lemma head_server_kind ext max cl eos v fs k :
  delivers k (model_head Server ext max cl eos v fs) = true -> k = Request.
Proof.
  unfold model_head, of_load. destruct (load max fs) as [b| | |];
    try (rewrite ?delivers_false_stream, ?delivers_false_conn; discriminate).
  unfold recv_head.
  repeat match goal with
  | |- context [if ?c then _ else _] => destruct c
  | |- context [match ?c with Some _ => _ | None => _ end] => destruct c
  end; cbn [fst]; rewrite ?delivers_false_stream, ?delivers_false_conn, ?delivers_false_431; try discriminate;
  destruct k; cbn [delivers]; try discriminate; reflexivity.
Qed.

Lemma head_client_kind ext max cl eos v fs :
  delivers Request (model_head Client ext max cl eos v fs) = false.
Proof.
  unfold model_head, of_load. destruct (load max fs) as [b| | |]; try reflexivity.
  unfold recv_head.
  repeat match goal with
  | |- context [if ?c then _ else _] => destruct c
  | |- context [match ?c with Some _ => _ | None => _ end] => destruct c
  end; reflexivity.
Qed.

Lemma push_server max v fs k : delivers k (model_push Server max v fs) = false.
Proof.
  unfold model_push, of_load. destruct (load max fs);
    rewrite ?delivers_false_stream, ?delivers_false_conn; reflexivity.
Qed.

(* For every role, every way of handing a block to the application, every configuration, every
   answer of the http crate's URI syntax checks, every END_STREAM flag and every field list:
   a block that RFC 9113 section 8 calls malformed is not handed to the application, unless it is
   in one of the two known classes.  [cl] is the stream's content-length state when the block
   arrives ([CLHead] = the request was a HEAD request); the content-length of a message is only
   examined by the code when the state is not [CLHead], which is when the reference accounts it. *)
Theorem C13_recv_except_known :
  forall (r : role) (k : kind) (hk : head_kind) (ext : bool) (max : N) (cl : clen) (eos : bool)
         (v : verdicts) (fs : list field),
    ~ KnownClass k fs ->
    (accounted k hk = true -> cl <> CLHead) ->
    malformed_block r k hk eos fs = true ->
    delivers k (model_recv r k ext max cl eos v fs) = false.
Proof.
  intros r k hk ext max cl eos v fs Hk Hcl Hm.
  destruct (delivers k (model_recv r k ext max cl eos v fs)) eqn:Ed; [|reflexivity]. exfalso.
  destruct r, k; cbn [model_recv] in Ed.
  - rewrite head_client_kind in Ed. discriminate.
  - assert (Hst : has ":status" fs = true).
    { destruct (has ":status" fs) eqn:E; [reflexivity|]. exfalso. apply Hk. left. auto. }
    rewrite (C13_response ext max cl eos v fs hk Hcl Hst Ed) in Hm. discriminate.
  - rewrite (C13_informational ext max cl eos v fs hk Ed) in Hm. discriminate.
  - rewrite (C13_pushed max v fs hk eos Ed) in Hm. discriminate.
  - assert (Hp : existsb is_pseudo fs = false).
    { destruct (existsb is_pseudo fs) eqn:E; [|reflexivity]. exfalso. apply Hk. right. auto. }
    rewrite (C13_trailers Client max cl eos fs hk Hp Ed) in Hm. discriminate.
  - rewrite (C13_request ext max cl eos v fs hk (Hcl eq_refl) Ed) in Hm. discriminate.
  - apply head_server_kind in Ed. discriminate.
  - apply head_server_kind in Ed. discriminate.
  - rewrite push_server in Ed. discriminate.
  - assert (Hp : existsb is_pseudo fs = false).
    { destruct (existsb is_pseudo fs) eqn:E; [|reflexivity]. exfalso. apply Hk. right. auto. }
    rewrite (C13_trailers Server max cl eos fs hk Hp Ed) in Hm. discriminate.
Qed.

(* the two known classes are real: closed witnesses, which double as the replay inputs *)
Definition V_all : verdicts := mk_verdicts true true true.
Definition DEFAULT_MAX : N := 16777216.

Definition witness_1 : list field := [(bstr "x-a", bstr "v")].
Definition witness_2 : list field := [(bstr ":status", bstr "404"); (bstr "x-t", bstr "1")].

Theorem C13_known_1_refuted :
  exists fs, malformed_block Client Response HasContent true fs = true /\
             delivers Response (model_recv Client Response false DEFAULT_MAX CLOmitted true V_all fs) = true.
Proof. exists witness_1. vm_compute. split; reflexivity. Qed.

Theorem C13_known_2_refuted :
  exists fs, malformed_block Client Trailers HasContent true fs = true /\
             delivers Trailers (model_recv Client Trailers false DEFAULT_MAX (CLRemaining 0) true V_all fs) = true.
Proof. exists witness_2. vm_compute. split; reflexivity. Qed.

(* the hypotheses of the theorem are satisfiable, and the model does deliver well-formed blocks *)
Definition good_request : list field :=
  [(bstr ":method", bstr "POST"); (bstr ":scheme", bstr "https"); (bstr ":path", bstr "/"); (bstr ":authority", bstr "example.com");
   (bstr "content-length", bstr "3"); (bstr "te", bstr "trailers")].

Example C13_recv_nonvacuous :
  ~ KnownClass Request (good_request ++ [(bstr "connection", bstr "close")]) /\
  malformed_block Server Request HasContent false (good_request ++ [(bstr "connection", bstr "close")]) = true /\
  malformed_block Server Request HasContent false good_request = false /\
  delivers Request (model_recv Server Request false DEFAULT_MAX CLOmitted false V_all good_request) = true /\
  delivers Response (model_recv Client Response false DEFAULT_MAX CLOmitted true V_all [(bstr ":status", bstr "200")]) = true.
Proof.
  split; [intros [[H _]|[H _]]; discriminate|]. vm_compute. repeat split; reflexivity.
Qed.

(* ------------------------------------------------------------------------------------------ *)
(* C13: the end of a body *)

Definition open_frames (pre : list (N * bool)) : Prop := Forall (fun d => snd d = false) pre.

Lemma sumN_cons x l : sumN (x :: l) = x + sumN l.
Proof. reflexivity. Qed.
Lemma sumN_nil : sumN [] = 0.
Proof. reflexivity. Qed.

(* the verdict of the code on a complete body (DATA frames, the last one with END_STREAM) *)
Definition length_verdict (cl : clen) (total : N) : bool :=
  match cl with
  | CLRemaining n => total =? n
  | CLHead => total =? 0
  | CLOmitted => true
  end.

(* For every content-length state and every sequence of DATA frames whose last frame carries
   END_STREAM: the end of the body is reported as a clean end exactly when the payload octets sum
   to the remaining content-length (no declared length: always; response to HEAD: only when no
   octet was sent), and as a stream error otherwise - never left open. *)
Theorem C13_length :
  forall (cl : clen) (pre : list (N * bool)) (len : N),
    open_frames pre ->
    run_data cl (pre ++ [(len, true)]) =
      if length_verdict cl (sumN (map fst pre) + len) then BClean else BError.
Proof.
  intros cl pre. revert cl. induction pre as [|[l e] pre IH]; intros cl len Hp.
  - cbn [app run_data map]. rewrite sumN_nil. unfold recv_data_cl, dec_content_length, length_verdict.
    destruct cl as [| |n]; cbn [ensure_content_length_zero].
    + reflexivity.
    + destruct (len =? 0) eqn:E; cbn [ensure_content_length_zero].
      * replace (0 + len =? 0) with true by lia. reflexivity.
      * replace (0 + len =? 0) with false by lia. reflexivity.
    + destruct (len <=? n) eqn:E; cbn [ensure_content_length_zero].
      * destruct (n - len =? 0) eqn:E2.
        -- replace (0 + len =? n) with true by lia. reflexivity.
        -- replace (0 + len =? n) with false by lia. reflexivity.
      * replace (0 + len =? n) with false by lia. reflexivity.
  - inversion Hp as [|? ? He Hp']; subst. cbn [snd] in He. subst e.
    cbn [app run_data map fst]. rewrite sumN_cons. unfold recv_data_cl, dec_content_length.
    destruct cl as [| |n].
    + rewrite (IH CLOmitted len Hp'). reflexivity.
    + destruct (l =? 0) eqn:E.
      * rewrite (IH CLHead len Hp'). unfold length_verdict.
        replace (l + sumN (map fst pre) + len =? 0) with (sumN (map fst pre) + len =? 0) by lia. reflexivity.
      * unfold length_verdict. replace (l + sumN (map fst pre) + len =? 0) with false by lia. reflexivity.
    + destruct (l <=? n) eqn:E.
      * rewrite (IH (CLRemaining (n - l)) len Hp'). unfold length_verdict.
        replace (l + sumN (map fst pre) + len =? n) with (sumN (map fst pre) + len =? n - l) by lia. reflexivity.
      * unfold length_verdict. replace (l + sumN (map fst pre) + len =? n) with false by lia. reflexivity.
Qed.

(* against the reference: with a declared length [Some n] the state is [CLRemaining n], without
   one [CLOmitted] *)
Definition cl_of (declared : option N) : clen :=
  match declared with Some n => CLRemaining n | None => CLOmitted end.

Theorem C13_length_clean_iff :
  forall (declared : option N) (pre : list (N * bool)) (len : N),
    open_frames pre ->
    (run_data (cl_of declared) (pre ++ [(len, true)]) = BClean <->
     body_ok declared HasContent (map fst (pre ++ [(len, true)])) = true).
Proof.
  intros declared pre len Hp. rewrite (C13_length _ pre len Hp).
  assert (E : sumN (map fst (pre ++ [(len, true)])) = sumN (map fst pre) + len).
  { clear Hp. induction pre as [|[l e] pre IH]; cbn [app map fst]; rewrite ?sumN_cons, ?sumN_nil; [lia|].
    rewrite IH. lia. }
  unfold body_ok. rewrite E. destruct declared as [n|]; cbn [cl_of length_verdict].
  - destruct (sumN (map fst pre) + len =? n); split; intros H; congruence.
  - split; reflexivity.
Qed.

(* how a head sets the state (Recv::recv_headers), exactly as coded: a response to HEAD keeps
   [CLHead]; otherwise the first content-length value, whatever the status code (204 and 304
   included), becomes the remaining length; without a content-length field the state is kept -
   which is [CLOmitted], or what an earlier 1xx head of the same stream left behind.  The 204/304
   exemption only concerns END_STREAM on the HEADERS frame itself. *)
Theorem C13_length_head :
  forall cl eos b cl', head_content_length cl eos b = Some cl' ->
    (cl = CLHead /\ cl' = CLHead) \/
    (cl <> CLHead /\ first_value cl_name (b_fields b) = None /\ cl' = cl) \/
    (cl <> CLHead /\ exists v n, first_value cl_name (b_fields b) = Some v /\ parse_u64 v = Some n /\
        cl' = CLRemaining n /\ (eos = true -> n = 0 \/ status_not_204_304 (b_pseudo b) = false)).
Proof.
  intros cl eos b cl' H. unfold head_content_length in H.
  destruct cl as [| |rem].
  - right. destruct (first_value cl_name (b_fields b)) as [v|] eqn:Ev.
    + right. split; [discriminate|]. destruct (parse_u64 v) as [n|] eqn:En; [|discriminate].
      destruct (existsb _ _); [discriminate|].
      destruct (eos && (0 <? n) && status_not_204_304 (b_pseudo b)) eqn:Ee; [discriminate|].
      inversion H. exists v, n. repeat split; auto. intros ->. cbn [andb] in Ee.
      destruct (0 <? n) eqn:E0; [right; exact Ee|left; lia].
    + left. inversion H. split; [discriminate|auto].
  - left. inversion H. auto.
  - right. destruct (first_value cl_name (b_fields b)) as [v|] eqn:Ev.
    + right. split; [discriminate|]. destruct (parse_u64 v) as [n|] eqn:En; [|discriminate].
      destruct (existsb _ _); [discriminate|].
      destruct (eos && (0 <? n) && status_not_204_304 (b_pseudo b)) eqn:Ee; [discriminate|].
      inversion H. exists v, n. repeat split; auto. intros ->. cbn [andb] in Ee.
      destruct (0 <? n) eqn:E0; [right; exact Ee|left; lia].
    + left. inversion H. split; [discriminate|auto].
Qed.

(* a body ended by a trailer section: the trailers are handed over only when nothing remains *)
Fixpoint after_open (cl : clen) (lens : list N) : option clen :=
  match lens with
  | [] => Some cl
  | l :: r => match dec_content_length cl l with Some cl' => after_open cl' r | None => None end
  end.

Theorem C13_length_trailers :
  forall n lens cl' b,
    after_open (CLRemaining n) lens = Some cl' ->
    (delivers Trailers (fst (recv_trailers cl' true b)) = true <-> sumN lens = n).
Proof.
  intros n lens. revert n. induction lens as [|l r IH]; intros n cl' b H; cbn [after_open] in H.
  - inversion H. subst cl'. unfold recv_trailers. rewrite sumN_nil. cbn [negb ensure_content_length_zero].
    destruct (n =? 0) eqn:E; cbn [negb fst delivers]; split; intros; try lia; try discriminate; reflexivity.
  - unfold dec_content_length in H. destruct (l <=? n) eqn:E; [|discriminate].
    rewrite (IH (n - l) cl' b H). rewrite sumN_cons. lia.
Qed.

(* ------------------------------------------------------------------------------------------ *)
(* C13, send side *)

Lemma existsb_ext' {A} (p q : A -> bool) l : (forall x, p x = q x) -> existsb p l = existsb q l.
Proof. intros H. induction l as [|x l IH]; cbn [existsb]; [reflexivity|]. rewrite H, IH. reflexivity. Qed.

(* Send::check_headers accepts a header map exactly when it has no connection-specific field and no
   TE value other than "trailers" (the parts of 8.2.2).  Uppercase names, invalid octets and
   unknown or misplaced pseudo-header fields cannot be expressed in the types of the send API
   (http::HeaderMap / HeaderName / HeaderValue, Method, StatusCode, Uri). *)
Theorem C13_send :
  forall fields : list field,
    check_headers fields = true <->
    (existsb connection_specific fields = false /\ existsb bad_te fields = false).
Proof.
  intros fields. unfold check_headers.
  rewrite (existsb_ext' (fun f => conn_specific_name (fst f)) connection_specific fields conn_specific_ref).
  rewrite (existsb_ext' te_not_trailers bad_te fields te_ref).
  rewrite andb_true_iff, !negb_true_iff. reflexivity.
Qed.

(* HeaderMap iteration: same fields, grouped by name *)
Definition name_eq (n : list N) (f : field) : bool := list_N_eqb (fst f) n.

Lemma names_dedup_in fs : forall seen f,
  In f fs -> existsb (list_N_eqb (fst f)) seen = true \/ In (fst f) (names_dedup seen fs).
Proof.
  induction fs as [|g r IH]; intros seen f Hf; [destruct Hf|]. cbn [names_dedup].
  destruct (existsb (list_N_eqb (fst g)) seen) eqn:E.
  - destruct Hf as [<-|Hf]; [left; exact E|exact (IH seen f Hf)].
  - destruct Hf as [<-|Hf]; [right; left; reflexivity|].
    destruct (IH (fst g :: seen) f Hf) as [H|H].
    + cbn [existsb] in H. apply orb_true_iff in H. destruct H as [H|H]; [|left; exact H].
      apply list_N_eqb_eq in H. right. left. auto.
    + right. right. exact H.
Qed.

Lemma hm_order_in fs f : In f (hm_order fs) <-> In f fs.
Proof.
  unfold hm_order. rewrite in_flat_map. split.
  - intros (n & _ & H). apply filter_In in H. exact (proj1 H).
  - intros H. exists (fst f). split.
    + destruct (names_dedup_in fs [] f H) as [X|X]; [discriminate|exact X].
    + apply filter_In. split; [exact H|apply list_N_eqb_refl].
Qed.

Lemma existsb_same_members {A} (p : A -> bool) l1 l2 :
  (forall x, In x l1 <-> In x l2) -> existsb p l1 = existsb p l2.
Proof.
  intros H. destruct (existsb p l1) eqn:E1, (existsb p l2) eqn:E2; try reflexivity.
  - apply existsb_exists in E1. destruct E1 as (x & Hx & Px).
    rewrite <- E2. symmetry. apply existsb_exists. exists x. split; [apply H; exact Hx|exact Px].
  - apply existsb_exists in E2. destruct E2 as (x & Hx & Px).
    rewrite <- E1. apply existsb_exists. exists x. split; [apply H; exact Hx|exact Px].
Qed.

Lemma existsb_hm_order p fs : existsb p (hm_order fs) = existsb p fs.
Proof. apply existsb_same_members. intros x. apply hm_order_in. Qed.

(* the values of one name keep their order *)
Lemma names_dedup_nodup fs : forall seen,
  NoDup (names_dedup seen fs) /\ (forall n, In n (names_dedup seen fs) -> existsb (list_N_eqb n) seen = false).
Proof.
  induction fs as [|g r IH]; intros seen; cbn [names_dedup]; [split; [constructor|intros n []]|].
  destruct (existsb (list_N_eqb (fst g)) seen) eqn:E; [exact (IH seen)|].
  destruct (IH (fst g :: seen)) as (I1 & I2). split.
  - constructor; [|exact I1]. intros H. specialize (I2 _ H). cbn [existsb] in I2.
    rewrite list_N_eqb_refl in I2. discriminate.
  - intros n [<-|Hn]; [exact E|]. specialize (I2 n Hn). cbn [existsb] in I2.
    apply orb_false_iff in I2. exact (proj2 I2).
Qed.

Lemma filter_filter_name n m fs :
  filter (name_eq n) (filter (name_eq m) fs) = if list_N_eqb m n then filter (name_eq n) fs else [].
Proof.
  induction fs as [|f r IH]; cbn [filter]; [destruct (list_N_eqb m n); reflexivity|].
  destruct (name_eq m f) eqn:Em; cbn [filter]; rewrite IH; unfold name_eq in *.
  - apply list_N_eqb_eq in Em. rewrite Em. destruct (list_N_eqb m n); reflexivity.
  - destruct (list_N_eqb m n) eqn:Emn; [|reflexivity]. apply list_N_eqb_eq in Emn. subst n.
    rewrite Em. reflexivity.
Qed.

Lemma filter_flat_map {A B} (p : B -> bool) (g : A -> list B) l :
  filter p (flat_map g l) = flat_map (fun x => filter p (g x)) l.
Proof.
  induction l as [|x l IH]; [reflexivity|]. cbn [flat_map]. rewrite filter_app, IH. reflexivity.
Qed.

Lemma flat_map_single n (fs : list field) (L : list (list N)) :
  NoDup L ->
  flat_map (fun m => if list_N_eqb m n then filter (name_eq n) fs else []) L =
  if existsb (list_N_eqb n) L then filter (name_eq n) fs else [].
Proof.
  induction L as [|m L IH]; intros Hd; [reflexivity|]. inversion Hd as [|? ? Hm Hd']; subst.
  cbn [flat_map existsb]. rewrite (IH Hd'). rewrite (list_N_eqb_sym n m).
  destruct (list_N_eqb m n) eqn:E; cbn [orb].
  - apply list_N_eqb_eq in E. subst m.
    destruct (existsb (list_N_eqb n) L) eqn:E2.
    + exfalso. apply existsb_exists in E2. destruct E2 as (x & Hx & Ex). apply list_N_eqb_eq in Ex. subst x. exact (Hm Hx).
    + rewrite app_nil_r. reflexivity.
  - reflexivity.
Qed.

Lemma filter_none {A} (p : A -> bool) l : (forall x, In x l -> p x = false) -> filter p l = [].
Proof.
  induction l as [|x l IH]; intros H; [reflexivity|]. cbn [filter]. rewrite (H x (or_introl eq_refl)).
  apply IH. intros y Hy. apply H. right. exact Hy.
Qed.

Lemma filter_name_hm_order n fs : filter (name_eq n) (hm_order fs) = filter (name_eq n) fs.
Proof.
  unfold hm_order. rewrite filter_flat_map.
  rewrite (flat_map_ext _ (fun m => if list_N_eqb m n then filter (name_eq n) fs else []));
    [|intros m; apply (filter_filter_name n m fs)].
  rewrite (flat_map_single n fs _ (proj1 (names_dedup_nodup fs []))).
  destruct (existsb (list_N_eqb n) (names_dedup [] fs)) eqn:E; [reflexivity|].
  symmetry. apply filter_none. intros f Hf. destruct (name_eq n f) eqn:En; [|reflexivity]. exfalso.
  unfold name_eq in En. apply list_N_eqb_eq in En.
  destruct (names_dedup_in fs [] f Hf) as [X|X]; [discriminate|]. rewrite En in X.
  apply (eq_true_false_abs _ (eq_refl true)). rewrite <- E. symmetry. apply existsb_exists. exists n.
  split; [exact X|apply list_N_eqb_refl].
Qed.

(* the block the send API writes: pseudo-header fields of frame::headers::Iter, then the map *)
Lemma value_of_app s a b :
  value_of s (a ++ b) = match value_of s a with Some v => Some v | None => value_of s b end.
Proof.
  induction a as [|f r IH]; [reflexivity|]. cbn [app value_of]. destruct (named s f); [reflexivity|exact IH].
Qed.

Lemma occurrences_app s a b : occurrences s (a ++ b) = (occurrences s a + occurrences s b)%nat.
Proof. unfold occurrences. rewrite filter_app, app_length. reflexivity. Qed.

Lemma pseudo_fields_value h P : h <> HField -> value_of (pname h) (pseudo_fields P) = ps_get h P.
Proof.
  intros Hh. destruct P as [[m|] [s|] [a|] [p|] [pr|] [st|]]; destruct h; try congruence; reflexivity.
Qed.

Lemma pseudo_fields_occ h P : h <> HField -> (occurrences (pname h) (pseudo_fields P) <= 1)%nat.
Proof.
  intros Hh. destruct P as [[m|] [s|] [a|] [p|] [pr|] [st|]]; destruct h; try congruence;
    unfold occurrences; vm_compute; lia.
Qed.

Lemma pseudo_fields_clean P :
  existsb bad_field (pseudo_fields P) = false /\ existsb connection_specific (pseudo_fields P) = false /\
  existsb bad_te (pseudo_fields P) = false /\ forallb is_pseudo (pseudo_fields P) = true /\
  filter (named "content-length") (pseudo_fields P) = [].
Proof. destruct P as [[m|] [s|] [a|] [p|] [pr|] [st|]]; repeat split; reflexivity. Qed.

Lemma name_ok_not_pseudo f : name_ok (fst f) = true -> is_pseudo f = false.
Proof.
  unfold is_pseudo, name_ok. destruct (fst f) as [|c r]; [discriminate|].
  rewrite andb_true_iff. cbn [forallb]. rewrite andb_true_iff. intros (_ & H & _).
  unfold name_char_ok, in_range in H. lia.
Qed.

Definition representable (fields : list field) : Prop :=
  Forall (fun f => name_ok (fst f) = true /\ value_ok (snd f) = true) fields.

Lemma par_app ps regs :
  forallb is_pseudo ps = true -> existsb is_pseudo regs = false -> pseudo_after_regular (ps ++ regs) = false.
Proof.
  intros Hp Hr. induction ps as [|f r IH]; cbn [app].
  - induction regs as [|g regs IH2]; [reflexivity|]. cbn [existsb] in Hr. apply orb_false_iff in Hr.
    destruct Hr as (H1 & H2). cbn [pseudo_after_regular]. rewrite H1. exact H2.
  - cbn [forallb] in Hp. apply andb_true_iff in Hp. destruct Hp as (H1 & H2).
    cbn [pseudo_after_regular]. rewrite H1. exact (IH H2).
Qed.

Lemma send_block_ok P fields :
  representable fields -> check_headers fields = true ->
  let w := pseudo_fields P ++ hm_order fields in
  bad_fields w = false /\ (forall h, h <> HField -> value_of (pname h) w = ps_get h P) /\
  values_of "content-length" w = all_values cl_name fields.
Proof.
  intros Hr Hc w. subst w.
  destruct (pseudo_fields_clean P) as (P1 & P2 & P3 & P4 & P5).
  apply C13_send in Hc. destruct Hc as (C1 & C2).
  assert (Hreg : forall f, In f (hm_order fields) -> is_pseudo f = false /\ bad_field f = false).
  { intros f Hf. apply (proj1 (hm_order_in _ _)) in Hf. unfold representable in Hr. rewrite Forall_forall in Hr.
    destruct (Hr f Hf) as (A & B). pose proof (name_ok_not_pseudo f A) as Np. split; [exact Np|].
    unfold bad_field. rewrite Np, (name_ok_regular _ A), (value_ok_octets _ B). reflexivity. }
  assert (Hnp : existsb is_pseudo (hm_order fields) = false).
  { apply existsb_false_forall. intros f Hf. exact (proj1 (Hreg f Hf)). }
  assert (Hval : forall h, h <> HField -> value_of (pname h) (hm_order fields) = None /\ occurrences (pname h) (hm_order fields) = O).
  { intros h Hh. split; [|exact (no_pseudo_occ _ h Hnp Hh)].
    destruct (value_of (pname h) (hm_order fields)) as [v|] eqn:E; [|reflexivity]. exfalso.
    destruct (value_of_in _ _ _ E) as (f & Hf & Hn & _). rewrite (regular_not_pname f h (proj1 (Hreg f Hf)) Hh) in Hn. discriminate. }
  split; [|split].
  - unfold bad_fields. rewrite !existsb_app, P1, P2, P3.
    rewrite (existsb_false_forall bad_field (hm_order fields) (fun f Hf => proj2 (Hreg f Hf))).
    rewrite !existsb_hm_order, C1, C2. cbn [orb].
    rewrite (par_app _ _ P4 Hnp). cbn [orb]. apply no_dup_pseudo. intros h Hh.
    rewrite occurrences_app, (proj2 (Hval h Hh)). pose proof (pseudo_fields_occ h P Hh). lia.
  - intros h Hh. rewrite value_of_app, (pseudo_fields_value h P Hh), (proj1 (Hval h Hh)).
    destruct (ps_get h P); reflexivity.
  - unfold values_of, all_values. rewrite filter_app, P5. cbn [app].
    change (filter (named "content-length") (hm_order fields)) with (filter (name_eq cl_name) (hm_order fields)).
    rewrite filter_name_hm_order. reflexivity.
Qed.

(* KF-C13-3: Pseudo::request builds the pseudo-header fields from whatever parts the URI has *)
Definition known_send (fs : list field) : bool :=
  match value_of ":method" fs with
  | None => false
  | Some m =>
      if list_N_eqb m (bstr "CONNECT")
      then negb (has ":protocol" fs) && (has ":scheme" fs || has ":path" fs || negb (has ":authority" fs))
      else negb (has ":scheme" fs)
  end.
Definition KnownSend (fs : list field) : Prop := known_send fs = true.

Definition known_send_ps (P : pseudo) : bool :=
  match p_method P with
  | None => false
  | Some m =>
      if list_N_eqb m (bstr "CONNECT")
      then negb (is_some (p_protocol P)) && (is_some (p_scheme P) || is_some (p_path P) || negb (is_some (p_authority P)))
      else negb (is_some (p_scheme P))
  end.

Lemma known_send_eq fs P :
  (forall h, h <> HField -> value_of (pname h) fs = ps_get h P) -> known_send fs = known_send_ps P.
Proof.
  intros H.
  pose proof (H HMethod ltac:(discriminate)) as H2. pose proof (H HProtocol ltac:(discriminate)) as H3.
  pose proof (H HScheme ltac:(discriminate)) as H4. pose proof (H HPath ltac:(discriminate)) as H5.
  pose proof (H HAuthority ltac:(discriminate)) as H6. cbn [pname ps_get] in *.
  unfold known_send, known_send_ps. rewrite !has_value_of, H2, H3, H4, H5, H6. reflexivity.
Qed.

Lemma request_pseudo_shape method s a p :
  (match p with Some x => (lenN x =? 0) = false | None => True end) ->
  (list_N_eqb method (bstr "CONNECT") = false -> p <> None) ->
  known_send_ps (mk_pseudo (Some method) s a p None None) = false ->
  bad_request_ps (mk_pseudo (Some method) s a p None None) = false.
Proof.
  unfold known_send_ps, bad_request_ps. cbn [p_method p_scheme p_authority p_path p_protocol p_status is_some value_is negb orb andb].
  change (octets "CONNECT") with (bstr "CONNECT"). change (octets "") with (@nil N).
  intros Hp Hc. destruct (list_N_eqb method (bstr "CONNECT")) eqn:E; cbn [andb].
  - intros H. exact H.
  - specialize (Hc eq_refl). destruct p as [x|]; [|congruence]. cbn [value_is is_some].
    change (octets "") with (@nil N). rewrite lenN_zero, Hp.
    cbn [is_some negb orb andb]. intros H. rewrite H. reflexivity.
Qed.

Lemma lenN_lit_slash : (lenN (bstr "/") =? 0) = false. Proof. reflexivity. Qed.
Lemma lenN_lit_star : (lenN (bstr "*") =? 0) = false. Proof. reflexivity. Qed.

(* For every method, URI (by its parts), version and representable header map: what send_request
   puts on the wire is not malformed as a request (8.2, 8.3, 8.3.1, 8.5) - except in the known class
   KF-C13-3, where Pseudo::request omits or adds :scheme/:path/:authority for unusual URI forms. *)
Theorem C13_send_except_known :
  forall (method : list N) (us ua up : option (list N)) (h2 : bool) (fields w : list field),
    representable fields ->
    send_request method us ua up h2 fields = Some w ->
    ~ KnownSend w ->
    malformed Server Request w = false.
Proof.
  intros method us ua up h2 fields w Hr Hs Hk. unfold send_request in Hs.
  destruct (send_request_pseudo method us ua up h2) as [P|] eqn:EP; [|discriminate].
  destruct (check_headers fields) eqn:Ec; [|discriminate]. injection Hs as Hw.
  destruct (send_block_ok P fields Hr Ec) as (B1 & B2 & _). rewrite Hw in B1, B2. rewrite ?Hw.
  unfold malformed. cbn [kind_received_by negb orb]. rewrite B1. cbn [orb].
  rewrite (bad_request_ps_eq w P (fun h Hh => eq_sym (B2 h Hh))).
  assert (Hk' : known_send_ps P = false).
  { rewrite <- (known_send_eq w P B2). unfold KnownSend in Hk. destruct (known_send w); [congruence|reflexivity]. }
  clear Hk B1 B2 Hw. unfold send_request_pseudo in EP.
  set (path := if list_N_eqb method (bstr "CONNECT") then None else
               Some match up with
                    | Some p => if lenN p =? 0 then if list_N_eqb method (bstr "OPTIONS") then bstr "*" else bstr "/" else p
                    | None => if list_N_eqb method (bstr "OPTIONS") then bstr "*" else bstr "/"
                    end) in *.
  assert (Hp1 : match path with Some x => (lenN x =? 0) = false | None => True end).
  { subst path. destruct (list_N_eqb method (bstr "CONNECT")); [exact I|].
    destruct up as [p|]; [destruct (lenN p =? 0) eqn:E0|]; try destruct (list_N_eqb method (bstr "OPTIONS")); auto. }
  assert (Hp2 : list_N_eqb method (bstr "CONNECT") = false -> path <> None).
  { subst path. intros ->. discriminate. }
  destruct (if list_N_eqb method (bstr "CONNECT") then None else us) as [s|] eqn:Es.
  - inversion EP. subst P. exact (request_pseudo_shape method (Some s) ua path Hp1 Hp2 Hk').
  - destruct ua as [a|].
    + inversion EP. subst P. exact (request_pseudo_shape method None (Some a) path Hp1 Hp2 Hk').
    + destruct h2; [discriminate|]. inversion EP. subst P.
      exact (request_pseudo_shape method (Some (bstr "http")) None path Hp1 Hp2 Hk').
Qed.

(* push_request: additionally the method is safe and no content is declared (validate_request) *)
Theorem C13_send_push_except_known :
  forall (method : list N) (us ua up : option (list N)) (fields w : list field),
    representable fields ->
    send_push method us ua up fields = Some w ->
    ~ KnownSend w ->
    malformed Client PushedRequest w = false.
Proof.
  intros method us ua up fields w Hr Hs Hk. unfold send_push in Hs.
  destruct (validate_push method fields) eqn:Ev; [|discriminate].
  destruct (check_headers fields) eqn:Ec; [|discriminate].
  remember (push_request_pseudo method us ua up) as P eqn:EP.
  assert (Hw : pseudo_fields P ++ hm_order fields = w) by (cbn [andb] in Hs; congruence). clear Hs.
  destruct (send_block_ok P fields Hr Ec) as (B1 & B2 & B3). rewrite Hw in B1, B2, B3. rewrite ?Hw.
  unfold malformed. cbn [kind_received_by negb orb]. rewrite B1. cbn [orb]. unfold bad_pushed_request.
  rewrite (bad_request_ps_eq w P (fun h Hh => eq_sym (B2 h Hh))).
  assert (Hk' : known_send_ps P = false).
  { rewrite <- (known_send_eq w P B2). unfold KnownSend in Hk. destruct (known_send w); [congruence|reflexivity]. }
  unfold validate_push in Ev. apply andb_true_iff in Ev. destruct Ev as (Ev1 & Ev2).
  pose proof (B2 HMethod ltac:(discriminate)) as Hm. change (value_of ":method" w = p_method P) in Hm. rewrite Hm.
  assert (HPm : p_method P = Some method) by (subst P; reflexivity). rewrite HPm. cbn [value_is].
  change (octets "GET") with (bstr "GET"). change (octets "HEAD") with (bstr "HEAD"). rewrite Ev2. cbn [negb orb].
  assert (Hdl : match declared_length w with Some n => negb (n =? 0) | None => false end = false).
  { unfold declared_length. rewrite B3. rewrite first_value_all in Ev1.
    destruct (all_values cl_name fields) as [|x xs]; [reflexivity|].
    apply opt_N_eqb_some in Ev1. rewrite (parse_u64_decimal x 0 Ev1). reflexivity. }
  rewrite Hdl, orb_false_r.
  clear Hk B1 B2 B3 Hw Hm Hdl. subst P. unfold push_request_pseudo in *.
  set (path := if list_N_eqb method (bstr "CONNECT") then None else
               Some match up with
                    | Some p => if lenN p =? 0 then if list_N_eqb method (bstr "OPTIONS") then bstr "*" else bstr "/" else p
                    | None => if list_N_eqb method (bstr "OPTIONS") then bstr "*" else bstr "/"
                    end) in *.
  assert (Hp1 : match path with Some x => (lenN x =? 0) = false | None => True end).
  { subst path. destruct (list_N_eqb method (bstr "CONNECT")); [exact I|].
    destruct up as [p|]; [destruct (lenN p =? 0) eqn:E0|]; try destruct (list_N_eqb method (bstr "OPTIONS")); auto. }
  assert (Hp2 : list_N_eqb method (bstr "CONNECT") = false -> path <> None).
  { subst path. intros ->. discriminate. }
  rewrite ?orb_false_r. exact (request_pseudo_shape method _ ua path Hp1 Hp2 Hk').
Qed.

(* the known class is real *)
Theorem C13_known_3_refuted :
  exists method us ua up h2 fields w,
    representable fields /\ send_request method us ua up h2 fields = Some w /\ malformed Server Request w = true.
Proof.
  exists (bstr "GET"), None, (Some (bstr "example.com")), None, false, [], [(bstr ":method", bstr "GET"); (bstr ":authority", bstr "example.com"); (bstr ":path", bstr "/")].
  split; [constructor|]. vm_compute. split; reflexivity.
Qed.

Example C13_send_nonvacuous :
  exists w, send_request (bstr "GET") (Some (bstr "https")) (Some (bstr "example.com")) (Some (bstr "/x")) false
              [(bstr "accept", bstr "*/*"); (bstr "te", bstr "trailers")] = Some w /\ ~ KnownSend w /\
            send_request (bstr "GET") (Some (bstr "https")) (Some (bstr "example.com")) (Some (bstr "/x")) false
              [(bstr "te", bstr "trailers"); (bstr "te", bstr "gzip")] = None.
Proof.
  eexists. split; [vm_compute; reflexivity|]. split; [|vm_compute; reflexivity].
  unfold KnownSend. vm_compute. discriminate.
Qed.

(* ------------------------------------------------------------------------------------------ *)
(* C13 at the level of the stream machine that is compared with the implementation: whatever
   [step] queues for the application comes from the frame at hand, and is justified *)

Definition justified (c : config) (s : sstate) (f : frame) (e : event) : Prop :=
  match e, f with
  | EHead m, FHeaders fs eos v =>
      forall k hk, delivers k (Deliver m) = true ->
        (accounted k hk = true -> s_cl s <> CLHead) -> ~ KnownClass k fs ->
        malformed_block (c_role c) k hk eos fs = false
  | ETrailers _, FHeaders fs eos v =>
      forall hk, ~ KnownClass Trailers fs -> malformed_block (c_role c) Trailers hk eos fs = false
  | EData n, FData len _ => n = len
  | _, _ => False
  end.

Definition justified_push (c : config) (f : frame) (rq : request) : Prop :=
  match f with
  | FPush fs v => c_role c = Client /\
      forall hk eos, malformed_block Client PushedRequest hk eos fs = false
  | _ => False
  end.

Lemma recv_head_kinds r ext cl eos v b m cl' o :
  recv_head r ext cl eos v b = (Deliver m, cl', o) ->
  forall k, delivers k (Deliver m) = true -> k = Request \/ k = Response \/ k = Informational.
Proof.
  unfold recv_head.
  repeat match goal with
  | |- context [if ?c then _ else _] => destruct c
  | |- context [match ?c with Some _ => _ | None => _ end] => destruct c
  | |- context [match ?c with Client => _ | Server => _ end] => destruct c
  end; intros H; inversion H; subst; intros k Hk; destruct k; cbn [delivers] in Hk; try discriminate; auto.
Qed.

Ltac unch :=
  solve [ exists [], []; rewrite !app_nil_r; unfold stream_error, codec_reset;
          repeat match goal with
          | |- context [if ?b then _ else _] => destruct b
          | |- context [match s_recv ?s with RAwait => _ | _ => _ end] => destruct (s_recv s)
          end; repeat split; try reflexivity; try constructor ].

Theorem C13_stream_step :
  forall (c : config) (s : sstate) (f : frame),
  exists newq newp,
    s_queue (step c s f) = s_queue s ++ newq /\ s_pushq (step c s f) = s_pushq s ++ newp /\
    Forall (justified c s f) newq /\ Forall (justified_push c f) newp.
Proof.
  intros c s f. unfold step. destruct (s_conn s) as [code|]; [unch|].
  destruct f as [fs eos v|len eos|fs v].
  - (* HEADERS *)
    unfold step_headers. destruct (load (c_max c) fs) as [b| | |] eqn:El; [|unch|unch|unch].
    destruct (s_recv s) eqn:Er.
    + (* awaiting headers *)
      destruct (recv_head (c_role c) (c_ext c) (s_cl s) eos v b) as [[o cl'] opened] eqn:Eh.
      destruct o as [m| | | |]; [|unch|unch|unch|unch].
      exists [EHead m], []. rewrite app_nil_r. split; [reflexivity|]. split; [reflexivity|].
      split; [|constructor]. constructor; [|constructor]. cbn [justified].
      intros k hk Hd Hacc Hk.
      destruct (malformed_block (c_role c) k hk eos fs) eqn:Em; [|reflexivity]. exfalso.
      pose proof (C13_recv_except_known (c_role c) k hk (c_ext c) (c_max c) (s_cl s) eos v fs Hk Hacc Em) as X.
      assert (Y : model_recv (c_role c) k (c_ext c) (c_max c) (s_cl s) eos v fs = Deliver m).
      { destruct (recv_head_kinds _ _ _ _ _ _ _ _ _ Eh k Hd) as [->|[->| ->]]; cbn [model_recv];
          unfold model_head, of_load; rewrite El, Eh; reflexivity. }
      rewrite Y, Hd in X. discriminate.
    + (* streaming: trailers *)
      destruct (recv_trailers (s_cl s) eos b) as [o closed] eqn:Et.
      destruct o as [m| | | |]; [|unch|unch|unch|unch].
      destruct m as [x|x|x|x|t]; [unch|unch|unch|unch|].
      exists [ETrailers t], []. rewrite app_nil_r. split; [reflexivity|]. split; [reflexivity|].
      split; [|constructor]. constructor; [|constructor]. cbn [justified].
      intros hk Hk.
      destruct (malformed_block (c_role c) Trailers hk eos fs) eqn:Em; [|reflexivity]. exfalso.
      assert (Hacc : accounted Trailers hk = true -> s_cl s <> CLHead) by (destruct hk; discriminate).
      pose proof (C13_recv_except_known (c_role c) Trailers hk (c_ext c) (c_max c) (s_cl s) eos v fs Hk Hacc Em) as X.
      cbn [model_recv] in X. unfold model_trailers, of_load in X. rewrite El, Et in X. cbn [fst delivers] in X. discriminate.
    + unch.
    + unch.
    + unch.
    + unch.
  - (* DATA *)
    unfold step_data. destruct (s_recv s) eqn:Er; try unch.
    destruct (recv_data_cl (s_cl s) len eos) as [cl' closed ev|]; [|unch].
    destruct ev.
    + exists [EData len], []. rewrite app_nil_r. split; [reflexivity|]. split; [reflexivity|].
      split; [|constructor]. constructor; [|constructor]. reflexivity.
    + unch.
  - (* PUSH_PROMISE *)
    unfold step_push.
    destruct (load (c_max c) fs) as [b| | |] eqn:El; [|unch|unch|unch].
    destruct (s_recv (next_promised s)) eqn:Er; try unch.
    + destruct (negb (is_client c)) eqn:Ec; [unch|].
      destruct (recv_push v b) as [m| | | |] eqn:Ep; try unch.
      destruct m as [x|x|x|rq|x]; try unch.
      exists [], [rq]. rewrite app_nil_r. split; [reflexivity|]. split; [reflexivity|].
      split; [constructor|]. constructor; [|constructor]. cbn [justified_push].
      assert (Hr : c_role c = Client) by (unfold is_client in Ec; destruct (c_role c); [reflexivity|discriminate]).
      split; [exact Hr|]. intros hk eos'. apply (C13_pushed (c_max c) v fs hk eos').
      unfold model_push, of_load. rewrite El, Ep. reflexivity.
    + destruct (negb (is_client c)) eqn:Ec; [unch|].
      destruct (recv_push v b) as [m| | | |] eqn:Ep; try unch.
      destruct m as [x|x|x|rq|x]; try unch.
      exists [], [rq]. rewrite app_nil_r. split; [reflexivity|]. split; [reflexivity|].
      split; [constructor|]. constructor; [|constructor]. cbn [justified_push].
      assert (Hr : c_role c = Client) by (unfold is_client in Ec; destruct (c_role c); [reflexivity|discriminate]).
      split; [exact Hr|]. intros hk eos'. apply (C13_pushed (c_max c) v fs hk eos').
      unfold model_push, of_load. rewrite El, Ep. reflexivity.
Qed.
