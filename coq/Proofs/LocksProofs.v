(* Deadlock freedom of the lock-order discipline (Model/Locks.v).

   wf_step              the discipline is an invariant of the semantics
   progress             a wf configuration is finished or some thread can move
   no_deadlock          the same for every configuration reachable from a wf one
   no_deadlock_two_locks  the instance for thread programs built from h2's section shapes
   plus satisfiability examples and an inverted-order configuration that IS stuck. *)
From H2V Require Import Base.Tac Model.Locks.

(* ---------- small facts ---------- *)

Lemma holdsb_In : forall hs l, holdsb hs l = true <-> In l hs.
Proof.
  intros hs l. unfold holdsb. rewrite existsb_exists. split.
  - intros [x [Hin Heq]]. apply Nat.eqb_eq in Heq. subst x. exact Hin.
  - intros Hin. exists l. split; [exact Hin | apply Nat.eqb_refl].
Qed.

Lemma holdsb_false_count : forall hs l, holdsb hs l = false -> count_occ Nat.eq_dec hs l = 0.
Proof.
  intros hs l Hf. apply count_occ_not_In. intros Hin.
  apply holdsb_In in Hin. rewrite Hin in Hf. discriminate Hf.
Qed.

Lemma owner_owned : forall cfg l, owned cfg l = true <-> owner cfg l.
Proof.
  intros cfg l. unfold owned, owner, all_held. rewrite holdsb_In. apply in_flat_map.
Qed.

Lemma count_drop_lock : forall l hs x,
  count_occ Nat.eq_dec (drop_lock l hs) x <= count_occ Nat.eq_dec hs x.
Proof.
  intros l hs x. unfold drop_lock. induction hs as [|h hs IH]; cbn [filter count_occ]; [lia|].
  destruct (negb (h =? l)); cbn [count_occ]; destruct (Nat.eq_dec h x); lia.
Qed.

Lemma all_held_cons : forall t cfg, all_held (t :: cfg) = held t ++ all_held cfg.
Proof. reflexivity. Qed.

Lemma set_nth_split : forall cfg i t t',
  nth_error cfg i = Some t ->
  exists pre post,
    all_held cfg = pre ++ held t ++ post /\
    all_held (set_nth i t' cfg) = pre ++ held t' ++ post.
Proof.
  induction cfg as [|a cfg IH]; intros i t t' Hnth.
  - destruct i; discriminate Hnth.
  - destruct i as [|i]; cbn in Hnth.
    + injection Hnth as ->. exists [], (all_held cfg). split; reflexivity.
    + destruct (IH i t t' Hnth) as (pre & post & Ha & Hb).
      exists (held a ++ pre), post. cbn [set_nth]. rewrite !all_held_cons, Ha, Hb, !app_assoc.
      split; reflexivity.
Qed.

Lemma in_set_nth : forall (cfg : config) i t' t0,
  In t0 (set_nth i t' cfg) -> In t0 cfg \/ t0 = t'.
Proof.
  induction cfg as [|a cfg IH]; intros i t' t0 Hin; cbn in Hin.
  - contradiction.
  - destruct i as [|i]; cbn in Hin.
    + destruct Hin as [Heq | Hin]; [right; symmetry; exact Heq | left; right; exact Hin].
    + destruct Hin as [Heq | Hin]; [left; left; exact Heq|].
      destruct (IH i t' t0 Hin) as [Hc | Hc]; [left; right; exact Hc | right; exact Hc].
Qed.

(* ---------- one thread step ---------- *)

Lemma step_thread_ordered : forall cfg t t',
  well_ordered t = true -> step_thread cfg t = Some t' -> well_ordered t' = true.
Proof.
  intros cfg t t' Hwo Hst. unfold well_ordered in *. unfold step_thread in Hst.
  destruct (todo t) as [|a k]; [discriminate Hst|].
  destruct a as [l|l|]; cbn [ordered_from] in Hwo.
  - destruct (owned cfg l); [discriminate Hst|]. injection Hst as <-. cbn [held todo].
    apply andb_true_iff in Hwo. apply Hwo.
  - destruct (holdsb (held t) l); [|discriminate Hst]. injection Hst as <-. cbn [held todo].
    apply andb_true_iff in Hwo. apply Hwo.
  - injection Hst as <-. cbn [held todo]. exact Hwo.
Qed.

(* a step never duplicates a lock: a count goes up only for a lock nobody held *)
Lemma step_thread_count : forall cfg t t' x,
  step_thread cfg t = Some t' ->
  count_occ Nat.eq_dec (held t') x <= count_occ Nat.eq_dec (held t) x \/
  (count_occ Nat.eq_dec (held t') x = S (count_occ Nat.eq_dec (held t) x) /\
   count_occ Nat.eq_dec (all_held cfg) x = 0).
Proof.
  intros cfg t t' x Hst. unfold step_thread in Hst.
  destruct (todo t) as [|a k]; [discriminate Hst|].
  destruct a as [l|l|].
  - destruct (owned cfg l) eqn:Hown; [discriminate Hst|]. injection Hst as <-. cbn [held].
    cbn [count_occ]. destruct (Nat.eq_dec l x) as [Heq|Hne].
    + right. subst x. split; [reflexivity | apply holdsb_false_count; exact Hown].
    + left. lia.
  - destruct (holdsb (held t) l); [|discriminate Hst]. injection Hst as <-. cbn [held].
    left. apply count_drop_lock.
  - injection Hst as <-. cbn [held]. left. lia.
Qed.

Theorem wf_step : forall cfg i cfg', wf cfg -> step cfg i = Some cfg' -> wf cfg'.
Proof.
  intros cfg i cfg' [Hwo Hnd] Hstep. unfold step in Hstep.
  destruct (nth_error cfg i) as [t|] eqn:Hnth; [|discriminate Hstep].
  destruct (step_thread cfg t) as [t'|] eqn:Hst; [|discriminate Hstep].
  injection Hstep as <-.
  assert (Hin : In t cfg) by (eapply nth_error_In; exact Hnth).
  split.
  - intros t0 Hin0. apply in_set_nth in Hin0. destruct Hin0 as [Hin0 | ->].
    + apply Hwo; exact Hin0.
    + eapply step_thread_ordered; [apply Hwo; exact Hin | exact Hst].
  - destruct (set_nth_split cfg i t t' Hnth) as (pre & post & Ha & Hb).
    rewrite Hb. apply (NoDup_count_occ Nat.eq_dec). intros x.
    rewrite (NoDup_count_occ Nat.eq_dec) in Hnd. specialize (Hnd x).
    pose proof (step_thread_count cfg t t' x Hst) as Hcnt.
    rewrite Ha in Hnd, Hcnt. rewrite !count_occ_app in *. lia.
Qed.

Lemma wf_reachable : forall cfg0 cfg, wf cfg0 -> reachable cfg0 cfg -> wf cfg.
Proof.
  intros cfg0 cfg Hwf Hr. induction Hr as [|c i c' Hr IH Hs]; [exact Hwf|].
  eapply wf_step; [exact IH | exact Hs].
Qed.

(* ---------- progress ---------- *)

Lemma finished_dec : forall cfg : config,
  finished cfg \/ exists i t, nth_error cfg i = Some t /\ todo t <> [].
Proof.
  induction cfg as [|a cfg IH].
  - left. intros t Hin. contradiction.
  - destruct (todo a) as [|x k] eqn:Ha.
    + destruct IH as [Hfin | (i & t & Hnth & Hne)].
      * left. intros t [<- | Hin]; [exact Ha | apply Hfin; exact Hin].
      * right. exists (S i), t. split; assumption.
    + right. exists 0, a. split; [reflexivity | rewrite Ha; discriminate].
Qed.

Lemma list_has_max : forall l : list nat,
  l <> [] -> exists m, In m l /\ forall x, In x l -> x <= m.
Proof.
  induction l as [|a l IH]; intros Hne; [congruence|].
  destruct l as [|b l].
  - exists a. split; [left; reflexivity|]. intros x [<- | []]. lia.
  - destruct IH as (m & Hin & Hmax); [discriminate|].
    destruct (le_lt_dec a m) as [Hle | Hlt].
    + exists m. split; [right; exact Hin|]. intros x [<- | Hx]; [exact Hle | apply Hmax; exact Hx].
    + exists a. split; [left; reflexivity|]. intros x [<- | Hx]; [lia|].
      specialize (Hmax x Hx). lia.
Qed.

(* a thread can move as soon as every lock held anywhere is <= the largest lock it holds
   (or nothing is held anywhere) *)
Lemma top_thread_moves : forall cfg t,
  well_ordered t = true -> todo t <> [] ->
  (forall x, In x (all_held cfg) -> exists h, In h (held t) /\ x <= h) ->
  exists t', step_thread cfg t = Some t'.
Proof.
  intros cfg t Hwo Hne Htop. unfold well_ordered in Hwo. unfold step_thread.
  destruct (todo t) as [|a k]; [congruence|].
  destruct a as [l|l|]; cbn [ordered_from] in Hwo.
  - apply andb_true_iff in Hwo. destruct Hwo as [Hlt _].
    destruct (owned cfg l) eqn:Hown; [|eexists; reflexivity].
    exfalso. apply holdsb_In in Hown. destruct (Htop l Hown) as (h & Hh & Hle).
    rewrite forallb_forall in Hlt. specialize (Hlt h Hh). apply Nat.ltb_lt in Hlt. lia.
  - apply andb_true_iff in Hwo. destruct Hwo as [Hh _]. rewrite Hh. eexists; reflexivity.
  - eexists; reflexivity.
Qed.

Lemma ordered_from_nil_todo : forall hs, ordered_from hs [] = true -> hs = [].
Proof. intros [|h hs] Ho; [reflexivity | discriminate Ho]. Qed.

Theorem progress : forall cfg,
  wf cfg -> finished cfg \/ exists i cfg', step cfg i = Some cfg'.
Proof.
  intros cfg [Hwo _].
  assert (Hmove : forall i t, nth_error cfg i = Some t ->
                  (exists t', step_thread cfg t = Some t') -> exists j cfg', step cfg j = Some cfg').
  { intros i t Hnth [t' Hst]. exists i, (set_nth i t' cfg). unfold step. rewrite Hnth, Hst.
    reflexivity. }
  destruct (all_held cfg) as [|h0 hs0] eqn:Hall.
  - (* no lock held anywhere: any unfinished thread moves *)
    destruct (finished_dec cfg) as [Hfin | (i & t & Hnth & Hne)]; [left; exact Hfin|].
    right. apply (Hmove i t Hnth). apply top_thread_moves.
    + apply Hwo. eapply nth_error_In; exact Hnth.
    + exact Hne.
    + rewrite Hall. intros x [].
  - (* the thread holding the globally largest held lock moves *)
    right. destruct (list_has_max (all_held cfg)) as (m & Hin & Hmax); [rewrite Hall; discriminate|].
    unfold all_held in Hin. apply in_flat_map in Hin. destruct Hin as (t & Htin & Hmt).
    destruct (In_nth_error cfg t Htin) as [i Hnth].
    apply (Hmove i t Hnth). apply top_thread_moves.
    + apply Hwo; exact Htin.
    + intros Hnil. specialize (Hwo t Htin). unfold well_ordered in Hwo. rewrite Hnil in Hwo.
      apply ordered_from_nil_todo in Hwo. rewrite Hwo in Hmt. contradiction.
    + intros x Hx. exists m. split; [exact Hmt | apply Hmax; exact Hx].
Qed.

Theorem no_deadlock : forall cfg0 cfg,
  wf cfg0 -> reachable cfg0 cfg ->
  (forall t, In t cfg -> todo t = []) \/ exists i cfg', step cfg i = Some cfg'.
Proof.
  intros cfg0 cfg Hwf Hr. apply progress. eapply wf_reachable; [exact Hwf | exact Hr].
Qed.

Corollary no_deadlock_not_stuck : forall cfg0 cfg,
  wf cfg0 -> reachable cfg0 cfg -> ~ stuck cfg.
Proof.
  intros cfg0 cfg Hwf Hr [(t & Hin & Hne) Hnone].
  destruct (no_deadlock cfg0 cfg Hwf Hr) as [Hfin | (i & cfg' & Hs)].
  - apply Hne. apply Hfin. exact Hin.
  - rewrite Hnone in Hs. discriminate Hs.
Qed.

(* ---------- what wf says, spelled out; the boolean test ---------- *)

Lemma count_held_le : forall cfg i t x,
  nth_error cfg i = Some t ->
  count_occ Nat.eq_dec (held t) x <= count_occ Nat.eq_dec (all_held cfg) x.
Proof.
  intros cfg i t x Hnth. destruct (set_nth_split cfg i t t Hnth) as (pre & post & Ha & _).
  rewrite Ha, !count_occ_app. lia.
Qed.

Lemma wf_held_nodup : forall cfg t, wf cfg -> In t cfg -> NoDup (held t).
Proof.
  intros cfg t [_ Hnd] Hin. destruct (In_nth_error cfg t Hin) as [i Hnth].
  apply (NoDup_count_occ Nat.eq_dec). intros x.
  rewrite (NoDup_count_occ Nat.eq_dec) in Hnd. specialize (Hnd x).
  pose proof (count_held_le cfg i t x Hnth). lia.
Qed.

Lemma nodup_exclusive : forall cfg i j ti tj l,
  NoDup (all_held cfg) ->
  nth_error cfg i = Some ti -> nth_error cfg j = Some tj ->
  In l (held ti) -> In l (held tj) -> i = j.
Proof.
  induction cfg as [|a cfg IH]; intros i j ti tj l Hnd Hi Hj Hli Hlj.
  - destruct i; discriminate Hi.
  - assert (Hc := Hnd). rewrite (NoDup_count_occ Nat.eq_dec) in Hc. specialize (Hc l).
    rewrite all_held_cons, count_occ_app in Hc.
    apply (count_occ_In Nat.eq_dec) in Hli. apply (count_occ_In Nat.eq_dec) in Hlj.
    destruct i as [|i], j as [|j]; cbn in Hi, Hj.
    + reflexivity.
    + injection Hi as ->. pose proof (count_held_le cfg j tj l Hj). lia.
    + injection Hj as ->. pose proof (count_held_le cfg i ti l Hi). lia.
    + f_equal. apply (IH i j ti tj l); try assumption.
      * apply (NoDup_count_occ Nat.eq_dec). intros x.
        rewrite (NoDup_count_occ Nat.eq_dec) in Hnd. specialize (Hnd x).
        rewrite all_held_cons, count_occ_app in Hnd. lia.
      * apply (count_occ_In Nat.eq_dec); exact Hli.
      * apply (count_occ_In Nat.eq_dec); exact Hlj.
Qed.

(* no lock is held at two positions of the configuration *)
Lemma wf_exclusive : forall cfg i j ti tj l,
  wf cfg -> nth_error cfg i = Some ti -> nth_error cfg j = Some tj ->
  In l (held ti) -> In l (held tj) -> i = j.
Proof. intros cfg i j ti tj l [_ Hnd]. apply nodup_exclusive. exact Hnd. Qed.

Lemma nodupb_NoDup : forall l, nodupb l = true <-> NoDup l.
Proof.
  induction l as [|x l IH]; cbn [nodupb].
  - split; [intros _; constructor | reflexivity].
  - rewrite andb_true_iff, negb_true_iff, IH, NoDup_cons_iff.
    split; intros [Hx Hl]; (split; [|exact Hl]).
    + intros Hin. apply holdsb_In in Hin. rewrite Hin in Hx. discriminate Hx.
    + destruct (holdsb l x) eqn:Hh; [|reflexivity]. apply holdsb_In in Hh. contradiction.
Qed.

Lemma wfb_wf : forall cfg, wfb cfg = true <-> wf cfg.
Proof.
  intros cfg. unfold wfb, wf. rewrite andb_true_iff, forallb_forall, nodupb_NoDup. reflexivity.
Qed.

Lemma run_reachable : forall sched cfg cfg', run cfg sched = Some cfg' -> reachable cfg cfg'.
Proof.
  assert (Htrans : forall sched c0 c c', reachable c0 c -> run c sched = Some c' -> reachable c0 c').
  { induction sched as [|i sched IH]; intros c0 c c' Hr Hrun; cbn in Hrun.
    - injection Hrun as <-. exact Hr.
    - destruct (step c i) as [c1|] eqn:Hs; [|discriminate Hrun].
      apply (IH c0 c1 c'); [|exact Hrun]. eapply reach_step; [exact Hr | exact Hs]. }
  intros sched cfg cfg' Hrun. apply (Htrans sched cfg cfg cfg'); [apply reach_refl | exact Hrun].
Qed.

Lemma finishedb_finished : forall cfg, finishedb cfg = true <-> finished cfg.
Proof.
  intros cfg. unfold finishedb, finished. rewrite forallb_forall.
  split; intros H t Hin; specialize (H t Hin); destruct (todo t); congruence.
Qed.

(* ---------- the two-lock discipline ---------- *)

Lemma ordered_skip : forall k hs rest,
  ordered_from hs (k ++ rest) = ordered_from hs (skip_work k ++ rest).
Proof.
  induction k as [|a k IH]; intros hs rest; [reflexivity|].
  destruct a as [l|l|]; [reflexivity | reflexivity |]. cbn [skip_work app ordered_from]. apply IH.
Qed.

Lemma closes_ordered : forall l p rest,
  closes l p = true -> ordered_from [l] (p ++ rest) = ordered_from [] rest.
Proof.
  intros l p rest Hc. unfold closes in Hc. rewrite ordered_skip.
  destruct (skip_work p) as [|a k]; [discriminate Hc|].
  destruct a as [l'|l'|]; try discriminate Hc.
  destruct k as [|b k]; [|discriminate Hc].
  apply Nat.eqb_eq in Hc. subst l'.
  cbn [app ordered_from holdsb existsb drop_lock filter]. rewrite Nat.eqb_refl. reflexivity.
Qed.

Lemma section_ordered : forall s rest,
  section_ok s = true -> ordered_from [] (s ++ rest) = ordered_from [] rest.
Proof.
  intros s rest Hs. unfold section_ok in Hs. rewrite ordered_skip.
  destruct (skip_work s) as [|a k]; [reflexivity|].
  destruct a as [l|l|]; try discriminate Hs.
  destruct l as [|[|l]]; try discriminate Hs.
  - (* Acquire 0 *)
    cbn [app ordered_from forallb andb].
    destruct (closes 0 k) eqn:Hc0; [apply closes_ordered; exact Hc0|].
    cbn [orb] in Hs. rewrite ordered_skip.
    destruct (skip_work k) as [|a1 k1]; [discriminate Hs|].
    destruct a1 as [l1|l1|]; try discriminate Hs.
    destruct l1 as [|[|l1]]; try discriminate Hs.
    cbn [app ordered_from forallb andb Nat.ltb Nat.leb]. rewrite ordered_skip.
    destruct (skip_work k1) as [|a2 k2]; [discriminate Hs|].
    destruct a2 as [l2|l2|]; try discriminate Hs.
    destruct l2 as [|[|l2]]; try discriminate Hs.
    cbn [app ordered_from holdsb existsb Nat.eqb orb andb drop_lock filter negb].
    apply closes_ordered; exact Hs.
  - (* Acquire 1 *)
    cbn [app ordered_from forallb andb]. apply closes_ordered; exact Hs.
Qed.

Theorem program_ok_well_ordered : forall sections,
  program_ok sections = true -> well_ordered (h2_thread sections) = true.
Proof.
  intros sections Hok. unfold well_ordered, h2_thread. cbn [held todo].
  induction sections as [|s ss IH]; [reflexivity|].
  cbn [program_ok forallb] in Hok. apply andb_true_iff in Hok. destruct Hok as [Hs Hss].
  cbn [concat]. rewrite section_ordered; [apply IH; exact Hss | exact Hs].
Qed.

Lemma h2_config_wf : forall progs : list (list (list action)),
  (forall p, In p progs -> program_ok p = true) -> wf (map h2_thread progs).
Proof.
  intros progs Hok. split.
  - intros t Hin. apply in_map_iff in Hin. destruct Hin as (p & <- & Hp).
    apply program_ok_well_ordered. apply Hok; exact Hp.
  - replace (all_held (map h2_thread progs)) with (@nil lock); [constructor|].
    induction progs as [|p progs IH]; [reflexivity|].
    cbn [map]. rewrite all_held_cons. cbn [h2_thread held app]. apply IH.
    intros q Hq. apply Hok. right; exact Hq.
Qed.

Theorem no_deadlock_two_locks : forall (progs : list (list (list action))) cfg,
  (forall p, In p progs -> program_ok p = true) ->
  reachable (map h2_thread progs) cfg ->
  (forall t, In t cfg -> todo t = []) \/ exists i cfg', step cfg i = Some cfg'.
Proof.
  intros progs cfg Hok Hr. eapply no_deadlock; [apply h2_config_wf; exact Hok | exact Hr].
Qed.

(* ---------- satisfiability: three threads of the h2 shape ---------- *)

Definition ex_progs : list (list (list action)) :=
  [ [ [Acquire 0; Work; Release 0] ];
    [ [Work; Acquire 0; Work; Acquire 1; Work; Work; Release 1; Work; Release 0];
      [Acquire 1; Release 1] ];
    [ [Acquire 1; Work; Release 1]; [Work]; [Acquire 0; Release 0] ] ].

Definition ex_cfg : config := map h2_thread ex_progs.

Example ex_progs_ok : forall p, In p ex_progs -> program_ok p = true.
Proof. apply forallb_forall. vm_compute. reflexivity. Qed.

Example ex_cfg_wf : wf ex_cfg.
Proof. apply wfb_wf. vm_compute. reflexivity. Qed.

(* thread 2 takes send_buffer, thread 1 takes inner and then has to wait for thread 2 (and
   thread 0 for thread 1): blocking is real in this model, yet somebody can always move *)
Example ex_blocked_but_not_stuck :
  exists mid, run ex_cfg [2; 1; 1; 1] = Some mid /\ step mid 1 = None /\ step mid 0 = None /\
              wf mid /\ exists mid', step mid 2 = Some mid'.
Proof.
  eexists. split; [vm_compute; reflexivity|].
  split; [vm_compute; reflexivity|]. split; [vm_compute; reflexivity|].
  split; [apply wfb_wf; vm_compute; reflexivity|]. eexists. vm_compute. reflexivity.
Qed.

Definition ex_sched : list nat := [2;1;1;1; 2;2;2; 1;1;1;1;1;1; 0; 1; 0; 1; 0; 2;2].

(* the whole system runs to completion under ex_sched (20 = 3 + 11 + 6 actions) *)
Example ex_runs_to_completion :
  exists fin, run ex_cfg ex_sched = Some fin /\ reachable ex_cfg fin /\ finished fin.
Proof.
  eexists. split; [vm_compute; reflexivity|]. split.
  - apply (run_reachable ex_sched). vm_compute. reflexivity.
  - apply finishedb_finished. vm_compute. reflexivity.
Qed.

(* ---------- the premise matters: inverted order deadlocks ---------- *)

(* thread A takes 0 then 1, thread B takes 1 then 0 *)
Definition inv_cfg0 : config :=
  [ {| held := []; todo := [Acquire 0; Acquire 1; Release 1; Release 0] |};
    {| held := []; todo := [Acquire 1; Acquire 0; Release 0; Release 1] |} ].

(* after each took its first lock *)
Definition inv_cfg1 : config :=
  [ {| held := [0]; todo := [Acquire 1; Release 1; Release 0] |};
    {| held := [1]; todo := [Acquire 0; Release 0; Release 1] |} ].

Example inverted_order_deadlocks :
  run inv_cfg0 [0; 1] = Some inv_cfg1 /\ reachable inv_cfg0 inv_cfg1 /\ stuck inv_cfg1 /\
  ~ wf inv_cfg0 /\ ~ wf inv_cfg1.
Proof.
  split; [vm_compute; reflexivity|].
  split; [apply (run_reachable [0; 1]); vm_compute; reflexivity|].
  split; [|split].
  - split.
    + eexists. split; [left; reflexivity | cbn [todo]; discriminate].
    + intros i. destruct i as [|[|i]]; [reflexivity | reflexivity |].
      unfold step, inv_cfg1. cbn [nth_error]. destruct i; reflexivity.
  - intros Hwf. apply wfb_wf in Hwf. vm_compute in Hwf. discriminate Hwf.
  - intros Hwf. apply wfb_wf in Hwf. vm_compute in Hwf. discriminate Hwf.
Qed.

(* the individual threads of the inverted configuration: A obeys the order, B does not *)
Example inverted_thread_B_not_ordered :
  map well_ordered inv_cfg0 = [true; false] /\ map well_ordered inv_cfg1 = [true; false].
Proof. split; vm_compute; reflexivity. Qed.

(* the recogniser rejects the inverted nesting, a re-entrant acquisition, and a section that
   ends while holding a lock; a re-entrant thread blocks on itself *)
Example section_ok_rejects :
  section_ok [Acquire 1; Acquire 0; Release 0; Release 1] = false /\
  section_ok [Acquire 0; Acquire 0; Release 0; Release 0] = false /\
  section_ok [Acquire 0; Work] = false /\
  section_ok [Acquire 0; Acquire 1; Release 0; Release 1] = false /\
  stuck [ {| held := [0]; todo := [Acquire 0; Release 0; Release 0] |} ].
Proof.
  repeat (split; [vm_compute; reflexivity|]). split.
  - eexists. split; [left; reflexivity | cbn [todo]; discriminate].
  - intros i. destruct i as [|i]; [reflexivity|]. unfold step. cbn [nth_error]. destruct i; reflexivity.
Qed.
