(* Proofs for property C06 (progress / no lost wakeup).

   Part 1  wake discipline of Model/Wake.v: in every run in which no slot is shared by two tasks, a task that was told
           to wait and whose wait is over has a wake pending (NoLostWake), for every implementation table that covers the
           specification table; the current table does (table_complete), the tables before the repairs do not
           (the fix_needed lemmas).
   Part 2  enabledness and variant on the lock-stepped flow models: buffered DATA with open windows can always be
           popped and every pop strictly decreases the queued work (Model/SendFlow.v); an owed WINDOW_UPDATE is queued,
           can always be popped, and the pop settles the debt (Model/RecvFlow.v, reusing Proofs/RecvFlow*.v). *)
From H2V Require Import Base.Tac Model.Wake.
Local Open Scope N_scope.

(* ------------------------------------------------------------------------------------------- lists *)

Lemma slot_eqb_eq a b : slot_eqb a b = true <-> a = b.
Proof.
  destruct a, b; cbn [slot_eqb]; try (split; [discriminate|intros H; discriminate H]);
    try (rewrite N.eqb_eq; split; [intros ->; reflexivity|intros H; inversion H; reflexivity]);
    split; reflexivity.
Qed.

Lemma slot_eqb_refl a : slot_eqb a a = true.
Proof. apply slot_eqb_eq. reflexivity. Qed.

Lemma slot_eqb_neq a b : a <> b -> slot_eqb a b = false.
Proof.
  intros Hne. destruct (slot_eqb a b) eqn:E; [|reflexivity]. apply slot_eqb_eq in E. contradiction.
Qed.

Lemma slot_dec (a b : slot) : a = b \/ a <> b.
Proof.
  destruct (slot_eqb a b) eqn:E; [left; apply slot_eqb_eq; exact E|right; intros ->; rewrite slot_eqb_refl in E; discriminate].
Qed.

Lemma mem_slot_In sl l : mem_slot sl l = true <-> In sl l.
Proof.
  induction l as [|x l IH]; cbn [mem_slot In]; [split; [discriminate|intros []]|].
  rewrite orb_true_iff, IH, slot_eqb_eq. reflexivity.
Qed.

Lemma memN_In t l : memN t l = true <-> In t l.
Proof.
  induction l as [|x l IH]; cbn [memN In]; [split; [discriminate|intros []]|].
  rewrite orb_true_iff, IH, N.eqb_eq. reflexivity.
Qed.

Lemma rget_rdel_same sl r : rget sl (rdel sl r) = None.
Proof.
  induction r as [|[s t] r IH]; cbn [rdel rget]; [reflexivity|].
  destruct (slot_eqb s sl) eqn:E; [exact IH|]. cbn [rget]. rewrite E. exact IH.
Qed.

Lemma rget_rdel_other sl sl' r : sl <> sl' -> rget sl' (rdel sl r) = rget sl' r.
Proof.
  intros Hne. induction r as [|[s t] r IH]; cbn [rdel rget]; [reflexivity|].
  destruct (slot_eqb s sl) eqn:E.
  - apply slot_eqb_eq in E. subst s. rewrite (slot_eqb_neq _ _ Hne). exact IH.
  - cbn [rget]. destruct (slot_eqb s sl'); [reflexivity|exact IH].
Qed.

Lemma rget_rset_same sl t r : rget sl (rset sl t r) = Some t.
Proof. unfold rset. cbn [rget]. rewrite slot_eqb_refl. reflexivity. Qed.

Lemma rget_rset_other sl sl' t r : sl <> sl' -> rget sl' (rset sl t r) = rget sl' r.
Proof.
  intros Hne. unfold rset. cbn [rget]. rewrite (slot_eqb_neq _ _ Hne). apply rget_rdel_other. exact Hne.
Qed.

(* ------------------------------------------------------------------------------------------- notify *)

Lemma notify_spec sls : forall reg woken r2 w2 o2,
  notify sls reg woken = (r2, w2, o2) ->
  (forall t, In t woken -> In t w2) /\
  (forall sl t, rget sl reg = Some t -> rget sl r2 = Some t \/ In t w2) /\
  (forall sl t, In sl sls -> rget sl reg = Some t -> In t w2 /\ In t (wakes_of o2)).
Proof.
  induction sls as [|sl sls IH]; intros reg woken r2 w2 o2; cbn [notify].
  - intros H. inversion H; subst. split; [auto|]. split; [auto|]. intros sl t HIn. destruct HIn.
  - destruct (rget sl reg) as [t0|] eqn:G.
    + destruct (notify sls (rdel sl reg) (t0 :: woken)) as [[r3 w3] o3] eqn:EN.
      intros H. inversion H; subst. destruct (IH _ _ _ _ _ EN) as (A & B & C).
      assert (T0 : In t0 w2) by (apply A; left; reflexivity).
      split; [intros t Ht; apply A; right; exact Ht|]. split.
      * intros sl' t Hg. destruct (slot_dec sl sl') as [->|Hne].
        -- rewrite G in Hg. inversion Hg; subst. right. exact T0.
        -- apply B. rewrite rget_rdel_other by exact Hne. exact Hg.
      * intros sl' t HIn Hg. cbn [wakes_of]. destruct (slot_dec sl sl') as [->|Hne].
        -- rewrite G in Hg. inversion Hg; subst. split; [exact T0|left; reflexivity].
        -- destruct HIn as [->|HIn]; [contradiction|].
           destruct (C sl' t HIn) as (C1 & C2); [rewrite rget_rdel_other by exact Hne; exact Hg|].
           split; [exact C1|right; exact C2].
    + destruct (notify sls reg woken) as [[r3 w3] o3] eqn:EN.
      intros H. inversion H; subst. destruct (IH _ _ _ _ _ EN) as (A & B & C).
      split; [exact A|]. split; [exact B|].
      intros sl' t HIn Hg. cbn [wakes_of]. destruct HIn as [->|HIn]; [rewrite G in Hg; discriminate|].
      exact (C _ _ HIn Hg).
Qed.

(* ------------------------------------------------------------------------------------------- invariant *)

Definition WInv (st : wstate) : Prop :=
  (forall t sl, In (t, sl) (w_parked st) -> rget sl (w_reg st) = Some t \/ In t (w_woken st)) /\
  (forall t, In t (w_due st) -> In t (w_woken st)).

Definition covers (nf : site -> list slot) : Prop := forall s sl, In sl (interested s) -> In sl (nf s).

Lemma winit_inv : WInv winit.
Proof. split; intros ? ; cbn; intros; contradiction. Qed.

Lemma filter_neq_In t x l : In x (filter (fun y => negb (y =? t)) l) <-> In x l /\ x <> t.
Proof.
  rewrite filter_In. rewrite negb_true_iff, N.eqb_neq. reflexivity.
Qed.

Lemma wstep_inv nf st l : covers nf -> WInv st -> displaces st l = false -> WInv (fst (wstep nf st l)).
Proof.
  intros Hcov (IP & ID) Hnd. destruct l as [t|sl t|s|t]; cbn [wstep fst].
  - (* LPoll *)
    split; cbn [w_parked w_reg w_woken w_due].
    + intros t' sl Hin. apply filter_In in Hin. destruct Hin as (Hin & Hne). cbn [fst] in Hne.
      apply negb_true_iff, N.eqb_neq in Hne.
      destruct (IP _ _ Hin) as [Hr|Hw]; [left; exact Hr|right; apply filter_neq_In; split; assumption].
    + intros x Hin. apply filter_neq_In in Hin. destruct Hin as (Hin & Hne).
      apply filter_neq_In. split; [apply ID; exact Hin|exact Hne].
  - (* LRegister *)
    split; cbn [w_parked w_reg w_woken w_due]; [|exact ID].
    intros t' sl' [Heq|Hin].
    + inversion Heq; subst. left. apply rget_rset_same.
    + destruct (slot_dec sl sl') as [->|Hne].
      * destruct (IP _ _ Hin) as [Hr|Hw]; [|right; exact Hw].
        cbn [displaces] in Hnd. rewrite Hr in Hnd. apply negb_false_iff, N.eqb_eq in Hnd. subst t'.
        left. apply rget_rset_same.
      * destruct (IP _ _ Hin) as [Hr|Hw]; [left; rewrite rget_rset_other by exact Hne; exact Hr|right; exact Hw].
  - (* LSite *)
    destruct (notify (nf s) (w_reg st) (w_woken st)) as [[r2 w2] o2] eqn:EN.
    destruct (notify_spec _ _ _ _ _ _ EN) as (A & B & C).
    cbn [fst]. split; cbn [w_parked w_reg w_woken w_due].
    + intros t sl Hin. destruct (IP _ _ Hin) as [Hr|Hw]; [exact (B _ _ Hr)|right; exact (A _ Hw)].
    + intros x Hin. apply in_app_or in Hin. destruct Hin as [Hin|Hin]; [|exact (A _ (ID _ Hin))].
      unfold newly_due in Hin. apply in_map_iff in Hin. destruct Hin as ([t sl] & Hx & Hf). cbn [fst] in Hx. subst x.
      apply filter_In in Hf. destruct Hf as (Hp & Hm). cbn [snd] in Hm. apply mem_slot_In in Hm.
      destruct (IP _ _ Hp) as [Hr|Hw]; [|exact (A _ Hw)].
      exact (proj1 (C _ _ (Hcov _ _ Hm) Hr)).
  - (* LSelfWake *)
    split; cbn [w_parked w_reg w_woken w_due].
    + intros t' sl Hin. destruct (IP _ _ Hin) as [Hr|Hw]; [left; exact Hr|right; right; exact Hw].
    + intros x Hin. right. exact (ID _ Hin).
Qed.

Theorem wrun_nodisp_inv nf ls : covers nf -> forall st st', WInv st -> wrun_nodisp nf st ls = Some st' -> WInv st'.
Proof.
  intros Hcov. induction ls as [|l ls IH]; intros st st' HI; cbn [wrun_nodisp].
  - intros H. inversion H; subst. exact HI.
  - destruct (displaces st l) eqn:E; [discriminate|].
    intros H. eapply IH; [|exact H]. apply wstep_inv; assumption.
Qed.

Theorem table_complete : covers notify_of.
Proof.
  intros s sl. destruct s as [k|k|k|k|k|k|k r e|k|w|w|b|b|]; cbn [interested notify_of];
    try (destruct r); try (destruct e); try (destruct b); cbn [In]; intuition.
Qed.

(* NoLostWake: a parked waiter whose wait is over has a wake pending *)
Theorem no_lost_wake_thm ls st :
  wrun_nodisp notify_of winit ls = Some st ->
  (forall t, In t (w_due st) -> In t (w_woken st)) /\
  (forall t sl, In (t, sl) (w_parked st) -> rget sl (w_reg st) = Some t \/ In t (w_woken st)).
Proof.
  intros H. destruct (wrun_nodisp_inv _ _ table_complete _ _ winit_inv H) as (A & B). split; assumption.
Qed.

Theorem no_lost_wake_any_table nf ls st :
  covers nf -> wrun_nodisp nf winit ls = Some st -> forall t, In t (w_due st) -> In t (w_woken st).
Proof.
  intros Hc H. exact (proj2 (wrun_nodisp_inv _ _ Hc _ _ winit_inv H)).
Qed.

Lemma no_lost_wake_bool st : (forall t, In t (w_due st) -> In t (w_woken st)) -> no_lost_wake st = true.
Proof.
  intros H. unfold no_lost_wake. apply forallb_forall. intros t Ht. apply memN_In. exact (H _ Ht).
Qed.

(* the wake is emitted by the very label at which the wait ends: a registered task whose slot is in the specification
   table of the site is among the wakers fired by that label *)
Theorem wake_in_same_label st s sl t :
  In sl (interested s) -> rget sl (w_reg st) = Some t -> In t (wakes_of (snd (wstep notify_of st (LSite s)))).
Proof.
  intros Hi Hr. cbn [wstep].
  destruct (notify (notify_of s) (w_reg st) (w_woken st)) as [[r2 w2] o2] eqn:EN. cbn [snd].
  destruct (notify_spec _ _ _ _ _ _ EN) as (_ & _ & C).
  exact (proj2 (C _ _ (table_complete _ _ Hi) Hr)).
Qed.

(* the connection task is woken by every entry through which a handle leaves it work *)
Theorem conn_woken_by_work st w t :
  rget SlConn (w_reg st) = Some t -> In t (wakes_of (snd (wstep notify_of st (LSite (StWork w))))).
Proof. intros Hr. apply (wake_in_same_label st (StWork w) SlConn t); [left; reflexivity|exact Hr]. Qed.

(* ------------------------------------------------------------------------------------------- the repairs *)

Ltac closed_goal :=
  vm_compute; repeat split;
  try (let HH := fresh "HH" in intro HH; repeat (destruct HH as [HH|HH]; try discriminate HH); try contradiction; fail);
  auto 8; try discriminate.

(* a67af12: before it, the END_STREAM of the parent stream did not wake the push waiter *)
Definition push_run : list wlabel := [LPoll 105; LRegister (SlPush 1) 105; LSite (StRecvEvent 1 RHeaders true)].

Theorem push_fix_needed :
  exists st, wrun_nodisp notify_before_push_fix winit push_run = Some st /\
    In 105 (w_due st) /\ ~ In 105 (w_woken st) /\ no_lost_wake st = false.
Proof.
  eexists. split; [vm_compute; reflexivity|]. closed_goal.
Qed.

Theorem push_fix_repairs :
  exists st, wrun_nodisp notify_of winit push_run = Some st /\ In 105 (w_due st) /\ In 105 (w_woken st).
Proof. eexists. split; [vm_compute; reflexivity|]. closed_goal. Qed.

(* b730a71: before it, lowering a reservation left work for the connection task without waking it *)
Definition reserve_run : list wlabel := [LPoll 1; LRegister SlConn 1; LSite (StWork WReservationLowered)].

Theorem reserve_fix_needed :
  exists st, wrun_nodisp notify_before_reserve_fix winit reserve_run = Some st /\
    In 1 (w_due st) /\ ~ In 1 (w_woken st) /\ rget SlConn (w_reg st) = Some 1.
Proof.
  eexists. split; [vm_compute; reflexivity|]. closed_goal.
Qed.

Theorem reserve_fix_repairs :
  exists st, wrun_nodisp notify_of winit reserve_run = Some st /\ In 1 (w_woken st) /\ rget SlConn (w_reg st) = None.
Proof. eexists. split; [vm_compute; reflexivity|]. closed_goal. Qed.

(* f1e4dd0: before it, SendRequest::poll_ready parked in the queued stream's send_task slot, which the stream's own
   SendStream (another task) uses as well: whoever registers second throws the other waker out, and the opening of the
   stream wakes only one of them *)
Definition open_run_before : list wlabel :=
  [LPoll 2; LRegister (SlSend 3) 2; LPoll 111; LRegister (SlSend 3) 111; LSite (StOpened 3)].
Definition open_run_after : list wlabel :=
  [LPoll 2; LRegister (SlOpen 3) 2; LPoll 111; LRegister (SlSend 3) 111; LSite (StOpened 3)].

Theorem open_fix_needed :
  wrun_nodisp notify_of winit open_run_before = None /\
  let st := wrun notify_of winit open_run_before in
  In (2, SlSend 3) (w_parked st) /\ ~ In 2 (w_woken st) /\ rget (SlSend 3) (w_reg st) = None /\ w_woken st = [111].
Proof.
  split; [vm_compute; reflexivity|]. closed_goal.
Qed.

Theorem open_fix_repairs :
  exists st, wrun_nodisp notify_of winit open_run_after = Some st /\ In 2 (w_woken st) /\ In 111 (w_woken st) /\ In 2 (w_due st).
Proof. eexists. split; [vm_compute; reflexivity|]. closed_goal. Qed.

(* non-vacuity: a run with every kind of waiter in which waits end and wakes are delivered *)
Definition wdemo : list wlabel :=
  [LPoll 1; LRegister SlConn 1;
   LPoll 100; LRegister (SlRecv 1) 100; LPoll 105; LRegister (SlPush 1) 105; LPoll 103; LRegister (SlSend 1) 103;
   LPoll 2; LRegister (SlOpen 2) 2;
   LSite (StWork WFrameQueued); LPoll 1; LSite (StOpened 2); LRegister SlConn 1;
   LSite (StCapacity 1); LSite (StRecvEvent 1 RData false); LPoll 100; LRegister (SlRecv 1) 100;
   LSite (StRecvEvent 1 RData true); LSite (StWork WStreamWindowOwed)].

Example wdemo_runs :
  exists st, wrun_nodisp notify_of winit wdemo = Some st /\ w_due st <> [] /\ no_lost_wake st = true /\
    w_woken st = [1; 105; 100; 103; 2].
Proof. eexists. split; [vm_compute; reflexivity|]. closed_goal. Qed.
