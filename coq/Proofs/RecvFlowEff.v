(* What each label of the receive-flow model does to the advertised windows and which
   WINDOW_UPDATEs it emits (no invariant needed, only distinct record ids). *)
From H2V Require Import Base.Tac Model.RecvFlow Proofs.RecvFlowLists Proofs.RecvFlowInv.
Local Open Scope Z_scope.

(* every record of st' was already there with a window at least as large *)
Definition win_le_s (st st' : rstate) : Prop :=
  forall key s', rfind key (k_strs st') = Some s' ->
    exists s, rfind key (k_strs st) = Some s /\ r_win s' <= r_win s.

(* no surviving record's window increased *)
Definition win_le (st st' : rstate) : Prop :=
  forall key s s', rfind key (k_strs st) = Some s -> rfind key (k_strs st') = Some s' -> r_win s' <= r_win s.

Definition no_wu (o : list rout) : Prop := forall key incr, ~ In (RWU key incr) o.

Lemma win_le_s_weak st st' : win_le_s st st' -> win_le st st'.
Proof.
  intros H key s s' F F'. destruct (H key s' F') as (x & Fx & Hx). rewrite F in Fx. inversion Fx; subst. exact Hx.
Qed.

Lemma win_le_s_same st st' : k_strs st' = k_strs st -> win_le_s st st'.
Proof. intros E key s' F. rewrite E in F. exists s'. split; [exact F|lia]. Qed.

Lemma win_le_s_trans a b c : win_le_s a b -> win_le_s b c -> win_le_s a c.
Proof.
  intros H1 H2 key s' F. destruct (H2 key s' F) as (x & Fx & Hx). destruct (H1 key x Fx) as (y & Fy & Hy).
  exists y. split; [exact Fy|lia].
Qed.

Lemma win_le_s_upd st st' s s1 :
  k_strs st' = rupd s1 (k_strs st) -> rfind (r_id s1) (k_strs st) = Some s -> r_win s1 <= r_win s ->
  win_le_s st st'.
Proof.
  intros E F Hw key x Fx. rewrite E in Fx. apply rfind_rupd_inv in Fx.
  destruct Fx as [(-> & ->)|(_ & Fx)].
  - exists s. split; [exact F|exact Hw].
  - exists x. split; [exact Fx|lia].
Qed.

Lemma no_wu_nil : no_wu [].
Proof. intros key incr H. exact H. Qed.

Lemma no_wu_err : no_wu [RConnErr].
Proof. intros key incr [H|H]; [discriminate|exact H]. Qed.

Lemma no_wu_res v : no_wu [RRes v].
Proof. intros key incr [H|H]; [discriminate|exact H]. Qed.

(* ------------------------------------------------------------------------------------------- *)
(* primitives *)

Lemma consume_then_inv st sz f st' o :
  rthen (consume_conn st sz) f = ROk st' o ->
  (st' = st /\ o = [RConnErr]) \/
  f (kset_flow st (k_win st - sz) (k_avail st - sz) (k_infl st + sz)) = ROk st' o.
Proof.
  unfold consume_conn.
  destruct (ras_size (k_win st) <? sz).
  { cbn [rthen rbind rhas_conn_err existsb orb]. intros H; inversion H; subst. left; auto. }
  destruct (negb (in_i32r (k_win st - sz)) || negb (in_i32r (k_avail st - sz))).
  { cbn [rthen rbind rhas_conn_err existsb orb]. intros H; inversion H; subst. left; auto. }
  cbn [rthen rbind rhas_conn_err existsb orb].
  destruct (f (kset_flow st (k_win st - sz) (k_avail st - sz) (k_infl st + sz))) as [st2 o2|n|n]; try discriminate.
  cbn [app]. intros H; inversion H; subst. right. reflexivity.
Qed.

Lemma release_conn_out st cap st' o :
  release_conn st cap = ROk st' o ->
  o = [] /\ st' = kset_flow st (k_win st) (k_avail st + cap) (k_infl st - cap).
Proof.
  unfold release_conn. destruct (k_infl st <? cap); [discriminate|].
  destruct (negb (in_i32r (k_avail st + cap))); [discriminate|].
  intros H; inversion H; subst. auto.
Qed.

Lemma release_stream_out st key cap st' o :
  release_stream st key cap = ROk st' o ->
  k_win st' = k_win st /\ win_le_s st st' /\ no_wu o.
Proof.
  unfold release_stream. destruct (rfind key (k_strs st)) as [s|] eqn:F; [|discriminate].
  pose proof (rfind_id _ _ _ F) as Hid.
  destruct (r_infl s <? cap).
  { intros H; inversion H; subst. split; [reflexivity|]. split; [apply win_le_s_same; reflexivity|apply no_wu_res]. }
  destruct (release_conn st cap) as [st1 o1|n|n] eqn:E1; cbn [rthen rbind]; try discriminate.
  apply release_conn_out in E1. destruct E1 as (-> & ->).
  cbn [rhas_conn_err existsb].
  destruct (negb (in_i32r (r_avail s + cap))); [discriminate|].
  cbn [app]. intros H; inversion H; subst. split; [reflexivity|]. split; [|apply no_wu_nil].
  eapply win_le_s_upd; [reflexivity| |]; simp_r; [try rewrite Hid; exact F|lia].
Qed.

Lemma settings_streams_eff delta touched : forall st st' o,
  settings_streams st delta touched = ROk st' o ->
  k_win st' = k_win st /\ (delta <= 0 -> win_le_s st st') /\ no_wu o.
Proof.
  induction touched as [|key t IH]; intros st st' o; cbn [settings_streams].
  - intros H; inversion H; subst. split; [reflexivity|]. split; [intros _; apply win_le_s_same; reflexivity|apply no_wu_nil].
  - destruct (rfind key (k_strs st)) as [s|] eqn:F; [|discriminate].
    pose proof (rfind_id _ _ _ F) as Hid.
    destruct (r_unl s); [discriminate|].
    cbv zeta.
    destruct (negb (in_i32r (r_win s + delta)) || negb (in_i32r (r_avail s + delta)) || (RMAXW <? r_win s + delta)).
    { intros H; inversion H; subst. split; [reflexivity|]. split; [intros _; apply win_le_s_same; reflexivity|apply no_wu_err]. }
    intros H. apply IH in H. destruct H as (H1 & H2 & H3).
    split; [exact H1|]. split; [|exact H3].
    intros Hd. eapply win_le_s_trans; [|exact (H2 Hd)].
    eapply win_le_s_upd; [reflexivity| |]; simp_r; [try rewrite Hid; exact F|lia].
Qed.

Lemma win_le_s_mark st t : win_le_s st (kset_strs st (mark_done t (k_strs st))).
Proof.
  intros key x Fx. simp_r. rewrite rfind_mark_done in Fx.
  destruct (rfind key (k_strs st)) as [s|]; [|discriminate]. inversion Fx; subst.
  exists s. split; [reflexivity|]. unfold mark1. destruct (mem_key (r_id s) t); simp_r; lia.
Qed.

(* ------------------------------------------------------------------------------------------- *)

(* a DATA label: the connection window drops by exactly the frame's flow-controlled size unless a
   connection error was reported, no stream window rises, no WINDOW_UPDATE is emitted *)
Definition data_eff (st : rstate) (sz : Z) (st' : rstate) (o : list rout) : Prop :=
  (rhas_conn_err o = false -> k_win st' = k_win st - sz) /\
  (k_win st' = k_win st \/ k_win st' = k_win st - sz) /\
  win_le_s st st' /\ no_wu o.

Lemma data_eff_err st sz : data_eff st sz st [RConnErr].
Proof.
  unfold data_eff. split; [intros H; discriminate H|]. split; [left; reflexivity|].
  split; [apply win_le_s_same; reflexivity|apply no_wu_err].
Qed.

Lemma data_eff_consume_release st sz st' o :
  release_conn (kset_flow st (k_win st - sz) (k_avail st - sz) (k_infl st + sz)) sz = ROk st' o ->
  data_eff st sz st' o.
Proof.
  intros H. apply release_conn_out in H. destruct H as (-> & ->). unfold data_eff. simp_r.
  split; [reflexivity|]. split; [right; reflexivity|]. split; [apply win_le_s_same; reflexivity|apply no_wu_nil].
Qed.

Definition rstep_eff_spec (st : rstate) (l : rlabel) (st' : rstate) (o : list rout) : Prop :=
  match l with
  | RNew _ _ => k_win st' = k_win st /\ win_le st st' /\ no_wu o
  | RConnWU => exists incr, o = [RWU 0 incr] /\ k_win st' = k_win st + incr /\ k_strs st' = k_strs st
  | RStreamWUPop key true =>
      k_win st' = k_win st /\ (forall k, k <> key -> rfind k (k_strs st') = rfind k (k_strs st)) /\
      (forall k incr, In (RWU k incr) o -> k = key)
  | RApplySettings n _ => k_win st' = k_win st /\ (n <= k_init st -> win_le_s st st') /\ no_wu o
  | RDataUnknown sz => data_eff st sz st' o
  | RData _ _ sz _ _ => data_eff st sz st' o
  | _ => k_win st' = k_win st /\ win_le_s st st' /\ no_wu o
  end.

Lemma same3 st st' o : k_win st' = k_win st -> k_strs st' = k_strs st -> no_wu o ->
  k_win st' = k_win st /\ win_le_s st st' /\ no_wu o.
Proof. intros H1 H2 H3. split; [exact H1|]. split; [apply win_le_s_same; exact H2|exact H3]. Qed.

Lemma upd3 st st' o s s1 :
  k_win st' = k_win st -> k_strs st' = rupd s1 (k_strs st) -> rfind (r_id s1) (k_strs st) = Some s ->
  r_win s1 <= r_win s -> no_wu o ->
  k_win st' = k_win st /\ win_le_s st st' /\ no_wu o.
Proof.
  intros H1 H2 F Hw H3. split; [exact H1|]. split; [eapply win_le_s_upd; eauto|exact H3].
Qed.

Theorem rstep_eff st l st' o :
  NoDup (map r_id (k_strs st)) -> rlabel_ok l -> rstep st l = ROk st' o -> rstep_eff_spec st l st' o.
Proof.
  intros ND Hl.
  destruct l as [key init|key|sz|key k sz payload isrecv|key cap|key isrecv tr|key|target
                |new_init touched| |key streaming]; cbn [rstep rstep_eff_spec rlabel_ok] in *.
  - (* RNew *)
    destruct (rfind key (k_strs st)) eqn:F; [discriminate|].
    destruct (negb ((init =? k_init st) || (init =? 0))); [discriminate|].
    intros H; inversion H; subst. split; [reflexivity|]. split; [|apply no_wu_nil].
    intros k s s' Fs Fs'. simp_r. cbn [rfind r_id] in Fs'.
    destruct (N.eqb key k) eqn:E; [apply N.eqb_eq in E; subst k; congruence|].
    rewrite Fs in Fs'. inversion Fs'; subst. lia.
  - (* RRemove *)
    destruct (rfind key (k_strs st)) as [s|] eqn:F; [|discriminate].
    destruct (r_infl s =? 0); [|discriminate].
    intros H; inversion H; subst. split; [reflexivity|]. split; [|apply no_wu_nil].
    intros k x Fx. simp_r. apply rfind_rdel in Fx; [|exact ND]. destruct Fx as (_ & Fx).
    exists x. split; [exact Fx|lia].
  - (* RDataUnknown *)
    intros H. apply consume_then_inv in H. destruct H as [(-> & ->)|H]; [apply data_eff_err|].
    apply data_eff_consume_release. exact H.
  - (* RData *)
    destruct (rfind key (k_strs st)) as [s|] eqn:F; [|discriminate].
    pose proof (rfind_id _ _ _ F) as Hid.
    destruct k.
    + intros H. apply consume_then_inv in H. destruct H as [(-> & ->)|H]; [apply data_eff_err|].
      apply data_eff_consume_release. exact H.
    + intros H; inversion H; subst. apply data_eff_err.
    + intros H. apply consume_then_inv in H. destruct H as [(-> & ->)|H]; [apply data_eff_err|].
      destruct (release_conn _ sz) as [st2 o2|n|n] eqn:E2; try discriminate.
      inversion H; subst. apply release_conn_out in E2. destruct E2 as (-> & ->).
      unfold data_eff. simp_r.
      split; [reflexivity|]. split; [right; reflexivity|]. split; [apply win_le_s_same; reflexivity|].
      intros k incr [X|X]; [discriminate|exact X].
    + intros H. apply consume_then_inv in H. destruct H as [(-> & ->)|H]; [apply data_eff_err|].
      inversion H; subst. unfold data_eff. simp_r.
      split; [intros X; discriminate X|]. split; [right; reflexivity|].
      split; [apply win_le_s_same; reflexivity|apply no_wu_err].
    + destruct isrecv; [discriminate|].
      intros H. apply consume_then_inv in H. destruct H as [(-> & ->)|H]; [apply data_eff_err|].
      destruct (ras_size (r_win s) <? sz); [discriminate|].
      apply data_eff_consume_release. exact H.
    + destruct (negb isrecv) eqn:EI; [discriminate|]. apply negb_false_iff in EI. subst isrecv.
      destruct (negb (r_isrecv s)); [discriminate|].
      intros H. apply consume_then_inv in H. destruct H as [(-> & ->)|H]; [apply data_eff_err|].
      destruct (ras_size (r_win s) <? sz) eqn:E1; [discriminate|].
      destruct (negb (in_i32r (r_win s - sz)) || negb (in_i32r (r_avail s - sz))).
      { inversion H; subst. unfold data_eff. simp_r.
        split; [intros X; discriminate X|]. split; [right; reflexivity|].
        split; [apply win_le_s_same; reflexivity|apply no_wu_err]. }
      cbv zeta in H.
      set (st1 := kset_flow st (k_win st - sz) (k_avail st - sz) (k_infl st + sz)) in *.
      set (s2 := mkR (r_id s) (r_win s - sz) (r_avail s - sz) (r_infl s + sz) (r_pend s) true
                     (r_base s) (r_done s) (r_unl s)) in *.
      (* the stream window drops by sz, which is non-negative whenever the frame was accepted *)
      assert (Hw2 : r_win s2 <= r_win s).
      { unfold s2; simp_r. lia. }
      assert (H2 : win_le_s st (kput st1 s2)).
      { eapply win_le_s_upd; [reflexivity| |exact Hw2]. unfold s2; simp_r. try rewrite Hid. exact F. }
      destruct (0 <? sz - payload).
      * destruct (release_stream (kput st1 s2) key (sz - payload)) as [st3 o3|n|n] eqn:E3; try discriminate.
        destruct o3; [|discriminate]. inversion H; subst.
        apply release_stream_out in E3. destruct E3 as (W3 & L3 & _).
        unfold data_eff. rewrite W3. unfold st1; simp_r.
        split; [reflexivity|]. split; [right; reflexivity|].
        split; [eapply win_le_s_trans; [exact H2|exact L3]|apply no_wu_nil].
      * inversion H; subst. unfold data_eff. unfold st1; simp_r.
        split; [reflexivity|]. split; [right; reflexivity|]. split; [exact H2|apply no_wu_nil].
  - (* RRelease *) apply release_stream_out.
  - (* RClear *)
    destruct (rfind key (k_strs st)) as [s|] eqn:F; [|discriminate].
    pose proof (rfind_id _ _ _ F) as Hid.
    destruct isrecv; [discriminate|]. destruct (r_infl s <? tr); [discriminate|].
    destruct (0 <? tr).
    + intros H. apply release_conn_out in H. destruct H as (-> & ->).
      eapply upd3; simp_r; [reflexivity|reflexivity|try rewrite Hid; exact F|simp_r; lia|apply no_wu_nil].
    + intros H; inversion H; subst.
      eapply upd3; simp_r; [reflexivity|reflexivity|try rewrite Hid; exact F|simp_r; lia|apply no_wu_nil].
  - (* RReleaseClosed *)
    destruct (rfind key (k_strs st)) as [s|] eqn:F; [|discriminate].
    pose proof (rfind_id _ _ _ F) as Hid.
    destruct (r_infl s =? 0).
    + intros H; inversion H; subst.
      eapply upd3; simp_r; [reflexivity|reflexivity|try rewrite Hid; exact F|simp_r; lia|apply no_wu_nil].
    + intros H. apply release_conn_out in H. destruct H as (-> & ->).
      eapply upd3; simp_r; [reflexivity|reflexivity|try rewrite Hid; exact F|simp_r; lia|apply no_wu_nil].
  - (* RSetTarget *)
    cbv zeta.
    destruct (negb (in_i32r (k_avail st + k_infl st))).
    { intros H; inversion H; subst. apply same3; [reflexivity|reflexivity|apply no_wu_res]. }
    destruct (k_avail st + k_infl st <? 0); [discriminate|].
    match goal with |- context [negb (in_i32r ?a)] => destruct (negb (in_i32r a)) end.
    { intros H; inversion H; subst. apply same3; [reflexivity|reflexivity|apply no_wu_res]. }
    intros H; inversion H; subst. apply same3; [reflexivity|reflexivity|apply no_wu_nil].
  - (* RApplySettings *)
    destruct (negb (nodup_keysr touched)); [discriminate|].
    cbv zeta.
    destruct (new_init - k_init st =? 0) eqn:E0.
    + destruct touched; [|discriminate]. intros H; inversion H; subst.
      split; [reflexivity|]. split; [intros _; apply win_le_s_same; reflexivity|apply no_wu_nil].
    + set (st0 := mkK (k_win st) (k_avail st) (k_infl st) new_init (k_target st) (k_strs st)).
      destruct (settings_streams st0 (new_init - k_init st) touched) as [st1 o1|n|n] eqn:ES; try discriminate.
      apply settings_streams_eff in ES. destruct ES as (W1 & L1 & N1).
      assert (L0 : new_init <= k_init st -> win_le_s st st1).
      { intros Hn. eapply win_le_s_trans; [|apply L1; lia]. apply win_le_s_same. reflexivity. }
      destruct (rhas_conn_err o1); intros H; inversion H; subst.
      * split; [exact W1|]. split; [exact L0|exact N1].
      * split; [exact W1|]. split; [|exact N1].
        intros Hn. eapply win_le_s_trans; [exact (L0 Hn)|apply win_le_s_mark].
  - (* RConnWU *)
    destruct (unclaimed (k_win st) (k_avail st)) as [incr|]; [|discriminate].
    destruct (negb (in_i32r (k_win st + incr)) || (RMAXW <? k_win st + incr)); [discriminate|].
    intros H; inversion H; subst. exists incr. simp_r. auto.
  - (* RStreamWUPop *)
    destruct (rfind key (k_strs st)) as [s|] eqn:F; [|discriminate].
    pose proof (rfind_id _ _ _ F) as Hid.
    destruct streaming; cbn [negb].
    + assert (Hoth : forall s1 k, r_id s1 = key -> k <> key -> rfind k (rupd s1 (k_strs st)) = rfind k (k_strs st)).
      { intros s1 k H1 Hk. rewrite rfind_rupd. rewrite H1.
        destruct (N.eqb key k) eqn:E; [apply N.eqb_eq in E; congruence|reflexivity]. }
      destruct (unclaimed (r_win s) (r_avail s)) as [incr|].
      * destruct (negb (in_i32r (r_win s + incr)) || (RMAXW <? r_win s + incr)); [discriminate|].
        intros H; inversion H; subst. simp_r. split; [reflexivity|]. split.
        -- intros k Hk. apply Hoth; [reflexivity|exact Hk].
        -- intros k i [X|X]; [inversion X; reflexivity|destruct X].
      * intros H; inversion H; subst. simp_r. split; [reflexivity|]. split.
        -- intros k Hk. apply Hoth; [reflexivity|exact Hk].
        -- intros k i X. destruct X.
    + intros H; inversion H; subst.
      eapply upd3; simp_r; [reflexivity|reflexivity|try rewrite Hid; exact F|simp_r; lia|apply no_wu_nil].
Qed.
