(* List lemmas for the association-list store of Model/RecvFlow.v, and arithmetic facts about
   unclaimed_capacity. *)
From H2V Require Import Base.Tac Model.RecvFlow.
Local Open Scope Z_scope.

Fixpoint sum_infl (l : list rstream) : Z :=
  match l with [] => 0 | s :: l' => r_infl s + sum_infl l' end.

Lemma rfind_id key l s : rfind key l = Some s -> r_id s = key.
Proof.
  induction l as [|x l IH]; cbn [rfind]; [discriminate|].
  destruct (N.eqb (r_id x) key) eqn:E.
  - intros H; inversion H; subst. now apply N.eqb_eq.
  - exact IH.
Qed.

Lemma rfind_In key l s : rfind key l = Some s -> In s l.
Proof.
  induction l as [|x l IH]; cbn [rfind]; [discriminate|].
  destruct (N.eqb (r_id x) key) eqn:E.
  - intros H; inversion H; subst. now left.
  - intros H; right; auto.
Qed.

Lemma rfind_none_notin key l : rfind key l = None -> ~ In key (map r_id l).
Proof.
  induction l as [|x l IH]; cbn [rfind map]; [intros _ []|].
  destruct (N.eqb (r_id x) key) eqn:E; [discriminate|].
  intros H [H1|H1]; [apply N.eqb_neq in E; auto | apply IH; auto].
Qed.

Lemma In_rfind l s : NoDup (map r_id l) -> In s l -> rfind (r_id s) l = Some s.
Proof.
  induction l as [|x l IH]; cbn [rfind map]; intros ND HIn; [destruct HIn|].
  inversion ND as [|? ? Hn ND']; subst.
  destruct HIn as [->|HIn].
  - now rewrite N.eqb_refl.
  - destruct (N.eqb (r_id x) (r_id s)) eqn:E; [|auto].
    apply N.eqb_eq in E. exfalso. apply Hn. rewrite E. now apply in_map.
Qed.

(* the two formulations of "every record satisfies P" *)
Lemma Forall_rfind (P : rstream -> Prop) l :
  Forall P l -> forall key s, rfind key l = Some s -> P s.
Proof.
  intros H key s F. apply rfind_In in F. rewrite Forall_forall in H. auto.
Qed.

Lemma rfind_Forall (P : rstream -> Prop) l :
  NoDup (map r_id l) -> (forall key s, rfind key l = Some s -> P s) -> Forall P l.
Proof.
  intros ND H. apply Forall_forall. intros s HIn. apply (H (r_id s)). now apply In_rfind.
Qed.

Lemma rupd_ids s l : map r_id (rupd s l) = map r_id l.
Proof.
  induction l as [|x l IH]; cbn [rupd map]; [reflexivity|].
  destruct (N.eqb (r_id x) (r_id s)) eqn:E; cbn [map].
  - apply N.eqb_eq in E. now rewrite E.
  - now rewrite IH.
Qed.

Lemma rfind_rupd key s' l :
  rfind key (rupd s' l) =
  if N.eqb (r_id s') key then match rfind key l with Some _ => Some s' | None => None end
  else rfind key l.
Proof.
  induction l as [|x l IH]; cbn [rfind rupd].
  - destruct (N.eqb (r_id s') key); reflexivity.
  - destruct (N.eqb (r_id x) (r_id s')) eqn:E.
    + apply N.eqb_eq in E. cbn [rfind]. rewrite E.
      destruct (N.eqb (r_id s') key); reflexivity.
    + cbn [rfind]. destruct (N.eqb (r_id x) key) eqn:E1.
      * apply N.eqb_eq in E1. rewrite E1 in E. rewrite N.eqb_sym in E. rewrite E. reflexivity.
      * exact IH.
Qed.

Lemma rfind_rupd_same s' l s :
  rfind (r_id s') l = Some s -> rfind (r_id s') (rupd s' l) = Some s'.
Proof. intros F. rewrite rfind_rupd, N.eqb_refl, F. reflexivity. Qed.

Lemma rfind_rupd_inv key s' l x :
  rfind key (rupd s' l) = Some x ->
  (key = r_id s' /\ x = s') \/ (key <> r_id s' /\ rfind key l = Some x).
Proof.
  rewrite rfind_rupd. destruct (N.eqb (r_id s') key) eqn:E.
  - apply N.eqb_eq in E. destruct (rfind key l); [|discriminate].
    intros H; inversion H; subst. left; auto.
  - apply N.eqb_neq in E. intros H. right; split; [congruence|exact H].
Qed.

Lemma sum_rupd s s' l :
  NoDup (map r_id l) -> rfind (r_id s') l = Some s ->
  sum_infl (rupd s' l) = sum_infl l - r_infl s + r_infl s'.
Proof.
  induction l as [|x l IH]; cbn [rfind rupd sum_infl map]; [discriminate|].
  intros ND. inversion ND as [|? ? Hn ND']; subst.
  destruct (N.eqb (r_id x) (r_id s')) eqn:E.
  - intros H; inversion H; subst. cbn [sum_infl]. lia.
  - intros H. cbn [sum_infl]. rewrite (IH ND' H). lia.
Qed.

Lemma sum_infl_nonneg l : Forall (fun s => 0 <= r_infl s) l -> 0 <= sum_infl l.
Proof. induction 1; cbn [sum_infl]; lia. Qed.

Lemma sum_infl_ge s l :
  Forall (fun s => 0 <= r_infl s) l -> In s l -> r_infl s <= sum_infl l.
Proof.
  induction 1 as [|x l Hx Hl IH]; cbn [sum_infl]; intros HIn; [destruct HIn|].
  destruct HIn as [->|HIn].
  - pose proof (sum_infl_nonneg l Hl). lia.
  - specialize (IH HIn). lia.
Qed.

Lemma rdel_ids_incl key l x : In x (map r_id (rdel key l)) -> In x (map r_id l).
Proof.
  induction l as [|y l IH]; cbn [rdel map]; [auto|].
  destruct (N.eqb (r_id y) key); [intros H; right; exact H|].
  cbn [map]. intros [H|H]; [left; exact H|right; auto].
Qed.

Lemma rdel_ids_NoDup key l : NoDup (map r_id l) -> NoDup (map r_id (rdel key l)).
Proof.
  induction l as [|x l IH]; cbn [rdel map]; intros ND; [constructor|].
  inversion ND as [|? ? Hn ND']; subst.
  destruct (N.eqb (r_id x) key); [assumption|].
  cbn [map]. constructor; [|auto].
  intros HIn. apply Hn. eapply rdel_ids_incl; eauto.
Qed.

Lemma rfind_rdel k key l x :
  NoDup (map r_id l) -> rfind k (rdel key l) = Some x -> k <> key /\ rfind k l = Some x.
Proof.
  induction l as [|y l IH]; cbn [rdel rfind map]; intros ND; [discriminate|].
  inversion ND as [|? ? Hn ND']; subst.
  destruct (N.eqb (r_id y) key) eqn:E.
  - apply N.eqb_eq in E. intros F.
    assert (Hk : k <> key).
    { intros ->. apply Hn. rewrite E. pose proof (rfind_id _ _ _ F) as Hid. rewrite <- Hid.
      apply in_map. eapply rfind_In; eauto. }
    split; [exact Hk|].
    destruct (N.eqb (r_id y) k) eqn:E1; [apply N.eqb_eq in E1; congruence|exact F].
  - cbn [rfind]. destruct (N.eqb (r_id y) k) eqn:E1.
    + intros F. split; [|exact F]. apply N.eqb_eq in E1. apply N.eqb_neq in E. congruence.
    + apply IH. exact ND'.
Qed.

Lemma rfind_rdel_other k key l : k <> key -> rfind k (rdel key l) = rfind k l.
Proof.
  intros Hne. induction l as [|y l IH]; cbn [rdel rfind]; [reflexivity|].
  destruct (N.eqb (r_id y) key) eqn:E.
  - apply N.eqb_eq in E. destruct (N.eqb (r_id y) k) eqn:E1; [apply N.eqb_eq in E1; congruence|reflexivity].
  - cbn [rfind]. destruct (N.eqb (r_id y) k); [reflexivity|exact IH].
Qed.

Lemma sum_rdel key l s :
  rfind key l = Some s -> sum_infl (rdel key l) = sum_infl l - r_infl s.
Proof.
  induction l as [|x l IH]; cbn [rfind rdel sum_infl]; [discriminate|].
  destruct (N.eqb (r_id x) key) eqn:E.
  - intros H; inversion H; subst. lia.
  - intros H. cbn [sum_infl]. rewrite (IH H). lia.
Qed.

(* mark_done *)
Definition mark1 (touched : list N) (s : rstream) : rstream :=
  if mem_key (r_id s) touched then s
  else mkR (r_id s) (r_win s) (r_avail s) (r_infl s) (r_pend s) (r_isrecv s) (r_base s) (r_done s) true.

Lemma mark_done_map t l : mark_done t l = map (mark1 t) l.
Proof. reflexivity. Qed.

Lemma mark1_id t s : r_id (mark1 t s) = r_id s.
Proof. unfold mark1. destruct (mem_key (r_id s) t); reflexivity. Qed.

Lemma mark_done_ids t l : map r_id (mark_done t l) = map r_id l.
Proof.
  rewrite mark_done_map. induction l as [|x l IH]; cbn [map]; [reflexivity|].
  rewrite IH, mark1_id. reflexivity.
Qed.

Lemma mark_done_sum t l : sum_infl (mark_done t l) = sum_infl l.
Proof.
  rewrite mark_done_map. induction l as [|x l IH]; cbn [map sum_infl]; [reflexivity|].
  rewrite IH. unfold mark1. destruct (mem_key (r_id x) t); reflexivity.
Qed.

Lemma rfind_mark_done t key l :
  rfind key (mark_done t l) = match rfind key l with Some s => Some (mark1 t s) | None => None end.
Proof.
  rewrite mark_done_map. induction l as [|x l IH]; cbn [map rfind]; [reflexivity|].
  rewrite mark1_id. destruct (N.eqb (r_id x) key); [reflexivity|exact IH].
Qed.

Lemma mem_key_cons_false k x l : mem_key k (x :: l) = false -> x <> k /\ mem_key k l = false.
Proof.
  cbn [mem_key]. intros H. apply orb_false_iff in H. destruct H as (H1 & H2).
  apply N.eqb_neq in H1. auto.
Qed.

(* ------------------------------------------------------------------------------------------- *)
(* unclaimed_capacity *)

Lemma unclaimed_some w a u : unclaimed w a = Some u -> u = a - w /\ w < a /\ Z.quot w 2 <= a - w.
Proof.
  unfold unclaimed. destruct (a <=? w) eqn:E; [discriminate|].
  destruct (a - w <? Z.quot w 2) eqn:E1; [discriminate|].
  intros H; inversion H; subst. lia.
Qed.

Lemma unclaimed_none w a : unclaimed w a = None -> a <= w \/ (w < a /\ a - w < Z.quot w 2).
Proof.
  unfold unclaimed. destruct (a <=? w) eqn:E; [intros _; left; lia|].
  destruct (a - w <? Z.quot w 2) eqn:E1; [intros _; right; lia|discriminate].
Qed.

Lemma unclaimed_refl w : unclaimed w w = None.
Proof. unfold unclaimed. rewrite Z.leb_refl. reflexivity. Qed.

Lemma quot2_mono a b : a <= b -> Z.quot a 2 <= Z.quot b 2.
Proof. intros H. apply Z.quot_le_mono; lia. Qed.

(* raising window and available by the same amount never makes capacity due *)
Lemma unclaimed_shift_up w a delta :
  0 <= delta -> unclaimed w a = None -> unclaimed (w + delta) (a + delta) = None.
Proof.
  intros Hd H. apply unclaimed_none in H. unfold unclaimed.
  destruct (a + delta <=? w + delta) eqn:E; [reflexivity|].
  destruct H as [H|(H1 & H2)]; [lia|].
  pose proof (quot2_mono w (w + delta) ltac:(lia)) as Hq.
  destruct (a + delta - (w + delta) <? Z.quot (w + delta) 2) eqn:E1; [reflexivity|lia].
Qed.

Lemma rupd_rupd a b l : r_id a = r_id b -> rupd b (rupd a l) = rupd b l.
Proof.
  intros Hab. induction l as [|x l IH]; cbn [rupd]; [reflexivity|].
  destruct (N.eqb (r_id x) (r_id a)) eqn:E.
  - cbn [rupd]. rewrite Hab in E. rewrite E. rewrite Hab, N.eqb_refl. reflexivity.
  - cbn [rupd]. rewrite Hab in E. rewrite E. f_equal. exact IH.
Qed.
