(* C18: quotas, budget and the bound. *)
From H2V Require Import Base.Tac Model.Counts Model.Bounds Proofs.CountsProofs.

(* ================================================================ Part A: the data-frame budget *)
Local Open Scope N_scope.

Definition DInv (st : dstate) : Prop :=
  d_failed st = false ->
  d_avail st <= d_max st /\ d_avail st + buf_cost (d_buf st) <= d_max st + d_repl st /\
  count_if is_zero (d_buf st) <= d_empty st /\ d_empty st <= MAX_EMPTY.

Lemma ndel_cost x l r : ndel x l = Some r -> buf_cost l = dcost x + buf_cost r.
Proof.
  revert r. induction l as [|y l IH]; cbn [ndel buf_cost]; [discriminate|]. intros r.
  destruct (x =? y) eqn:E.
  - intros H. inversion H; subst. apply N.eqb_eq in E. subst. reflexivity.
  - destruct (ndel x l) as [r0|]; [|discriminate]. intros H. inversion H; subst. cbn [buf_cost]. rewrite (IH r0 eq_refl). lia.
Qed.

Lemma ndel_count f x l r : ndel x l = Some r -> count_if f l = (if f x then 1 else 0) + count_if f r.
Proof.
  revert r. induction l as [|y l IH]; cbn [ndel count_if]; [discriminate|]. intros r.
  destruct (x =? y) eqn:E.
  - intros H. inversion H; subst. apply N.eqb_eq in E. subst. reflexivity.
  - destruct (ndel x l) as [r0|]; [|discriminate]. intros H. inversion H; subst. cbn [count_if]. rewrite (IH r0 eq_refl). lia.
Qed.

Lemma dcost_tiny len : (len =? 0) = false -> (len <? DF_T) = true -> dcost len = DF_T - len.
Proof. intros A B. unfold dcost. rewrite A, B. reflexivity. Qed.
Lemma dcost_big len : (len <? DF_T) = false -> dcost len = 0.
Proof. intros B. unfold dcost. rewrite B. cbn [negb]. rewrite orb_true_r. reflexivity. Qed.
Lemma dcost_zero : dcost 0 = 0.
Proof. reflexivity. Qed.
Lemma is_zero_neq len : (len =? 0) = false -> is_zero len = false.
Proof. intros A. exact A. Qed.

Theorem dstep_inv st l st' o : DInv st -> dstep st l = Some (st', o) -> DInv st'.
Proof.
  intros H E Hf. unfold DInv in H. destruct l as [len|len]; cbn [dstep] in E.
  - destruct (len =? 0) eqn:E0.
    + apply N.eqb_eq in E0. subst len. destruct (MAX_EMPTY <? d_empty st + 1) eqn:E1; inversion E; subst; cbn [d_failed] in Hf; [discriminate|].
      cbn [d_avail d_max d_empty d_buf d_repl]. destruct (H Hf) as (A & B & C & D). apply N.ltb_ge in E1.
      cbn [buf_cost count_if]. rewrite dcost_zero. change (is_zero 0) with true. cbn iota. repeat split; try lia.
    + destruct (len <? DF_T) eqn:E1.
      * destruct (d_avail st <? DF_T - len) eqn:E2; inversion E; subst; cbn [d_failed] in Hf; [discriminate|].
        cbn [d_avail d_max d_empty d_buf d_repl]. destruct (H Hf) as (A & B & C & D). apply N.ltb_ge in E2.
        cbn [buf_cost count_if]. rewrite (dcost_tiny _ E0 E1), (is_zero_neq _ E0). repeat split; try lia.
      * inversion E; subst. cbn [d_failed] in Hf. cbn [d_avail d_max d_empty d_buf d_repl]. destruct (H Hf) as (A & B & C & D).
        cbn [buf_cost count_if]. rewrite (dcost_big _ E1), (is_zero_neq _ E0). unfold replenish. repeat split; try lia.
  - destruct (ndel len (d_buf st)) as [buf|] eqn:En; [|discriminate].
    pose proof (ndel_cost _ _ _ En) as Hc. pose proof (ndel_count is_zero _ _ _ En) as Hz.
    destruct (negb (len =? 0) && (len <? DF_T)) eqn:E1; inversion E; subst; cbn [d_failed] in Hf;
      cbn [d_avail d_max d_empty d_buf d_repl]; destruct (H Hf) as (A & B & C & D).
    + apply andb_true_iff in E1. destruct E1 as (E1 & E2). apply negb_true_iff in E1.
      rewrite (dcost_tiny _ E1 E2) in Hc. rewrite (is_zero_neq _ E1) in Hz. unfold replenish. repeat split; try lia.
    + assert (X : dcost len = 0).
      { unfold dcost. destruct (len =? 0); [reflexivity|]. cbn [negb andb orb] in *. rewrite E1. reflexivity. }
      destruct (is_zero len); repeat split; try lia.
Qed.

Lemma dinit_inv mx : DInv (dinit mx).
Proof. intros _. cbn. unfold MAX_EMPTY. repeat split; lia. Qed.

Theorem drun_inv ls : forall st st', DInv st -> drun st ls = Some st' -> DInv st'.
Proof.
  induction ls as [|l ls IH]; intros st st' H E; cbn [drun] in E; [inversion E; subst; exact H|].
  destruct (dstep st l) as [[st1 o]|] eqn:E1; [|discriminate]. exact (IH st1 st' (dstep_inv _ _ _ _ H E1) E).
Qed.

Lemma tiny_le_cost l : count_if is_tiny l <= buf_cost l.
Proof.
  induction l as [|x l IH]; cbn [count_if buf_cost]; [lia|].
  destruct (is_tiny x) eqn:Et; [|lia]. unfold is_tiny in Et. apply andb_true_iff in Et. destruct Et as (E0 & E1).
  apply negb_true_iff in E0. rewrite (dcost_tiny _ E0 E1). apply N.ltb_lt in E1. lia.
Qed.

(* buffered small DATA frames: their number is bounded by the budget plus what large frames (which cost flow-control window)
   have paid back; buffered empty DATA frames by the fixed cap; beyond that the connection has been failed *)
Theorem data_frames_bounded ls mx st :
  drun (dinit mx) ls = Some st -> d_failed st = false ->
  count_if is_tiny (d_buf st) <= mx + d_repl st /\ count_if is_zero (d_buf st) <= MAX_EMPTY /\ d_max st = mx.
Proof.
  intros E Hf. pose proof (drun_inv ls _ _ (dinit_inv mx) E Hf) as (A & B & C & D).
  assert (M : d_max st = mx).
  { clear - E. assert (G : forall xs s s', drun s xs = Some s' -> d_max s' = d_max s).
    { induction xs as [|l xs IH]; intros s s' H; cbn [drun] in H; [inversion H; reflexivity|].
      destruct (dstep s l) as [[s1 o]|] eqn:E1; [|discriminate]. rewrite (IH s1 s' H).
      destruct l as [len|len]; cbn [dstep] in E1.
      - destruct (len =? 0); [destruct (MAX_EMPTY <? d_empty s + 1)|destruct (len <? DF_T); [destruct (d_avail s <? DF_T - len)|]];
          inversion E1; reflexivity.
      - destruct (ndel len (d_buf s)); [|discriminate]. destruct (negb (len =? 0) && (len <? DF_T)); inversion E1; reflexivity. }
    exact (G ls _ _ E). }
  pose proof (tiny_le_cost (d_buf st)). rewrite M in *. repeat split; try lia.
Qed.

(* a frame beyond the budget is answered with the GOAWAY decision *)
Theorem data_frame_refused st len st' o :
  dstep st (DRecord len) = Some (st', o) ->
  (o = [DExhausted] <-> (len = 0 /\ MAX_EMPTY < d_empty st + 1) \/ (0 < len < DF_T /\ d_avail st < DF_T - len)) /\
  (o = [DExhausted] -> d_failed st' = true /\ d_avail st' = d_avail st).
Proof.
  intros E. cbn [dstep] in E. destruct (len =? 0) eqn:E0.
  - apply N.eqb_eq in E0. subst. destruct (MAX_EMPTY <? d_empty st + 1) eqn:E1; inversion E; subst.
    + apply N.ltb_lt in E1. split; [split; [intros _; left; auto|reflexivity]|intros _; split; reflexivity].
    + apply N.ltb_ge in E1. split; [split; [discriminate|intros [(_ & H)|((H & _) & _)]; lia]|discriminate].
  - apply N.eqb_neq in E0. destruct (len <? DF_T) eqn:E1.
    + apply N.ltb_lt in E1. destruct (d_avail st <? DF_T - len) eqn:E2; inversion E; subst.
      * apply N.ltb_lt in E2. split; [split; [intros _; right; split; lia|reflexivity]|intros _; split; reflexivity].
      * apply N.ltb_ge in E2. split; [split; [discriminate|intros [(H & _)|(_ & H)]; lia]|discriminate].
    + apply N.ltb_ge in E1. inversion E; subst. split; [split; [discriminate|intros [(H & _)|((_ & H) & _)]; lia]|discriminate].
Qed.

Example demo_budget :
  match drun (dinit 600) [DRecord 1; DRecord 1; DRelease 1; DRecord 1; DRecord 1] with
  | Some st => d_failed st = true /\ d_avail st = 90
  | None => False
  end.
Proof. vm_compute. split; reflexivity. Qed.

(* ================================================================ Part B: quotas of the counts model *)
Local Open Scope Z_scope.

Definition QInv (st : cstate) : Prop :=
  CInv st /\ num_lreset st <= max_lreset st /\ num_rreset st <= max_rreset st /\
  match max_lerr st with Some m => num_lerr st <= m | None => True end.

Lemma transition_frame st key o st' outs :
  cstep st (TransitionAfter key o) = COk st' outs ->
  max_lreset st' = max_lreset st /\ num_rreset st' = num_rreset st /\ max_rreset st' = max_rreset st /\
  num_lerr st' = num_lerr st /\ max_lerr st' = max_lerr st /\ max_recv st' = max_recv st.
Proof.
  cbn [cstep].
  assert (G : forall st1, max_lreset st1 = max_lreset st -> num_rreset st1 = num_rreset st -> max_rreset st1 = max_rreset st ->
            num_lerr st1 = num_lerr st -> max_lerr st1 = max_lerr st -> max_recv st1 = max_recv st ->
            (if t_closed o
             then if negb (t_sched_reset o) && cmem key (counted st1)
                  then if negb (match clook key (counted st1) with Some b => Bool.eqb b (t_local o) | None => false end) then CStuck 8
                       else if t_local o then if num_send st1 <=? 0 then CPanic 8
                                              else COk (upd_send st1 (max_send st1) (num_send st1 - 1) (cdel key (counted st1))) []
                            else if num_recv st1 <=? 0 then CPanic 9
                                 else COk (upd_recv st1 (num_recv st1 - 1) (cdel key (counted st1))) []
                  else COk st1 []
             else COk st1 []) = COk st' outs ->
            max_lreset st' = max_lreset st /\ num_rreset st' = num_rreset st /\ max_rreset st' = max_rreset st /\
            num_lerr st' = num_lerr st /\ max_lerr st' = max_lerr st /\ max_recv st' = max_recv st).
  { intros st1 A1 A2 A3 A4 A5 A6 H.
    destruct (t_closed o); [|inversion H; subst; auto 10].
    destruct (negb (t_sched_reset o) && cmem key (counted st1)); [|inversion H; subst; auto 10].
    destruct (negb _); [discriminate|]. destruct (t_local o).
    - destruct (num_send st1 <=? 0); [discriminate|]. inversion H; subst. simp_c. auto 10.
    - destruct (num_recv st1 <=? 0); [discriminate|]. inversion H; subst. simp_c. auto 10. }
  destruct (negb (t_pending_reset o) && t_reset_counted o).
  - destruct (num_lreset st <=? 0); [discriminate|]. apply G; simp_c; reflexivity.
  - apply G; reflexivity.
Qed.

Theorem cstep_quota st l st' o : QInv st -> cstep st l = COk st' o -> QInv st'.
Proof.
  intros (HI & Q1 & Q2 & Q3) E.
  pose proof (cstep_inv st l HI) as X. rewrite E in X. cbn [cstep_ok] in X. split; [exact X|].
  destruct HI as (I1 & I2 & I3 & P1 & P2 & P3 & P4 & P5 & N1 & N2 & N3 & L1 & L2).
  destruct l as [| | | | |key|key| | | | |mx ini|key ob].
  1-5: cbn [cstep] in E; inversion E; subst; simp_c; auto.
  - cbn [cstep] in E. destruct (negb (p_send st)); [discriminate|]. destruct (negb (below _ _)); [discriminate|].
    destruct (cmem key (counted st)); [discriminate|]. inversion E; subst; simp_c; auto.
  - cbn [cstep] in E. destruct (negb (p_recv st)); [discriminate|]. destruct (negb (below _ _)); [discriminate|].
    destruct (cmem key (counted st)); [discriminate|]. inversion E; subst; simp_c; auto.
  - cbn [cstep] in E. destruct (p_lreset st) eqn:Ep; cbn [negb] in E; [|discriminate].
    destruct (negb (num_lreset st <? max_lreset st)); [discriminate|]. inversion E; subst; simp_c.
    pose proof (P3 eq_refl). repeat split; auto; lia.
  - cbn [cstep] in E. destruct (p_rreset st) eqn:Ep; cbn [negb] in E; [|discriminate].
    destruct (negb (num_rreset st <? max_rreset st)); [discriminate|]. inversion E; subst; simp_c.
    pose proof (P4 eq_refl). repeat split; auto; lia.
  - cbn [cstep] in E. destruct (num_rreset st <=? 0); [discriminate|]. inversion E; subst; simp_c. repeat split; auto; lia.
  - cbn [cstep] in E. destruct (p_lerr st) eqn:Ep; cbn [negb] in E; [|discriminate].
    destruct (negb (below (num_lerr st) (max_lerr st))); [discriminate|]. inversion E; subst; simp_c.
    pose proof (P5 eq_refl) as B. repeat split; auto. destruct (max_lerr st); [unfold below in B; lia|exact I].
  - cbn [cstep] in E. destruct mx as [v|]; [|destruct ini]; inversion E; subst; simp_c; auto.
  - destruct (transition_frame _ _ _ _ _ E) as (F1 & F2 & F3 & F4 & F5 & F6).
    pose proof (reset_slot_returned _ _ _ _ _ E) as R. rewrite F1, F2, F3, F4, F5.
    repeat split; auto. destruct (negb (t_pending_reset ob) && t_reset_counted ob); lia.
Qed.

Lemma cinit_quota ms mr mlr mrr mle :
  limit_ok mr -> 0 <= mlr -> 0 <= mrr -> limit_ok mle -> QInv (cinit ms mr mlr mrr mle).
Proof.
  intros H1 H2 H3 H4. split; [apply cinit_inv; exact H1|]. unfold cinit. cbn [num_lreset max_lreset num_rreset max_rreset max_lerr num_lerr].
  repeat split; try lia. destruct mle; [exact H4|exact I].
Qed.

(* the quotas hold after ANY sequence of calls into counts.rs *)
Theorem crun_quota ls : forall st, QInv st ->
  match crun st ls with
  | inl (Some (st', _)) => QInv st'
  | _ => True
  end.
Proof.
  induction ls as [|l ls IH]; intros st H; cbn [crun]; [exact H|].
  destruct (cstep st l) as [st1 o1|n|n] eqn:E; [|exact I|exact I].
  specialize (IH st1 (cstep_quota _ _ _ _ H E)). destruct (crun st1 ls) as [[[st2 os]|]|[k r]]; [exact IH|exact I|exact I].
Qed.

(* ---- the admission decisions: refusal instead of growth ---- *)
Theorem open_refuses st st' d : recv_open st = (st', d) ->
  counted st' = counted st /\ num_recv st' = num_recv st /\
  (d = Admit <-> below (num_recv st) (max_recv st) = true) /\ (d = Refuse <-> below (num_recv st) (max_recv st) = false).
Proof.
  unfold recv_open. cbn [cstep]. destruct (below (num_recv st) (max_recv st)); intros H; inversion H; subst; unfold set_permits;
    cbn [counted num_recv]; repeat split; auto; try discriminate.
Qed.

Theorem count_stream_admits st key st' d : QInv st -> count_stream st key = (st', d) ->
  (d = Admit -> num_recv st' = num_recv st + 1 /\ match max_recv st' with Some m => num_recv st' <= m | None => True end) /\
  (d = Refuse -> num_recv st' = num_recv st /\ counted st' = counted st) /\ d <> Impossible \/ cmem key (counted st) = true.
Proof.
  intros (HI & _) E. unfold count_stream in E. cbn [cstep] in E.
  destruct (below (num_recv st) (max_recv st)) eqn:Eb.
  - unfold set_permits in E. cbn [p_recv negb num_recv max_recv counted] in E. rewrite Eb in E. cbn [negb] in E.
    destruct (cmem key (counted st)) eqn:Em; [right; reflexivity|]. left. inversion E; subst. unfold upd_recv. cbn [num_recv max_recv].
    split; [intros _; split; [reflexivity|]|split; [discriminate|discriminate]].
    destruct (max_recv st); [unfold below in Eb; lia|exact I].
  - left. inversion E; subst. unfold set_permits. cbn [num_recv counted]. split; [discriminate|]. split; [auto|discriminate].
Qed.

Theorem recv_reset_quota st st' d : QInv st -> recv_reset_unaccepted st = (st', d) ->
  (d = Admit /\ num_rreset st' = num_rreset st + 1 /\ num_rreset st' <= max_rreset st') \/
  (d = GoAwayCalm /\ num_rreset st' = num_rreset st /\ num_rreset st = max_rreset st).
Proof.
  intros (HI & Q1 & Q2 & Q3) E. unfold recv_reset_unaccepted in E. cbn [cstep] in E.
  destruct (num_rreset st <? max_rreset st) eqn:Eb.
  - unfold set_permits in E. cbn [p_rreset negb num_rreset max_rreset] in E. rewrite Eb in E. cbn [negb] in E.
    inversion E; subst. unfold upd_rreset. cbn [num_rreset max_rreset]. left. repeat split; lia.
  - inversion E; subst. unfold set_permits. cbn [num_rreset]. right. repeat split; lia.
Qed.

Theorem reset_expiry_quota st st' d : QInv st -> enqueue_reset_expiration st = (st', d) ->
  (d = Admit /\ num_lreset st' = num_lreset st + 1 /\ num_lreset st' <= max_lreset st') \/
  (d = NotRemembered /\ num_lreset st' = num_lreset st /\ num_lreset st = max_lreset st).
Proof.
  intros (HI & Q1 & Q2 & Q3) E. unfold enqueue_reset_expiration in E. cbn [cstep] in E.
  destruct (num_lreset st <? max_lreset st) eqn:Eb.
  - unfold set_permits in E. cbn [p_lreset negb num_lreset max_lreset] in E. rewrite Eb in E. cbn [negb] in E.
    inversion E; subst. unfold upd_lreset. cbn [num_lreset max_lreset]. left. repeat split; lia.
  - inversion E; subst. unfold set_permits. cbn [num_lreset]. right. repeat split; lia.
Qed.

Theorem library_reset_quota st st' d : QInv st -> library_reset st = (st', d) ->
  (d = Admit /\ num_lerr st' = num_lerr st + 1 /\ match max_lerr st' with Some m => num_lerr st' <= m | None => True end) \/
  (d = GoAwayCalm /\ num_lerr st' = num_lerr st /\ max_lerr st = Some (num_lerr st)).
Proof.
  intros (HI & Q1 & Q2 & Q3) E. unfold library_reset in E. cbn [cstep] in E.
  destruct (below (num_lerr st) (max_lerr st)) eqn:Eb.
  - unfold set_permits in E. cbn [p_lerr negb num_lerr max_lerr] in E. rewrite Eb in E. cbn [negb] in E.
    inversion E; subst. unfold upd_lerr. cbn [num_lerr max_lerr]. left. split; [reflexivity|]. split; [reflexivity|].
    destruct (max_lerr st); [unfold below in Eb; lia|exact I].
  - inversion E; subst. unfold set_permits. cbn [num_lerr]. right. split; [reflexivity|]. split; [reflexivity|].
    destruct (max_lerr st) as [m|]; [|discriminate]. unfold below in Eb. f_equal. lia.
Qed.

(* ================================================================ Part C: the peer's moves *)
Definition BInv (st : bstate) : Prop := QInv (b_cs st).

Lemma decision_quota_open c c1 d : QInv c -> recv_open c = (c1, d) -> QInv c1.
Proof.
  intros H E. unfold recv_open in E. destruct (cstep c QRecv) as [s o|n|n] eqn:E1; [|inversion E; subst; exact H|inversion E; subst; exact H].
  pose proof (cstep_quota _ _ _ _ H E1). destruct o as [|[[]] [|]]; inversion E; subst; assumption.
Qed.

Lemma decide2_quota c q1 l2 (R : decision) c1 d :
  QInv c ->
  match cstep c q1 with
  | COk s [CBool true] => match cstep s l2 with COk s2 _ => (s2, Admit) | _ => (s, Impossible) end
  | COk s _ => (s, R)
  | _ => (c, Impossible)
  end = (c1, d) -> QInv c1.
Proof.
  intros H E. destruct (cstep c q1) as [s o|n|n] eqn:E1; [|inversion E; subst; exact H|inversion E; subst; exact H].
  pose proof (cstep_quota _ _ _ _ H E1) as H1.
  destruct o as [|[[]] [|]]; try (inversion E; subst; assumption).
  destruct (cstep s l2) as [s2 o2|n|n] eqn:E2; inversion E; subst; try assumption. exact (cstep_quota _ _ _ _ H1 E2).
Qed.

Lemma decision_quota_count c key c1 d : QInv c -> count_stream c key = (c1, d) -> QInv c1.
Proof. intros H E. exact (decide2_quota c QRecv (IncRecv key) Refuse c1 d H E). Qed.
Lemma decision_quota_rreset c c1 d : QInv c -> recv_reset_unaccepted c = (c1, d) -> QInv c1.
Proof. intros H E. exact (decide2_quota c QRReset IncRReset GoAwayCalm c1 d H E). Qed.
Lemma decision_quota_lreset c c1 d : QInv c -> enqueue_reset_expiration c = (c1, d) -> QInv c1.
Proof. intros H E. exact (decide2_quota c QLReset IncLReset NotRemembered c1 d H E). Qed.
Lemma decision_quota_lerr c c1 d : QInv c -> library_reset c = (c1, d) -> QInv c1.
Proof. intros H E. exact (decide2_quota c QLErr IncLErr GoAwayCalm c1 d H E). Qed.

Theorem bstep_inv st l st' o : BInv st -> bstep st l = Some (st', o) -> BInv st'.
Proof.
  unfold BInv. intros H E. unfold bstep in E. destruct (b_failed st); [inversion E; subst; exact H|].
  destruct l as [key| | |key ob| | | | |].
  - destruct (recv_open (b_cs st)) as [c1 d] eqn:E1. pose proof (decision_quota_open _ _ _ H E1) as H1.
    destruct d; try discriminate.
    + destruct (count_stream c1 key) as [c2 d2] eqn:E2. pose proof (decision_quota_count _ _ _ _ H1 E2).
      destruct d2; inversion E; subst; assumption.
    + inversion E; subst. exact H1.
  - destruct (recv_reset_unaccepted (b_cs st)) as [c1 d] eqn:E1. pose proof (decision_quota_rreset _ _ _ H E1).
    destruct d; inversion E; subst; assumption.
  - destruct (library_reset (b_cs st)) as [c1 d] eqn:E1. pose proof (decision_quota_lerr _ _ _ H E1) as H1.
    destruct d; try discriminate.
    + destruct (enqueue_reset_expiration c1) as [c2 d2] eqn:E2. pose proof (decision_quota_lreset _ _ _ H1 E2).
      destruct d2; inversion E; subst; assumption.
    + inversion E; subst. exact H1.
  - destruct (cstep (b_cs st) (TransitionAfter key ob)) as [c1 o1|n|n] eqn:E1; [|discriminate|discriminate].
    inversion E; subst. exact (cstep_quota _ _ _ _ H E1).
  - destruct (cstep (b_cs st) DecRReset) as [c1 o1|n|n] eqn:E1; [|discriminate|discriminate].
    inversion E; subst. exact (cstep_quota _ _ _ _ H E1).
  - destruct (b_push st); inversion E; subst; exact H.
  - destruct (b_resv st =? 0)%N; inversion E; subst; exact H.
  - inversion E; subst; exact H.
  - destruct (b_info st =? 0)%N; inversion E; subst; exact H.
Qed.

Theorem brun_inv ls : forall st st', BInv st -> brun st ls = Some st' -> BInv st'.
Proof.
  induction ls as [|l ls IH]; intros st st' H E; cbn [brun] in E; [inversion E; subst; exact H|].
  destruct (bstep st l) as [[st1 o]|] eqn:E1; [|discriminate]. exact (IH st1 st' (bstep_inv _ _ _ _ H E1) E).
Qed.

(* whatever the peer sends, the counters the configuration caps stay within their caps *)
Theorem quotas_hold ls ms mr mlr mrr mle push st :
  limit_ok mr -> 0 <= mlr -> 0 <= mrr -> limit_ok mle ->
  brun (binit (cinit ms mr mlr mrr mle) push) ls = Some st ->
  match max_recv (b_cs st) with Some m => num_recv (b_cs st) <= m | None => True end /\
  num_lreset (b_cs st) <= max_lreset (b_cs st) /\ num_rreset (b_cs st) <= max_rreset (b_cs st) /\
  match max_lerr (b_cs st) with Some m => num_lerr (b_cs st) <= m | None => True end.
Proof.
  intros H1 H2 H3 H4 E.
  pose proof (brun_inv ls _ _ (cinit_quota ms mr mlr mrr mle H1 H2 H3 H4 : BInv (binit _ push)) E) as (HI & Q1 & Q2 & Q3).
  repeat split; auto. apply HI.
Qed.

(* a stream beyond the concurrency limit is refused, a reset flood / error flood beyond its quota disconnects *)
Theorem over_limit_is_refused st key st' o :
  b_failed st = false -> below (num_recv (b_cs st)) (max_recv (b_cs st)) = false ->
  bstep st (BOpen key) = Some (st', o) -> o = [BRefused] /\ num_recv (b_cs st') = num_recv (b_cs st) /\ counted (b_cs st') = counted (b_cs st).
Proof.
  intros Hf Hb E. unfold bstep in E. rewrite Hf in E. destruct (recv_open (b_cs st)) as [c1 d] eqn:E1.
  destruct (open_refuses _ _ _ E1) as (A & B & C & D). assert (d = Refuse) by (apply D; exact Hb). subst d.
  inversion E; subst. cbn [b_cs]. auto.
Qed.

Theorem reset_flood_disconnects st st' o :
  BInv st -> b_failed st = false -> num_rreset (b_cs st) = max_rreset (b_cs st) ->
  bstep st BRstUnaccepted = Some (st', o) -> o = [BGoAway ENHANCE_YOUR_CALM] /\ b_failed st' = true.
Proof.
  intros H Hf Hq E. unfold bstep in E. rewrite Hf in E. destruct (recv_reset_unaccepted (b_cs st)) as [c1 d] eqn:E1.
  destruct (recv_reset_quota _ _ _ H E1) as [(A & B & C)|(A & B & C)]; subst d.
  - exfalso. unfold recv_reset_unaccepted in E1. cbn [cstep] in E1.
    destruct (num_rreset (b_cs st) <? max_rreset (b_cs st)) eqn:Eb; [lia|]. discriminate.
  - inversion E; subst. auto.
Qed.

Theorem error_flood_disconnects st st' o m :
  BInv st -> b_failed st = false -> max_lerr (b_cs st) = Some m -> num_lerr (b_cs st) = m ->
  bstep st BStreamError = Some (st', o) -> o = [BGoAway ENHANCE_YOUR_CALM] /\ b_failed st' = true.
Proof.
  intros H Hf Hm Hq E. unfold bstep in E. rewrite Hf in E. destruct (library_reset (b_cs st)) as [c1 d] eqn:E1.
  destruct (library_reset_quota _ _ _ H E1) as [(A & B & C)|(A & B & C)]; subst d.
  - exfalso. unfold library_reset in E1. cbn [cstep] in E1. rewrite Hm in E1. unfold below in E1.
    destruct (num_lerr (b_cs st) <? m) eqn:Eb; [lia|]. discriminate.
  - inversion E; subst. auto.
Qed.

(* KF-C18-1 / KF-C18-2: no configuration value bounds the reserved pushed streams or the queued interim responses *)
Lemma brun_app l1 : forall st l2, brun st (l1 ++ l2) = match brun st l1 with Some s => brun s l2 | None => None end.
Proof.
  induction l1 as [|l l1 IH]; intros st l2; cbn [app brun]; [reflexivity|].
  destruct (bstep st l) as [[s o]|]; [apply IH|reflexivity].
Qed.

Theorem push_promises_unbounded_refuted c (n : nat) :
  exists st, brun (binit c true) (repeat BPushPromise n) = Some st /\ b_resv st = N.of_nat n /\ b_failed st = false /\ b_cs st = c.
Proof.
  induction n as [|n IH].
  - exists (binit c true). cbn. auto.
  - destruct IH as (st & A & B & C & D). replace (S n) with (n + 1)%nat by lia. rewrite repeat_app, brun_app, A.
    cbn [repeat brun]. unfold bstep. rewrite C. assert (P : b_push st = true).
    { clear - A. assert (G : forall xs s s', brun s xs = Some s' -> b_push s' = b_push s).
      { induction xs as [|l xs IH]; intros s s' H; cbn [brun] in H; [inversion H; reflexivity|].
        destruct (bstep s l) as [[s1 o]|] eqn:E1; [|discriminate]. rewrite (IH s1 s' H). unfold bstep in E1.
        destruct (b_failed s); [inversion E1; reflexivity|].
        destruct l; repeat match type of E1 with context [match ?x with _ => _ end] => destruct x eqn:? end;
          inversion E1; subst; unfold fail, with_cs; cbn [b_push]; try reflexivity; congruence. }
      exact (G _ _ _ A). }
    rewrite P. eexists. split; [reflexivity|]. cbn [b_resv b_failed b_cs]. repeat split; auto. lia.
Qed.

Theorem interim_responses_unbounded_refuted c push (n : nat) :
  exists st, brun (binit c push) (repeat BInfoHeaders n) = Some st /\ b_info st = N.of_nat n /\ b_failed st = false /\ b_cs st = c.
Proof.
  induction n as [|n IH].
  - exists (binit c push). cbn. auto.
  - destruct IH as (st & A & B & C & D). replace (S n) with (n + 1)%nat by lia. rewrite repeat_app, brun_app, A.
    cbn [repeat brun]. unfold bstep. rewrite C. eexists. split; [reflexivity|]. cbn [b_info b_failed b_cs]. repeat split; auto. lia.
Qed.

(* ================================================================ Part D: the bound *)
Local Open Scope N_scope.

Lemma ole_le a m x : ole a m = true -> m = Some x -> a <= x.
Proof. intros H ->. cbn [ole] in H. apply N.leb_le in H. exact H. Qed.

(* a classified snapshot that satisfies the class constraints is within B(config, app_held) apart from the reserved streams *)
Theorem records_bounded_except_known l s : snap_ok l s = true -> within s l = true.
Proof.
  unfold snap_ok, within. intros H.
  repeat (apply andb_true_iff in H; destruct H as (H & ?)).
  repeat match goal with X : (_ <=? _) = true |- _ => apply N.leb_le in X end.
  match goal with X : (_ =? 0) = true |- _ => apply N.eqb_eq in X end.
  unfold B, osum. destruct (l_max_recv l) as [mr|] eqn:E1; [|reflexivity]. destruct (l_max_send l) as [ms|] eqn:E2; [|reflexivity].
  destruct (l_max_lerr l) as [me|] eqn:E3; [|reflexivity].
  repeat match goal with X : ole _ _ = true |- _ => first [apply (fun h => ole_le _ _ _ h eq_refl) in X] end.
  apply N.leb_le. unfold total. lia.
Qed.

Example demo_bound :
  check_bounds (mkBL (Some 5) (Some 100) 10 20 (Some 1024), [mkBS 3 5 2 1 400 0 0 1 5 2 1 0]) = true.
Proof. vm_compute. reflexivity. Qed.
