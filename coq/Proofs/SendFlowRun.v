(* Run-level theorems of the send-flow model: C02 (ledger) and C16 (capacity API). *)
From H2V Require Import Base.Tac Model.SendFlow Ref.Accountant
     Proofs.SendFlowLists Proofs.SendFlowInv Proofs.SendFlowView Proofs.SendFlowLedger.
Local Open Scope Z_scope.

Fixpoint all_wevs (ls : list label) (outs : list (list out)) : list wev :=
  match ls, outs with
  | l :: ls', o :: outs' => wevs l o ++ all_wevs ls' outs'
  | _, _ => []
  end.

Definition no_conn_err (outs : list (list out)) : bool := negb (existsb has_conn_err outs).

Lemma acct_run_app a es1 es2 :
  acct_run a (es1 ++ es2) = match acct_run a es1 with Some a' => acct_run a' es2 | None => None end.
Proof.
  revert a. induction es1 as [|e es1 IH]; intros a; cbn [app acct_run]; [reflexivity|].
  destruct (acct_step a e); auto.
Qed.

Lemma init_inv mb init : 0 <= mb -> 0 <= init <= MAXW -> Inv (init_state mb init).
Proof.
  intros Hm Hi. unfold Inv, InvD, init_state, DEFAULT_WIN, MAXW in *. cbn [c_win c_avail c_maxbuf c_init c_strs sum_avail map].
  repeat split; try lia; constructor.
Qed.

Lemma init_R mb init : R (init_state mb init) (acct0 init).
Proof.
  unfold R, init_state, acct0, DEFAULT_WIN. cbn [c_win c_init c_strs a_credit a_sent a_init map].
  repeat split; try lia. constructor.
Qed.

(* no label of any run panics; the debt (capacity lost to a failed SETTINGS decrease) is >= 0 and
   stays 0 as long as no connection error was reported *)
Theorem run_safe ls : forall st d,
  0 <= d -> InvD d st -> Forall label_ok ls ->
  match run st ls with
  | inl (Some (st', outs)) =>
      (exists d', d <= d' /\ InvD d' st') /\ (no_conn_err outs = true -> InvD d st')
  | inl None => True
  | inr (_, Panic _) => False
  | inr (_, _) => True
  end.
Proof.
  induction ls as [|l ls IH]; intros st d Hd HI Hls; cbn [run].
  - split; [exists d; split; [lia|exact HI]|auto].
  - inversion Hls as [|? ? Hl Hls']; subst.
    pose proof (step_inv d st l Hd HI Hl) as X.
    destruct (step st l) as [st1 o1|n|n]; cbn [step_result_ok] in X; auto.
    destruct X as ((d1 & Hd1 & HI1) & Hno).
    destruct (has_conn_err o1) eqn:Ec.
    + specialize (IH st1 d1 ltac:(lia) HI1 Hls').
      destruct (run st1 ls) as [[[st2 os]|]|[k r]]; [|exact I|destruct r; exact IH].
      destruct IH as ((d2 & Hd2 & HI2) & _). split; [exists d2; split; [lia|exact HI2]|].
      unfold no_conn_err. cbn [existsb]. rewrite Ec. cbn [orb negb]. discriminate.
    + specialize (IH st1 d Hd (Hno eq_refl) Hls').
      destruct (run st1 ls) as [[[st2 os]|]|[k r]]; [|exact I|destruct r; exact IH].
      destruct IH as (A & B). split; [exact A|].
      unfold no_conn_err in *. cbn [existsb]. rewrite Ec. cbn [orb]. exact B.
Qed.

Theorem run_ledger ls : forall st a d st' outs,
  0 <= d -> InvD d st -> R st a -> Forall label_ok ls ->
  run st ls = inl (Some (st', outs)) -> no_conn_err outs = true ->
  exists a', acct_run a (all_wevs ls outs) = Some a' /\ R st' a' /\ InvD d st'.
Proof.
  induction ls as [|l ls IH]; intros st a d st' outs Hd HI HR Hls Hrun Hno; cbn [run] in Hrun.
  - inversion Hrun; subst. exists a. cbn [all_wevs acct_run]. auto.
  - inversion Hls as [|? ? Hl Hls']; subst.
    destruct (step st l) as [st1 o1|n|n] eqn:Es; try discriminate.
    destruct (run st1 ls) as [[[st2 os]|]|[k r]] eqn:Er; try discriminate.
    inversion Hrun; subst st' outs.
    unfold no_conn_err in Hno. cbn [existsb] in Hno. apply negb_true_iff, orb_false_iff in Hno.
    destruct Hno as (Hn1 & Hn2).
    pose proof (step_inv d st l Hd HI Hl) as X. rewrite Es in X. cbn [step_result_ok] in X.
    destruct X as (_ & HI1). specialize (HI1 Hn1).
    destruct (step_sim d st a l st1 o1 Hd HI HR Hl Es Hn1) as (a1 & A1 & R1).
    destruct (IH st1 a1 d st2 os Hd HI1 R1 Hls' Er ltac:(unfold no_conn_err; rewrite Hn2; reflexivity))
      as (a2 & A2 & R2 & I2).
    exists a2. cbn [all_wevs]. rewrite acct_run_app, A1. auto.
Qed.

(* C02: the DATA the model emits is always within the credit the peer has granted, for every label
   sequence (every history of sends, reservations, resets, window updates, settings changes, every
   scheduling order of assign_connection_capacity, every stream-state history). *)
Theorem C02_never_exceeds_credit mb init ls st outs :
  0 <= mb -> 0 <= init <= MAXW -> Forall label_ok ls ->
  run (init_state mb init) ls = inl (Some (st, outs)) -> no_conn_err outs = true ->
  exists a, acct_run (acct0 init) (all_wevs ls outs) = Some a.
Proof.
  intros Hm Hi Hls Hrun Hno.
  destruct (run_ledger ls _ (acct0 init) 0 st outs ltac:(lia) (init_inv mb init Hm Hi) (init_R mb init) Hls Hrun Hno)
    as (a & A & _). exists a. exact A.
Qed.

Theorem C02_no_panic mb init ls k n :
  0 <= mb -> 0 <= init <= MAXW -> Forall label_ok ls ->
  run (init_state mb init) ls <> inr (k, Panic n).
Proof.
  intros Hm Hi Hls E.
  pose proof (run_safe ls _ 0 ltac:(lia) (init_inv mb init Hm Hi) Hls) as X. rewrite E in X. exact X.
Qed.

(* C16: what the capacity API reports is backed by real credit.  For every reachable state:
   - the capacity reported for a record is at most what is assigned to it;
   - what is assigned to a record that can still send is within the stream's remaining wire credit;
   - the total assigned over all records is within the connection's remaining wire credit;
   and, as long as no connection error occurred, nothing is lost: assigned + unassigned = window. *)
Theorem C16_capacity_is_backed mb init ls st outs :
  0 <= mb -> 0 <= init <= MAXW -> Forall label_ok ls ->
  run (init_state mb init) ls = inl (Some (st, outs)) -> no_conn_err outs = true ->
  exists a, acct_run (acct0 init) (all_wevs ls outs) = Some a /\
    sum_avail (c_strs st) <= a_credit a - a_sent a /\
    sum_avail (c_strs st) + c_avail st = c_win st /\
    forall s, In s (c_strs st) ->
      0 <= capacity (c_maxbuf st) s <= s_avail s /\
      (s_dead s = false ->
         exists c sn, a_find (s_id s) (a_streams a) = Some (c, sn) /\ s_avail s <= Z.max 0 (c - sn)).
Proof.
  intros Hm Hi Hls Hrun Hno.
  destruct (run_ledger ls _ (acct0 init) 0 st outs ltac:(lia) (init_inv mb init Hm Hi) (init_R mb init) Hls Hrun Hno)
    as (a & A & (R1 & R2 & R3) & (H1 & H2 & H3 & H4 & H5 & H6 & H7 & H8)).
  exists a. split; [exact A|]. split; [lia|]. split; [lia|].
  intros s Hin. rewrite Forall_forall in H7. destruct (H7 s Hin) as (K1 & K2 & K3 & K5 & K6 & K7 & K8 & K9).
  split.
  - unfold capacity. rewrite (as_size_nonneg _ K1). pose proof (sumz_nonneg _ K6). lia.
  - intros Hd. rewrite Forall_forall in R3.
    destruct (R3 (sproj s) (in_map sproj _ _ Hin) Hd) as (c & sn & X & Y). cbn [sproj fst snd] in X, Y.
    exists c, sn. split; [exact X|]. unfold as_size in K2. lia.
Qed.

(* a capacity notification never reports zero *)
Theorem C16_poll_capacity_never_zero st sid o st' outs :
  step st (LPollCapacity sid o) = Ok st' outs -> ~ In (ORes 0) outs.
Proof.
  cbn [step]. destruct (find_s sid (c_strs st)) as [s|]; [|discriminate].
  destruct (negb (o_streaming o)); [intros H; inversion H; subst; cbn [In]; intros [X|[]]; discriminate|].
  destruct (negb (s_capinc s)); [intros H; inversion H; subst; cbn [In]; intros [X|[]]; discriminate|].
  destruct (capacity (c_maxbuf st) (set_capinc s false) =? 0) eqn:E;
    intros H; inversion H; subst; cbn [In]; intros [X|[]]; [discriminate|].
  inversion X as [X1]. rewrite X1 in E. discriminate.
Qed.

(* non-vacuity: a concrete history with a window-limited transfer, a SETTINGS decrease that makes
   the window negative, a grant and a reset runs to completion and is accepted by the accountant *)
Definition demo_obs := mkObs true false false false.
Definition demo_labels : list label :=
  [ LNew 1 100; LSendData 1 demo_obs 250 false []; LPopData 1 250 16384;
    LApplySettings 40 [(1%N, demo_obs)] []; LRecvStreamWU 1 demo_obs 200; LPopData 1 150 16384;
    LRecvConnWU 1000 []; LPollCapacity 1 demo_obs; LHandleError 1 [] ].

Example demo_runs :
  match run (init_state 409600 100) demo_labels with
  | inl (Some (st, outs)) =>
      no_conn_err outs = true /\ concat outs <> [] /\
      acct_run (acct0 100) (all_wevs demo_labels outs) <> None
  | _ => False
  end.
Proof. vm_compute. repeat split; discriminate. Qed.

Example demo_labels_ok : Forall label_ok demo_labels.
Proof. unfold demo_labels. repeat (constructor; [cbn [label_ok]; unfold MAXW; try lia; exact I|]). constructor. Qed.
