(* Proofs about Model/CapQueue.v: the explicit pending_capacity FIFO over Model/SendFlow.v.
   1. refinement: a qstep projects to a SendFlow step with the computed visits;
   2. the specification of one try_assign_capacity call (grant, push condition);
   3. the loop of assign_connection_capacity as a relation, and its FIFO properties;
   4. the queue invariant over all labels. *)
From H2V Require Import Base.Tac Model.SendFlow Model.CapQueue Ref.Accountant Proofs.SendFlowLists Proofs.SendFlowInv
  Proofs.SendFlowLedger Proofs.SendFlowRun.
Local Open Scope Z_scope.

(* ------------------------------------------------------------------------------------------- *)
(* 1. refinement *)

Lemma q_loop_refines f : forall st q ob outs vs st' q' outs' vs',
  q_loop f st q ob outs vs = QOk st' q' outs' vs' ->
  exists suf, vs' = vs ++ suf /\ visit_all st outs suf = Ok st' outs'.
Proof.
  induction f as [|f IH]; cbn [q_loop]; intros st q ob outs vs st' q' outs' vs' E; [discriminate|].
  destruct (c_avail st <=? 0) eqn:Ec.
  { inversion E; subst. exists []. rewrite app_nil_r. split; reflexivity. }
  destruct q as [|h t].
  { inversion E; subst. exists []. rewrite app_nil_r. split; reflexivity. }
  destruct (find_s h (c_strs st)) as [s|] eqn:F; [|discriminate].
  destruct (find_ob h ob) as [o|] eqn:Fo; [|discriminate].
  destruct (negb (o_streaming o || (0 <? s_buf s))) eqn:Ea.
  { eapply IH; eauto. }
  destruct (try_assign st h o) as [st1 o1|n|n] eqn:Et; try discriminate.
  destruct (IH _ _ _ _ _ _ _ _ _ E) as (suf & -> & Hv).
  exists (mkV h o :: suf). split; [rewrite <- app_assoc; reflexivity|].
  cbn [visit_all v_sid v_obs]. rewrite Ec, Et. exact Hv.
Qed.

Lemma q_assign_conn_refines st q inc ob st' q' outs vs :
  q_assign_conn st q inc ob = QOk st' q' outs vs -> assign_conn st inc vs = Ok st' outs.
Proof.
  unfold q_assign_conn, assign_conn. destruct (negb (in_i32 (c_avail st + inc))); [discriminate|].
  intros E. destruct (q_loop_refines _ _ _ _ _ _ _ _ _ _ E) as (suf & -> & Hv). exact Hv.
Qed.

Lemma q_try_assign_inv st q sid o st' q' outs vs :
  q_try_assign st q sid o = QOk st' q' outs vs ->
  try_assign st sid o = Ok st' outs /\ vs = [] /\ q' = (if push_after st sid o then enq sid q else q).
Proof.
  unfold q_try_assign. destruct (try_assign st sid o); try discriminate.
  intros E; inversion E; subst. auto.
Qed.

Lemma q_add_outs_inv pre r st' q' outs vs :
  q_add_outs pre r = QOk st' q' outs vs -> exists o, r = QOk st' q' o vs /\ outs = pre ++ o.
Proof. destruct r; cbn [q_add_outs]; try discriminate. intros E; inversion E; subst. eauto. Qed.

Lemma q_reclaim_all_refines st q sid ob st' q' outs vs :
  q_reclaim_all st q sid ob = QOk st' q' outs vs -> reclaim_all st sid vs = Ok st' outs.
Proof.
  unfold q_reclaim_all, reclaim_all. destruct (find_s sid (c_strs st)) as [s|]; [|discriminate].
  destruct (0 <? as_size (s_avail s)).
  - apply q_assign_conn_refines.
  - intros E; inversion E; subst. reflexivity.
Qed.

Lemma q_reclaim_reserved_refines st q sid ob st' q' outs vs :
  q_reclaim_reserved st q sid ob = QOk st' q' outs vs -> reclaim_reserved st sid vs = Ok st' outs.
Proof.
  unfold q_reclaim_reserved, reclaim_reserved. destruct (find_s sid (c_strs st)) as [s|]; [|discriminate].
  destruct (s_buf s <? as_size (s_avail s)).
  - apply q_assign_conn_refines.
  - intros E; inversion E; subst. reflexivity.
Qed.

Lemma q_reserve_refines st q sid sc o cap ob st' q' outs vs :
  q_reserve st q sid sc o cap ob = QOk st' q' outs vs -> reserve st sid sc o cap vs = Ok st' outs.
Proof.
  unfold q_reserve, reserve. destruct (find_s sid (c_strs st)) as [s|]; [|discriminate].
  destruct (cap + s_buf s =? s_req s).
  { intros E; inversion E; subst. reflexivity. }
  destruct (cap + s_buf s <? s_req s).
  { destruct (cap + s_buf s <? as_size (s_avail (set_req s (cap + s_buf s)))).
    - apply q_assign_conn_refines.
    - intros E; inversion E; subst. reflexivity. }
  destruct sc.
  { intros E; inversion E; subst. reflexivity. }
  intros E. apply q_try_assign_inv in E. destruct E as (E & -> & _). exact E.
Qed.

Lemma q_recv_stream_wu_refines st q sid o inc st' q' outs vs :
  q_recv_stream_wu st q sid o inc = QOk st' q' outs vs -> recv_stream_wu st sid o inc = Ok st' outs /\ vs = [].
Proof.
  unfold q_recv_stream_wu, recv_stream_wu. destruct (find_s sid (c_strs st)) as [s|]; [|discriminate].
  destruct (o_send_closed o && (s_buf s =? 0)).
  { intros E; inversion E; subst. auto. }
  destruct (negb (in_i32 (s_win s + inc)) || (MAXW <? s_win s + inc)).
  { intros E; inversion E; subst. auto. }
  intros E. apply q_try_assign_inv in E. destruct E as (E & -> & _). auto.
Qed.

Lemma q_settings_inc_refines touched : forall st q outs inc st' q' outs' vs,
  q_settings_inc st q outs inc touched = QOk st' q' outs' vs ->
  settings_inc st outs inc touched = Ok st' outs' /\ vs = [].
Proof.
  induction touched as [|[sid o] t IH]; cbn [q_settings_inc settings_inc]; intros st q outs inc st' q' outs' vs E.
  { inversion E; subst. auto. }
  destruct (q_recv_stream_wu st q sid o inc) as [st1 q1 o1 v1|n|n] eqn:Er; try discriminate.
  apply q_recv_stream_wu_refines in Er. destruct Er as (Er & _). rewrite Er.
  destruct o1 as [|[] o1']; try (eapply IH; exact E).
  inversion E; subst. auto.
Qed.

Lemma q_pass_inv st q l st' q' outs vs :
  q_pass st q l = QOk st' q' outs vs -> step st l = Ok st' outs /\ q' = q /\ vs = [].
Proof. unfold q_pass. destruct (step st l); try discriminate. intros E; inversion E; subst. auto. Qed.

Theorem qstep_refines st q l ob st' q' outs vs :
  qstep st q l ob = QOk st' q' outs vs -> step st (with_vs l vs) = Ok st' outs.
Proof.
  destruct l as [sid init|sid|sid o sz eos vs0|sid o cap vs0|sid o inc|inc vs0|sid o isr qe vs0|sid vs0|sid o vs0
                |new touched vs0|sid sz mx|sid o|sid|sid|sid|sid o]; cbn [qstep with_vs].
  - intros E. apply q_pass_inv in E. destruct E as (E & _ & ->). exact E.
  - destruct (qmem sid q); [discriminate|]. intros E. apply q_pass_inv in E. destruct E as (E & _ & ->). exact E.
  - (* LSendData *)
    cbn [step]. destruct (find_s sid (c_strs st)) as [s|]; [|discriminate].
    destruct (MAXW <? sz). { intros E; inversion E; subst. reflexivity. }
    destruct (negb (o_streaming o)). { intros E; inversion E; subst. reflexivity. }
    destruct (s_dead s); [discriminate|].
    set (s1 := set_bufq s (s_buf s + sz) (s_frames s ++ [sz])).
    destruct (s_req s1 <? s_buf s1).
    + destruct (q_try_assign (put st (set_req s1 (Z.min (s_buf s1) U32MAX))) q sid o) as [st1 q1 o1 v1|n|n] eqn:Et.
      * apply q_try_assign_inv in Et. destruct Et as (Et & -> & _). rewrite Et.
        destruct eos.
        -- intros E. apply q_add_outs_inv in E. destruct E as (o2 & E & ->).
           apply q_reserve_refines in E. cbn [bind]. rewrite E. reflexivity.
        -- intros E; inversion E; subst. reflexivity.
      * destruct eos; discriminate.
      * destruct eos; discriminate.
    + destruct eos.
      * intros E. apply q_add_outs_inv in E. destruct E as (o2 & E & ->).
        apply q_reserve_refines in E. cbn [bind]. rewrite E. reflexivity.
      * intros E; inversion E; subst. reflexivity.
  - cbn [step]. apply q_reserve_refines.
  - cbn [step]. intros E. apply q_recv_stream_wu_refines in E. apply E.
  - cbn [step]. destruct (negb (in_i32 (c_win st + inc)) || (MAXW <? c_win st + inc)).
    + intros E; inversion E; subst. reflexivity.
    + apply q_assign_conn_refines.
  - (* LSendReset *)
    cbn [step]. destruct (find_s sid (c_strs st)) as [s|]; [|discriminate].
    destruct isr. { intros E; inversion E; subst. reflexivity. }
    destruct (o_closed o && qe && (s_buf s =? 0)). { intros E; inversion E; subst. reflexivity. }
    destruct (clear_queue (put st (set_parked s false)) sid) as [st1 o1|n|n]; try discriminate.
    intros E. apply q_add_outs_inv in E. destruct E as (o2 & E & ->).
    apply q_add_outs_inv in E. destruct E as (o3 & E & ->).
    apply q_reclaim_all_refines in E. cbn [bind]. rewrite E. reflexivity.
  - (* LHandleError *)
    cbn [step]. destruct (clear_queue st sid) as [st1 o1|n|n]; try discriminate.
    intros E. apply q_add_outs_inv in E. destruct E as (o3 & E & ->).
    apply q_reclaim_all_refines in E. cbn [bind]. rewrite E. reflexivity.
  - cbn [step]. destruct (o_closed o). { intros E; inversion E; subst. reflexivity. }
    apply q_reclaim_reserved_refines.
  - (* LApplySettings *)
    cbn [step]. destruct (negb (nodup_keys touched)); [discriminate|].
    destruct (new <? c_init st).
    + destruct (settings_dec (set_cinit st new) (c_init st - new) 0 touched) as [[st1 o1|n|n] total]; try discriminate.
      destruct o1 as [|x o1'].
      * apply q_assign_conn_refines.
      * intros E; inversion E; subst. reflexivity.
    + destruct (c_init st <? new).
      * intros E. apply q_settings_inc_refines in E. destruct E as (E & ->). exact E.
      * destruct touched; [|discriminate]. intros E; inversion E; subst. reflexivity.
  - intros E. apply q_pass_inv in E. destruct E as (E & _ & ->). exact E.
  - intros E. apply q_pass_inv in E. destruct E as (E & _ & ->). exact E.
  - intros E. apply q_pass_inv in E. destruct E as (E & _ & ->). exact E.
  - intros E. apply q_pass_inv in E. destruct E as (E & _ & ->). exact E.
  - intros E. apply q_pass_inv in E. destruct E as (E & _ & ->). exact E.
  - cbn [step]. intros E. apply q_try_assign_inv in E. destruct E as (E & -> & _). exact E.
Qed.

(* ------------------------------------------------------------------------------------------- *)
(* 2. one try_assign_capacity call *)

(* every record's assigned capacity is >= 0 (part of SendFlowInv.InvD) *)
Definition AvNN (st : fstate) : Prop := forall k s, find_s k (c_strs st) = Some s -> 0 <= s_avail s.

Lemma InvD_AvNN d st : InvD d st -> AvNN st.
Proof.
  intros (_ & _ & _ & _ & _ & _ & H7 & _) k s F. apply (Forall_find _ _ _ _ H7 F).
Qed.

(* what the stream still asks for and its own window allows *)
Definition additional (s : sstream) : Z := Z.min (s_req s - s_avail s) (as_size (s_win s) - s_avail s).

(* the call gets past the early returns of try_assign_capacity *)
Definition reached (s : sstream) (o : obs) : bool :=
  negb (o_pending_open o) && negb (additional s =? 0) && (o_streaming o || negb (s_buf s =? 0)).

(* the amount this call assigns *)
Definition grant (st : fstate) (s : sstream) (o : obs) : Z :=
  if reached s o && (0 <? c_avail st) then Z.min (c_avail st) (additional s) else 0.

Lemma try_assign_grant st sid o s st' outs :
  AvNN st -> find_s sid (c_strs st) = Some s -> try_assign st sid o = Ok st' outs ->
  0 <= grant st s o /\ grant st s o <= Z.max 0 (c_avail st) /\
  (reached s o = true -> grant st s o <= additional s /\ 0 < additional s) /\
  c_avail st' = c_avail st - grant st s o /\
  (exists s1, find_s sid (c_strs st') = Some s1 /\ s_avail s1 = s_avail s + grant st s o /\
              s_win s1 = s_win s /\ s_req s1 = s_req s /\ s_buf s1 = s_buf s) /\
  (forall k, k <> sid -> find_s k (c_strs st') = find_s k (c_strs st)) /\
  push_after st sid o = reached s o && (grant st s o <? additional s).
Proof.
  intros HA F E. pose proof (HA _ _ F) as Hav. pose proof (find_s_id _ _ _ F) as Hid.
  unfold try_assign in E. unfold push_after. rewrite F in *.
  rewrite (as_size_nonneg _ Hav) in *.
  fold (additional s) in *.
  assert (Hidle : reached s o = false -> st' = st ->
    0 <= grant st s o /\ grant st s o <= Z.max 0 (c_avail st) /\
    (reached s o = true -> grant st s o <= additional s /\ 0 < additional s) /\
    c_avail st' = c_avail st - grant st s o /\
    (exists s1, find_s sid (c_strs st') = Some s1 /\ s_avail s1 = s_avail s + grant st s o /\
                s_win s1 = s_win s /\ s_req s1 = s_req s /\ s_buf s1 = s_buf s) /\
    (forall k, k <> sid -> find_s k (c_strs st') = find_s k (c_strs st)) /\
    false = reached s o && (grant st s o <? additional s)).
  { intros R ->. unfold grant. rewrite R. cbn [andb].
    split; [lia|]. split; [lia|]. split; [discriminate|]. split; [lia|].
    split; [exists s; repeat split; auto; lia|]. split; [auto|reflexivity]. }
  destruct (o_pending_open o) eqn:Ep.
  { inversion E; subst. apply Hidle; [|reflexivity]. unfold reached. rewrite Ep. reflexivity. }
  destruct (s_req s <? s_avail s) eqn:E1; [discriminate|].
  destruct (as_size (s_win s) <? s_avail s) eqn:E2; [discriminate|].
  assert (Hadd : 0 <= additional s) by (unfold additional; lia).
  destruct (additional s =? 0) eqn:E3.
  { inversion E; subst. apply Hidle; [|reflexivity]. unfold reached. rewrite Ep, E3. reflexivity. }
  destruct (negb (o_streaming o) && (s_buf s =? 0)) eqn:E4.
  { inversion E; subst. apply Hidle; [|reflexivity]. unfold reached. rewrite Ep, E3.
    destruct (o_streaming o), (s_buf s =? 0); cbn in *; congruence. }
  clear Hidle.
  assert (R : reached s o = true).
  { unfold reached. rewrite Ep, E3. destruct (o_streaming o), (s_buf s =? 0); cbn in *; congruence. }
  unfold grant. rewrite R. cbn [andb].
  destruct (0 <? as_size (c_avail st)) eqn:E5.
  - assert (Hc : 0 < c_avail st /\ as_size (c_avail st) = c_avail st) by (unfold as_size in *; lia).
    destruct Hc as (Hc & Hcs). rewrite Hcs in *.
    replace (0 <? c_avail st) with true by lia.
    set (assign := Z.min (c_avail st) (additional s)) in *.
    destruct (negb (in_i32 (s_avail s + assign))); [discriminate|].
    destruct (notify_if_up (c_maxbuf st) (capacity (c_maxbuf st) s) (set_avail s (s_avail s + assign))) as [s1 o1] eqn:En.
    destruct (negb (in_i32 (c_avail st - assign))); [discriminate|].
    inversion E; subst st' outs. clear E.
    destruct (notify_same _ _ _ _ _ En) as (S1 & S2 & S3 & S4 & S5 & S6). simp_s.
    assert (Hs1 : s_id s1 = sid) by congruence.
    split; [unfold assign; lia|]. split; [unfold assign; lia|]. split; [intros _; unfold assign; lia|].
    split; [reflexivity|]. split.
    { exists s1. split; [|repeat split; assumption].
      rewrite <- Hs1. apply find_upd_same with (s := s). rewrite Hs1. exact F. }
    split.
    { intros k Hk. apply find_upd_other. congruence. }
    unfold wants_more, has_unavailable. simp_s.
    unfold additional in *. unfold as_size in *. lia.
  - assert (Hc : c_avail st <= 0) by (unfold as_size in *; lia).
    replace (0 <? c_avail st) with false by lia.
    inversion E; subst st' outs. clear E.
    split; [lia|]. split; [lia|]. split; [intros _; lia|]. split; [lia|]. split.
    { exists s. repeat split; auto; lia. }
    split; [auto|].
    unfold wants_more, has_unavailable. simp_s.
    unfold additional in *. unfold as_size in *. lia.
Qed.

Lemma try_assign_AvNN st sid o st' outs :
  AvNN st -> try_assign st sid o = Ok st' outs -> AvNN st'.
Proof.
  intros HA E. destruct (find_s sid (c_strs st)) as [s|] eqn:F.
  - destruct (try_assign_grant _ _ _ _ _ _ HA F E) as (G0 & _ & _ & _ & (s1 & F1 & A1 & _) & Hk & _).
    intros k s' F'. destruct (N.eq_dec k sid) as [->|Hne].
    + rewrite F1 in F'. inversion F'; subst. pose proof (HA _ _ F). lia.
    + rewrite (Hk _ Hne) in F'. eapply HA; eauto.
  - unfold try_assign in E. rewrite F in E. discriminate.
Qed.

(* ------------------------------------------------------------------------------------------- *)
(* 3. the loop of assign_connection_capacity *)

Lemma qmem_In k q : qmem k q = true <-> In k q.
Proof.
  induction q as [|x q IH]; cbn [qmem In]; [split; [discriminate|tauto]|].
  rewrite orb_true_iff, N.eqb_eq, IH. tauto.
Qed.

Lemma enq_notin k q : ~ In k q -> enq k q = q ++ [k].
Proof.
  intros H. unfold enq. destruct (qmem k q) eqn:E; [|reflexivity]. apply qmem_In in E. tauto.
Qed.

Lemma enq_In x k q : In x (enq k q) <-> x = k \/ In x q.
Proof.
  unfold enq. destruct (qmem k q) eqn:E.
  - apply qmem_In in E. split; [tauto|]. intros [->|H]; assumption.
  - rewrite in_app_iff. cbn [In]. split; [intros [H|[H|[]]]; auto|intros [->|H]; auto].
Qed.

Lemma NoDup_snoc (k : N) q : NoDup q -> ~ In k q -> NoDup (q ++ [k]).
Proof.
  induction q as [|x q IH]; cbn [app]; intros Hn Hk.
  - constructor; [tauto|constructor].
  - inversion Hn as [|? ? Hx Hq]; subst. constructor.
    + rewrite in_app_iff. cbn [In]. intros [H|[H|[]]]; [tauto|]. subst. apply Hk. left. reflexivity.
    + apply IH; [assumption|]. intros H. apply Hk. right. exact H.
Qed.

Lemma enq_NoDup k q : NoDup q -> NoDup (enq k q).
Proof.
  intros Hn. unfold enq. destruct (qmem k q) eqn:E; [assumption|].
  apply NoDup_snoc; [assumption|]. intros H. apply qmem_In in H. congruence.
Qed.

(* the evict test of assign_connection_capacity, negated *)
Definition active (s : sstream) (o : obs) : bool := o_streaming o || (0 <? s_buf s).

Inductive loop_rel (ob : list (N * obs)) : fstate -> list N -> fstate -> list N -> Prop :=
| LR_stop st q : c_avail st <= 0 \/ q = [] -> loop_rel ob st q st q
| LR_evict st h t s o st' q' :
    0 < c_avail st -> find_s h (c_strs st) = Some s -> find_ob h ob = Some o -> active s o = false ->
    loop_rel ob st t st' q' -> loop_rel ob st (h :: t) st' q'
| LR_visit st h t s o st1 o1 st' q' :
    0 < c_avail st -> find_s h (c_strs st) = Some s -> find_ob h ob = Some o -> active s o = true ->
    try_assign st h o = Ok st1 o1 ->
    loop_rel ob st1 (if push_after st h o then enq h t else t) st' q' -> loop_rel ob st (h :: t) st' q'.

Lemma q_loop_rel f : forall st q ob outs vs st' q' outs' vs',
  q_loop f st q ob outs vs = QOk st' q' outs' vs' -> loop_rel ob st q st' q'.
Proof.
  induction f as [|f IH]; cbn [q_loop]; intros st q ob outs vs st' q' outs' vs' E; [discriminate|].
  destruct (c_avail st <=? 0) eqn:Ec.
  { inversion E; subst. apply LR_stop. left. lia. }
  destruct q as [|h t].
  { inversion E; subst. apply LR_stop. right. reflexivity. }
  destruct (find_s h (c_strs st)) as [s|] eqn:F; [|discriminate].
  destruct (find_ob h ob) as [o|] eqn:Fo; [|discriminate].
  destruct (negb (o_streaming o || (0 <? s_buf s))) eqn:Ea.
  { eapply LR_evict; eauto; [lia|]. unfold active. apply negb_true_iff. exact Ea. }
  destruct (try_assign st h o) as [st1 o1|n|n] eqn:Et; try discriminate.
  eapply LR_visit; eauto; [lia|]. unfold active. apply negb_false_iff. exact Ea.
Qed.

Lemma q_assign_conn_rel st q inc ob st' q' outs vs :
  q_assign_conn st q inc ob = QOk st' q' outs vs ->
  loop_rel ob (set_cavail st (c_avail st + inc)) q st' q'.
Proof.
  unfold q_assign_conn. destruct (negb (in_i32 (c_avail st + inc))); [discriminate|]. apply q_loop_rel.
Qed.

Lemma loop_stop ob st q st' q' : loop_rel ob st q st' q' -> c_avail st <= 0 -> st' = st /\ q' = q.
Proof. intros H Hc. inversion H; subst; auto; lia. Qed.

(* at the end of the loop: no unassigned connection capacity, or nobody is queued *)
Lemma loop_exit ob st q st' q' : loop_rel ob st q st' q' -> c_avail st' <= 0 \/ q' = [].
Proof. induction 1; auto. Qed.

Lemma loop_AvNN ob st q st' q' : loop_rel ob st q st' q' -> AvNN st -> AvNN st'.
Proof. induction 1; auto. intros HA. apply IHloop_rel. eapply try_assign_AvNN; eauto. Qed.

Lemma loop_subset ob st q st' q' : loop_rel ob st q st' q' -> forall x, In x q' -> In x q.
Proof.
  induction 1 as [st q _|st h t s o st' q' _ _ _ _ _ IH|st h t s o st1 o1 st' q' _ _ _ _ _ _ IH]; intros x Hx; auto.
  - right. auto.
  - specialize (IH x Hx). destruct (push_after st h o).
    + apply enq_In in IH. destruct IH as [->|IH]; [left; reflexivity|right; exact IH].
    + right. exact IH.
Qed.

Lemma loop_NoDup ob st q st' q' : loop_rel ob st q st' q' -> NoDup q -> NoDup q'.
Proof.
  induction 1 as [st q _|st h t s o st' q' _ _ _ _ _ IH|st h t s o st1 o1 st' q' _ _ _ _ _ _ IH]; intros Hn; auto.
  - inversion Hn; subst. auto.
  - inversion Hn; subst. apply IH. destruct (push_after st h o); [apply enq_NoDup|]; assumption.
Qed.

(* a push ends the loop: the connection's unassigned capacity is used up *)
Lemma push_exhausts st h o s st1 o1 :
  AvNN st -> find_s h (c_strs st) = Some s -> try_assign st h o = Ok st1 o1 ->
  push_after st h o = true -> c_avail st1 <= 0.
Proof.
  intros HA F Et Hp.
  destruct (try_assign_grant _ _ _ _ _ _ HA F Et) as (G0 & G1 & G2 & Gc & _ & _ & Gp).
  rewrite Gp in Hp. apply andb_true_iff in Hp. destruct Hp as (R & Hlt).
  specialize (G2 R). unfold grant in *. rewrite R in *. cbn [andb] in *.
  destruct (0 <? c_avail st) eqn:Ec; lia.
Qed.

(* streams that are not in the queue are not touched *)
Lemma loop_frame ob st q st' q' : loop_rel ob st q st' q' -> AvNN st ->
  forall k, ~ In k q -> find_s k (c_strs st') = find_s k (c_strs st).
Proof.
  induction 1 as [st q _|st h t s o st' q' _ _ _ _ _ IH|st h t s o st1 o1 st' q' _ F _ _ Et _ IH]; intros HA k Hk; auto.
  - apply IH; [assumption|]. intros H. apply Hk. right. exact H.
  - destruct (try_assign_grant _ _ _ _ _ _ HA F Et) as (_ & _ & _ & _ & _ & Hfr & _).
    assert (Hne : k <> h) by (intros ->; apply Hk; left; reflexivity).
    rewrite <- (Hfr k Hne). apply IH; [eapply try_assign_AvNN; eauto|].
    intros H. apply Hk. right. destruct (push_after st h o); [|exact H].
    apply enq_In in H. destruct H as [H|H]; [congruence|exact H].
Qed.

(* HEAD FIRST: the head of the queue, if it still wants capacity, receives its grant
   min(unassigned connection capacity, requested - assigned, stream window - assigned) before anyone else,
   and nothing that happens later in the loop changes it *)
Lemma loop_head_first ob st h t st' q' s o :
  loop_rel ob st (h :: t) st' q' -> AvNN st -> NoDup (h :: t) -> 0 < c_avail st ->
  find_s h (c_strs st) = Some s -> find_ob h ob = Some o -> active s o = true ->
  exists s', find_s h (c_strs st') = Some s' /\ s_avail s' = s_avail s + grant st s o /\
             s_req s' = s_req s /\ s_win s' = s_win s.
Proof.
  intros H HA Hn Hc F Fo Ha. inversion Hn as [|? ? Hh Ht]; subst.
  inversion H as [? ? Hs|? ? ? s0 o0 ? ? _ F0 Fo0 Ha0 _|? ? ? s0 o0 st1 o1 ? ? _ F0 Fo0 _ Et Hl]; subst.
  - destruct Hs as [Hs|Hs]; [lia|discriminate].
  - rewrite F in F0. rewrite Fo in Fo0. inversion F0; inversion Fo0; subst. congruence.
  - rewrite F in F0. rewrite Fo in Fo0. inversion F0; inversion Fo0; subst s0 o0.
    destruct (try_assign_grant _ _ _ _ _ _ HA F Et) as (_ & _ & _ & _ & (s1 & F1 & A1 & W1 & R1 & _) & _ & _).
    pose proof (try_assign_AvNN _ _ _ _ _ HA Et) as HA1.
    destruct (push_after st h o) eqn:Hp.
    + pose proof (push_exhausts _ _ _ _ _ _ HA F Et Hp) as Hc1.
      destruct (loop_stop _ _ _ _ _ Hl Hc1) as (-> & _). exists s1. auto.
    + rewrite (loop_frame _ _ _ _ _ Hl HA1 h Hh). exists s1. auto.
Qed.

(* NO OVERTAKING inside one call: if the stream at some position of the queue was given anything (its record
   changed), every stream in front of it has left the queue - it was evicted, or served until it wants no more
   or its own stream window is exhausted (a partly served stream is re-queued, and that ends the loop) *)
Lemma loop_no_overtaking ob st q st' q' : loop_rel ob st q st' q' -> AvNN st -> NoDup q ->
  forall pre k post, q = pre ++ k :: post -> find_s k (c_strs st') <> find_s k (c_strs st) ->
  forall i, In i pre -> ~ In i q'.
Proof.
  induction 1 as [st q _|st h t s o st' q' _ _ _ _ Hl IH|st h t s o st1 o1 st' q' _ F _ _ Et Hl IH];
    intros HA Hn pre k post Hq Hk i Hi.
  - congruence.
  - destruct pre as [|p pre']; [destruct Hi|]. cbn [app] in Hq. inversion Hq; subst p t.
    inversion Hn as [|? ? Hh Ht]; subst.
    destruct Hi as [->|Hi].
    + intros Hin. apply Hh. eapply loop_subset; eauto.
    + eapply IH; eauto.
  - destruct pre as [|p pre']; [destruct Hi|]. cbn [app] in Hq. inversion Hq; subst p t.
    inversion Hn as [|? ? Hh Ht]; subst.
    destruct (try_assign_grant _ _ _ _ _ _ HA F Et) as (_ & _ & _ & _ & _ & Hfr & _).
    pose proof (try_assign_AvNN _ _ _ _ _ HA Et) as HA1.
    assert (Hkh : k <> h). { intros ->. apply Hh. rewrite in_app_iff. right. left. reflexivity. }
    destruct (push_after st h o) eqn:Hp.
    + pose proof (push_exhausts _ _ _ _ _ _ HA F Et Hp) as Hc1.
      destruct (loop_stop _ _ _ _ _ Hl Hc1) as (-> & _). exfalso. apply Hk. apply Hfr. exact Hkh.
    + rewrite <- (Hfr k Hkh) in Hk.
      destruct Hi as [->|Hi].
      * intros Hin. apply Hh. eapply loop_subset; eauto.
      * eapply IH; eauto.
Qed.

Lemma In_firstn_l (x : N) n l : In x (firstn n l) -> In x l.
Proof. intros H. rewrite <- (firstn_skipn n l). apply in_or_app. left. exact H. Qed.

Lemma In_skipn_l (x : N) n l : In x (skipn n l) -> In x l.
Proof. intros H. rewrite <- (firstn_skipn n l). apply in_or_app. right. exact H. Qed.

(* FIFO SHAPE of one call: the loop pops a prefix of the queue (n streams; at least one when capacity is
   available and somebody is queued); the streams behind it keep their place and are untouched; at most one
   stream - one of those popped, partly served with the last of the connection's capacity - is re-queued at the back *)
Lemma loop_shape ob st q st' q' : loop_rel ob st q st' q' -> AvNN st -> NoDup q ->
  exists n, (0 < c_avail st -> q <> [] -> (1 <= n)%nat) /\ (n <= length q)%nat /\
    (forall k, In k (skipn n q) -> find_s k (c_strs st') = find_s k (c_strs st)) /\
    (q' = skipn n q \/
     exists x s s', In x (firstn n q) /\ q' = skipn n q ++ [x] /\ c_avail st' <= 0 /\
       find_s x (c_strs st) = Some s /\ find_s x (c_strs st') = Some s' /\ s_avail s < s_avail s').
Proof.
  induction 1 as [st q Hs|st h t s o st' q' Hc _ _ _ Hl IH|st h t s o st1 o1 st' q' Hc F _ _ Et Hl IH];
    intros HA Hn.
  - exists 0%nat. cbn [skipn]. split; [intros Hc Hq; destruct Hs; [lia|contradiction]|].
    split; [lia|]. split; [auto|left; reflexivity].
  - inversion Hn as [|? ? Hh Ht]; subst.
    destruct (IH HA Ht) as (n & _ & Hlen & Hun & Hq).
    exists (S n). cbn [skipn firstn length]. split; [intros; lia|]. split; [lia|]. split; [exact Hun|].
    destruct Hq as [Hq|(x & sx & sx' & Hx & Hq & Hr)]; [left; exact Hq|right].
    exists x, sx, sx'. split; [right; exact Hx|]. split; [exact Hq|exact Hr].
  - inversion Hn as [|? ? Hh Ht]; subst.
    destruct (try_assign_grant _ _ _ _ _ _ HA F Et) as (G0 & G1 & G2 & Gc & (s1 & F1 & A1 & _) & Hfr & Gp).
    pose proof (try_assign_AvNN _ _ _ _ _ HA Et) as HA1.
    destruct (push_after st h o) eqn:Hp.
    + pose proof (push_exhausts _ _ _ _ _ _ HA F Et Hp) as Hc1.
      destruct (loop_stop _ _ _ _ _ Hl Hc1) as (-> & ->).
      exists 1%nat. cbn [skipn firstn length]. split; [intros; lia|]. split; [lia|]. split.
      { intros k Hk. apply Hfr. intros ->. contradiction. }
      right. exists h, s, s1. split; [left; reflexivity|]. split; [apply enq_notin; exact Hh|].
      split; [exact Hc1|]. split; [exact F|]. split; [exact F1|].
      symmetry in Gp. apply andb_true_iff in Gp. destruct Gp as (R & Hlt). specialize (G2 R).
      unfold grant in *. rewrite R in *. cbn [andb] in *. replace (0 <? c_avail st) with true in * by lia. lia.
    + destruct (IH HA1 Ht) as (n & _ & Hlen & Hun & Hq).
      exists (S n). cbn [skipn firstn length]. split; [intros; lia|]. split; [lia|]. split.
      { intros k Hk. rewrite (Hun k Hk). apply Hfr. intros ->. apply Hh. eapply In_skipn_l; eauto. }
      destruct Hq as [Hq|(x & sx & sx' & Hx & Hq & Hc' & Fx & Hr)]; [left; exact Hq|right].
      exists x, sx, sx'. split; [right; exact Hx|]. split; [exact Hq|]. split; [exact Hc'|]. split; [|exact Hr].
      rewrite <- Fx. symmetry. apply Hfr. intros ->. apply Hh. eapply In_firstn_l; eauto.
Qed.

(* ------------------------------------------------------------------------------------------- *)
(* 4. the queue over all labels *)

(* FIFO discipline: streams leave the queue only from the front and enter only at the back *)
Definition fifo_step (q q' : list N) : Prop := exists n pushed, q' = skipn n q ++ pushed.

Lemma fifo_refl q : fifo_step q q.
Proof. exists 0%nat, []. cbn [skipn]. now rewrite app_nil_r. Qed.

Lemma skipn_skipn_N m n (l : list N) : skipn m (skipn n l) = skipn (m + n) l.
Proof.
  revert l. induction n as [|n IH]; intros l.
  - rewrite Nat.add_0_r. reflexivity.
  - rewrite Nat.add_succ_r. destruct l as [|x l]; cbn [skipn]; [destruct m; reflexivity|apply IH].
Qed.

Lemma fifo_trans a b c : fifo_step a b -> fifo_step b c -> fifo_step a c.
Proof.
  intros (n & p & ->) (m & p' & ->). exists (m + n)%nat, (skipn (m - length (skipn n a)) p ++ p').
  rewrite skipn_app, skipn_skipn_N, app_assoc. reflexivity.
Qed.

Lemma fifo_enq k q : fifo_step q (enq k q).
Proof. unfold enq. destruct (qmem k q); [apply fifo_refl|]. exists 0%nat, [k]. reflexivity. Qed.

Lemma fifo_pop h t : fifo_step (h :: t) t.
Proof. exists 1%nat, []. cbn [skipn]. now rewrite app_nil_r. Qed.

Lemma loop_fifo ob st q st' q' : loop_rel ob st q st' q' -> fifo_step q q'.
Proof.
  induction 1 as [st q _|st h t s o st' q' _ _ _ _ _ IH|st h t s o st1 o1 st' q' _ _ _ _ _ _ IH].
  - apply fifo_refl.
  - eapply fifo_trans; [apply fifo_pop|exact IH].
  - eapply fifo_trans; [apply fifo_pop|]. eapply fifo_trans; [|exact IH].
    destruct (push_after st h o); [apply fifo_enq|apply fifo_refl].
Qed.

Definition qpost (q : list N) (r : qoutcome) : Prop :=
  match r with
  | QOk st' q' _ _ => NoDup q' /\ (0 < c_avail st' -> q' = []) /\ fifo_step q q'
  | _ => True
  end.

Lemma qpost_add_outs q pre r : qpost q r -> qpost q (q_add_outs pre r).
Proof. destruct r; cbn [q_add_outs qpost]; auto. Qed.

Lemma qpost_same q st outs vs : NoDup q -> (0 < c_avail st -> q = []) -> qpost q (QOk st q outs vs).
Proof. intros. cbn [qpost]. split; [assumption|]. split; [assumption|apply fifo_refl]. Qed.

Lemma q_assign_conn_post st q inc ob : NoDup q -> qpost q (q_assign_conn st q inc ob).
Proof.
  intros Hn. destruct (q_assign_conn st q inc ob) as [st' q' outs vs|n|n] eqn:E; cbn [qpost]; auto.
  apply q_assign_conn_rel in E. split; [eapply loop_NoDup; eauto|]. split; [|eapply loop_fifo; eauto].
  intros Hc. destruct (loop_exit _ _ _ _ _ E); [lia|assumption].
Qed.

Lemma q_try_assign_post st q sid o :
  NoDup q -> (0 < c_avail st -> q = []) -> AvNN st ->
  qpost q (q_try_assign st q sid o) /\
  (forall st' q' outs vs, q_try_assign st q sid o = QOk st' q' outs vs -> AvNN st').
Proof.
  intros Hn Hq HA. split.
  - destruct (q_try_assign st q sid o) as [st' q' outs vs|n|n] eqn:E; cbn [qpost]; auto.
    apply q_try_assign_inv in E. destruct E as (Et & _ & ->).
    destruct (find_s sid (c_strs st)) as [s|] eqn:F;
      [|unfold try_assign in Et; rewrite F in Et; discriminate].
    destruct (try_assign_grant _ _ _ _ _ _ HA F Et) as (G0 & _ & _ & Gc & _ & _ & _).
    split; [destruct (push_after st sid o); [apply enq_NoDup|]; assumption|]. split.
    + intros Hc. destruct (push_after st sid o) eqn:Hp.
      * pose proof (push_exhausts _ _ _ _ _ _ HA F Et Hp). lia.
      * apply Hq. lia.
    + destruct (push_after st sid o); [apply fifo_enq|apply fifo_refl].
  - intros st' q' outs vs E. apply q_try_assign_inv in E. destruct E as (Et & _). eapply try_assign_AvNN; eauto.
Qed.

Lemma AvNN_put st s s' :
  AvNN st -> find_s (s_id s') (c_strs st) = Some s -> s_avail s' = s_avail s -> AvNN (put st s').
Proof.
  intros HA F Hav k x Fx. simp_s. destruct (N.eq_dec k (s_id s')) as [->|Hne].
  - rewrite (find_upd_same _ _ _ F) in Fx. inversion Fx; subst. rewrite Hav. eapply HA; eauto.
  - rewrite (find_upd_other _ _ _ Hne) in Fx. eapply HA; eauto.
Qed.

Lemma q_reclaim_all_post st q sid ob :
  NoDup q -> (0 < c_avail st -> q = []) -> qpost q (q_reclaim_all st q sid ob).
Proof.
  intros Hn Hq. unfold q_reclaim_all. destruct (find_s sid (c_strs st)) as [s|]; [|exact I].
  destruct (0 <? as_size (s_avail s)); [apply q_assign_conn_post; assumption|apply qpost_same; assumption].
Qed.

Lemma q_reclaim_reserved_post st q sid ob :
  NoDup q -> (0 < c_avail st -> q = []) -> qpost q (q_reclaim_reserved st q sid ob).
Proof.
  intros Hn Hq. unfold q_reclaim_reserved. destruct (find_s sid (c_strs st)) as [s|]; [|exact I].
  destruct (s_buf s <? as_size (s_avail s)); [apply q_assign_conn_post; assumption|apply qpost_same; assumption].
Qed.

Lemma q_reserve_post st q sid sc o cap ob :
  NoDup q -> (0 < c_avail st -> q = []) -> AvNN st -> qpost q (q_reserve st q sid sc o cap ob).
Proof.
  intros Hn Hq HA. unfold q_reserve. destruct (find_s sid (c_strs st)) as [s|] eqn:F; [|exact I].
  pose proof (find_s_id _ _ _ F) as Hid.
  destruct (cap + s_buf s =? s_req s); [apply qpost_same; assumption|].
  destruct (cap + s_buf s <? s_req s).
  { destruct (cap + s_buf s <? as_size (s_avail (set_req s (cap + s_buf s)))).
    - apply q_assign_conn_post; assumption.
    - apply qpost_same; [assumption|]. simp_s. exact Hq. }
  destruct sc; [apply qpost_same; assumption|].
  apply q_try_assign_post; [assumption|simp_s; exact Hq|].
  apply (AvNN_put st s _ HA); simp_s; [rewrite Hid; exact F|reflexivity].
Qed.

Lemma q_recv_stream_wu_post st q sid o inc :
  NoDup q -> (0 < c_avail st -> q = []) -> AvNN st ->
  qpost q (q_recv_stream_wu st q sid o inc) /\
  (forall st' q' outs vs, q_recv_stream_wu st q sid o inc = QOk st' q' outs vs -> AvNN st').
Proof.
  intros Hn Hq HA. unfold q_recv_stream_wu. destruct (find_s sid (c_strs st)) as [s|] eqn:F; [|split; [exact I|discriminate]].
  pose proof (find_s_id _ _ _ F) as Hid.
  destruct (o_send_closed o && (s_buf s =? 0)).
  { split; [apply qpost_same; [assumption|simp_s; exact Hq]|].
    intros st' q' outs vs E. injection E as <- _ _ _.
    apply (AvNN_put st s _ HA); simp_s; [rewrite Hid; exact F|reflexivity]. }
  destruct (negb (in_i32 (s_win s + inc)) || (MAXW <? s_win s + inc)).
  { split; [apply qpost_same; assumption|]. intros st' q' outs vs E; inversion E; subst. exact HA. }
  apply q_try_assign_post; [assumption|simp_s; exact Hq|].
  apply (AvNN_put st s _ HA); simp_s; [rewrite Hid; exact F|reflexivity].
Qed.

Lemma qpost_trans q q1 r : fifo_step q q1 -> qpost q1 r -> qpost q r.
Proof.
  destruct r; cbn [qpost]; auto. intros Hf (A & B & C). split; [assumption|]. split; [assumption|].
  eapply fifo_trans; eauto.
Qed.

Lemma q_settings_inc_post touched : forall st q outs inc,
  NoDup q -> (0 < c_avail st -> q = []) -> AvNN st -> qpost q (q_settings_inc st q outs inc touched).
Proof.
  induction touched as [|[sid o] t IH]; cbn [q_settings_inc]; intros st q outs inc Hn Hq HA.
  { apply qpost_same; assumption. }
  destruct (q_recv_stream_wu_post st q sid o inc Hn Hq HA) as (P & PA).
  destruct (q_recv_stream_wu st q sid o inc) as [st1 q1 o1 v1|n|n] eqn:Er; try exact I.
  cbn [qpost] in P. destruct P as (Hn1 & Hq1 & Hf1). specialize (PA _ _ _ _ eq_refl).
  assert (X : qpost q (q_settings_inc st1 q1 (outs ++ o1) inc t)).
  { eapply qpost_trans; [exact Hf1|]. apply IH; assumption. }
  destruct o1 as [|[] o1']; try exact X.
  cbn [qpost]. auto.
Qed.

Lemma clear_queue_cavail st sid st1 o1 : clear_queue st sid = Ok st1 o1 -> c_avail st1 = c_avail st.
Proof.
  unfold clear_queue. destruct (find_s sid (c_strs st)); [|discriminate]. intros E; inversion E; subst. reflexivity.
Qed.

Lemma settings_dec_cavail touched : forall st dec total st1 o1 total1,
  settings_dec st dec total touched = (Ok st1 o1, total1) -> c_avail st1 = c_avail st.
Proof.
  induction touched as [|[sid o] t IH]; cbn [settings_dec]; intros st dec total st1 o1 total1 E.
  { inversion E; subst. reflexivity. }
  destruct (find_s sid (c_strs st)) as [s|]; [|discriminate].
  destruct (negb (in_i32 (s_win s - dec))). { inversion E; subst. reflexivity. }
  destruct (as_size (s_win (set_win s (s_win s - dec))) <? as_size (s_avail (set_win s (s_win s - dec))));
    apply IH in E; rewrite E; reflexivity.
Qed.

Definition is_pass (l : label) : bool :=
  match l with
  | LNew _ _ | LRemove _ | LPopData _ _ _ | LPollCapacity _ _ | LCapacity _ | LNotify _ | LWait _ => true
  | _ => false
  end.

Lemma pass_cavail st l st' outs : is_pass l = true -> step st l = Ok st' outs -> c_avail st' = c_avail st.
Proof.
  destruct l; cbn [is_pass]; try discriminate; intros _; cbn [step];
  repeat match goal with
         | |- context [match find_s ?a ?b with _ => _ end] => destruct (find_s a b)
         | |- context [match s_frames ?s with _ => _ end] => destruct (s_frames s)
         | |- context [let '(_, _) := ?x in _] => destruct x
         | |- context [if ?c then _ else _] => destruct c
         end;
  intros E; try discriminate; inversion E; subst; reflexivity.
Qed.

Lemma q_pass_post st q l : is_pass l = true ->
  NoDup q -> (0 < c_avail st -> q = []) -> qpost q (q_pass st q l).
Proof.
  intros Hp Hn Hq. unfold q_pass. destruct (step st l) as [st' outs|n|n] eqn:E; cbn [qpost]; auto.
  rewrite (pass_cavail _ _ _ _ Hp E). split; [assumption|]. split; [assumption|apply fifo_refl].
Qed.

(* QUEUE INVARIANT, every label: no duplicates; nobody is queued while the connection has unassigned capacity;
   FIFO discipline *)
Theorem qstep_post st q l ob :
  AvNN st -> NoDup q -> (0 < c_avail st -> q = []) -> qpost q (qstep st q l ob).
Proof.
  intros HA Hn Hq.
  destruct l as [sid init|sid|sid o sz eos vs0|sid o cap vs0|sid o inc|inc vs0|sid o isr qe vs0|sid vs0|sid o vs0
                |new touched vs0|sid sz mx|sid o|sid|sid|sid|sid o]; cbn [qstep];
    try (apply q_pass_post; [reflexivity|assumption|assumption]).
  - destruct (qmem sid q); [exact I|]. apply q_pass_post; [reflexivity|assumption|assumption].
  - (* LSendData *)
    destruct (find_s sid (c_strs st)) as [s|] eqn:F; [|exact I].
    pose proof (find_s_id _ _ _ F) as Hid.
    destruct (MAXW <? sz); [apply qpost_same; assumption|].
    destruct (negb (o_streaming o)); [apply qpost_same; assumption|].
    destruct (s_dead s); [exact I|].
    set (s1 := set_bufq s (s_buf s + sz) (s_frames s ++ [sz])).
    assert (HA1 : forall r, AvNN (put st (set_req s1 r))).
    { intros r. apply (AvNN_put st s _ HA); unfold s1; simp_s; [rewrite Hid; exact F|reflexivity]. }
    assert (HA2 : AvNN (put st s1)).
    { apply (AvNN_put st s _ HA); unfold s1; simp_s; [rewrite Hid; exact F|reflexivity]. }
    destruct (s_req s1 <? s_buf s1).
    + destruct (q_try_assign_post (put st (set_req s1 (Z.min (s_buf s1) U32MAX))) q sid o Hn Hq (HA1 _)) as (P & PA).
      destruct (q_try_assign (put st (set_req s1 (Z.min (s_buf s1) U32MAX))) q sid o) as [st1 q1 o1 v1|n|n];
        [|destruct eos; exact I|destruct eos; exact I].
      destruct eos; [|exact P].
      cbn [qpost] in P. destruct P as (Hn1 & Hq1 & Hf1). specialize (PA _ _ _ _ eq_refl).
      apply qpost_add_outs. eapply qpost_trans; [exact Hf1|]. apply q_reserve_post; assumption.
    + destruct eos; [|apply qpost_same; assumption].
      apply qpost_add_outs. apply q_reserve_post; assumption.
  - apply q_reserve_post; assumption.
  - apply q_recv_stream_wu_post; assumption.
  - destruct (negb (in_i32 (c_win st + inc)) || (MAXW <? c_win st + inc)); [apply qpost_same; assumption|].
    apply q_assign_conn_post; assumption.
  - (* LSendReset *)
    destruct (find_s sid (c_strs st)) as [s|] eqn:F; [|exact I].
    destruct isr; [apply qpost_same; assumption|].
    destruct (o_closed o && qe && (s_buf s =? 0)); [apply qpost_same; assumption|].
    destruct (clear_queue (put st (set_parked s false)) sid) as [st1 o1|n|n] eqn:Ec; try exact I.
    apply clear_queue_cavail in Ec.
    apply qpost_add_outs, qpost_add_outs, q_reclaim_all_post; [assumption|]. rewrite Ec. exact Hq.
  - (* LHandleError *)
    destruct (clear_queue st sid) as [st1 o1|n|n] eqn:Ec; try exact I.
    apply clear_queue_cavail in Ec.
    apply qpost_add_outs, q_reclaim_all_post; [assumption|]. rewrite Ec. exact Hq.
  - destruct (o_closed o); [apply qpost_same; assumption|]. apply q_reclaim_reserved_post; assumption.
  - (* LApplySettings *)
    destruct (negb (nodup_keys touched)); [exact I|].
    destruct (new <? c_init st).
    + destruct (settings_dec (set_cinit st new) (c_init st - new) 0 touched) as [[st1 o1|n|n] total] eqn:Ed; try exact I.
      destruct o1 as [|x o1']; [apply q_assign_conn_post; assumption|].
      apply settings_dec_cavail in Ed. apply qpost_same; [assumption|]. rewrite Ed. exact Hq.
    + destruct (c_init st <? new).
      * apply q_settings_inc_post; assumption.
      * destruct touched; [|exact I]. apply qpost_same; assumption.
  - apply q_try_assign_post; assumption.
Qed.

(* ------------------------------------------------------------------------------------------- *)
(* 5. runs *)

Theorem qrun_refines ls : forall st q st' q' pls os,
  qrun st q ls = Some (st', q', pls, os) -> run st pls = inl (Some (st', os)).
Proof.
  induction ls as [|[l ob|] ls IH]; cbn [qrun]; intros st q st' q' pls os E.
  - inversion E; subst. reflexivity.
  - destruct (qstep st q l ob) as [st1 q1 o vs|n|n] eqn:Es; try discriminate.
    destruct (qrun st1 q1 ls) as [[[[st2 q2] pls2] os2]|] eqn:Er; [|discriminate].
    inversion E; subst. cbn [run]. rewrite (qstep_refines _ _ _ _ _ _ _ _ Es). rewrite (IH _ _ _ _ _ _ Er). reflexivity.
  - eapply IH; eauto.
Qed.

Definition QInv (st : fstate) (q : list N) : Prop := NoDup q /\ (0 < c_avail st -> q = []).

Lemma with_vs_label_ok l vs : label_ok (with_vs l vs) <-> label_ok l.
Proof. destruct l; cbn [with_vs label_ok]; tauto. Qed.

Theorem qstep_inv d st q l ob st' q' outs vs :
  0 <= d -> InvD d st -> label_ok l -> QInv st q -> qstep st q l ob = QOk st' q' outs vs ->
  QInv st' q' /\ fifo_step q q' /\ exists d', d <= d' /\ InvD d' st'.
Proof.
  intros Hd HI Hl (Hn & Hq) E.
  pose proof (qstep_post st q l ob (InvD_AvNN _ _ HI) Hn Hq) as P. rewrite E in P. cbn [qpost] in P.
  destruct P as (A & B & C). split; [split; assumption|]. split; [assumption|].
  pose proof (step_inv d st (with_vs l vs) Hd HI (proj2 (with_vs_label_ok l vs) Hl)) as X.
  rewrite (qstep_refines _ _ _ _ _ _ _ _ E) in X. cbn [step_result_ok] in X. apply X.
Qed.

Theorem qrun_inv ls : forall d st q st' q' pls os,
  0 <= d -> InvD d st -> Forall label_ok pls -> QInv st q ->
  qrun st q ls = Some (st', q', pls, os) ->
  QInv st' q' /\ exists d', d <= d' /\ InvD d' st'.
Proof.
  induction ls as [|[l ob|] ls IH]; cbn [qrun]; intros d st q st' q' pls os Hd HI Hls HQ E.
  - inversion E; subst. split; [assumption|]. exists d. split; [lia|assumption].
  - destruct (qstep st q l ob) as [st1 q1 o vs|n|n] eqn:Es; try discriminate.
    destruct (qrun st1 q1 ls) as [[[[st2 q2] pls2] os2]|] eqn:Er; [|discriminate].
    inversion E; subst. inversion Hls as [|? ? Hl Hls']; subst.
    apply with_vs_label_ok in Hl.
    destruct (qstep_inv _ _ _ _ _ _ _ _ _ Hd HI Hl HQ Es) as (HQ1 & _ & d1 & Hd1 & HI1).
    destruct (IH d1 _ _ _ _ _ _ ltac:(lia) HI1 Hls' HQ1 Er) as (HQ2 & d2 & Hd2 & HI2).
    split; [assumption|]. exists d2. split; [lia|assumption].
  - apply (IH d st [] st' q' pls os Hd HI Hls); [split; [constructor|reflexivity]|exact E].
Qed.

Lemma init_QInv mb init : QInv (init_state mb init) [].
Proof. split; [constructor|reflexivity]. Qed.

(* the theorems of C16/C02 about SendFlow runs hold for the runs with the computed visiting order *)
Theorem qrun_capacity_is_backed mb init ls st q pls outs :
  0 <= mb -> 0 <= init <= MAXW -> Forall label_ok pls ->
  qrun (init_state mb init) [] ls = Some (st, q, pls, outs) -> no_conn_err outs = true ->
  (exists a, acct_run (acct0 init) (all_wevs pls outs) = Some a /\
    sum_avail (c_strs st) <= a_credit a - a_sent a /\
    sum_avail (c_strs st) + c_avail st = c_win st /\
    forall s, In s (c_strs st) ->
      0 <= capacity (c_maxbuf st) s <= s_avail s /\
      (s_dead s = false ->
         exists c sn, a_find (s_id s) (a_streams a) = Some (c, sn) /\ s_avail s <= Z.max 0 (c - sn))) /\
  NoDup q /\ (c_avail st <= 0 \/ q = []).
Proof.
  intros Hm Hi Hls E Hno. split.
  - eapply C16_capacity_is_backed; eauto. eapply qrun_refines; eauto.
  - destruct (qrun_inv ls 0 _ _ _ _ _ _ ltac:(lia) (init_inv mb init Hm Hi) Hls (init_QInv mb init) E) as ((A & B) & _).
    split; [assumption|]. destruct (Z_lt_le_dec 0 (c_avail st)); [right; auto|left; assumption].
Qed.

(* ------------------------------------------------------------------------------------------- *)
(* 6. the lock-step check is sound: when check_qrun accepts a recorded run, the model ran it without Stuck or
   Panic, ended with the observed queue, and the SendFlow labels it projects to - with the visiting order it
   COMPUTED - are exactly the recorded labels with the OBSERVED visits *)

Lemma nlist_eqb_eq a : forall b, nlist_eqb a b = true -> a = b.
Proof.
  induction a as [|x a IH]; intros [|y b]; cbn [nlist_eqb]; try discriminate; [reflexivity|].
  intros H. apply andb_true_iff in H. destruct H as (H1 & H2). apply N.eqb_eq in H1. f_equal; auto.
Qed.

Lemma obs_eqb_eq a b : obs_eqb a b = true -> a = b.
Proof.
  destruct a as [a1 a2 a3 a4], b as [b1 b2 b3 b4]. unfold obs_eqb. cbn [o_streaming o_send_closed o_closed o_pending_open].
  intros H. repeat (apply andb_true_iff in H; destruct H as (H & ?)).
  repeat match goal with X : Bool.eqb _ _ = true |- _ => apply Bool.eqb_prop in X end. congruence.
Qed.

Lemma visits_eqb_eq a : forall b, visits_eqb a b = true -> a = b.
Proof.
  induction a as [|[x ox] a IH]; intros [|[y oy] b]; cbn [visits_eqb v_sid v_obs]; try discriminate; [reflexivity|].
  intros H. apply andb_true_iff in H. destruct H as (H & H3). apply andb_true_iff in H. destruct H as (H1 & H2).
  apply N.eqb_eq in H1. apply obs_eqb_eq in H2. subst. f_equal. auto.
Qed.

Lemma with_vs_visits l : with_vs l (visits_of l) = l.
Proof. destruct l; reflexivity. Qed.

Fixpoint observed_labels (ls : list qlabel) : list label :=
  match ls with
  | [] => []
  | QL l _ :: ls' => l :: observed_labels ls'
  | QClear :: ls' => observed_labels ls'
  end.

Theorem check_qrun_sound ls : forall st q i fin,
  check_qrun st q i ls fin = 0%N ->
  exists st' os, qrun st q (map fst ls) = Some (st', fin, observed_labels (map fst ls), os).
Proof.
  induction ls as [|[ql qo] ls IH]; cbn [check_qrun map fst qrun observed_labels]; intros st q i fin E.
  - destruct (nlist_eqb q fin) eqn:Eq; [|lia]. apply nlist_eqb_eq in Eq. subst. eauto.
  - destruct (negb (nlist_eqb q qo)); [lia|].
    destruct ql as [l ob|].
    + destruct (qstep st q l ob) as [st1 q1 o vs|n|n]; try lia.
      destruct (visits_eqb vs (visits_of l)) eqn:Ev; [|lia]. apply visits_eqb_eq in Ev. subst vs.
      destruct (IH _ _ _ _ E) as (st' & os & Er). rewrite Er. rewrite with_vs_visits. eauto.
    + apply IH in E. exact E.
Qed.

(* ------------------------------------------------------------------------------------------- *)
(* 7. property-level statements *)

(* MEANING OF A QUEUE ENTRY, at the only place where entries are made (try_assign_capacity): the stream is
   pushed iff, after the assignment, it may send (not pending open/push; streaming or data buffered), still wants
   more than it has, and its own window has room - i.e. only CONNECTION capacity is missing; and then the
   connection has no unassigned capacity left. *)
Theorem queued_iff_waiting st sid o s st' outs :
  AvNN st -> find_s sid (c_strs st) = Some s -> try_assign st sid o = Ok st' outs ->
  exists s1, find_s sid (c_strs st') = Some s1 /\
    (push_after st sid o = true <->
       o_pending_open o = false /\ (o_streaming o = true \/ s_buf s1 <> 0) /\
       s_avail s1 < s_req s1 /\ s_avail s1 < as_size (s_win s1)) /\
    (push_after st sid o = true -> c_avail st' <= 0).
Proof.
  intros HA F Et.
  destruct (try_assign_grant _ _ _ _ _ _ HA F Et) as (G0 & G1 & G2 & Gc & (s1 & F1 & A1 & W1 & R1 & B1) & Hfr & Gp).
  exists s1. split; [exact F1|]. split; [|intros Hp; eapply push_exhausts; eauto].
  rewrite Gp, A1, W1, R1, B1. split.
  - intros H. apply andb_true_iff in H. destruct H as (R & Hlt). specialize (G2 R).
    unfold reached in R. apply andb_true_iff in R. destruct R as (R & Ra). apply andb_true_iff in R. destruct R as (Rp & Rn).
    split; [destruct (o_pending_open o); [discriminate|reflexivity]|]. split.
    + destruct (o_streaming o); [left; reflexivity|right]. cbn [orb] in Ra. lia.
    + unfold additional in *. lia.
  - intros (Hp & Hact & Hw & Hr).
    assert (R : reached s o = true).
    { unfold reached. rewrite Hp. cbn [negb andb]. apply andb_true_iff. split.
      - unfold additional. lia.
      - destruct Hact as [->|Hb]; [reflexivity|]. apply orb_true_iff. right. lia. }
    rewrite R. cbn [andb]. unfold additional. lia.
Qed.

Lemma AvNN_set_cavail st a : AvNN st -> AvNN (set_cavail st a).
Proof. intros HA k s F. simp_s. eapply HA; eauto. Qed.

(* C16_fifo_no_overtaking.  One call of assign_connection_capacity with n bytes handed back (lowered reservation,
   reset, end of stream, handle drop, SETTINGS decrease, WINDOW_UPDATE on stream 0):
   (1) the head of the queue, if it may send and still wants capacity, receives
       min(unassigned connection capacity, requested - assigned, stream window - assigned) first;
   (2) a stream further back receives something only if everything in front of it has left the queue. *)
Theorem assign_conn_fifo st q n ob st' q' outs vs :
  q_assign_conn st q n ob = QOk st' q' outs vs -> AvNN st -> NoDup q ->
  (forall h t s o, q = h :: t -> 0 < c_avail st + n ->
     find_s h (c_strs st) = Some s -> find_ob h ob = Some o -> active s o = true -> reached s o = true ->
     exists s', find_s h (c_strs st') = Some s' /\
       s_avail s' = s_avail s + Z.min (c_avail st + n) (Z.min (s_req s - s_avail s) (as_size (s_win s) - s_avail s))) /\
  (forall pre k post, q = pre ++ k :: post -> find_s k (c_strs st') <> find_s k (c_strs st) ->
     forall i, In i pre -> ~ In i q').
Proof.
  intros E HA Hn. apply q_assign_conn_rel in E.
  pose proof (AvNN_set_cavail st (c_avail st + n) HA) as HA'.
  split.
  - intros h t s o -> Hc F Fo Ha R.
    destruct (loop_head_first _ _ _ _ _ _ s o E HA' Hn) as (s' & F' & A' & _); auto.
    exists s'. split; [exact F'|]. rewrite A'. unfold grant. rewrite R. simp_s.
    replace (0 <? c_avail st + n) with true by lia. reflexivity.
  - intros pre k post Hq Hk. eapply (loop_no_overtaking _ _ _ _ _ E HA' Hn); eauto.
Qed.

(* who leaves the queue during a call no longer waits for connection capacity: it was evicted (cannot send), or it
   is pending open, or after its visit it wants no more than it has or its own stream window is exhausted *)
Lemma loop_leavers ob st q st' q' : loop_rel ob st q st' q' -> AvNN st -> NoDup q ->
  forall k o s', In k q -> ~ In k q' -> find_ob k ob = Some o -> find_s k (c_strs st') = Some s' ->
  active s' o = false \/ o_pending_open o = true \/ ~ (s_avail s' < s_req s' /\ s_avail s' < as_size (s_win s')).
Proof.
  induction 1 as [st q _|st h t s o0 st' q' _ F Fo Ha Hl IH|st h t s o0 st1 o1 st' q' _ F Fo Ha Et Hl IH];
    intros HA Hn k o s' Hin Hout Fk Fs'.
  - contradiction.
  - inversion Hn as [|? ? Hh Ht]; subst.
    destruct Hin as [->|Hin]; [|eapply IH; eauto].
    rewrite (loop_frame _ _ _ _ _ Hl HA k Hh) in Fs'. rewrite F in Fs'. rewrite Fo in Fk.
    inversion Fs'; inversion Fk; subst. left. exact Ha.
  - inversion Hn as [|? ? Hh Ht]; subst.
    pose proof (try_assign_AvNN _ _ _ _ _ HA Et) as HA1.
    destruct Hin as [->|Hin].
    + rewrite Fo in Fk. inversion Fk; subst o0.
      destruct (queued_iff_waiting _ _ _ _ _ _ HA F Et) as (s1 & F1 & Hiff & Hex).
      destruct (push_after st k o) eqn:Hp.
      * destruct (loop_stop _ _ _ _ _ Hl (Hex eq_refl)) as (-> & ->).
        exfalso. apply Hout. apply enq_In. left. reflexivity.
      * rewrite (loop_frame _ _ _ _ _ Hl HA1 k Hh) in Fs'. rewrite F1 in Fs'. inversion Fs'; subst s1.
        destruct (o_pending_open o) eqn:Ep; [right; left; reflexivity|].
        right. right. intros (Hw & Hr).
        assert (X : false = true); [|discriminate]. apply Hiff. split; [reflexivity|]. split; [|split; assumption].
        destruct (try_assign_grant _ _ _ _ _ _ HA F Et) as (_ & _ & _ & _ & (s1 & F1' & _ & _ & _ & B1) & _ & _).
        rewrite F1 in F1'. inversion F1'; subst s1. rewrite B1.
        unfold active in Ha. destruct (o_streaming o); [left; reflexivity|right]. cbn [orb] in Ha. lia.
    + eapply (IH HA1); eauto.
      * destruct (push_after st h o0); [apply enq_NoDup|]; assumption.
      * destruct (push_after st h o0); [apply enq_In; right|]; assumption.
Qed.

(* C16_returned_capacity_reaches_waiters.  After a call of assign_connection_capacity: the connection has no
   unassigned capacity left, or the queue is empty; and every stream that left the queue no longer waits for
   connection capacity. *)
Theorem assign_conn_reaches_waiters st q n ob st' q' outs vs :
  q_assign_conn st q n ob = QOk st' q' outs vs -> AvNN st -> NoDup q ->
  (c_avail st' <= 0 \/ q' = []) /\
  (forall k o s', In k q -> ~ In k q' -> find_ob k ob = Some o -> find_s k (c_strs st') = Some s' ->
     active s' o = false \/ o_pending_open o = true \/ ~ (s_avail s' < s_req s' /\ s_avail s' < as_size (s_win s'))).
Proof.
  intros E HA Hn. apply q_assign_conn_rel in E. split; [eapply loop_exit; eauto|].
  eapply loop_leavers; eauto.
Qed.

(* C16_no_starvation_under_returns (bounded bypass).  A call that has capacity to hand out (c_avail + n > 0) pops
   m >= 1 streams from the front of a non-empty queue.  A stream k at position |pre| is either among them (it is
   visited in this call), or it moves up by exactly m places, untouched, with everything behind it in the same
   order; the only stream that can be appended behind it is one of the m popped ones, partly served with the last
   of the capacity.  Hence k is visited after at most |pre| + 1 such calls, whatever the other streams do. *)
Theorem assign_conn_progress st q n ob st' q' outs vs pre k post :
  q_assign_conn st q n ob = QOk st' q' outs vs -> AvNN st -> NoDup q ->
  0 < c_avail st + n -> q = pre ++ k :: post ->
  exists m pushed, (1 <= m)%nat /\ q' = skipn m q ++ pushed /\ (length pushed <= 1)%nat /\
    (forall x, In x pushed -> In x (firstn m q) /\ c_avail st' <= 0) /\
    ((m <= length pre)%nat ->
       q' = skipn m pre ++ k :: post ++ pushed /\ find_s k (c_strs st') = find_s k (c_strs st)).
Proof.
  intros E HA Hn Hc Hq. apply q_assign_conn_rel in E.
  destruct (loop_shape _ _ _ _ _ E (AvNN_set_cavail _ _ HA) Hn) as (m & Hm & Hlen & Hun & Hsh).
  assert (Hm1 : (1 <= m)%nat). { apply Hm; [simp_s; lia|]. subst q. destruct pre; discriminate. }
  assert (Hsk : (m <= length pre)%nat -> skipn m q = skipn m pre ++ k :: post).
  { intros Hle. subst q. rewrite skipn_app. replace (m - length pre)%nat with 0%nat by lia. reflexivity. }
  destruct Hsh as [Hq'|(x & sx & sx' & Hx & Hq' & Hc' & _)].
  - exists m, []. split; [exact Hm1|]. split; [rewrite app_nil_r; exact Hq'|]. split; [cbn [length]; lia|].
    split; [intros x []|]. intros Hle. split.
    + rewrite Hq', (Hsk Hle), app_nil_r. reflexivity.
    + apply Hun. rewrite (Hsk Hle). apply in_or_app. right. left. reflexivity.
  - exists m, [x]. split; [exact Hm1|]. split; [exact Hq'|]. split; [cbn [length]; lia|].
    split; [intros y [<-|[]]; split; assumption|]. intros Hle. split.
    + rewrite Hq', (Hsk Hle), <- app_assoc. reflexivity.
    + apply Hun. rewrite (Hsk Hle). apply in_or_app. right. left. reflexivity.
Qed.

(* ------------------------------------------------------------------------------------------- *)
(* 8. the fuel of q_loop is never exhausted *)

Lemma try_assign_stuck st sid o n : try_assign st sid o = Stuck n -> n = 1%N.
Proof.
  unfold try_assign.
  repeat match goal with
         | |- context [match find_s ?a ?b with _ => _ end] => destruct (find_s a b)
         | |- context [let '(_, _) := ?x in _] => destruct x
         | |- context [if ?c then _ else _] => destruct c
         end; intros E; try discriminate; inversion E; reflexivity.
Qed.

Theorem q_loop_fuel f : forall st q ob outs vs,
  AvNN st -> NoDup q -> (length q < f)%nat \/ (c_avail st <= 0 /\ (1 <= f)%nat) ->
  q_loop f st q ob outs vs <> QStuck 50.
Proof.
  induction f as [|f IH]; intros st q ob outs vs HA Hn Hf; [lia|]. cbn [q_loop].
  destruct (c_avail st <=? 0) eqn:Ec; [discriminate|].
  destruct q as [|h t]; [discriminate|].
  destruct Hf as [Hf|Hf]; [|lia]. cbn [length] in Hf. inversion Hn as [|? ? Hh Ht]; subst.
  destruct (find_s h (c_strs st)) as [s|] eqn:F; [|discriminate].
  destruct (find_ob h ob) as [o|]; [|discriminate].
  destruct (negb (o_streaming o || (0 <? s_buf s))).
  { apply IH; auto. left. lia. }
  destruct (try_assign st h o) as [st1 o1|n|n] eqn:Et.
  - pose proof (try_assign_AvNN _ _ _ _ _ HA Et) as HA1.
    destruct (push_after st h o) eqn:Hp.
    + apply IH; [assumption|apply enq_NoDup; assumption|]. right.
      split; [exact (push_exhausts _ _ _ _ _ _ HA F Et Hp)|lia].
    + apply IH; auto. left. lia.
  - apply try_assign_stuck in Et. subst. discriminate.
  - discriminate.
Qed.

Theorem q_assign_conn_fuel st q inc ob : AvNN st -> NoDup q -> q_assign_conn st q inc ob <> QStuck 50.
Proof.
  intros HA Hn. unfold q_assign_conn. destruct (negb (in_i32 (c_avail st + inc))); [discriminate|].
  apply q_loop_fuel; [apply AvNN_set_cavail; assumption|assumption|left; lia].
Qed.

(* ------------------------------------------------------------------------------------------- *)
(* 9. examples (non-vacuity) and refuted stronger readings *)

Definition oS : obs := mkObs true false false false.

(* three streams compete for the connection window: 1 takes it all, 2 and 3 queue up; then 1 lowers its
   reservation twice by 100 *)
Definition demo_pre : list qlabel :=
  [QL (LNew 1 65535) []; QL (LNew 2 65535) []; QL (LNew 3 65535) [];
   QL (LReserve 1 oS 65535 []) [];
   QL (LReserve 2 oS 30000 []) [];
   QL (LReserve 3 oS 10 []) []].
Definition demo_l7 : label := LReserve 1 oS 65435 [].
Definition demo_l8 : label := LReserve 1 oS 65335 [].
Definition demo_ob : list (N * obs) := [(2%N, oS); (3%N, oS)].
Definition demo : list qlabel := demo_pre ++ [QL demo_l7 demo_ob; QL demo_l8 demo_ob].

Definition avail_of (st : fstate) (k : N) : option Z := option_map s_avail (find_s k (c_strs st)).

(* after the competition: 2 then 3 are queued, nothing is assigned to them, the connection has nothing left *)
Example demo_three_streams_compete :
  match qrun (init_state 409600 65535) [] demo_pre with
  | Some (st, q, _, _) => q = [2%N; 3%N] /\ avail_of st 2 = Some 0 /\ avail_of st 3 = Some 0 /\ c_avail st = 0
  | None => False
  end.
Proof. vm_compute. repeat split. Qed.

(* a lowered reservation returns 100: the head (2) is partly served and re-queued at the BACK, behind 3;
   the next 100 go to 3 first (10, all it wants), the remaining 90 to 2, which is queued again *)
Example demo_lowered_reservation_requeues_head :
  match qrun (init_state 409600 65535) [] demo with
  | Some (st, q, pls, _) =>
      q = [2%N] /\ avail_of st 1 = Some 65335 /\ avail_of st 2 = Some 190 /\ avail_of st 3 = Some 10 /\ c_avail st = 0 /\
      map visits_of (skipn 6 pls) = [[mkV 2 oS]; [mkV 3 oS; mkV 2 oS]]
  | None => False
  end.
Proof. vm_compute. repeat split. Qed.

Lemma AvNN_Forall st : Forall (fun s => 0 <= s_avail s) (c_strs st) -> AvNN st.
Proof. intros H k s F. apply (Forall_find _ _ _ _ H F). Qed.

(* an instance that satisfies the hypotheses of assign_conn_fifo / assign_conn_progress /
   assign_conn_reaches_waiters, with a non-trivial outcome *)
Definition demo_st : fstate :=
  mkF 65635 0 409600 65535
    [mkS 3 65535 0 10 0 [] false false false; mkS 2 65535 0 30000 0 [] false false false;
     mkS 1 65535 65535 65535 0 [] false false false].

Example assign_conn_nonvacuous :
  AvNN demo_st /\ NoDup [2%N; 3%N] /\ 0 < c_avail demo_st + 100 /\
  [2%N; 3%N] = [2%N] ++ 3%N :: [] /\
  (exists s, find_s 2 (c_strs demo_st) = Some s /\ active s oS = true /\ reached s oS = true) /\
  exists st' outs vs, q_assign_conn demo_st [2%N; 3%N] 100 demo_ob = QOk st' [3%N; 2%N] outs vs /\
    avail_of st' 2 = Some 100 /\ avail_of st' 3 = Some 0 /\ c_avail st' = 0.
Proof.
  split. { apply AvNN_Forall. unfold demo_st. cbn [c_strs]. repeat constructor; cbn [s_avail]; lia. }
  split. { repeat constructor; cbn [In]; intuition discriminate. }
  split; [vm_compute; reflexivity|]. split; [reflexivity|]. split.
  { eexists. split; [vm_compute; reflexivity|]. split; vm_compute; reflexivity. }
  eexists _, _, _. split; [vm_compute; reflexivity|]. vm_compute. repeat split.
Qed.

(* REFUTED stronger reading 1 (strict FIFO across calls): "while a stream k stays queued, no stream that was queued
   behind it receives capacity".  A partly served head is re-queued at the back (try_assign_capacity pushes it again),
   so later returns reach the streams behind it first: round-robin among the waiting streams, not strict FIFO. *)
Definition strict_fifo_across_calls : Prop :=
  forall mb init ls st q pls os, qrun (init_state mb init) [] ls = Some (st, q, pls, os) ->
  forall l1 ob1 l2 ob2 st1 q1 o1 v1 st2 q2 o2 v2 k j pre mid post,
  qstep st q l1 ob1 = QOk st1 q1 o1 v1 -> qstep st1 q1 l2 ob2 = QOk st2 q2 o2 v2 ->
  q = pre ++ k :: mid ++ j :: post -> In k q1 -> In k q2 ->
  find_s j (c_strs st2) = find_s j (c_strs st).

Theorem strict_fifo_across_calls_refuted : ~ strict_fifo_across_calls.
Proof.
  intros H.
  destruct (qrun (init_state 409600 65535) [] demo_pre) as [[[[st q] pls] os]|] eqn:E; [|vm_compute in E; discriminate].
  specialize (H _ _ _ _ _ _ _ E demo_l7 demo_ob demo_l8 demo_ob).
  vm_compute in E. inversion E; subst st q pls os. clear E.
  eassert (X : _); [eapply (H _ _ _ _ _ _ _ _ 2%N 3%N [] [] []);
    [vm_compute; reflexivity|vm_compute; reflexivity|reflexivity|cbn [In]; auto|cbn [In]; auto]|].
  vm_compute in X. discriminate.
Qed.

(* REFUTED stronger reading 2 (no stale entries): "a queued stream still wants capacity".  Lowering a reservation
   to what is already assigned leaves the stream in the queue; the entry is dropped at its next visit. *)
Definition queued_implies_wants : Prop :=
  forall mb init ls st q pls os, qrun (init_state mb init) [] ls = Some (st, q, pls, os) ->
  forall k s, In k q -> find_s k (c_strs st) = Some s -> s_avail s < s_req s.

Theorem queued_implies_wants_refuted : ~ queued_implies_wants.
Proof.
  intros H.
  pose (ls := demo_pre ++ [QL (LReserve 3 oS 0 []) []]).
  destruct (qrun (init_state 409600 65535) [] ls) as [[[[st q] pls] os]|] eqn:E; [|vm_compute in E; discriminate].
  specialize (H _ _ _ _ _ _ _ E 3%N).
  vm_compute in E. inversion E; subst st q pls os. clear E.
  eassert (X : _); [eapply H; [cbn [In]; auto|vm_compute; reflexivity]|].
  vm_compute in X. discriminate.
Qed.

(* ... and the stale entry is harmless: it is evicted at its next visit without receiving anything *)
Example stale_entry_is_dropped :
  match qrun (init_state 409600 65535) [] (demo_pre ++ [QL (LReserve 3 oS 0 []) []; QL (LRecvConnWU 50000 []) demo_ob]) with
  | Some (st, q, _, _) => q = [] /\ avail_of st 3 = Some 0 /\ avail_of st 2 = Some 30000 /\ c_avail st = 20000
  | None => False
  end.
Proof. vm_compute. repeat split. Qed.

(* ------------------------------------------------------------------------------------------- *)
(* 10. every label reaches the loop only through q_assign_conn, from an entry state with AvNN: the theorems of
   section 7 apply to every call made from a reachable state *)

Definition via_call (ob : list (N * obs)) (q : list N) (r : qoutcome) : Prop :=
  match r with
  | QOk st' q' outs vs =>
      (vs = [] /\ exists pushed, q' = q ++ pushed) \/
      (exists st_e q_e n outs_e, AvNN st_e /\ (NoDup q -> NoDup q_e) /\ (exists pushed, q_e = q ++ pushed) /\
         q_assign_conn st_e q_e n ob = QOk st' q' outs_e vs)
  | _ => True
  end.

Lemma via_same ob q st outs : via_call ob q (QOk st q outs []).
Proof. left. split; [reflexivity|]. exists []. now rewrite app_nil_r. Qed.

Lemma via_direct ob q st n : AvNN st -> via_call ob q (q_assign_conn st q n ob).
Proof.
  intros HA. destruct (q_assign_conn st q n ob) as [st' q' outs vs|k|k] eqn:E; cbn [via_call]; auto.
  right. exists st, q, n, outs. split; [assumption|]. split; [auto|]. split; [exists []; now rewrite app_nil_r|exact E].
Qed.

Lemma via_add_outs ob q pre r : via_call ob q r -> via_call ob q (q_add_outs pre r).
Proof. destruct r; cbn [q_add_outs via_call]; auto. Qed.

Lemma via_try_assign ob st q sid o : via_call ob q (q_try_assign st q sid o).
Proof.
  destruct (q_try_assign st q sid o) as [st' q' outs vs|k|k] eqn:E; cbn [via_call]; auto.
  apply q_try_assign_inv in E. destruct E as (_ & -> & ->). left. split; [reflexivity|].
  destruct (push_after st sid o); [|exists []; now rewrite app_nil_r].
  unfold enq. destruct (qmem sid q); [exists []; now rewrite app_nil_r|exists [sid]; reflexivity].
Qed.

(* a call made after some pushes *)
Lemma via_after ob q q1 r : (NoDup q -> NoDup q1) -> (exists p, q1 = q ++ p) -> via_call ob q1 r -> via_call ob q r.
Proof.
  intros Hn (p & ->). destruct r as [st' q' outs vs|k|k]; cbn [via_call]; auto.
  intros [(-> & (p2 & ->))|(st_e & q_e & n & outs_e & HA & Hn2 & (p2 & ->) & E)].
  - left. split; [reflexivity|]. exists (p ++ p2). now rewrite app_assoc.
  - right. exists st_e, ((q ++ p) ++ p2), n, outs_e. split; [assumption|]. split; [auto|].
    split; [exists (p ++ p2); now rewrite app_assoc|exact E].
Qed.

Lemma AvNN_put_ge st s s' :
  AvNN st -> find_s (s_id s') (c_strs st) = Some s -> 0 <= s_avail s' -> AvNN (put st s').
Proof.
  intros HA F Hav k x Fx. simp_s. destruct (N.eq_dec k (s_id s')) as [->|Hne].
  - rewrite (find_upd_same _ _ _ F) in Fx. inversion Fx; subst. exact Hav.
  - rewrite (find_upd_other _ _ _ Hne) in Fx. eapply HA; eauto.
Qed.

Lemma via_reclaim_all ob st q sid : AvNN st -> via_call ob q (q_reclaim_all st q sid ob).
Proof.
  intros HA. unfold q_reclaim_all. destruct (find_s sid (c_strs st)) as [s|] eqn:F; [|exact I].
  pose proof (find_s_id _ _ _ F) as Hid. pose proof (HA _ _ F) as Hav.
  destruct (0 <? as_size (s_avail s)); [|apply via_same].
  apply via_direct. apply (AvNN_put_ge st s _ HA); simp_s; [rewrite Hid; exact F|unfold as_size; lia].
Qed.

Lemma via_reclaim_reserved ob st q sid :
  AvNN st -> (forall s, find_s sid (c_strs st) = Some s -> 0 <= s_buf s) -> via_call ob q (q_reclaim_reserved st q sid ob).
Proof.
  intros HA Hb. unfold q_reclaim_reserved. destruct (find_s sid (c_strs st)) as [s|] eqn:F; [|exact I].
  pose proof (find_s_id _ _ _ F) as Hid. pose proof (HA _ _ F) as Hav. specialize (Hb _ eq_refl).
  destruct (s_buf s <? as_size (s_avail s)) eqn:E; [|apply via_same].
  apply via_direct. apply (AvNN_put_ge st s _ HA); simp_s; [rewrite Hid; exact F|unfold as_size in *; lia].
Qed.

Lemma via_reserve ob st q sid sc o cap :
  AvNN st -> (forall s, find_s sid (c_strs st) = Some s -> 0 <= cap + s_buf s) ->
  via_call ob q (q_reserve st q sid sc o cap ob).
Proof.
  intros HA Hb. unfold q_reserve. destruct (find_s sid (c_strs st)) as [s|] eqn:F; [|exact I].
  pose proof (find_s_id _ _ _ F) as Hid. pose proof (HA _ _ F) as Hav. specialize (Hb _ eq_refl).
  destruct (cap + s_buf s =? s_req s); [apply via_same|].
  destruct (cap + s_buf s <? s_req s).
  { destruct (cap + s_buf s <? as_size (s_avail (set_req s (cap + s_buf s)))) eqn:E; [|apply via_same].
    apply via_direct. apply (AvNN_put_ge st s _ HA); simp_s; [rewrite Hid; exact F|unfold as_size in *; lia]. }
  destruct sc; [apply via_same|apply via_try_assign].
Qed.

Lemma enq_app k q : exists p, enq k q = q ++ p.
Proof. unfold enq. destruct (qmem k q); [exists []; now rewrite app_nil_r|exists [k]; reflexivity]. Qed.

Lemma q_try_assign_app st q sid o st' q' outs vs :
  q_try_assign st q sid o = QOk st' q' outs vs -> vs = [] /\ exists p, q' = q ++ p.
Proof.
  intros E. apply q_try_assign_inv in E. destruct E as (_ & -> & ->). split; [reflexivity|].
  destruct (push_after st sid o); [apply enq_app|exists []; now rewrite app_nil_r].
Qed.

Lemma q_recv_stream_wu_app st q sid o inc st' q' outs vs :
  q_recv_stream_wu st q sid o inc = QOk st' q' outs vs -> vs = [] /\ exists p, q' = q ++ p.
Proof.
  unfold q_recv_stream_wu. destruct (find_s sid (c_strs st)) as [s|]; [|discriminate].
  destruct (o_send_closed o && (s_buf s =? 0)).
  { intros E; inversion E; subst. split; [reflexivity|exists []; now rewrite app_nil_r]. }
  destruct (negb (in_i32 (s_win s + inc)) || (MAXW <? s_win s + inc)).
  { intros E; inversion E; subst. split; [reflexivity|exists []; now rewrite app_nil_r]. }
  apply q_try_assign_app.
Qed.

Lemma q_settings_inc_app touched : forall st q outs inc st' q' outs' vs,
  q_settings_inc st q outs inc touched = QOk st' q' outs' vs -> vs = [] /\ exists p, q' = q ++ p.
Proof.
  induction touched as [|[sid o] t IH]; cbn [q_settings_inc]; intros st q outs inc st' q' outs' vs E.
  { inversion E; subst. split; [reflexivity|exists []; now rewrite app_nil_r]. }
  destruct (q_recv_stream_wu st q sid o inc) as [st1 q1 o1 v1|n|n] eqn:Er; try discriminate.
  apply q_recv_stream_wu_app in Er. destruct Er as (_ & (p & ->)).
  assert (X : q_settings_inc st1 (q ++ p) (outs ++ o1) inc t = QOk st' q' outs' vs -> vs = [] /\ exists p0, q' = q ++ p0).
  { intros E2. apply IH in E2. destruct E2 as (-> & (p2 & ->)). split; [reflexivity|].
    exists (p ++ p2). now rewrite app_assoc. }
  destruct o1 as [|[] o1']; try (apply X; exact E).
  inversion E; subst. split; [reflexivity|]. exists p. reflexivity.
Qed.

Lemma via_app ob q r :
  (forall st' q' outs vs, r = QOk st' q' outs vs -> vs = [] /\ exists p, q' = q ++ p) -> via_call ob q r.
Proof. destruct r as [st' q' outs vs|k|k]; cbn [via_call]; auto. intros H. left. eapply H. reflexivity. Qed.

Lemma find_mark_untouched t k : forall l s', find_s k (mark_untouched t l) = Some s' ->
  exists s, find_s k l = Some s /\ s_avail s' = s_avail s.
Proof.
  unfold mark_untouched. induction l as [|x l IH]; cbn [map find_s]; intros s' F; [discriminate|].
  destruct (mem_touched (s_id x) t).
  - destruct (N.eqb (s_id x) k); [inversion F; subst; eauto|auto].
  - cbn [set_dead s_id] in F. destruct (N.eqb (s_id x) k); [inversion F; subst; exists x; split; reflexivity|auto].
Qed.

Lemma settings_dec_AvNN touched : forall st dec total st1 o1 total1,
  AvNN st -> settings_dec st dec total touched = (Ok st1 o1, total1) -> AvNN st1.
Proof.
  induction touched as [|[sid o] t IH]; cbn [settings_dec]; intros st dec total st1 o1 total1 HA E.
  { inversion E; subst. exact HA. }
  destruct (find_s sid (c_strs st)) as [s|] eqn:F; [|discriminate].
  pose proof (find_s_id _ _ _ F) as Hid. pose proof (HA _ _ F) as Hav.
  destruct (negb (in_i32 (s_win s - dec))). { inversion E; subst. exact HA. }
  destruct (as_size (s_win (set_win s (s_win s - dec))) <? as_size (s_avail (set_win s (s_win s - dec)))) eqn:Ew;
    (eapply IH; [|exact E]); apply (AvNN_put_ge st s _ HA); simp_s;
    try (rewrite Hid; exact F); unfold as_size in *; lia.
Qed.

(* EVERY LABEL: the queue is changed either by pushes at the back only (no visit), or by pushes at the back
   followed by ONE call of q_assign_conn from an entry state in which every assigned capacity is >= 0 - so
   assign_conn_fifo, assign_conn_reaches_waiters, assign_conn_progress apply to it *)
Theorem qstep_via_call d st q l ob :
  0 <= d -> InvD d st -> label_ok l -> via_call ob q (qstep st q l ob).
Proof.
  intros Hd HI Hl. pose proof (InvD_AvNN _ _ HI) as HA.
  assert (Hpass : via_call ob q (q_pass st q l)).
  { apply via_app. intros st' q' outs vs E. apply q_pass_inv in E. destruct E as (_ & -> & ->).
    split; [reflexivity|exists []; now rewrite app_nil_r]. }
  destruct l as [sid init|sid|sid o sz eos vs0|sid o cap vs0|sid o inc|inc vs0|sid o isr qe vs0|sid vs0|sid o vs0
                |new touched vs0|sid sz mx|sid o|sid|sid|sid|sid o]; cbn [qstep label_ok] in *; try exact Hpass.
  - destruct (qmem sid q); [exact I|exact Hpass].
  - (* LSendData *)
    destruct (find_s sid (c_strs st)) as [s|] eqn:F; [|exact I].
    stream_facts HI F.
    destruct (MAXW <? sz); [apply via_same|].
    destruct (negb (o_streaming o)); [apply via_same|].
    destruct (s_dead s); [exact I|].
    set (s1 := set_bufq s (s_buf s + sz) (s_frames s ++ [sz])).
    assert (Hput : forall x, s_avail x = s_avail s -> s_id x = s_id s -> AvNN (put st x)).
    { intros x Hx Hxi. apply (AvNN_put st s _ HA); [rewrite Hxi, Hid; exact F|exact Hx]. }
    destruct (s_req s1 <? s_buf s1).
    + destruct (q_try_assign (put st (set_req s1 (Z.min (s_buf s1) U32MAX))) q sid o) as [st1 q1 o1 v1|n|n] eqn:Et;
        [|destruct eos; exact I|destruct eos; exact I].
      destruct eos; [|rewrite <- Et; apply via_try_assign].
      pose proof Et as Et'. apply q_try_assign_app in Et'. destruct Et' as (_ & (p & ->)).
      apply q_try_assign_inv in Et. destruct Et as (Et & _ & Hq1).
      assert (HA0 : AvNN (put st (set_req s1 (Z.min (s_buf s1) U32MAX)))) by (apply Hput; reflexivity).
      apply via_add_outs. apply via_after with (q1 := q ++ p).
      * intros Hn. rewrite Hq1. destruct (push_after _ sid o); [apply enq_NoDup|]; exact Hn.
      * exists p. reflexivity.
      * apply via_reserve; [eapply try_assign_AvNN; eauto|].
        intros sx Fx.
        assert (Hx : s_id (set_req s1 (Z.min (s_buf s1) U32MAX)) = sid) by exact Hid.
        assert (F0 : find_s sid (c_strs (put st (set_req s1 (Z.min (s_buf s1) U32MAX)))) = Some (set_req s1 (Z.min (s_buf s1) U32MAX))).
        { rewrite <- Hx at 1. apply find_put_same with (s := s). rewrite Hx. exact F. }
        destruct (try_assign_grant _ _ _ _ _ _ HA0 F0 Et) as (_ & _ & _ & _ & (sy & Fy & _ & _ & _ & By) & _ & _).
        rewrite Fy in Fx. inversion Fx; subst sx. rewrite By.
        change (s_buf (set_req s1 (Z.min (s_buf s1) U32MAX))) with (s_buf s + sz). lia.
    + destruct eos; [|apply via_same].
      apply via_add_outs. apply via_reserve; [apply Hput; reflexivity|].
      intros sx Fx. assert (Hx : s_id s1 = sid) by exact Hid.
      rewrite <- Hx in Fx. rewrite (find_put_same st s s1) in Fx by (rewrite Hx; exact F).
      inversion Fx; subst sx. change (s_buf s1) with (s_buf s + sz). lia.
  - apply via_reserve; [exact HA|]. intros s F. stream_facts HI F. lia.
  - apply via_app. apply q_recv_stream_wu_app.
  - destruct (negb (in_i32 (c_win st + inc)) || (MAXW <? c_win st + inc)); [apply via_same|].
    apply via_direct. intros k s F. simp_s. eapply HA; eauto.
  - (* LSendReset *)
    destruct (find_s sid (c_strs st)) as [s|] eqn:F; [|exact I].
    pose proof (find_s_id _ _ _ F) as Hid.
    destruct isr; [apply via_same|].
    destruct (o_closed o && qe && (s_buf s =? 0)); [apply via_same|].
    assert (HA0 : AvNN (put st (set_parked s false))).
    { apply (AvNN_put st s _ HA); simp_s; [rewrite Hid; exact F|reflexivity]. }
    unfold clear_queue.
    destruct (find_s sid (c_strs (put st (set_parked s false)))) as [s'|] eqn:F'; [|exact I].
    pose proof (find_s_id _ _ _ F') as Hid'.
    apply via_add_outs, via_add_outs, via_reclaim_all.
    apply (AvNN_put _ s' _ HA0); simp_s; [rewrite Hid'; exact F'|reflexivity].
  - (* LHandleError *)
    unfold clear_queue. destruct (find_s sid (c_strs st)) as [s|] eqn:F; [|exact I].
    pose proof (find_s_id _ _ _ F) as Hid.
    apply via_add_outs, via_reclaim_all.
    apply (AvNN_put st s _ HA); simp_s; [rewrite Hid; exact F|reflexivity].
  - destruct (o_closed o); [apply via_same|]. apply via_reclaim_reserved; [exact HA|].
    intros s F. stream_facts HI F. lia.
  - (* LApplySettings *)
    destruct (negb (nodup_keys touched)); [exact I|].
    destruct (new <? c_init st).
    + destruct (settings_dec (set_cinit st new) (c_init st - new) 0 touched) as [[st1 o1|n|n] total] eqn:Ed; try exact I.
      destruct o1 as [|x o1']; [|apply via_same].
      apply via_direct. apply settings_dec_AvNN in Ed; [|intros k s F; simp_s; eapply HA; eauto].
      intros k s' F. simp_s. apply find_mark_untouched in F. destruct F as (s & F & ->). eapply Ed; eauto.
    + destruct (c_init st <? new).
      * apply via_app. apply q_settings_inc_app.
      * destruct touched; [apply via_same|exact I].
  - apply via_try_assign.
Qed.
