(* Property C06, part 2, receive side: an owed stream WINDOW_UPDATE is visible to the connection task (queued), its pop is
   always possible and settles the debt.  Thin corollaries of Proofs/RecvFlowInv.v / RecvFlowRun.v. *)
From H2V Require Import Base.Tac Model.RecvFlow Proofs.RecvFlowLists Proofs.RecvFlowInv Proofs.RecvFlowRun.
Local Open Scope Z_scope.

(* reachable, error-free: a record whose application holds the handle, has released everything and is owed a
   WINDOW_UPDATE is queued on pending_window_updates *)
Theorem owed_update_is_queued ls st outs s :
  Forall rlabel_ok ls -> rrun rinit_state ls = inl (Some (st, outs)) -> In s (k_strs st) ->
  r_isrecv s = true -> r_done s = false -> r_unl s = false -> r_infl s = 0 ->
  unclaimed (r_win s) (r_avail s) <> None -> r_pend s = true.
Proof.
  intros Hls Hrun HIn A B C D E.
  destruct (reach_inv _ _ _ Hls Hrun) as ((d & HI) & _).
  destruct (RInvD_In _ _ _ HI HIn) as ((_ & _ & _ & _ & _ & _ & HQ) & _).
  exact (HQ A B C D E).
Qed.

(* the pop of an owed record is enabled, emits the WINDOW_UPDATE, and afterwards nothing is owed on that record *)
Theorem owed_update_pop_settles d st s :
  RInvD d st -> In s (k_strs st) -> unclaimed (r_win s) (r_avail s) <> None ->
  exists st' s',
    rstep st (RStreamWUPop (r_id s) true) = ROk st' [RWU (r_id s) (r_avail s - r_win s)] /\
    rfind (r_id s) (k_strs st') = Some s' /\ unclaimed (r_win s') (r_avail s') = None /\ r_pend s' = false.
Proof.
  intros HI HIn Hu. destruct (pop_emits _ _ _ HI HIn Hu) as (st' & s' & E1 & E2 & E3 & E4 & _ & _ & E7).
  exists st', s'. repeat split; auto. rewrite E3, E4. apply unclaimed_refl.
Qed.
