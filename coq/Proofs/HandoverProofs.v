(* Proofs about Model/Handover.v: for ALL interleavings of the connection task's lock sections, its unlocked codec steps
   and other threads' operations, the hand-over of a partly written DATA frame is safe (no panic, no dangling key), the
   unwritten tail goes back to the FRONT of its owner's queue iff the owner's queue was not cleared meanwhile, never to
   another record, and the byte accounting is not disturbed by the hand-over. *)
From H2V Require Import Base.Tac Model.Handover.
Local Open Scope Z_scope.

Fixpoint sumz (l : list Z) : Z := match l with [] => 0 | x :: l' => x + sumz l' end.

Lemma sumz_app a b : sumz (a ++ b) = sumz a + sumz b.
Proof. induction a as [|x a IH]; cbn [sumz app]; [lia|rewrite IH; lia]. Qed.

Lemma key_eqb_eq a b : key_eqb a b = true <-> a = b.
Proof.
  destruct a as [a1 a2], b as [b1 b2]. unfold key_eqb; cbn [fst snd]. rewrite andb_true_iff, !N.eqb_eq.
  split; [intros [H1 H2]; subst; reflexivity | intros H; inversion H; auto].
Qed.

Lemma key_eqb_refl a : key_eqb a a = true.
Proof. now apply key_eqb_eq. Qed.

Lemma key_eqb_sym a b : key_eqb a b = key_eqb b a.
Proof.
  destruct (key_eqb a b) eqn:E; destruct (key_eqb b a) eqn:E'; try reflexivity.
  - apply key_eqb_eq in E; subst. now rewrite key_eqb_refl in E'.
  - apply key_eqb_eq in E'; subst. now rewrite key_eqb_refl in E.
Qed.

Lemma key_eqb_neq a b : key_eqb a b = false <-> a <> b.
Proof.
  split; [intros H E; subst; now rewrite key_eqb_refl in H|].
  intros H. destruct (key_eqb a b) eqn:E; [apply key_eqb_eq in E; contradiction|reflexivity].
Qed.

(* ------------------------------------------------------------------------------------------------ store lemmas *)

Fixpoint uniq (l : list hstream) : Prop :=
  match l with [] => True | s :: l' => find_h (h_key s) l' = None /\ uniq l' end.

Lemma find_key k l s : find_h k l = Some s -> h_key s = k.
Proof.
  induction l as [|x l IH]; cbn [find_h]; [discriminate|].
  destruct (key_eqb (h_key x) k) eqn:E; [|exact IH].
  intros H; inversion H; subst. now apply key_eqb_eq.
Qed.

Lemma find_In k l s : find_h k l = Some s -> In s l.
Proof.
  induction l as [|x l IH]; cbn [find_h]; [discriminate|].
  destruct (key_eqb (h_key x) k); [intros H; inversion H; now left | intros H; right; auto].
Qed.

Lemma find_upd_same s' l s : find_h (h_key s') l = Some s -> find_h (h_key s') (upd_h s' l) = Some s'.
Proof.
  induction l as [|x l IH]; cbn [find_h upd_h]; [discriminate|].
  destruct (key_eqb (h_key x) (h_key s')) eqn:E; cbn [find_h].
  - intros _. now rewrite key_eqb_refl.
  - rewrite E. exact IH.
Qed.

Lemma find_upd_other s' l k : key_eqb (h_key s') k = false -> find_h k (upd_h s' l) = find_h k l.
Proof.
  intros Hk. induction l as [|x l IH]; cbn [find_h upd_h]; [reflexivity|].
  destruct (key_eqb (h_key x) (h_key s')) eqn:E; cbn [find_h].
  - rewrite Hk. apply key_eqb_eq in E. rewrite E, Hk. reflexivity.
  - destruct (key_eqb (h_key x) k); [reflexivity|exact IH].
Qed.

Lemma find_upd_none s' l k : find_h k l = None -> find_h k (upd_h s' l) = None \/ h_key s' = k.
Proof.
  intros H. destruct (key_eqb (h_key s') k) eqn:E; [right; now apply key_eqb_eq|].
  left. now rewrite find_upd_other.
Qed.

Lemma find_upd_absent s' l : find_h (h_key s') l = None -> upd_h s' l = l.
Proof.
  induction l as [|x l IH]; cbn [find_h upd_h]; [reflexivity|].
  destruct (key_eqb (h_key x) (h_key s')); [discriminate|]. intros H. now rewrite IH.
Qed.

Lemma find_del_other k k' l : key_eqb k k' = false -> find_h k' (del_h k l) = find_h k' l.
Proof.
  intros Hk. induction l as [|x l IH]; cbn [find_h del_h]; [reflexivity|].
  destruct (key_eqb (h_key x) k) eqn:E.
  - apply key_eqb_eq in E. rewrite E, Hk. reflexivity.
  - cbn [find_h]. destruct (key_eqb (h_key x) k'); [reflexivity|exact IH].
Qed.

Lemma uniq_upd s' l : uniq l -> uniq (upd_h s' l).
Proof.
  induction l as [|x l IH]; cbn [uniq upd_h]; [trivial|]. intros [Hn Hu].
  destruct (key_eqb (h_key x) (h_key s')) eqn:E; cbn [uniq].
  - apply key_eqb_eq in E. rewrite <- E. auto.
  - split; [|auto]. destruct (find_upd_none s' l (h_key x) Hn) as [H|H]; [exact H|].
    rewrite H, key_eqb_refl in E. discriminate.
Qed.

Lemma find_del_none k k' l : find_h k' l = None -> find_h k' (del_h k l) = None.
Proof.
  induction l as [|x l IH]; cbn [find_h del_h]; [reflexivity|].
  destruct (key_eqb (h_key x) k') eqn:E'; [discriminate|]. intros H.
  destruct (key_eqb (h_key x) k); [exact H|]. cbn [find_h]. rewrite E'. auto.
Qed.

Lemma uniq_del k l : uniq l -> uniq (del_h k l).
Proof.
  induction l as [|x l IH]; cbn [uniq del_h]; [trivial|]. intros [Hn Hu].
  destruct (key_eqb (h_key x) k); [exact Hu|]. cbn [uniq]. split; [now apply find_del_none|auto].
Qed.

Lemma slot_free_find k l : slot_free (fst k) l = true -> find_h k l = None.
Proof.
  induction l as [|x l IH]; cbn [slot_free forallb find_h]; [reflexivity|].
  rewrite andb_true_iff, negb_true_iff. intros [H1 H2].
  unfold key_eqb. rewrite H1. cbn [andb]. apply IH. exact H2.
Qed.

(* the replaced record gets Q directly, every other record keeps P -> Q *)
Lemma Forall_upd_strong (P Q : hstream -> Prop) s s' l :
  uniq l -> find_h (h_key s') l = Some s ->
  (forall x, In x l -> key_eqb (h_key x) (h_key s') = false -> P x -> Q x) ->
  Forall P l -> Q s' -> Forall Q (upd_h s' l).
Proof.
  induction l as [|x l IH]; cbn [uniq find_h upd_h]; [discriminate|].
  intros [Hn Hu] Hf Hpq HP Hs. inversion HP as [|? ? Px Pl]; subst.
  destruct (key_eqb (h_key x) (h_key s')) eqn:E.
  - constructor; [exact Hs|]. apply key_eqb_eq in E.
    rewrite Forall_forall in *. intros y Hy. apply Hpq; [now right| |now apply Pl].
    destruct (key_eqb (h_key y) (h_key s')) eqn:Ey; [|reflexivity].
    apply key_eqb_eq in Ey. rewrite <- E in Ey.
    assert (Hc : find_h (h_key x) l <> None).
    { clear - Hy Ey. induction l as [|z l IH]; [destruct Hy|]. cbn [find_h].
      destruct Hy as [->|Hy]; [rewrite Ey, key_eqb_refl; discriminate|].
      destruct (key_eqb (h_key z) (h_key x)); [discriminate|auto]. }
    contradiction.
  - constructor; [apply Hpq; [now left|exact E|exact Px]|].
    apply IH; auto. intros y Hy. apply Hpq. now right.
Qed.

Lemma Forall_del (P : hstream -> Prop) k l : Forall P l -> Forall P (del_h k l).
Proof.
  induction l as [|x l IH]; cbn [del_h]; intros H; [constructor|]. inversion H; subst.
  destruct (key_eqb (h_key x) k); [assumption|constructor; auto].
Qed.


Lemma Forall_upd_key (P Q : hstream -> Prop) s s' k l :
  uniq l -> find_h k l = Some s -> h_key s' = k ->
  (forall x, In x l -> key_eqb (h_key x) k = false -> P x -> Q x) ->
  Forall P l -> Q s' -> Forall Q (upd_h s' l).
Proof. intros Hu Hf Hk. subst k. now apply (Forall_upd_strong P Q s). Qed.

Lemma find_upd_key s' l s k : find_h k l = Some s -> h_key s' = k -> find_h k (upd_h s' l) = Some s'.
Proof. intros Hf Hk. subst k. eapply find_upd_same; eauto. Qed.

Lemma find_upd_live s' l k : find_h k l <> None -> find_h k (upd_h s' l) <> None.
Proof.
  destruct (key_eqb (h_key s') k) eqn:E.
  - apply key_eqb_eq in E. subst k. destruct (find_h (h_key s') l) eqn:F; [|contradiction].
    intros _. erewrite find_upd_same by exact F. discriminate.
  - now rewrite find_upd_other.
Qed.

Lemma find_upd_ne s' l k k' : h_key s' = k -> k' <> k -> find_h k' (upd_h s' l) = find_h k' l.
Proof. intros Hk Hne. apply find_upd_other. rewrite Hk. apply key_eqb_neq. congruence. Qed.

(* ------------------------------------------------------------------------------------------------ the invariant *)

Definition tailof (fl : inflight) (c : codec) (k : key) : Z :=
  match fl with FData k' => if key_eqb k k' then codec_tail c else 0 | _ => 0 end.

Lemma in_flight_tail_tailof st k : in_flight_tail st k = tailof (hs_fl st) (hs_codec st) k.
Proof. reflexivity. Qed.

(* per record: frame sizes are non-negative; every accepted byte is either charged (taken by pop_frame), still buffered, or
   was discarded by clear_queue; buffered_send_data = queued bytes + the tail that is with the codec on this record's behalf *)
Definition sok (fl : inflight) (c : codec) (s : hstream) : Prop :=
  Forall (fun x => 0 <= x) (h_queue s) /\
  h_sub s = h_chg s + h_buf s + h_drop s /\
  h_buf s = sumz (h_queue s) + tailof fl c (h_key s).

(* in_flight_data_frame and the codec agree; the ghost flag says Drop; a tail that will have to be re-queued has a live owner *)
Definition fok (st : hstate) : Prop :=
  match hs_fl st, hs_codec st with
  | FNothing, CEmpty => True
  | FData k, CNext k' rem tail => k' = k /\ 0 <= tail /\ 0 < rem /\ hs_cleared st = false /\
                                  (0 < tail -> find_h k (hs_streams st) <> None)
  | FData k, CLast k' tail => k' = k /\ 0 <= tail /\ hs_cleared st = false /\
                              (0 < tail -> find_h k (hs_streams st) <> None)
  | FDrop, CNext _ rem tail => 0 <= tail /\ 0 < rem /\ hs_cleared st = true
  | FDrop, CLast _ tail => 0 <= tail /\ hs_cleared st = true
  | _, _ => False
  end.

Definition Inv (st : hstate) : Prop :=
  uniq (hs_streams st) /\ Forall (sok (hs_fl st) (hs_codec st)) (hs_streams st) /\ fok st /\ 0 < hs_thr st.

(* take_last_data_frame would return None *)
Definition reclaimed (st : hstate) : Prop := match hs_codec st with CLast _ _ => False | _ => True end.

Lemma init_inv thr : 0 < thr -> Inv (init_state thr).
Proof. intros H. unfold Inv, init_state; cbn. repeat split; auto. Qed.

Lemma sok_same_tail fl c fl' c' s :
  tailof fl' c' (h_key s) = tailof fl c (h_key s) -> sok fl c s -> sok fl' c' s.
Proof. unfold sok. intros E (H1 & H2 & H3). rewrite E. auto. Qed.

(* ------------------------------------------------------------------------------------------------ reclaim *)

Lemma reclaim_inv st :
  Inv st -> match reclaim st with Ok st' _ => Inv st' /\ reclaimed st' | _ => False end.
Proof.
  intros (Hu & Hs & Hf & Ht). unfold reclaim, fok in *.
  destruct (hs_codec st) as [|k rem tail|k tail] eqn:Ec.
  - split; [unfold Inv, fok; rewrite Ec; auto|unfold reclaimed; now rewrite Ec].
  - split; [unfold Inv, fok; rewrite Ec; auto|unfold reclaimed; now rewrite Ec].
  - destruct (hs_fl st) as [|k'|] eqn:Ef.
    + contradiction.
    + destruct Hf as (Hk & Ht0 & Hcl & Hlive). subst k'. rewrite key_eqb_refl. cbn [negb].
      destruct (0 <? tail) eqn:Etl.
      * assert (Hpos : 0 < tail) by lia. specialize (Hlive Hpos).
        destruct (find_h k (hs_streams st)) as [s|] eqn:Efind; [|contradiction].
        pose proof (find_key _ _ _ Efind) as Hks.
        split; [|unfold reclaimed; cbn; trivial].
        unfold Inv, fok; cbn. split; [now apply uniq_upd|]. split; [|auto].
        eapply (Forall_upd_key (sok (FData k) (CLast k tail)) (sok FNothing CEmpty) s _ k);
          [exact Hu|exact Efind|exact Hks| |exact Hs|].
        -- intros x Hx Hxk. apply sok_same_tail. unfold tailof. now rewrite Hxk.
        -- rewrite Forall_forall in Hs. destruct (Hs s (find_In _ _ _ Efind)) as (Q1 & Q2 & Q3).
           unfold sok; cbn [h_queue h_buf h_sub h_chg h_drop h_key sumz tailof].
           unfold tailof in Q3. rewrite Hks, key_eqb_refl in Q3. cbn [codec_tail] in Q3.
           repeat split; [constructor; [lia|exact Q1] | exact Q2 | lia].
      * assert (tail = 0) by lia. subst tail.
        split; [|unfold reclaimed; cbn; trivial].
        unfold Inv, fok; cbn. split; [exact Hu|]. split; [|auto].
        eapply Forall_impl; [|exact Hs]. intros x. apply sok_same_tail.
        unfold tailof. cbn [codec_tail]. destruct (key_eqb (h_key x) k); reflexivity.
    + destruct Hf as (Ht0 & Hcl).
      split; [|unfold reclaimed; cbn; trivial].
      unfold Inv, fok; cbn. split; [exact Hu|]. split; [|auto].
      eapply Forall_impl; [|exact Hs]. intros x. apply sok_same_tail. reflexivity.
Qed.

(* ------------------------------------------------------------------------------------------------ clear / remove *)

Lemma clear_inv st k :
  Inv st -> match clear st k with
            | Ok st' _ => Inv st' /\ hs_codec st' = hs_codec st | Stuck _ => True | Panic _ => False end.
Proof.
  intros (Hu & Hs & Hf & Ht). unfold clear.
  destruct (find_h k (hs_streams st)) as [s|] eqn:Efind; [|trivial].
  pose proof (find_key _ _ _ Efind) as Hks.
  split; [|reflexivity].
  set (fl' := match hs_fl st with FData k' => if key_eqb k k' then FDrop else FData k' | f => f end).
  unfold Inv; cbn [hs_streams hs_fl hs_codec hs_thr set_flight set_streams].
  split; [now apply uniq_upd|]. split; [|split; [|exact Ht]].
  - eapply (Forall_upd_key (sok (hs_fl st) (hs_codec st)) (sok fl' (hs_codec st)) s _ k);
      [exact Hu|exact Efind|exact Hks| |exact Hs|].
    + intros x Hx Hxk. apply sok_same_tail. unfold tailof, fl'.
      destruct (hs_fl st) as [|k'|]; try reflexivity.
      destruct (key_eqb k k') eqn:Ekk; [|reflexivity].
      apply key_eqb_eq in Ekk. subst k'. now rewrite Hxk.
    + rewrite Forall_forall in Hs. destruct (Hs s (find_In _ _ _ Efind)) as (Q1 & Q2 & Q3).
      unfold sok; cbn [h_queue h_buf h_sub h_chg h_drop h_key sumz].
      repeat split; [constructor | lia |].
      unfold tailof, fl'. rewrite Hks. destruct (hs_fl st) as [|k'|]; try reflexivity.
      destruct (key_eqb k k') eqn:Ekk; [reflexivity|]. now rewrite Ekk.
  - unfold fok in *; cbn [hs_fl hs_codec hs_cleared hs_streams set_flight set_streams]. fold fl'.
    destruct (hs_fl st) as [|k'|] eqn:Ef; destruct (hs_codec st) as [|kc rem tail|kc tail] eqn:Ec;
      try contradiction; unfold fl'; cbn [codec_key].
    + trivial.
    + destruct Hf as (Hk & Ht0 & Hr & Hcl & Hlive). subst kc.
      destruct (key_eqb k k') eqn:Ekk; [auto|].
      repeat split; auto. intros Hp. apply find_upd_live. auto.
    + destruct Hf as (Hk & Ht0 & Hcl & Hlive). subst kc.
      destruct (key_eqb k k') eqn:Ekk; [auto|].
      repeat split; auto. intros Hp. apply find_upd_live. auto.
    + destruct Hf as (Ht0 & Hr & Hcl). destruct (key_eqb k kc); auto.
    + destruct Hf as (Ht0 & Hcl). destruct (key_eqb k kc); auto.
Qed.

Lemma remove_inv st k :
  Inv st -> match remove st k with
            | Ok st' _ => Inv st' /\ hs_codec st' = hs_codec st /\ hs_fl st' = hs_fl st /\ hs_cont st' = hs_cont st
            | Stuck _ => True | Panic _ => False end.
Proof.
  intros (Hu & Hs & Hf & Ht). unfold remove.
  destruct (find_h k (hs_streams st)) as [s|] eqn:Efind; [|trivial].
  destruct (h_queue s) as [|q0 q] eqn:Eq; [|trivial].
  destruct (h_buf s =? 0) eqn:Eb; [|trivial].
  split; [|auto]. unfold Inv; cbn [hs_streams hs_fl hs_codec hs_thr set_streams].
  split; [now apply uniq_del|]. split; [now apply Forall_del|]. split; [|exact Ht].
  assert (Hlive : forall k' tail, hs_fl st = FData k' -> codec_tail (hs_codec st) = tail -> 0 < tail ->
                                  find_h k' (hs_streams st) <> None -> find_h k' (del_h k (hs_streams st)) <> None).
  { intros k' tail Ef Ect Hp Hl. destruct (key_eqb k k') eqn:Ekk.
    - apply key_eqb_eq in Ekk. subst k'. exfalso.
      rewrite Forall_forall in Hs. destruct (Hs s (find_In _ _ _ Efind)) as (Q1 & Q2 & Q3).
      rewrite Eq in Q3. cbn [sumz] in Q3. unfold tailof in Q3. rewrite Ef, (find_key _ _ _ Efind), key_eqb_refl, Ect in Q3. lia.
    - now rewrite find_del_other. }
  unfold fok in *; cbn [hs_fl hs_codec hs_cleared hs_streams set_streams].
  destruct (hs_fl st) as [|k'|] eqn:Ef; destruct (hs_codec st) as [|kc rem tail|kc tail] eqn:Ec; try contradiction; auto.
  - destruct Hf as (Hk & Ht0 & Hr & Hcl & Hl). repeat split; auto. intros Hp. eapply Hlive; eauto.
  - destruct Hf as (Hk & Ht0 & Hcl & Hl). repeat split; auto. intros Hp. eapply Hlive; eauto.
Qed.

(* a record whose tail is with the codec cannot be released: `is_closed()` requires buffered_send_data == 0 *)
Lemma owner_not_removable st k :
  Inv st -> hs_fl st = FData k -> 0 < codec_tail (hs_codec st) ->
  match remove st k with Ok _ _ => False | _ => True end.
Proof.
  intros (Hu & Hs & Hf & Ht) Ef Hp. unfold remove.
  destruct (find_h k (hs_streams st)) as [s|] eqn:Efind; [|trivial].
  destruct (h_queue s) as [|q0 q] eqn:Eq; [|trivial].
  destruct (h_buf s =? 0) eqn:Eb; [|trivial].
  rewrite Forall_forall in Hs. destruct (Hs s (find_In _ _ _ Efind)) as (Q1 & Q2 & Q3).
  rewrite Eq in Q3. cbn [sumz] in Q3. unfold tailof in Q3. rewrite Ef, (find_key _ _ _ Efind), key_eqb_refl in Q3. lia.
Qed.

(* ------------------------------------------------------------------------------------------------ buffer_pending *)

Lemma capacity_reclaimed st :
  Inv st -> reclaimed st -> has_capacity st = true -> hs_fl st = FNothing /\ hs_codec st = CEmpty.
Proof.
  intros (Hu & Hs & Hf & Ht) Hr Hc. unfold has_capacity in Hc. apply andb_true_iff in Hc. destruct Hc as [_ Hc].
  unfold reclaimed in Hr. unfold fok in Hf.
  destruct (hs_codec st); try discriminate; try contradiction.
  destruct (hs_fl st); try contradiction; auto.
Qed.

Lemma do_item_inv st it :
  Inv st -> reclaimed st ->
  match do_item st it with Ok st' _ => Inv st' /\ reclaimed st' | Stuck _ => True | Panic _ => False end.
Proof.
  intros HI Hr. destruct it as [k sz len|cont|k|k]; cbn [do_item].
  - destruct (has_capacity st) eqn:Ecap; cbn [negb]; [|trivial].
    destruct (capacity_reclaimed st HI Hr Ecap) as [Ef Ec].
    destruct HI as (Hu & Hs & Hf & Ht).
    destruct (find_h k (hs_streams st)) as [s|] eqn:Efind; [|trivial].
    pose proof (find_key _ _ _ Efind) as Hks.
    destruct (h_queue s) as [|f q] eqn:Eq; [trivial|].
    destruct (f =? sz) eqn:Efs; cbn [negb]; [|trivial]. assert (f = sz) by lia. subst f.
    destruct ((len <? 0) || (sz <? len)) eqn:Elen; [trivial|].
    apply orb_false_iff in Elen. destruct Elen as [El1 El2].
    rewrite Forall_forall in Hs. destruct (Hs s (find_In _ _ _ Efind)) as (Q1 & Q2 & Q3).
    rewrite Eq in Q1, Q3. cbn [sumz] in Q3. unfold tailof in Q3. rewrite Ef in Q3.
    apply Forall_cons_iff in Q1. destruct Q1 as [Hsz Hq].
    assert (Hsum : 0 <= sumz q).
    { clear - Hq. induction q as [|x q IH]; cbn [sumz]; [lia|].
      apply Forall_cons_iff in Hq. destruct Hq as [Hx Hq]. specialize (IH Hq). lia. }
    destruct (h_buf s <? len) eqn:Ebuf; [lia|].
    rewrite Ef.
    set (s' := mkH (h_key s) q (h_buf s - len) (h_sub s) (h_chg s + len) (h_drop s)).
    set (c := if hs_thr st <=? len then CNext k len (sz - len) else CLast k (sz - len)).
    set (st1 := set_flight (set_streams st (upd_h s' (hs_streams st))) (FData k) c false).
    assert (HI1 : Inv st1).
    { unfold Inv, st1; cbn [hs_streams hs_fl hs_codec hs_thr set_flight set_streams].
      split; [now apply uniq_upd|]. split; [|split; [|exact Ht]].
      - eapply (Forall_upd_key (sok FNothing CEmpty) (sok (FData k) c) s _ k); [exact Hu|exact Efind|exact Hks| | |].
        + intros x Hx Hxk. apply sok_same_tail. unfold tailof. now rewrite Hxk.
        + rewrite Forall_forall. intros x Hx. specialize (Hs x Hx). now rewrite Ef, Ec in Hs.
        + unfold sok, s'; cbn [h_queue h_buf h_sub h_chg h_drop h_key].
          unfold tailof. rewrite Hks, key_eqb_refl.
          assert (codec_tail c = sz - len) by (unfold c; destruct (hs_thr st <=? len); reflexivity).
          repeat split; [exact Hq|lia|lia].
      - unfold fok; cbn [hs_fl hs_codec hs_cleared hs_streams set_flight set_streams].
        assert (Hl : find_h k (upd_h s' (hs_streams st)) <> None).
        { apply find_upd_live. rewrite Efind. discriminate. }
        unfold c. destruct (hs_thr st <=? len) eqn:Ethr; repeat split; auto; lia. }
    pose proof (reclaim_inv st1 HI1) as Hrec.
    destruct (reclaim st1) as [st2 o2|n|n]; cbn [add_outs]; auto.
  - destruct (has_capacity st) eqn:Ecap; cbn [negb]; [|trivial].
    destruct (capacity_reclaimed st HI Hr Ecap) as [Ef Ec]. rewrite Ef.
    destruct HI as (Hu & Hs & Hf & Ht).
    split; [|unfold reclaimed; cbn; now rewrite Ec].
    unfold Inv, fok in *; cbn. auto.
  - pose proof (clear_inv st k HI) as H. destruct (clear st k) as [st1 o1|n|n]; auto.
    destruct H as [H1 H2]. split; [exact H1|]. unfold reclaimed in *. now rewrite H2.
  - pose proof (remove_inv st k HI) as H. destruct (remove st k) as [st1 o1|n|n]; auto.
    destruct H as (H1 & H2 & _). split; [exact H1|]. unfold reclaimed in *. now rewrite H2.
Qed.

Lemma do_items_inv its : forall st outs,
  Inv st -> reclaimed st ->
  match do_items st outs its with Ok st' _ => Inv st' /\ reclaimed st' | Stuck _ => True | Panic _ => False end.
Proof.
  induction its as [|it its IH]; intros st outs HI Hr; cbn [do_items]; [auto|].
  pose proof (do_item_inv st it HI Hr) as H.
  destruct (do_item st it) as [st1 o1|n|n]; auto. destruct H as [H1 H2]. now apply IH.
Qed.

(* ------------------------------------------------------------------------------------------------ main safety theorem *)

Theorem step_inv st l :
  Inv st -> match step st l with Ok st' _ => Inv st' | Stuck _ => True | Panic _ => False end.
Proof.
  intros HI. destruct l as [k|k|k sz|k|its| |n|]; cbn [step].
  - destruct (slot_free (fst k) (hs_streams st)) eqn:E1; [|trivial].
    pose proof (slot_free_find k _ E1) as Hnone.
    destruct HI as (Hu & Hs & Hf & Ht). unfold Inv; cbn [hs_streams hs_fl hs_codec hs_thr set_streams uniq h_key].
    split; [auto|]. split; [|split; [|exact Ht]].
    + constructor; [|exact Hs]. unfold sok; cbn [h_queue h_buf h_sub h_chg h_drop h_key sumz].
      split; [constructor|]. split; [lia|]. unfold tailof, fok in *.
      destruct (hs_fl st) as [|k'|] eqn:Ef; try reflexivity.
      destruct (key_eqb k k') eqn:Ekk; [|reflexivity]. apply key_eqb_eq in Ekk. subst k'.
      destruct (hs_codec st) as [|kc rem tail|kc tail]; cbn [codec_tail]; try reflexivity.
      * destruct Hf as (_ & Ht0 & _ & _ & Hl). destruct (Z.eq_dec tail 0); [lia|]. exfalso. apply Hl; [lia|exact Hnone].
      * destruct Hf as (_ & Ht0 & _ & Hl). destruct (Z.eq_dec tail 0); [lia|]. exfalso. apply Hl; [lia|exact Hnone].
    + unfold fok in *; cbn [hs_fl hs_codec hs_cleared hs_streams set_streams find_h h_key].
      destruct (hs_fl st) as [|k'|]; destruct (hs_codec st) as [|kc rem tail|kc tail]; auto.
      * destruct Hf as (A & B & C & D & Hl). repeat split; auto. intros Hp. destruct (key_eqb k k'); [discriminate|auto].
      * destruct Hf as (A & B & D & Hl). repeat split; auto. intros Hp. destruct (key_eqb k k'); [discriminate|auto].
  - pose proof (remove_inv st k HI) as H. destruct (remove st k); auto. tauto.
  - destruct (find_h k (hs_streams st)) as [s|] eqn:Efind; [|trivial].
    destruct (sz <? 0) eqn:Esz; [trivial|].
    pose proof (find_key _ _ _ Efind) as Hks.
    destruct HI as (Hu & Hs & Hf & Ht). unfold Inv; cbn [hs_streams hs_fl hs_codec hs_thr set_streams].
    split; [now apply uniq_upd|]. split; [|split; [|exact Ht]].
    + eapply (Forall_upd_key (sok (hs_fl st) (hs_codec st)) (sok (hs_fl st) (hs_codec st)) s _ k);
        [exact Hu|exact Efind|exact Hks|auto|exact Hs|].
      * rewrite Forall_forall in Hs. destruct (Hs s (find_In _ _ _ Efind)) as (Q1 & Q2 & Q3).
        unfold sok; cbn [h_queue h_buf h_sub h_chg h_drop h_key]. rewrite sumz_app. cbn [sumz].
        repeat split; [apply Forall_app; split; [exact Q1|constructor; [lia|constructor]]|lia|lia].
    + unfold fok in *; cbn [hs_fl hs_codec hs_cleared hs_streams set_streams].
      set (s' := mkH (h_key s) (h_queue s ++ [sz]) (h_buf s + sz) (h_sub s + sz) (h_chg s) (h_drop s)).
      assert (Hl : forall k', find_h k' (hs_streams st) <> None -> find_h k' (upd_h s' (hs_streams st)) <> None).
      { intros k' Hk'. now apply find_upd_live. }
      destruct (hs_fl st) as [|k'|]; destruct (hs_codec st) as [|kc rem tail|kc tail]; auto.
      * destruct Hf as (A & B & C & D & Hl'). repeat split; auto.
      * destruct Hf as (A & B & D & Hl'). repeat split; auto.
  - pose proof (clear_inv st k HI) as H. destruct (clear st k); auto. tauto.
  - pose proof (reclaim_inv st HI) as H. unfold bind.
    destruct (reclaim st) as [st1 o1|n|n]; [|contradiction|contradiction].
    destruct H as [H1 H2]. pose proof (do_items_inv its st1 o1 H1 H2) as H3.
    destruct (do_items st1 o1 its); auto. tauto.
  - pose proof (reclaim_inv st HI) as H. destruct (reclaim st); auto. tauto.
  - destruct HI as (Hu & Hs & Hf & Ht).
    destruct (hs_codec st) as [|k rem tail|k tail] eqn:Ec; [trivial| |trivial].
    destruct ((n <=? 0) || (rem <? n)) eqn:En; [trivial|].
    apply orb_false_iff in En. destruct En as [En1 En2].
    assert (Hsk : forall c', codec_tail c' = tail -> Forall (sok (hs_fl st) c') (hs_streams st)).
    { intros c' Hc'. eapply Forall_impl; [|exact Hs]. intros x. apply sok_same_tail.
      unfold tailof. destruct (hs_fl st); try reflexivity. destruct (key_eqb (h_key x) k0); [|reflexivity]. now rewrite Hc'. }
    destruct (rem =? n) eqn:Ern.
    + unfold Inv; cbn [hs_streams hs_fl hs_codec hs_thr set_flight]. split; [auto|]. split; [now apply Hsk|]. split; [|exact Ht].
      unfold fok in *; cbn [hs_fl hs_codec hs_cleared hs_streams set_flight]. rewrite Ec in Hf.
      destruct (hs_fl st); try contradiction; tauto.
    + unfold Inv; cbn [hs_streams hs_fl hs_codec hs_thr set_flight]. split; [auto|]. split; [now apply Hsk|]. split; [|exact Ht].
      unfold fok in *; cbn [hs_fl hs_codec hs_cleared hs_streams set_flight]. rewrite Ec in Hf.
      destruct (hs_fl st); try contradiction; repeat split; try tauto; lia.
  - destruct (hs_cont st); [|trivial]. destruct HI as (Hu & Hs & Hf & Ht). unfold Inv, fok in *; cbn. auto.
Qed.

Definition run_ok (r : hstate * list (list out) + (N * outcome)) : Prop :=
  match r with
  | inl (st, _) => Inv st
  | inr (_, Stuck _) => True
  | inr (_, _) => False
  end.

Theorem run_inv ls : forall st, Inv st -> run_ok (run st ls).
Proof.
  induction ls as [|l ls IH]; intros st HI; cbn [run run_ok]; [exact HI|].
  pose proof (step_inv st l HI) as H.
  destruct (step st l) as [st1 o1|n|n]; [|exact I|contradiction].
  specialize (IH st1 H). destruct (run st1 ls) as [[st2 os]|[k r]]; cbn [run_ok] in *; [exact IH|].
  destruct r; auto.
Qed.

(* no interleaving reaches a panic of the hand-over code: `wasn't expecting a frame to reclaim`, the key assertion, a
   dangling store key in `store.resolve(key)`, the `in_flight_data_frame == Nothing` assertion, buffered < len *)
Theorem handover_never_panics thr ls k n : 0 < thr -> run (init_state thr) ls <> inr (k, Panic n).
Proof.
  intros Ht E. pose proof (run_inv ls _ (init_inv thr Ht)) as H. rewrite E in H. exact H.
Qed.

(* ------------------------------------------------------------------------------------------------ what reclaim does *)

Definition same_but_queue (s s' : hstream) : Prop :=
  h_key s' = h_key s /\ h_buf s' = h_buf s /\ h_sub s' = h_sub s /\ h_chg s' = h_chg s /\ h_drop s' = h_drop s.

(* With a completely written frame in the codec (last_data_frame = Some), reclaim re-queues the unwritten tail iff the ghost
   flag says the owner's queue was not cleared since staging and there is a tail; then the tail is the new HEAD of the
   owner's queue, the owner is the live record with exactly the staged key (slot and stream id), nothing else changes.
   Otherwise nothing is re-queued anywhere. *)
Theorem reclaim_spec st k tail :
  Inv st -> hs_codec st = CLast k tail ->
  exists st', hs_fl st' = FNothing /\ hs_codec st' = CEmpty /\
  ((hs_cleared st = false /\ 0 < tail /\ reclaim st = Ok st' [ORequeue k tail] /\
    exists s s', find_h k (hs_streams st) = Some s /\ find_h k (hs_streams st') = Some s' /\
                 h_queue s' = tail :: h_queue s /\ same_but_queue s s' /\
                 forall k', k' <> k -> find_h k' (hs_streams st') = find_h k' (hs_streams st))
   \/ (hs_cleared st = true /\ reclaim st = Ok st' [ODiscard k tail] /\ hs_streams st' = hs_streams st)
   \/ (hs_cleared st = false /\ tail = 0 /\ reclaim st = Ok st' [ODone k] /\ hs_streams st' = hs_streams st)).
Proof.
  intros (Hu & Hs & Hf & Ht) Ec. unfold reclaim, fok in *. rewrite Ec in *.
  destruct (hs_fl st) as [|k'|] eqn:Ef; [contradiction| |].
  - destruct Hf as (Hk & Ht0 & Hcl & Hlive). subst k'. rewrite key_eqb_refl. cbn [negb].
    destruct (0 <? tail) eqn:Etl.
    + assert (Hpos : 0 < tail) by lia. specialize (Hlive Hpos).
      destruct (find_h k (hs_streams st)) as [s|] eqn:Efind; [|contradiction].
      pose proof (find_key _ _ _ Efind) as Hks.
      pose (s1 := mkH (h_key s) (tail :: h_queue s) (h_buf s) (h_sub s) (h_chg s) (h_drop s)).
      exists (set_flight (set_streams st (upd_h s1 (hs_streams st))) FNothing CEmpty false).
      split; [reflexivity|]. split; [reflexivity|]. left.
      split; [exact Hcl|]. split; [exact Hpos|]. split; [reflexivity|].
      exists s, s1. split; [reflexivity|]. cbn [hs_streams set_flight set_streams].
      split; [apply (find_upd_key _ _ s); [exact Efind|exact Hks]|].
      split; [reflexivity|]. split; [unfold same_but_queue; cbn; auto|].
      intros k'' Hne. apply (find_upd_ne _ _ k); [exact Hks|exact Hne].
    + assert (tail = 0) by lia. subst tail.
      exists (set_flight st FNothing CEmpty false).
      split; [reflexivity|]. split; [reflexivity|]. right; right. auto.
  - destruct Hf as (Ht0 & Hcl).
    exists (set_flight st FNothing CEmpty false).
    split; [reflexivity|]. split; [reflexivity|]. right; left. auto.
Qed.

(* the ghost flag: set exactly by a clear_queue on the record that owns the codec's frame ... *)
Lemma clear_marks_owner st k st' o :
  codec_key (hs_codec st) = Some k -> clear st k = Ok st' o -> hs_cleared st' = true.
Proof.
  unfold clear. intros Hk. destruct (find_h k (hs_streams st)); [|discriminate].
  intros H; inversion H; subst; cbn. now rewrite Hk, key_eqb_refl.
Qed.

Lemma clear_other_keeps st k kc st' o :
  codec_key (hs_codec st) = Some kc -> k <> kc -> clear st k = Ok st' o -> hs_cleared st' = hs_cleared st.
Proof.
  unfold clear. intros Hk Hne. destruct (find_h k (hs_streams st)); [|discriminate].
  intros H; inversion H; subst; cbn. rewrite Hk. apply key_eqb_neq in Hne. now rewrite Hne.
Qed.

(* ... kept by everything other threads can do besides, and by the codec's own progress *)
Lemma other_labels_keep_cleared st l st' o :
  match l with HNew _ | HRemove _ | HSendData _ _ | HWrite _ | HFlushCont => True | _ => False end ->
  step st l = Ok st' o -> hs_cleared st' = hs_cleared st.
Proof.
  destruct l as [k|k|k sz|k|its| |n|]; try contradiction; intros _; cbn [step].
  - destruct (slot_free (fst k) (hs_streams st)); [|discriminate].
    intros H; inversion H; reflexivity.
  - unfold remove. destruct (find_h k (hs_streams st)) as [s|]; [|discriminate].
    destruct (h_queue s); [|discriminate]. destruct (h_buf s =? 0); [|discriminate]. intros H; inversion H; reflexivity.
  - destruct (find_h k (hs_streams st)); [|discriminate]. destruct (sz <? 0); [discriminate|].
    intros H; inversion H; reflexivity.
  - destruct (hs_codec st) as [|k rem tail|]; try discriminate.
    destruct ((n <=? 0) || (rem <? n)); [discriminate|]. destruct (rem =? n); intros H; inversion H; reflexivity.
  - destruct (hs_cont st); [|discriminate]. intros H; inversion H; reflexivity.
Qed.

Lemma reclaim_cleared st st' o : reclaim st = Ok st' o -> hs_cleared st' = false \/ st' = st.
Proof.
  unfold reclaim. destruct (hs_codec st) as [|kc rem tail|kc tail]; try (intros H; inversion H; right; reflexivity).
  destruct (hs_fl st) as [|k'|]; [discriminate| |].
  - destruct (negb (key_eqb k' kc)); [discriminate|]. destruct (0 <? tail).
    + destruct (find_h kc (hs_streams st)); [|discriminate]. intros H; inversion H; left; reflexivity.
    + intros H; inversion H; left; reflexivity.
  - intros H; inversion H; left; reflexivity.
Qed.

(* a chained frame that stays with the codec when buffer_pending returns was staged with the flag reset *)
Lemma stage_resets_flag st k sz len st' o :
  do_item st (IData k sz len) = Ok st' o -> hs_cleared st' = false.
Proof.
  cbn [do_item]. destruct (negb (has_capacity st)); [discriminate|].
  destruct (find_h k (hs_streams st)) as [s|]; [|discriminate].
  destruct (h_queue s) as [|f q]; [discriminate|].
  destruct (negb (f =? sz)); [discriminate|]. destruct ((len <? 0) || (sz <? len)); [discriminate|].
  destruct (h_buf s <? len); [discriminate|]. destruct (hs_fl st); try discriminate.
  match goal with |- add_outs _ (reclaim ?x) = _ -> _ => destruct (reclaim x) as [st2 o2|n|n] eqn:R end;
    cbn [add_outs]; try discriminate.
  intros H; inversion H; subst. apply reclaim_cleared in R. destruct R as [R|R]; [exact R|]. subst st'. reflexivity.
Qed.

(* ------------------------------------------------------------------------------------------------ accounting *)

(* reclaim charges nothing and discards nothing: buffered_send_data and the three ledgers of every record are unchanged *)
Theorem reclaim_accounting st st' o k s s' :
  reclaim st = Ok st' o -> find_h k (hs_streams st) = Some s -> find_h k (hs_streams st') = Some s' -> same_but_queue s s'.
Proof.
  unfold reclaim. destruct (hs_codec st) as [|kc rem tail|kc tail].
  - intros H; inversion H; subst. intros A B. rewrite A in B. inversion B. unfold same_but_queue; auto.
  - intros H; inversion H; subst. intros A B. rewrite A in B. inversion B. unfold same_but_queue; auto.
  - destruct (hs_fl st) as [|k'|]; [discriminate| |].
    + destruct (negb (key_eqb k' kc)); [discriminate|]. destruct (0 <? tail).
      * destruct (find_h kc (hs_streams st)) as [so|] eqn:Eo; [|discriminate].
        intros H; inversion H; subst; cbn [hs_streams set_flight set_streams]. intros A B.
        pose proof (find_key _ _ _ Eo) as Hko.
        destruct (key_eqb kc k) eqn:E.
        -- apply key_eqb_eq in E. subst k. rewrite Eo in A. inversion A; subst so.
           erewrite find_upd_key in B; [|exact Eo|exact Hko]. inversion B; subst.
           unfold same_but_queue; cbn; auto.
        -- erewrite (find_upd_ne _ _ kc k) in B; [|exact Hko|apply key_eqb_neq; now rewrite key_eqb_sym]. rewrite A in B. inversion B.
           unfold same_but_queue; auto.
      * intros H; inversion H; subst. intros A B. cbn in B. rewrite A in B. inversion B. unfold same_but_queue; auto.
    + intros H; inversion H; subst. intros A B. cbn in B. rewrite A in B. inversion B. unfold same_but_queue; auto.
Qed.

(* the queue as the flow-control model sees it (Model/SendFlow.v, `s_frames`: the in-flight remainder counts as the head
   of its owner's queue) is not changed by reclaim: re-queueing is a stutter of that model, and a dropped tail was already
   removed from it by the clear_queue that dropped it *)
Theorem reclaim_abs_queue st st' o k s s' :
  Inv st -> reclaim st = Ok st' o -> find_h k (hs_streams st) = Some s -> find_h k (hs_streams st') = Some s' ->
  abs_queue st' s' = abs_queue st s.
Proof.
  intros HI Hrec A B. pose proof HI as (Hu & Hs & Hf & Ht).
  pose proof (find_key _ _ _ A) as Hka. pose proof (find_key _ _ _ B) as Hkb.
  destruct (hs_codec st) as [|kc rem tail|kc tail] eqn:Ec.
  - unfold reclaim in Hrec. rewrite Ec in Hrec. inversion Hrec; subst. rewrite A in B. now inversion B.
  - unfold reclaim in Hrec. rewrite Ec in Hrec. inversion Hrec; subst. rewrite A in B. now inversion B.
  - destruct (reclaim_spec st kc tail HI Ec) as (st'' & Hfl & Hcd & Hcases).
    assert (Hnt : forall x, in_flight_tail st' x = 0).
    { intros x. destruct Hcases as [(_ & _ & R & _)|[(_ & R & _)|(_ & _ & R & _)]];
        rewrite R in Hrec; inversion Hrec; subst; unfold in_flight_tail; now rewrite Hfl. }
    unfold abs_queue. rewrite Hnt. cbn [Z.ltb app]. replace (0 <? 0) with false by reflexivity. cbn [app].
    destruct Hcases as [(Hcl & Hp & R & so & so' & Fo & Fo' & Hq & Hsame & Hoth)|[(Hcl & R & Hst)|(Hcl & Hz & R & Hst)]];
      rewrite R in Hrec; inversion Hrec; subst st''.
    + unfold fok in Hf. rewrite Ec in Hf. destruct (hs_fl st) as [|kf|] eqn:Ef; try contradiction.
      * destruct Hf as (Hkk & _). subst kf.
        destruct (key_eqb k kc) eqn:E.
        -- apply key_eqb_eq in E. rewrite E in *. assert (so = s) by congruence. assert (so' = s') by congruence. subst so so'.
           unfold in_flight_tail. rewrite Ef, Hka, key_eqb_refl, Ec. cbn [codec_tail].
           replace (0 <? tail) with true by lia. rewrite Hq. reflexivity.
        -- rewrite Hoth in B by (apply key_eqb_neq; exact E). rewrite A in B. inversion B; subst s'.
           unfold in_flight_tail. rewrite Ef, Hka, E. reflexivity.
      * destruct Hf as (_ & Hc). congruence.
    + rewrite Hst in B. rewrite A in B. inversion B; subst s'.
      unfold fok in Hf. rewrite Ec in Hf. unfold in_flight_tail.
      destruct (hs_fl st) as [|kf|]; try contradiction; [destruct Hf as (_ & _ & Hc & _); congruence|reflexivity].
    + rewrite Hst in B. rewrite A in B. inversion B; subst s'. subst tail.
      unfold in_flight_tail. destruct (hs_fl st); try reflexivity.
      destruct (key_eqb (h_key s) k0); rewrite ?Ec; reflexivity.
Qed.

(* staging (the DATA arm of pop_frame, Encoder::buffer and the reclaim right after it, as one piece of a lock section):
   exactly `len` bytes are charged to the owner and leave its buffered count; in the flow-control model's view of the
   queue the head `sz` is replaced by the remainder `sz - len` (nothing if the frame was taken whole) -- literally the
   `q'` of Model/SendFlow.v's LPopData -- whether the frame is still with the codec or already reclaimed *)
Theorem stage_spec st k sz len st' o s :
  Inv st -> reclaimed st -> do_item st (IData k sz len) = Ok st' o -> find_h k (hs_streams st) = Some s ->
  exists q s', h_queue s = sz :: q /\ find_h k (hs_streams st') = Some s' /\
    h_chg s' = h_chg s + len /\ h_buf s' = h_buf s - len /\ h_sub s' = h_sub s /\ h_drop s' = h_drop s /\
    abs_queue st' s' = (if len <? sz then [sz - len] else []) ++ q /\
    forall k', k' <> k -> find_h k' (hs_streams st') = find_h k' (hs_streams st).
Proof.
  intros HI Hr Hdo Efind. cbn [do_item] in Hdo.
  destruct (has_capacity st) eqn:Ecap; cbn [negb] in Hdo; [|discriminate].
  destruct (capacity_reclaimed st HI Hr Ecap) as [Ef Ec].
  rewrite Efind in Hdo. pose proof (find_key _ _ _ Efind) as Hks.
  destruct (h_queue s) as [|f q] eqn:Eq; [discriminate|].
  destruct (f =? sz) eqn:Efs; cbn [negb] in Hdo; [|discriminate]. assert (f = sz) by lia. subst f.
  destruct ((len <? 0) || (sz <? len)) eqn:Elen; [discriminate|].
  apply orb_false_iff in Elen. destruct Elen as [El1 El2].
  destruct (h_buf s <? len) eqn:Ebuf; [discriminate|]. rewrite Ef in Hdo.
  set (s1 := mkH (h_key s) q (h_buf s - len) (h_sub s) (h_chg s + len) (h_drop s)) in *.
  assert (Hf1 : find_h k (upd_h s1 (hs_streams st)) = Some s1).
  { apply (find_upd_key _ _ s); [exact Efind|exact Hks]. }
  assert (Hoth1 : forall k', k' <> k -> find_h k' (upd_h s1 (hs_streams st)) = find_h k' (hs_streams st)).
  { intros k' Hne. apply (find_upd_ne _ _ k); [exact Hks|exact Hne]. }
  exists q. unfold reclaim in Hdo. cbn [hs_codec hs_fl set_flight set_streams] in Hdo.
  destruct (hs_thr st <=? len) eqn:Ethr; cbn [hs_codec hs_fl hs_streams set_flight set_streams add_outs app] in Hdo.
  - inversion Hdo; subst st' o. cbn [hs_streams set_flight set_streams]. exists s1. rewrite Hf1.
    repeat split; auto. unfold abs_queue, in_flight_tail; cbn [hs_fl hs_codec set_flight set_streams h_key s1 h_queue codec_tail].
    rewrite Hks, key_eqb_refl. destruct (len <? sz) eqn:E1; destruct (0 <? sz - len) eqn:E2; try lia; reflexivity.
  - rewrite key_eqb_refl in Hdo. cbn [negb] in Hdo. destruct (0 <? sz - len) eqn:Etl.
    + rewrite Hf1 in Hdo. cbn [add_outs] in Hdo. inversion Hdo; subst st' o. cbn [hs_streams set_flight set_streams].
      set (s2 := mkH (h_key s1) (sz - len :: h_queue s1) (h_buf s1) (h_sub s1) (h_chg s1) (h_drop s1)).
      exists s2. split; [reflexivity|]. split.
      { apply (find_upd_key _ _ s1); [exact Hf1|exact Hks]. }
      cbn [h_chg h_buf h_sub h_drop s2 s1]. repeat split; auto.
      * unfold abs_queue, in_flight_tail; cbn [hs_fl set_flight]. replace (0 <? 0) with false by reflexivity.
        cbn [app h_queue s2 s1]. replace (len <? sz) with true by lia. reflexivity.
      * intros k' Hne. rewrite (find_upd_ne s2 _ k k' Hks Hne). now apply Hoth1.
    + cbn [add_outs] in Hdo. inversion Hdo; subst st' o. cbn [hs_streams set_flight set_streams]. exists s1. rewrite Hf1.
      repeat split; auto. unfold abs_queue, in_flight_tail; cbn [hs_fl set_flight]. replace (0 <? 0) with false by reflexivity.
      cbn [app h_queue s1]. replace (len <? sz) with false by lia. reflexivity.
Qed.

(* clear_queue discards the whole of buffered_send_data, tail with the codec included, exactly once *)
Theorem clear_spec st k st' o s :
  clear st k = Ok st' o -> find_h k (hs_streams st) = Some s ->
  exists s', find_h k (hs_streams st') = Some s' /\ h_queue s' = [] /\ h_buf s' = 0 /\
             h_drop s' = h_drop s + h_buf s /\ h_chg s' = h_chg s /\ h_sub s' = h_sub s /\ abs_queue st' s' = [].
Proof.
  unfold clear. intros H Efind. rewrite Efind in H. inversion H; subst; clear H.
  pose proof (find_key _ _ _ Efind) as Hks. cbn [hs_streams set_flight set_streams].
  eexists. split.
  { apply (find_upd_key _ _ s); [exact Efind|exact Hks]. }
  cbn [h_queue h_buf h_drop h_chg h_sub]. repeat split; auto.
  unfold abs_queue, in_flight_tail; cbn [hs_fl hs_codec set_flight set_streams h_key h_queue]. rewrite Hks.
  destruct (hs_fl st) as [|k'|]; try reflexivity.
  destruct (key_eqb k k') eqn:E; [reflexivity|]. rewrite E. reflexivity.
Qed.

(* ------------------------------------------------------------------------------------------------ poisoned locks *)

Definition tolerant (m : pmode) : bool := match m with MUnwrap => false | _ => true end.

Theorem unwind_never_aborts ds poisoned : forallb tolerant ds = true -> unwind ds poisoned <> RAborts.
Proof.
  induction ds as [|m ds IH]; cbn [forallb unwind]; [discriminate|].
  rewrite andb_true_iff. intros [Hm Hd].
  destruct m; cbn [tolerant] in Hm; try discriminate; unfold acquire; destruct poisoned; cbn; auto.
Qed.

Theorem unwrap_in_destructor_aborts ds1 ds2 : forallb tolerant ds1 = true -> unwind (ds1 ++ MUnwrap :: ds2) true = RAborts.
Proof.
  induction ds1 as [|m ds IH]; cbn [forallb unwind app]; [reflexivity|].
  rewrite andb_true_iff. intros [Hm Hd]. destruct m; cbn [tolerant] in Hm; try discriminate; cbn; auto.
Qed.

(* a poisoned lock is never silently entered: outside of unwinding every acquisition either runs on a healthy lock,
   panics, or reports an error / skips WITHOUT touching the state *)
Theorem poison_surfaces m : acquire m true false <> RRuns /\ acquire m true false <> RAborts.
Proof. destruct m; cbn; split; discriminate. Qed.

Theorem healthy_lock_runs m p : acquire m false p = RRuns.
Proof. reflexivity. Qed.

(* ------------------------------------------------------------------------------------------------ non-vacuity *)

Definition kA : key := (0%N, 1%N).
Definition kB : key := (0%N, 3%N).    (* a later stream in the same slab slot *)

(* stream 1 queues 5000 bytes; the connection stages 2000 of them as a chained frame; while the codec writes, another
   thread resets stream 1, the record is released, stream 3 re-uses slot 0 and queues data; the codec finishes; the
   relocked section drops the tail (3000 bytes) instead of pushing it onto stream 3 *)
Definition demo_reset : list label :=
  [HNew kA; HSendData kA 5000; HBufferPending [IData kA 5000 2000]; HWrite 700; HClear kA; HRemove kA; HNew kB;
   HSendData kB 40; HWrite 1300; HReclaimWritten].

Example demo_reset_run :
  match run (init_state 1024) demo_reset with
  | inl (st, outs) => nth 9 outs [] = [ODiscard kA 3000] /\ nth 2 outs [] = [OStaged kA 2000 true] /\
                      hs_fl st = FNothing /\ map h_queue (hs_streams st) = [[40]]
  | inr _ => False
  end.
Proof. vm_compute. repeat split. Qed.

(* same without the reset: the tail is back at the front, ahead of data queued meanwhile by another thread *)
Definition demo_requeue : list label :=
  [HNew kA; HSendData kA 5000; HBufferPending [IData kA 5000 2000]; HWrite 700; HSendData kA 77; HWrite 1300;
   HBufferPending []].

Example demo_requeue_run :
  match run (init_state 1024) demo_requeue with
  | inl (st, outs) => nth 6 outs [] = [ORequeue kA 3000] /\ map h_queue (hs_streams st) = [[3000; 77]] /\
                      map h_buf (hs_streams st) = [3077] /\ map h_chg (hs_streams st) = [2000]
  | inr _ => False
  end.
Proof. vm_compute. repeat split. Qed.

Definition demo_last : list label := [HNew kA; HSendData kA 5000; HBufferPending [IData kA 5000 2000]; HWrite 2000].

Example inv_satisfiable : exists st, Inv st /\ hs_codec st = CLast kA 3000 /\ hs_cleared st = false.
Proof.
  pose proof (run_inv demo_last _ (init_inv 1024 ltac:(lia))) as H.
  destruct (run (init_state 1024) demo_last) as [[st os]|[k r]] eqn:E.
  - exists st. split; [exact H|]. vm_compute in E. inversion E; subst. split; reflexivity.
  - vm_compute in E. discriminate.
Qed.

Example unwind_demo : unwind [MPanicUnlessPanicking; MSkip; MPanicUnlessPanicking] true = RSkipped /\
                      unwind [MPanicUnlessPanicking; MUnwrap] true = RAborts.
Proof. split; reflexivity. Qed.
