(* Invariants of the counts model and the C05 theorems. *)
From H2V Require Import Base.Tac Model.Counts.
Local Open Scope Z_scope.

Fixpoint ccount (loc : bool) (l : list (N * bool)) : Z :=
  match l with
  | [] => 0
  | (_, b) :: l' => (if Bool.eqb b loc then 1 else 0) + ccount loc l'
  end.

Fixpoint cnodup (l : list (N * bool)) : bool :=
  match l with [] => true | (k, _) :: l' => negb (cmem k l') && cnodup l' end.

Lemma ccount_nonneg loc l : 0 <= ccount loc l.
Proof. induction l as [|[k b] l IH]; cbn [ccount]; [lia|]. destruct (Bool.eqb b loc); lia. Qed.

Lemma clook_cmem key l : cmem key l = match clook key l with Some _ => true | None => false end.
Proof.
  induction l as [|[k b] l IH]; cbn [cmem clook]; [reflexivity|].
  destruct (N.eqb k key); cbn [orb]; auto.
Qed.

Lemma ccount_del key l b :
  clook key l = Some b ->
  ccount true (cdel key l) = ccount true l - (if b then 1 else 0) /\
  ccount false (cdel key l) = ccount false l - (if b then 0 else 1).
Proof.
  induction l as [|[k c] l IH]; cbn [clook cdel ccount]; [discriminate|].
  destruct (N.eqb k key) eqn:E.
  - intros H; inversion H; subst. destruct b; cbn [Bool.eqb]; lia.
  - intros H. cbn [ccount]. destruct (IH H) as (A & B). rewrite A, B. lia.
Qed.

Lemma cmem_del_other key k l : k <> key -> cmem k (cdel key l) = cmem k l.
Proof.
  intros Hne. induction l as [|[x c] l IH]; cbn [cmem cdel]; [reflexivity|].
  destruct (N.eqb x key) eqn:E.
  - apply N.eqb_eq in E. subst x. destruct (N.eqb key k) eqn:E2; [apply N.eqb_eq in E2; congruence|reflexivity].
  - cbn [cmem]. rewrite IH. reflexivity.
Qed.

Lemma cmem_del_nodup key l : cnodup l = true -> cmem key (cdel key l) = false /\ cnodup (cdel key l) = true.
Proof.
  induction l as [|[x c] l IH]; cbn [cnodup cmem cdel]; [auto|].
  intros H. apply andb_true_iff in H. destruct H as (H1 & H2). apply negb_true_iff in H1.
  destruct (N.eqb x key) eqn:E.
  - apply N.eqb_eq in E. subst x. auto.
  - destruct (IH H2) as (A & B). cbn [cmem cnodup]. rewrite E, A, B. split; [reflexivity|].
    rewrite cmem_del_other; [rewrite H1; reflexivity|]. apply N.eqb_neq in E. congruence.
Qed.

Definition limit_ok (o : option Z) : Prop := match o with None => True | Some m => 0 <= m end.

Definition CInv (st : cstate) : Prop :=
  num_send st = ccount true (counted st) /\ num_recv st = ccount false (counted st) /\
  cnodup (counted st) = true /\
  (p_send st = true -> below (num_send st) (max_send st) = true) /\
  (p_recv st = true -> below (num_recv st) (max_recv st) = true) /\
  (p_lreset st = true -> num_lreset st < max_lreset st) /\
  (p_rreset st = true -> num_rreset st < max_rreset st) /\
  (p_lerr st = true -> below (num_lerr st) (max_lerr st) = true) /\
  0 <= num_lreset st /\ 0 <= num_rreset st /\ 0 <= num_lerr st /\
  limit_ok (max_recv st) /\ match max_recv st with None => True | Some m => num_recv st <= m end.

Ltac simp_c :=
  unfold upd_send, upd_recv, upd_lreset, upd_rreset, upd_lerr, set_permits in *;
  cbn [max_send num_send max_recv num_recv max_lreset num_lreset max_rreset num_rreset max_lerr num_lerr
       p_send p_recv p_lreset p_rreset p_lerr counted] in *.

Definition cstep_ok (r : coutcome) : Prop :=
  match r with COk st' _ => CInv st' | CStuck _ => True | CPanic _ => False end.

Theorem cstep_inv st l : CInv st -> cstep_ok (cstep st l).
Proof.
  intros (I1 & I2 & I3 & P1 & P2 & P3 & P4 & P5 & N1 & N2 & N3 & L1 & L2).
  pose proof (ccount_nonneg true (counted st)) as C1.
  pose proof (ccount_nonneg false (counted st)) as C2.
  destruct l as [| | | | |key|key| | | | |mx ini|key o]; cbn [cstep cstep_ok].
  - (* QSend *) cbn [cstep_ok]; unfold CInv; simp_c. repeat split; auto.
  - cbn [cstep_ok]; unfold CInv; simp_c. repeat split; auto.
  - cbn [cstep_ok]; unfold CInv; simp_c. repeat split; auto. intros H. lia.
  - cbn [cstep_ok]; unfold CInv; simp_c. repeat split; auto. intros H. lia.
  - cbn [cstep_ok]; unfold CInv; simp_c. repeat split; auto.
  - (* IncSend *)
    destruct (p_send st) eqn:Ep; cbn [negb]; [|exact I].
    rewrite (P1 eq_refl). cbn [negb].
    destruct (cmem key (counted st)) eqn:Em.
    + exact I.
    + cbn [cstep_ok]; unfold CInv; simp_c. cbn [ccount cnodup Bool.eqb]. rewrite Em. cbn [negb andb].
      repeat split; auto; try lia; try discriminate.
  - (* IncRecv *)
    destruct (p_recv st) eqn:Ep; cbn [negb]; [|exact I].
    pose proof (P2 eq_refl) as Hb. rewrite Hb. cbn [negb].
    destruct (cmem key (counted st)) eqn:Em; [exact I|].
    cbn [cstep_ok]; unfold CInv; simp_c. cbn [ccount cnodup Bool.eqb]. rewrite Em. cbn [negb andb].
    repeat split; auto; try lia; try discriminate.
    destruct (max_recv st); [|exact I]. unfold below in Hb. lia.
  - (* IncLReset *)
    destruct (p_lreset st) eqn:Ep; cbn [negb]; [|exact I].
    pose proof (P3 eq_refl). destruct (num_lreset st <? max_lreset st) eqn:E; [|lia]. cbn [negb].
    cbn [cstep_ok]; unfold CInv; simp_c. repeat split; auto; try lia; try discriminate.
  - destruct (p_rreset st) eqn:Ep; cbn [negb]; [|exact I].
    pose proof (P4 eq_refl). destruct (num_rreset st <? max_rreset st) eqn:E; [|lia]. cbn [negb].
    cbn [cstep_ok]; unfold CInv; simp_c. repeat split; auto; try lia; try discriminate.
  - destruct (num_rreset st <=? 0) eqn:E; [exact I|].
    cbn [cstep_ok]; unfold CInv; simp_c. repeat split; auto; try lia; try discriminate.
  - destruct (p_lerr st) eqn:Ep; cbn [negb]; [|exact I].
    rewrite (P5 eq_refl). cbn [negb].
    cbn [cstep_ok]; unfold CInv; simp_c. repeat split; auto; try lia; try discriminate.
  - (* CSettings *)
    destruct mx as [v|]; [|destruct ini]; unfold CInv; simp_c; repeat split; auto; try discriminate.
  - (* TransitionAfter *)
    assert (X : forall st1, CInv st1 ->
              cstep_ok (if t_closed o then
                        if negb (t_sched_reset o) && cmem key (counted st1)
                        then if negb (match clook key (counted st1) with Some b => Bool.eqb b (t_local o) | None => false end)
                             then CStuck 8
                             else if t_local o
                                  then if num_send st1 <=? 0 then CPanic 8
                                       else COk (upd_send st1 (max_send st1) (num_send st1 - 1) (cdel key (counted st1))) []
                                  else if num_recv st1 <=? 0 then CPanic 9
                                       else COk (upd_recv st1 (num_recv st1 - 1) (cdel key (counted st1))) []
                        else COk st1 [] else COk st1 [])).
    { intros st1 HI. destruct (t_closed o); [|exact HI].
      destruct HI as (J1 & J2 & J3 & Q1 & Q2 & Q3 & Q4 & Q5 & M1 & M2 & M3 & K1 & K2).
      destruct (negb (t_sched_reset o) && cmem key (counted st1)) eqn:E;
        [|cbn [cstep_ok]; unfold CInv; repeat split; auto].
      apply andb_true_iff in E. destruct E as (_ & Em).
      rewrite clook_cmem in Em.
      destruct (clook key (counted st1)) as [b|] eqn:El; [|discriminate].
      destruct (Bool.eqb b (t_local o)) eqn:Eb; cbn [negb]; [|exact I].
      apply Bool.eqb_prop in Eb. subst b.
      destruct (ccount_del key _ _ El) as (D1 & D2).
      destruct (cmem_del_nodup key _ J3) as (D3 & D4).
      pose proof (ccount_nonneg true (cdel key (counted st1))).
      pose proof (ccount_nonneg false (cdel key (counted st1))).
      destruct (t_local o).
      - destruct (num_send st1 <=? 0) eqn:E0; [cbn [cstep_ok]; lia|].
        cbn [cstep_ok]. cbn [cstep_ok]; unfold CInv; simp_c. repeat split; auto; try lia; try discriminate.
      - destruct (num_recv st1 <=? 0) eqn:E0; [cbn [cstep_ok]; lia|].
        cbn [cstep_ok]. cbn [cstep_ok]; unfold CInv; simp_c. repeat split; auto; try lia; try discriminate.
        destruct (max_recv st1); [lia|exact I]. }
    destruct (negb (t_pending_reset o) && t_reset_counted o).
    + destruct (num_lreset st <=? 0) eqn:E; [exact I|].
      apply X. cbn [cstep_ok]; unfold CInv; simp_c. repeat split; auto; try lia; try discriminate.
    + apply X. unfold CInv. repeat split; auto.
Qed.

(* The slot of a locally reset stream is given back exactly when the record has left the reset-expiration
   queue - whether or not its RST_STREAM frame has been flushed yet (t_closed).  Before fix b... of /repo the
   decrement sat inside the `is_closed()` branch and was lost for a record that expired while its RST_STREAM
   was still queued (reset_slot_fix_needed). *)
Lemma reset_slot_returned st key o st' outs :
  cstep st (TransitionAfter key o) = COk st' outs ->
  num_lreset st' = if negb (t_pending_reset o) && t_reset_counted o then num_lreset st - 1 else num_lreset st.
Proof.
  cbn [cstep]. destruct (negb (t_pending_reset o) && t_reset_counted o).
  - destruct (num_lreset st <=? 0); [discriminate|].
    destruct (t_closed o).
    + destruct (negb (t_sched_reset o) && cmem key (counted (upd_lreset st (num_lreset st - 1)))).
      * destruct (negb _); [discriminate|]. destruct (t_local o).
        -- destruct (_ <=? 0); [discriminate|]. intros H; injection H as <- _. simp_c. reflexivity.
        -- destruct (_ <=? 0); [discriminate|]. intros H; injection H as <- _. simp_c. reflexivity.
      * intros H; injection H as <- _. simp_c. reflexivity.
    + intros H; injection H as <- _. simp_c. reflexivity.
  - destruct (t_closed o).
    + destruct (negb (t_sched_reset o) && cmem key (counted st)).
      * destruct (negb _); [discriminate|]. destruct (t_local o).
        -- destruct (_ <=? 0); [discriminate|]. intros H; injection H as <- _. simp_c. reflexivity.
        -- destruct (_ <=? 0); [discriminate|]. intros H; injection H as <- _. simp_c. reflexivity.
      * intros H; injection H as <- _. reflexivity.
    + intros H; injection H as <- _. reflexivity.
Qed.

(* the step as it was before the fix: nothing happens unless the record is closed *)
Definition cstep_prefix (st : cstate) (key : N) (o : tobs) : coutcome :=
  if t_closed o then cstep st (TransitionAfter key o) else COk st [].

Lemma reset_slot_fix_needed :
  exists st key o, cstep_prefix st key o = COk st [] /\ t_pending_reset o = false /\ t_reset_counted o = true /\
                   num_lreset st = 1 /\
                   match cstep st (TransitionAfter key o) with COk st' _ => num_lreset st' = 0 | _ => False end.
Proof.
  exists (mkC None 0 None 0 10 1 10 0 None 0 false false false false false []), 1%N, (mkT false false true false false).
  vm_compute. repeat split.
Qed.

Lemma cinit_inv ms mr mlr mrr mle : limit_ok mr -> CInv (cinit ms mr mlr mrr mle).
Proof.
  intros H. unfold CInv, cinit. cbn [max_send num_send max_recv num_recv max_lreset num_lreset max_rreset num_rreset
    max_lerr num_lerr p_send p_recv p_lreset p_rreset p_lerr counted ccount cnodup].
  repeat split; auto; try lia; try discriminate.
  all: try (destruct mr; cbn [limit_ok] in *; auto; lia).
Qed.

(* every reachable state satisfies the invariant; no assert of counts.rs can fire *)
Theorem crun_inv ls : forall st,
  CInv st ->
  match crun st ls with
  | inl (Some (st', _)) => CInv st'
  | inl None => True
  | inr (_, CPanic _) => False
  | inr (_, _) => True
  end.
Proof.
  induction ls as [|l ls IH]; intros st HI; cbn [crun]; [exact HI|].
  pose proof (cstep_inv st l HI) as X.
  destruct (cstep st l) as [st1 o1|n|n]; cbn [cstep_ok] in X; auto.
  specialize (IH st1 X).
  destruct (crun st1 ls) as [[[st2 os]|]|[k r]]; [exact IH|exact I|destruct r; exact IH].
Qed.

(* C05, send direction: a locally initiated stream is admitted (counted, its HEADERS released to
   the wire) only in a state where the number of counted local streams is below the limit in force *)
Theorem C05_send_admission st key st' outs :
  CInv st -> cstep st (IncSend key) = COk st' outs ->
  below (num_send st) (max_send st) = true /\ num_send st' = num_send st + 1 /\
  match max_send st' with None => True | Some m => num_send st' <= m end.
Proof.
  intros (I1 & I2 & I3 & P1 & _) E. cbn [cstep] in E.
  destruct (p_send st) eqn:Ep; cbn [negb] in E; [|discriminate].
  pose proof (P1 eq_refl) as Hb. rewrite Hb in E. cbn [negb] in E.
  destruct (cmem key (counted st)); [discriminate|]. inversion E; subst. simp_c.
  repeat split; auto. destruct (max_send st); [unfold below in Hb; lia|exact I].
Qed.

(* C05, receive direction: the number of counted peer-initiated streams never exceeds the advertised limit *)
Theorem C05_recv_limit st : CInv st -> match max_recv st with None => True | Some m => num_recv st <= m end.
Proof. intros H. apply H. Qed.

(* C05, recycling: whenever transition_after sees a closed stream that is not a scheduled reset, the
   stream no longer occupies a slot afterwards, and the matching counter went down by exactly one if
   it did occupy one *)
Theorem C05_slot_recycled st key o st' outs :
  CInv st -> cstep st (TransitionAfter key o) = COk st' outs ->
  t_closed o = true -> t_sched_reset o = false ->
  cmem key (counted st') = false /\
  (cmem key (counted st) = true ->
     if t_local o then num_send st' = num_send st - 1 /\ num_recv st' = num_recv st
     else num_recv st' = num_recv st - 1 /\ num_send st' = num_send st) /\
  (cmem key (counted st) = false -> num_send st' = num_send st /\ num_recv st' = num_recv st).
Proof.
  intros (I1 & I2 & I3 & _) E Hc Hs. cbn [cstep] in E. rewrite Hc, Hs in E. cbn [negb andb] in E.
  assert (Y : forall st1, counted st1 = counted st -> num_send st1 = num_send st -> num_recv st1 = num_recv st ->
            (if cmem key (counted st1)
             then if negb (match clook key (counted st1) with Some b => Bool.eqb b (t_local o) | None => false end)
                  then CStuck 8
                  else if t_local o
                       then if num_send st1 <=? 0 then CPanic 8
                            else COk (upd_send st1 (max_send st1) (num_send st1 - 1) (cdel key (counted st1))) []
                       else if num_recv st1 <=? 0 then CPanic 9
                            else COk (upd_recv st1 (num_recv st1 - 1) (cdel key (counted st1))) []
             else COk st1 []) = COk st' outs ->
            cmem key (counted st') = false /\
            (cmem key (counted st) = true ->
               if t_local o then num_send st' = num_send st - 1 /\ num_recv st' = num_recv st
               else num_recv st' = num_recv st - 1 /\ num_send st' = num_send st) /\
            (cmem key (counted st) = false -> num_send st' = num_send st /\ num_recv st' = num_recv st)).
  { intros st1 E1 E2 E3 H. rewrite E1 in H.
    destruct (cmem key (counted st)) eqn:Em.
    - match type of H with (if ?c then _ else _) = _ => destruct c; [discriminate|] end.
      destruct (cmem_del_nodup key _ I3) as (D3 & _).
      destruct (t_local o).
      + destruct (num_send st1 <=? 0); [discriminate|]. inversion H; subst. simp_c.
        split; [exact D3|]. split; [intros _; lia|discriminate].
      + destruct (num_recv st1 <=? 0); [discriminate|]. inversion H; subst. simp_c.
        split; [exact D3|]. split; [intros _; lia|discriminate].
    - inversion H; subst. rewrite E1. split; [exact Em|]. split; [discriminate|intros _; lia]. }
  destruct (negb (t_pending_reset o) && t_reset_counted o).
  - destruct (num_lreset st <=? 0); [discriminate|]. apply (Y (upd_lreset st (num_lreset st - 1))); auto.
  - apply (Y st); auto.
Qed.

(* non-vacuity: limit 1, two requests; the second is admitted only after the first closed *)
Definition demo_clabels : list clabel :=
  [ QSend; IncSend 1; QSend; TransitionAfter 1 (mkT true false false false true); QSend; IncSend 2 ].
Example demo_counts :
  match crun (cinit (Some 1) (Some 5) 10 20 None) demo_clabels with
  | inl (Some (st, outs)) => num_send st = 1 /\ outs = [[CBool true]; []; [CBool false]; []; [CBool true]; []]
  | _ => False
  end.
Proof. vm_compute. split; reflexivity. Qed.
