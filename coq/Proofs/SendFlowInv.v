(* Invariants of the send-flow model: conservation of assigned capacity (S1), per-stream bounds
   (S2), absence of panics, and preservation by every label. *)
From H2V Require Import Base.Tac Model.SendFlow Proofs.SendFlowLists.
Local Open Scope Z_scope.

Ltac simp_s :=
  unfold put, set_strs, set_cavail, set_cwin, set_cinit, set_avail, set_win, set_req, set_bufq,
         set_capinc, set_parked, set_dead in *;
  cbn [s_id s_win s_avail s_req s_buf s_frames s_capinc s_parked s_dead
       c_win c_avail c_maxbuf c_init c_strs] in *.

Definition s_ok (s : sstream) : Prop :=
  0 <= s_avail s /\ s_avail s <= as_size (s_win s) /\ s_avail s <= s_req s /\
  sumz (s_frames s) = s_buf s /\ Forall (fun f => 0 <= f) (s_frames s) /\
  MINW <= s_win s /\ s_win s <= MAXW /\ s_req s <= U32MAX.

(* [d] is capacity that has been claimed from streams and not yet handed back to the connection *)
Definition InvD (d : Z) (st : fstate) : Prop :=
  0 <= c_avail st /\ sum_avail (c_strs st) + c_avail st + d = c_win st /\ c_win st <= MAXW /\
  0 <= c_maxbuf st /\ 0 <= c_init st /\ c_init st <= MAXW /\
  Forall s_ok (c_strs st) /\ NoDup (map s_id (c_strs st)).

Definition Inv (st : fstate) : Prop := InvD 0 st.

Definition same_num (s s1 : sstream) : Prop :=
  s_id s1 = s_id s /\ s_win s1 = s_win s /\ s_avail s1 = s_avail s /\ s_req s1 = s_req s /\
  s_buf s1 = s_buf s /\ s_frames s1 = s_frames s.

Lemma s_ok_same s s1 : same_num s s1 -> s_ok s -> s_ok s1.
Proof.
  unfold same_num, s_ok. intros (_ & -> & -> & -> & -> & ->). auto.
Qed.

Lemma notify_same mb prev s s1 outs : notify_if_up mb prev s = (s1, outs) -> same_num s s1.
Proof.
  unfold notify_if_up. destruct (prev <? capacity mb s); intros H; inversion H; subst;
  unfold same_num; simp_s; repeat split; reflexivity.
Qed.

Lemma sumz_nonneg l : Forall (fun f => 0 <= f) l -> 0 <= sumz l.
Proof. induction 1; cbn [sumz]; lia. Qed.

Lemma s_ok_avail_nonneg l : Forall s_ok l -> Forall (fun s => 0 <= s_avail s) l.
Proof. apply Forall_impl. intros s H. apply H. Qed.

Lemma as_size_nonneg z : 0 <= z -> as_size z = z.
Proof. unfold as_size. lia. Qed.

Lemma in_i32_true z : MINW <= z <= MAXW -> in_i32 z = true.
Proof. unfold in_i32, MINW, MAXW. lia. Qed.

(* facts preserved by the steps that never touch the connection window / configuration *)
Definition frame_eq (st st' : fstate) : Prop :=
  c_win st' = c_win st /\ c_init st' = c_init st /\ c_maxbuf st' = c_maxbuf st /\
  map s_id (c_strs st') = map s_id (c_strs st).

Lemma frame_refl st : frame_eq st st.
Proof. unfold frame_eq; auto. Qed.

Lemma frame_trans a b c : frame_eq a b -> frame_eq b c -> frame_eq a c.
Proof. unfold frame_eq. intros (A1 & A2 & A3 & A4) (B1 & B2 & B3 & B4). repeat split; congruence. Qed.

(* put of an updated record under InvD *)
Lemma InvD_put d st s s' da :
  InvD d st -> find_s (s_id s') (c_strs st) = Some s -> s_ok s' ->
  s_avail s' = s_avail s + da ->
  InvD (d - da) (put st s').
Proof.
  intros (H1 & H2 & H3 & H4 & H5 & H6 & H7 & H8) F Hok Hav.
  unfold InvD. simp_s. repeat split; auto.
  - rewrite (sum_upd s s' _ H8 F). lia.
  - apply Forall_upd; auto.
  - rewrite upd_ids. auto.
Qed.

Lemma put_frame st s' : frame_eq st (put st s').
Proof. unfold frame_eq. simp_s. repeat split; auto. apply upd_ids. Qed.

Lemma try_assign_spec d st sid o :
  0 <= d -> InvD d st ->
  exists st' outs, try_assign st sid o = Ok st' outs /\ InvD d st' /\ frame_eq st st'
  \/ try_assign st sid o = Stuck 1%N.
Proof.
  intros Hd HI. unfold try_assign.
  destruct (find_s sid (c_strs st)) as [s|] eqn:F; [|exists st, []; right; reflexivity].
  pose proof HI as (H1 & H2 & H3 & H4 & H5 & H6 & H7 & H8).
  pose proof (Forall_find _ _ _ _ H7 F) as (K1 & K2 & K3 & K5 & K6 & K7 & K8 & K9).
  pose proof (find_s_id _ _ _ F) as Hid.
  pose proof (sum_avail_nonneg _ (s_ok_avail_nonneg _ H7)) as Hs.
  destruct (o_pending_open o); [exists st, []; left; split; [reflexivity|split; [assumption|apply frame_refl]]|].
  rewrite (as_size_nonneg (s_avail s)) by assumption.
  destruct (s_req s <? s_avail s) eqn:E1; [exfalso; lia|].
  destruct (as_size (s_win s) <? s_avail s) eqn:E2; [exfalso; lia|].
  set (additional := Z.min (s_req s - s_avail s) (as_size (s_win s) - s_avail s)).
  destruct (additional =? 0) eqn:E3; [exists st, []; left; split; [reflexivity|split; [assumption|apply frame_refl]]|].
  destruct (negb (o_streaming o) && (s_buf s =? 0)) eqn:E4;
    [exists st, []; left; split; [reflexivity|split; [assumption|apply frame_refl]]|].
  rewrite (as_size_nonneg (c_avail st)) by assumption.
  destruct (0 <? c_avail st) eqn:E5; [|exists st, []; left; split; [reflexivity|split; [assumption|apply frame_refl]]].
  set (assign := Z.min (c_avail st) additional).
  assert (Ha : 0 < assign /\ assign <= c_avail st /\ assign <= s_req s - s_avail s /\
               assign <= as_size (s_win s) - s_avail s) by (unfold assign, additional in *; lia).
  assert (Hws : as_size (s_win s) <= MAXW) by (unfold as_size, MAXW in *; lia).
  rewrite in_i32_true by (unfold MINW, MAXW in *; lia).
  cbn [negb].
  destruct (notify_if_up (c_maxbuf st) (capacity (c_maxbuf st) s) (set_avail s (s_avail s + assign))) as [s1 outs] eqn:En.
  pose proof (notify_same _ _ _ _ _ En) as Hsame.
  rewrite in_i32_true by (unfold MINW, MAXW in *; lia).
  cbn [negb].
  exists (set_cavail (put st s1) (c_avail st - assign)), outs. left. split; [reflexivity|].
  destruct Hsame as (S1 & S2 & S3 & S4 & S5 & S6). simp_s.
  assert (Hok1 : s_ok s1).
  { unfold s_ok. rewrite S2, S3, S4, S5, S6. repeat split; auto; lia. }
  assert (F1 : find_s (s_id s1) (c_strs st) = Some s) by (rewrite S1, Hid; exact F).
  split.
  - unfold InvD. simp_s. repeat split; auto; try lia.
    + rewrite (sum_upd s s1 _ H8 F1). lia.
    + apply Forall_upd; auto.
    + rewrite upd_ids; auto.
  - unfold frame_eq. simp_s. repeat split; auto. apply upd_ids.
Qed.

Lemma try_assign_inv d st sid o st' outs :
  0 <= d -> InvD d st -> try_assign st sid o = Ok st' outs -> InvD d st' /\ frame_eq st st'.
Proof.
  intros Hd HI E. destruct (try_assign_spec d st sid o Hd HI) as (st1 & o1 & [(E1 & HI1 & HF)|E1]).
  - rewrite E in E1. inversion E1; subst. auto.
  - rewrite E in E1. discriminate.
Qed.

Lemma try_assign_no_panic d st sid o n :
  0 <= d -> InvD d st -> try_assign st sid o <> Panic n.
Proof.
  intros Hd HI E. destruct (try_assign_spec d st sid o Hd HI) as (st1 & o1 & [(E1 & _)|E1]);
  rewrite E in E1; discriminate.
Qed.

Lemma InvD_set_cavail d st a :
  InvD d st -> 0 <= a -> InvD (d + c_avail st - a) (set_cavail st a).
Proof.
  intros (H1 & H2 & H3 & H4 & H5 & H6 & H7 & H8) Ha. unfold InvD. simp_s. repeat split; auto. lia.
Qed.

Lemma visit_all_inv d vs : forall st outs st' outs',
  0 <= d -> InvD d st -> visit_all st outs vs = Ok st' outs' -> InvD d st' /\ frame_eq st st'.
Proof.
  induction vs as [|v vs IH]; cbn [visit_all]; intros st outs st' outs' Hd HI E.
  - inversion E; subst. split; [assumption|apply frame_refl].
  - destruct (c_avail st <=? 0); [discriminate|].
    destruct (try_assign st (v_sid v) (v_obs v)) as [st1 o1| |] eqn:Et; try discriminate.
    destruct (try_assign_inv _ _ _ _ _ _ Hd HI Et) as (HI1 & HF1).
    destruct (IH _ _ _ _ Hd HI1 E) as (HI2 & HF2).
    split; [assumption|eapply frame_trans; eauto].
Qed.

Lemma visit_all_no_panic d vs : forall st outs n,
  0 <= d -> InvD d st -> visit_all st outs vs <> Panic n.
Proof.
  induction vs as [|v vs IH]; cbn [visit_all]; intros st outs n Hd HI E; [discriminate|].
  destruct (c_avail st <=? 0); [discriminate|].
  destruct (try_assign st (v_sid v) (v_obs v)) as [st1 o1| |] eqn:Et; try discriminate.
  - destruct (try_assign_inv _ _ _ _ _ _ Hd HI Et) as (HI1 & _). eapply IH; eauto.
  - eapply try_assign_no_panic; eauto.
Qed.

(* assign_connection_capacity hands [inc] of the debt back *)
Lemma assign_conn_inv d st inc vs st' outs :
  0 <= inc <= d -> InvD d st -> assign_conn st inc vs = Ok st' outs ->
  InvD (d - inc) st' /\ frame_eq st st'.
Proof.
  intros Hd HI. unfold assign_conn.
  destruct (negb (in_i32 (c_avail st + inc))); [discriminate|].
  intros E.
  assert (HI0 : InvD (d - inc) (set_cavail st (c_avail st + inc))).
  { pose proof HI as (H1 & _). pose proof (InvD_set_cavail d st (c_avail st + inc) HI ltac:(lia)) as X.
    replace (d + c_avail st - (c_avail st + inc)) with (d - inc) in X by lia. exact X. }
  destruct (visit_all_inv (d - inc) vs _ _ _ _ ltac:(lia) HI0 E) as (HI1 & HF).
  split; [assumption|]. eapply frame_trans; [|exact HF]. unfold frame_eq; simp_s; auto.
Qed.

Lemma assign_conn_no_panic d st inc vs n :
  0 <= inc <= d -> InvD d st -> assign_conn st inc vs <> Panic n.
Proof.
  intros Hd HI. unfold assign_conn.
  pose proof HI as (H1 & H2 & H3 & H4 & H5 & H6 & H7 & H8).
  pose proof (sum_avail_nonneg _ (s_ok_avail_nonneg _ H7)) as Hs.
  rewrite in_i32_true by (unfold MINW, MAXW in *; lia). cbn [negb].
  assert (HI0 : InvD (d - inc) (set_cavail st (c_avail st + inc))).
  { pose proof (InvD_set_cavail d st (c_avail st + inc) HI ltac:(lia)) as X.
    replace (d + c_avail st - (c_avail st + inc)) with (d - inc) in X by lia. exact X. }
  apply (visit_all_no_panic (d - inc)); [lia|assumption].
Qed.

(* ------------------------------------------------------------------------------------------- *)
(* building blocks: every composite keeps InvD d0 for an arbitrary outstanding debt d0 >= 0 *)

Lemma sumz_app a b : sumz (a ++ b) = sumz a + sumz b.
Proof. induction a as [|x a IH]; cbn [app sumz]; lia. Qed.

Lemma InvD_put0 d st s s' :
  InvD d st -> find_s (s_id s') (c_strs st) = Some s -> s_ok s' -> s_avail s' = s_avail s ->
  InvD d (put st s').
Proof.
  intros HI F Hok Hav.
  pose proof (InvD_put d st s s' 0 HI F Hok ltac:(lia)) as X.
  replace (d - 0) with d in X by lia. exact X.
Qed.

Lemma InvD_put_same d st s s' :
  InvD d st -> find_s (s_id s') (c_strs st) = Some s -> same_num s s' -> InvD d (put st s').
Proof.
  intros HI F Hs.
  pose proof HI as (_ & _ & _ & _ & _ & _ & H7 & _).
  pose proof (s_ok_same _ _ Hs (Forall_find _ _ _ _ H7 F)) as Hok.
  destruct Hs as (_ & _ & S3 & _).
  apply (InvD_put0 d st s s' HI F Hok S3).
Qed.

Lemma find_put_same st s s' :
  find_s (s_id s') (c_strs st) = Some s -> find_s (s_id s') (c_strs (put st s')) = Some s'.
Proof. intros F. simp_s. apply find_upd_same with (s := s). exact F. Qed.

Definition outcome_ok (d' : Z) (r : outcome) : Prop :=
  match r with
  | Ok st' _ => InvD d' st'
  | Stuck _ => True
  | Panic _ => False
  end.

Lemma try_assign_ok d st sid o : 0 <= d -> InvD d st -> outcome_ok d (try_assign st sid o).
Proof.
  intros Hd HI. destruct (try_assign st sid o) as [st' outs|n|n] eqn:E; cbn [outcome_ok]; auto.
  - eapply try_assign_inv; eauto.
  - eapply try_assign_no_panic; eauto.
Qed.

Lemma assign_conn_ok d st inc vs :
  0 <= inc <= d -> InvD d st -> outcome_ok (d - inc) (assign_conn st inc vs).
Proof.
  intros Hd HI. destruct (assign_conn st inc vs) as [st' outs|n|n] eqn:E; cbn [outcome_ok]; auto.
  - eapply assign_conn_inv; eauto.
  - eapply assign_conn_no_panic; eauto.
Qed.

Lemma add_outs_ok d' pre r : outcome_ok d' r -> outcome_ok d' (add_outs pre r).
Proof. destruct r; cbn [add_outs outcome_ok]; auto. Qed.

Lemma vs_nil_ok d st (vs : list visit) n :
  InvD d st -> outcome_ok d (match vs with [] => Ok st [] | _ => Stuck n end).
Proof. intros HI. destruct vs; cbn [outcome_ok]; auto. Qed.

Lemma bind_ok d r f :
  outcome_ok d r -> (forall st1 o1, InvD d st1 -> outcome_ok d (f st1 o1)) -> outcome_ok d (bind r f).
Proof.
  intros Hr Hf. destruct r as [st1 o1|n|n]; cbn [bind outcome_ok] in *; auto.
Qed.

Ltac stream_facts HI F :=
  let H1 := fresh "H1" in let H2 := fresh "H2" in let H3 := fresh "H3" in let H4 := fresh "H4" in
  let H5 := fresh "H5" in let H6 := fresh "H6" in let H7 := fresh "H7" in let H8 := fresh "H8" in
  pose proof HI as (H1 & H2 & H3 & H4 & H5 & H6 & H7 & H8);
  let K1 := fresh "K1" in let K2 := fresh "K2" in let K3 := fresh "K3" in let K5 := fresh "K5" in
  let K6 := fresh "K6" in let K7 := fresh "K7" in let K8 := fresh "K8" in let K9 := fresh "K9" in
  pose proof (Forall_find _ _ _ _ H7 F) as (K1 & K2 & K3 & K5 & K6 & K7 & K8 & K9);
  let Hid := fresh "Hid" in pose proof (find_s_id _ _ _ F) as Hid;
  let Hb := fresh "Hb" in pose proof (sumz_nonneg _ K6) as Hb;
  let Hs := fresh "Hs" in pose proof (sum_avail_nonneg _ (s_ok_avail_nonneg _ H7)) as Hs.

(* claim [amount] from a record, then hand it back through assign_connection_capacity *)
Lemma claim_then_assign d st s s' amount vs :
  0 <= d -> InvD d st -> find_s (s_id s') (c_strs st) = Some s -> s_ok s' ->
  s_avail s' = s_avail s - amount -> 0 <= amount ->
  outcome_ok d (assign_conn (put st s') amount vs).
Proof.
  intros Hd HI F Hok Hav Ham.
  pose proof (InvD_put d st s s' (- amount) HI F Hok ltac:(lia)) as X.
  replace (d - - amount) with (d + amount) in X by lia.
  pose proof (assign_conn_ok (d + amount) (put st s') amount vs ltac:(lia) X) as Y.
  replace (d + amount - amount) with d in Y by lia. exact Y.
Qed.

(* reclaim_all_capacity *)
Lemma reclaim_all_ok d st sid vs : 0 <= d -> InvD d st -> outcome_ok d (reclaim_all st sid vs).
Proof.
  intros Hd HI. unfold reclaim_all.
  destruct (find_s sid (c_strs st)) as [s|] eqn:F; [|exact I].
  stream_facts HI F.
  rewrite (as_size_nonneg (s_avail s)) by assumption.
  destruct (0 <? s_avail s) eqn:E.
  - set (s' := set_avail s (s_avail s - s_avail s)).
    apply (claim_then_assign d st s s' (s_avail s)); [lia|exact HI| | | |lia].
    + unfold s'; simp_s; rewrite Hid; exact F.
    + unfold s', s_ok; simp_s; repeat split; auto; unfold as_size; lia.
    + unfold s'; simp_s; lia.
  - apply vs_nil_ok. exact HI.
Qed.

(* reclaim_reserved_capacity *)
Lemma reclaim_reserved_ok d st sid vs : 0 <= d -> InvD d st -> outcome_ok d (reclaim_reserved st sid vs).
Proof.
  intros Hd HI. unfold reclaim_reserved.
  destruct (find_s sid (c_strs st)) as [s|] eqn:F; [|exact I].
  stream_facts HI F.
  rewrite (as_size_nonneg (s_avail s)) by assumption.
  destruct (s_buf s <? s_avail s) eqn:E.
  - set (r := s_avail s - s_buf s).
    set (s' := set_avail s (s_avail s - r)).
    apply (claim_then_assign d st s s' r); [lia|exact HI| | | |unfold r; lia].
    + unfold s'; simp_s; rewrite Hid; exact F.
    + unfold s', s_ok, r; simp_s; repeat split; auto; unfold as_size in *; lia.
    + unfold s'; simp_s; reflexivity.
  - apply vs_nil_ok. exact HI.
Qed.

(* clear_queue followed by reclaim_all_capacity (send_reset, handle_error, the scheduled-reset arm
   of pop_frame): the record transiently has available > requested = 0 in between *)
Lemma clear_then_reclaim_ok d st sid vs :
  0 <= d -> InvD d st ->
  outcome_ok d (bind (clear_queue st sid) (fun st1 o1 => add_outs o1 (reclaim_all st1 sid vs))).
Proof.
  intros Hd HI. unfold clear_queue.
  destruct (find_s sid (c_strs st)) as [s|] eqn:F; [|exact I].
  cbn [bind]. apply add_outs_ok.
  stream_facts HI F.
  set (sc := set_req (set_bufq s 0 []) 0).
  assert (Fc : find_s (s_id sc) (c_strs st) = Some s) by (unfold sc; simp_s; rewrite Hid; exact F).
  unfold reclaim_all.
  replace sid with (s_id sc) by (unfold sc; simp_s; exact Hid).
  rewrite (find_put_same st s sc Fc).
  assert (Hav : s_avail sc = s_avail s) by (unfold sc; simp_s; reflexivity).
  rewrite Hav. rewrite (as_size_nonneg (s_avail s)) by assumption.
  destruct (0 <? s_avail s) eqn:E.
  - set (s' := set_avail sc (s_avail s - s_avail s)).
    assert (Hput : put (put st sc) s' = put st s').
    { unfold put, set_strs. cbn [c_win c_avail c_maxbuf c_init c_strs]. f_equal.
      apply upd_upd. unfold s', sc; simp_s; reflexivity. }
    rewrite Hput.
    apply (claim_then_assign d st s s' (s_avail s)); [lia|exact HI| | | |lia].
    + unfold s', sc; simp_s; rewrite Hid; exact F.
    + unfold s', sc, s_ok; simp_s; repeat split; auto; unfold as_size; lia.
    + unfold s', sc; simp_s; lia.
  - apply vs_nil_ok.
    apply (InvD_put0 d st s sc HI Fc); [|exact Hav].
    unfold sc, s_ok; simp_s; repeat split; auto; lia.
Qed.

(* reserve_capacity *)
Lemma reserve_ok d st sid sc o cap vs :
  0 <= d -> InvD d st -> 0 <= cap -> outcome_ok d (reserve st sid sc o cap vs).
Proof.
  intros Hd HI Hcap. unfold reserve.
  destruct (find_s sid (c_strs st)) as [s|] eqn:F; [|exact I].
  stream_facts HI F.
  destruct (cap + s_buf s =? s_req s) eqn:E0; [apply vs_nil_ok; exact HI|].
  destruct (cap + s_buf s <? s_req s) eqn:E1.
  - simp_s. rewrite (as_size_nonneg (s_avail s)) by assumption.
    destruct (cap + s_buf s <? s_avail s) eqn:E2.
    + set (diff := s_avail s - (cap + s_buf s)).
      set (s' := mkS (s_id s) (s_win s) (s_avail s - diff) (cap + s_buf s) (s_buf s) (s_frames s) (s_capinc s) (s_parked s) (s_dead s)).
      change (outcome_ok d (assign_conn (put st s') diff vs)).
      apply (claim_then_assign d st s s' diff); [lia|exact HI| | | |unfold diff; lia].
      * unfold s'; simp_s; rewrite Hid; exact F.
      * unfold s', s_ok, diff; simp_s; repeat split; auto; unfold as_size in *; lia.
      * unfold s'; simp_s; reflexivity.
    + set (s' := mkS (s_id s) (s_win s) (s_avail s) (cap + s_buf s) (s_buf s) (s_frames s) (s_capinc s) (s_parked s) (s_dead s)).
      change (outcome_ok d (match vs with [] => Ok (put st s') [] | _ :: _ => Stuck 10%N end)).
      apply vs_nil_ok.
      apply (InvD_put0 d st s s' HI); [unfold s'; simp_s; rewrite Hid; exact F| |reflexivity].
      unfold s', s_ok; simp_s; repeat split; auto; lia.
  - destruct sc; [apply vs_nil_ok; exact HI|].
    destruct vs; [|exact I].
    set (s' := set_req s (Z.min (cap + s_buf s) U32MAX)).
    apply try_assign_ok; [lia|].
    apply (InvD_put0 d st s s' HI); [unfold s'; simp_s; rewrite Hid; exact F| |reflexivity].
    unfold s', s_ok; simp_s; repeat split; auto; unfold U32MAX in *; lia.
Qed.

(* recv_stream_window_update *)
Lemma recv_stream_wu_ok d st sid o inc :
  0 <= d -> InvD d st -> 0 <= inc -> outcome_ok d (recv_stream_wu st sid o inc).
Proof.
  intros Hd HI Hinc. unfold recv_stream_wu.
  destruct (find_s sid (c_strs st)) as [s|] eqn:F; [|exact I].
  stream_facts HI F.
  destruct (o_send_closed o && (s_buf s =? 0)).
  - cbn [outcome_ok].
    apply (InvD_put_same d st s); [exact HI|simp_s; rewrite Hid; exact F|].
    unfold same_num; simp_s; repeat split; reflexivity.
  - destruct (negb (in_i32 (s_win s + inc)) || (MAXW <? s_win s + inc)) eqn:E.
    + exact HI.
    + apply orb_false_iff in E. destruct E as (E1 & E2).
      set (s' := set_win s (s_win s + inc)).
      apply try_assign_ok; [lia|].
      apply (InvD_put0 d st s s' HI); [unfold s'; simp_s; rewrite Hid; exact F| |reflexivity].
      unfold s', s_ok; simp_s; repeat split; auto; unfold as_size in *; lia.
Qed.

Lemma settings_inc_ok d touched : forall st outs inc,
  0 <= d -> InvD d st -> 0 <= inc -> outcome_ok d (settings_inc st outs inc touched).
Proof.
  induction touched as [|[sid o] t IH]; intros st outs inc Hd HI Hinc; cbn [settings_inc].
  - exact HI.
  - pose proof (recv_stream_wu_ok d st sid o inc Hd HI Hinc) as X.
    destruct (recv_stream_wu st sid o inc) as [st1 o1|n|n]; cbn [outcome_ok] in *; auto.
    assert (Y : outcome_ok d (settings_inc st1 (outs ++ o1) inc t)) by (apply IH; assumption).
    destruct o1 as [|x o1]; [exact Y|].
    destruct x; try exact Y. exact X.
Qed.

(* the decrease branch of apply_remote_settings accumulates reclaimed capacity (on top of the
   outstanding debt d) *)
Lemma settings_dec_ok d touched : forall st dec total,
  0 <= d -> 0 <= total -> 0 <= dec -> InvD (d + total) st ->
  match settings_dec st dec total touched with
  | (Ok st' outs, total') => total <= total' /\ InvD (d + total') st' /\ (outs = [] \/ outs = [OConnErr])
  | (Stuck _, _) => True
  | (Panic _, _) => False
  end.
Proof.
  induction touched as [|[sid o] t IH]; intros st dec total Hd Ht Hdec HI; cbn [settings_dec].
  - split; [lia|]. split; [exact HI|left; reflexivity].
  - destruct (find_s sid (c_strs st)) as [s|] eqn:F; [|exact I].
    stream_facts HI F.
    destruct (negb (in_i32 (s_win s - dec))) eqn:E; [split; [lia|split; [exact HI|right; reflexivity]]|].
    apply negb_false_iff in E. unfold in_i32 in E. apply andb_true_iff in E. destruct E as (E1 & E2).
    simp_s. rewrite (as_size_nonneg (s_avail s)) by assumption.
    destruct (as_size (s_win s - dec) <? s_avail s) eqn:E3.
    + set (rc := s_avail s - as_size (s_win s - dec)).
      set (s' := mkS (s_id s) (s_win s - dec) (s_avail s - rc) (s_req s) (s_buf s) (s_frames s) (s_capinc s) (s_parked s) (s_dead s)).
      assert (F' : find_s (s_id s') (c_strs st) = Some s) by (unfold s'; simp_s; rewrite Hid; exact F).
      assert (Hok : s_ok s') by (unfold s', s_ok, rc; simp_s; repeat split; auto; unfold as_size in *; lia).
      pose proof (InvD_put (d + total) st s s' (- rc) HI F' Hok ltac:(unfold s'; simp_s; lia)) as X.
      replace (d + total - - rc) with (d + (total + rc)) in X by lia.
      assert (Hrc : 0 <= rc) by (unfold rc, as_size in *; lia).
      specialize (IH (put st s') dec (total + rc) Hd ltac:(lia) Hdec X).
      change (mkF (c_win st) (c_avail st) (c_maxbuf st) (c_init st) (upd_s s' (c_strs st))) with (put st s').
      destruct (settings_dec (put st s') dec (total + rc) t) as [[st2 o2|n|n] tot2]; auto.
      destruct IH as (A & B & C). split; [lia|]. split; assumption.
    + set (s' := mkS (s_id s) (s_win s - dec) (s_avail s) (s_req s) (s_buf s) (s_frames s) (s_capinc s) (s_parked s) (s_dead s)).
      assert (F' : find_s (s_id s') (c_strs st) = Some s) by (unfold s'; simp_s; rewrite Hid; exact F).
      assert (Hok : s_ok s') by (unfold s', s_ok; simp_s; repeat split; auto; unfold as_size in *; lia).
      pose proof (InvD_put0 (d + total) st s s' HI F' Hok ltac:(reflexivity)) as X.
      specialize (IH (put st s') dec total Hd Ht Hdec X).
      change (mkF (c_win st) (c_avail st) (c_maxbuf st) (c_init st) (upd_s s' (c_strs st))) with (put st s').
      destruct (settings_dec (put st s') dec total t) as [[st2 o2|n|n] tot2]; auto.
Qed.

Lemma mark_untouched_ids t l : map s_id (mark_untouched t l) = map s_id l.
Proof.
  unfold mark_untouched. induction l as [|x l IH]; cbn [map]; [reflexivity|].
  rewrite IH. destruct (mem_touched (s_id x) t); reflexivity.
Qed.

Lemma mark_untouched_sum t l : sum_avail (mark_untouched t l) = sum_avail l.
Proof.
  unfold mark_untouched. induction l as [|x l IH]; cbn [map sum_avail]; [reflexivity|].
  rewrite IH. destruct (mem_touched (s_id x) t); reflexivity.
Qed.

Lemma mark_untouched_ok t l : Forall s_ok l -> Forall s_ok (mark_untouched t l).
Proof.
  unfold mark_untouched. induction 1 as [|x l Hx Hl IH]; cbn [map]; constructor; auto.
  destruct (mem_touched (s_id x) t); auto.
Qed.

Lemma InvD_mark d st t : InvD d st -> InvD d (set_strs st (mark_untouched t (c_strs st))).
Proof.
  intros (H1 & H2 & H3 & H4 & H5 & H6 & H7 & H8). unfold InvD. simp_s.
  rewrite mark_untouched_sum, mark_untouched_ids. repeat split; auto. apply mark_untouched_ok; auto.
Qed.

(* what the environment guarantees about label arguments: unsigned values, and the 31-bit bound that
   the frame parser enforces on window increments and SETTINGS_INITIAL_WINDOW_SIZE *)
Definition label_ok (l : label) : Prop :=
  match l with
  | LSendData _ _ sz _ _ => 0 <= sz
  | LReserve _ _ cap _ => 0 <= cap
  | LRecvStreamWU _ _ inc => 0 <= inc <= MAXW
  | LRecvConnWU inc _ => 0 <= inc <= MAXW
  | LApplySettings new _ _ => 0 <= new <= MAXW
  | LPopData _ sz max_len => 0 <= sz /\ 0 <= max_len
  | _ => True
  end.

Fixpoint has_conn_err (o : list out) : bool :=
  match o with
  | [] => false
  | OConnErr :: _ => true
  | _ :: o' => has_conn_err o'
  end.

(* Result of one label from a state with outstanding debt d (capacity that a failed SETTINGS
   decrease claimed and never handed back): no panic; the debt never shrinks below 0 and grows only
   on a step that reports a connection error. *)
Definition step_result_ok (d : Z) (r : outcome) : Prop :=
  match r with
  | Ok st' outs => (exists d', d <= d' /\ InvD d' st') /\ (has_conn_err outs = false -> InvD d st')
  | Stuck _ => True
  | Panic _ => False
  end.

Lemma outcome_ok_result d r : outcome_ok d r -> step_result_ok d r.
Proof.
  destruct r; cbn [outcome_ok step_result_ok]; auto.
  intros HI. split; [exists d; split; [lia|exact HI]|auto].
Qed.

Theorem step_inv d st l : 0 <= d -> InvD d st -> label_ok l -> step_result_ok d (step st l).
Proof.
  intros Hd HI Hl.
  pose proof HI as (H1 & H2 & H3 & H4 & H5 & H6 & H7 & H8).
  pose proof (sum_avail_nonneg _ (s_ok_avail_nonneg _ H7)) as Hs.
  destruct l as [sid init|sid|sid o sz eos vs|sid o cap vs|sid o inc|inc vs|sid o isr qe vs|sid vs|sid o vs
                |new touched vs|sid sz mx|sid o|sid|sid|sid|sid o]; cbn [step label_ok] in *.
  - (* LNew *)
    destruct (find_s sid (c_strs st)) eqn:F; [exact I|].
    destruct (negb ((init =? c_init st) || (init =? 0))) eqn:E; [exact I|].
    apply negb_false_iff, orb_true_iff in E.
    apply outcome_ok_result. cbn [outcome_ok]. unfold InvD. simp_s. cbn [sum_avail map s_avail s_id].
    repeat split; auto; try lia.
    + constructor; auto. unfold s_ok; simp_s. cbn [sumz]. unfold as_size, MINW, MAXW, U32MAX in *.
      repeat split; auto; try lia.
    + constructor; auto. apply find_s_none_notin. exact F.
  - (* LRemove *)
    destruct (find_s sid (c_strs st)) as [s|] eqn:F; [|exact I].
    destruct (s_avail s =? 0) eqn:E; [|exact I].
    apply outcome_ok_result. cbn [outcome_ok]. unfold InvD. simp_s. rewrite (sum_del _ _ _ F).
    repeat split; auto; try lia. apply Forall_del; auto. apply del_ids_NoDup; auto.
  - (* LSendData *)
    destruct (find_s sid (c_strs st)) as [s|] eqn:F; [|exact I].
    destruct (MAXW <? sz); [apply outcome_ok_result; exact HI|].
    destruct (negb (o_streaming o)); [apply outcome_ok_result; exact HI|].
    destruct (s_dead s); [exact I|].
    stream_facts HI F.
    apply outcome_ok_result.
    set (s1 := set_bufq s (s_buf s + sz) (s_frames s ++ [sz])).
    assert (Hok1 : s_ok s1).
    { unfold s1, s_ok; simp_s. rewrite sumz_app. cbn [sumz]. repeat split; auto; try lia.
      apply Forall_app; split; auto. }
    assert (F1 : find_s (s_id s1) (c_strs st) = Some s) by (unfold s1; simp_s; rewrite Hid; exact F).
    assert (R1 : outcome_ok d
                   (if s_req s1 <? s_buf s1
                    then try_assign (put st (set_req s1 (Z.min (s_buf s1) U32MAX))) sid o
                    else Ok (put st s1) [])).
    { destruct (s_req s1 <? s_buf s1) eqn:E.
      - set (s2 := set_req s1 (Z.min (s_buf s1) U32MAX)).
        apply try_assign_ok; [lia|].
        apply (InvD_put0 d st s s2 HI); [unfold s2, s1; simp_s; rewrite Hid; exact F| |reflexivity].
        unfold s2, s1, s_ok in *; simp_s. rewrite sumz_app. cbn [sumz].
        repeat split; auto; try (unfold U32MAX in *; lia). apply Forall_app; split; auto.
      - cbn [outcome_ok]. apply (InvD_put0 d st s s1 HI F1 Hok1). reflexivity. }
    destruct eos.
    + apply bind_ok; [exact R1|].
      intros st1 o1 HI1. apply add_outs_ok. apply reserve_ok; [lia|exact HI1|lia].
    + destruct vs; [exact R1|exact I].
  - (* LReserve *) apply outcome_ok_result. apply reserve_ok; assumption.
  - (* LRecvStreamWU *) apply outcome_ok_result. apply recv_stream_wu_ok; [assumption|assumption|lia].
  - (* LRecvConnWU *)
    destruct (negb (in_i32 (c_win st + inc)) || (MAXW <? c_win st + inc)) eqn:E.
    { cbn [step_result_ok]. split; [exists d; split; [lia|exact HI]|intros X; discriminate X]. }
    apply orb_false_iff in E. destruct E as (E1 & E2).
    apply outcome_ok_result.
    assert (X : InvD (d + inc) (set_cwin st (c_win st + inc))).
    { unfold InvD. simp_s. repeat split; auto; lia. }
    pose proof (assign_conn_ok (d + inc) _ inc vs ltac:(lia) X) as Y.
    replace (d + inc - inc) with d in Y by lia. exact Y.
  - (* LSendReset *)
    destruct (find_s sid (c_strs st)) as [s|] eqn:F; [|exact I].
    pose proof (find_s_id _ _ _ F) as Hid.
    apply outcome_ok_result.
    destruct isr; [apply vs_nil_ok; exact HI|].
    assert (X0 : InvD d (put st (set_parked s false))).
    { apply (InvD_put_same d st s); [exact HI|simp_s; rewrite Hid; exact F|].
      unfold same_num; simp_s; repeat split; reflexivity. }
    destruct (o_closed o && qe && (s_buf s =? 0)); [destruct vs; [exact X0|exact I]|].
    apply add_outs_ok.
    apply clear_then_reclaim_ok; [lia|exact X0].
  - (* LHandleError *) apply outcome_ok_result. apply clear_then_reclaim_ok; assumption.
  - (* LImplicitReset *)
    apply outcome_ok_result.
    destruct (o_closed o); [apply vs_nil_ok; exact HI|].
    apply reclaim_reserved_ok; assumption.
  - (* LApplySettings *)
    destruct (negb (nodup_keys touched)); [exact I|].
    assert (X0 : InvD (d + 0) (set_cinit st new)) by (unfold InvD; simp_s; repeat split; auto; lia).
    destruct (new <? c_init st) eqn:E1.
    + pose proof (settings_dec_ok d touched (set_cinit st new) (c_init st - new) 0 Hd ltac:(lia) ltac:(lia) X0) as Y.
      destruct (settings_dec (set_cinit st new) (c_init st - new) 0 touched) as [[st1 o1|n|n] total] eqn:ES; auto.
      destruct Y as (A & B & C).
      destruct C as [->| ->].
      * apply outcome_ok_result.
        pose proof (InvD_mark (d + total) st1 touched B) as B'.
        pose proof (assign_conn_ok (d + total) _ total vs ltac:(lia) B') as Z.
        replace (d + total - total) with d in Z by lia. exact Z.
      * cbn [step_result_ok]. split; [exists (d + total); split; [lia|exact B]|intros X; discriminate X].
    + replace (d + 0) with d in X0 by lia.
      destruct (c_init st <? new) eqn:E2.
      * destruct vs; [|exact I]. apply outcome_ok_result.
        apply settings_inc_ok; [lia|exact X0|lia].
      * destruct vs; [|exact I]. destruct touched; [|exact I]. apply outcome_ok_result. exact X0.
  - (* LPopData *)
    destruct Hl as (Hsz & Hmx).
    destruct (find_s sid (c_strs st)) as [s|] eqn:F; [|exact I].
    destruct (s_frames s) as [|f q] eqn:EQ; [exact I|].
    destruct (negb (f =? sz)) eqn:Ef; [exact I|].
    apply negb_false_iff, Z.eqb_eq in Ef. subst f.
    destruct (s_dead s && (0 <? sz)); [exact I|].
    destruct ((0 <? sz) && (s_avail s =? 0)) eqn:Eg1; [exact I|].
    stream_facts HI F.
    rewrite (as_size_nonneg (s_avail s)) by assumption.
    set (len := Z.min (Z.min sz mx) (s_avail s)).
    destruct ((0 <? len) && (as_size (s_win s) <? len)) eqn:Eg2; [exact I|].
    assert (Hlen : 0 <= len <= sz /\ len <= s_avail s) by (unfold len; lia).
    rewrite EQ in K5, K6. cbn [sumz] in K5. inversion K6 as [|? ? Kf Kq]; subst.
    pose proof (sumz_nonneg _ Kq) as Hq.
    assert (Hwin : 0 < len -> len <= s_win s) by (unfold as_size in *; lia).
    destruct ((0 <? len) && (s_win s <? len)) eqn:Ep6; [exfalso; lia|].
    destruct (s_buf s <? len) eqn:Ep7; [exfalso; lia|].
    destruct (s_req s <? len) eqn:Ep8; [exfalso; lia|].
    set (q' := if len <? sz then (sz - len) :: q else q).
    set (s1 := set_req (set_bufq (set_avail (set_win s (s_win s - len)) (s_avail s - len)) (s_buf s - len) q') (s_req s - len)).
    destruct (notify_if_up (c_maxbuf st) (capacity (c_maxbuf st) s) s1) as [s2 outs] eqn:En.
    pose proof (notify_same _ _ _ _ _ En) as Hsame.
    assert (Hin : s_avail s <= sum_avail (c_strs st)).
    { apply sum_avail_ge; [apply s_ok_avail_nonneg; assumption|]. eapply find_s_In; eauto. }
    destruct ((0 <? len) && (c_win st <? len)) eqn:Ep9; [exfalso; lia|].
    apply outcome_ok_result. cbn [outcome_ok].
    assert (Hok1 : s_ok s1).
    { unfold s1, s_ok, q'; simp_s. repeat split; auto; try (unfold as_size, MINW, MAXW, U32MAX in *; lia).
      all: try (destruct (len <? sz) eqn:El; cbn [sumz]; lia).
      all: try (destruct (len <? sz) eqn:El; [constructor; [lia|assumption]|assumption]). }
    pose proof (s_ok_same _ _ Hsame Hok1) as Hok2.
    destruct Hsame as (S1 & S2 & S3 & S4 & S5 & S6).
    assert (F2 : find_s (s_id s2) (c_strs st) = Some s) by (rewrite S1; unfold s1; simp_s; exact F).
    unfold InvD. simp_s. repeat split; auto; try lia.
    * rewrite (sum_upd s s2 _ H8 F2). rewrite S3. unfold s1; simp_s. lia.
    * apply Forall_upd; auto.
    * rewrite upd_ids; auto.
  - (* LPollCapacity *)
    destruct (find_s sid (c_strs st)) as [s|] eqn:F; [|exact I].
    pose proof (find_s_id _ _ _ F) as Hid.
    apply outcome_ok_result.
    destruct (negb (o_streaming o)); [exact HI|].
    destruct (negb (s_capinc s)).
    { cbn [outcome_ok]. apply (InvD_put_same d st s); [exact HI|simp_s; rewrite Hid; exact F|].
      unfold same_num; simp_s; repeat split; reflexivity. }
    destruct (capacity (c_maxbuf st) (set_capinc s false) =? 0); cbn [outcome_ok];
      (apply (InvD_put_same d st s); [exact HI|simp_s; rewrite Hid; exact F|
       unfold same_num; simp_s; repeat split; reflexivity]).
  - (* LCapacity *)
    destruct (find_s sid (c_strs st)) as [s|] eqn:F; [|exact I]. apply outcome_ok_result. exact HI.
  - (* LNotify *)
    destruct (find_s sid (c_strs st)) as [s|] eqn:F; [|apply outcome_ok_result; exact HI].
    pose proof (find_s_id _ _ _ F) as Hid.
    apply outcome_ok_result. cbn [outcome_ok].
    apply (InvD_put_same d st s); [exact HI|simp_s; rewrite Hid; exact F|].
    unfold same_num; simp_s; repeat split; reflexivity.
  - (* LWait *)
    destruct (find_s sid (c_strs st)) as [s|] eqn:F; [|apply outcome_ok_result; exact HI].
    pose proof (find_s_id _ _ _ F) as Hid.
    apply outcome_ok_result. cbn [outcome_ok].
    apply (InvD_put_same d st s); [exact HI|simp_s; rewrite Hid; exact F|].
    unfold same_num; simp_s; repeat split; reflexivity.
  - (* LTryAssign *) apply outcome_ok_result. apply try_assign_ok; assumption.
Qed.
